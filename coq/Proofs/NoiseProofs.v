(* C10 (round 3) - theorems about Model/Noise.v (axiom-free). *)
From Coq Require Import QArith List Lia Arith.
From SB3V Require Import Model.Noise.
Import ListNotations.
Local Open Scope Q_scope.

(* ---------- closed form of the noise-free OU mean recurrence ---------- *)
Lemma ou_mean_closed theta dt m x t :
  ou_mean_iter theta dt m x t == m + qpow (1 - theta * dt) t * (x - m).
Proof.
  induction t as [|t IH]; cbn [ou_mean_iter qpow]; unfold ou_step1 in *.
  - ring.
  - rewrite IH. ring.
Qed.

(* NormalActionNoise is the stateless special case of the OU update *)
Lemma normal_as_ou m s x n : ou_step1 1 1 1 m s x n == m + s * n.
Proof. unfold ou_step1. ring. Qed.

(* ---------- heap layer ---------- *)
Lemma hget_app_l h ext a : (a < length h)%nat -> hget (h ++ ext) a = hget h a.
Proof. intros H. unfold hget. apply app_nth1. exact H. Qed.
Lemma hget_app_r h ext k : hget (h ++ ext) (length h + k) = nth k ext [].
Proof. unfold hget. rewrite app_nth2 by lia. f_equal. lia. Qed.

Definition inv (h : heap) (o : ouobj) : Prop :=
  (o_prev o < length h)%nat /\ match o_init o with Some a => (a < length h)%nat | None => True end.

(* one __call__: the new state and the returned value are two fresh arrays (neither is an existing
   array, in particular not initial_noise; the returned one is not the stored state object) *)
Lemma ou_call_fresh h o n :
  let r := ou_call h o n in
  o_prev (snd (fst r)) = length h /\ snd r = S (length h) /\ snd r <> o_prev (snd (fst r)) /\
  fst (fst r) = h ++ [ou_step (o_cfg o) (hget h (o_prev o)) n; ou_step (o_cfg o) (hget h (o_prev o)) n].
Proof. cbn. repeat split; lia. Qed.

(* running any history: the heap only grows (no existing array is ever written - in particular the
   caller's initial_noise), the state and the returned arrays hold the values of the pure layer, and every
   returned array is a fresh cell *)
Lemma ou_run_sim ops : forall h o, inv h o ->
  let r := ou_run h o ops in
  let h' := fst (fst r) in let o' := snd (fst r) in let rets := snd r in
  (exists ext, h' = h ++ ext) /\ inv h' o' /\ o_init o' = o_init o /\ o_cfg o' = o_cfg o /\
  hget h' (o_prev o') = fst (ou_pure (o_cfg o) (ou_init_value h o) (hget h (o_prev o)) ops) /\
  map (hget h') rets = snd (ou_pure (o_cfg o) (ou_init_value h o) (hget h (o_prev o)) ops) /\
  Forall (fun a => (length h <= a)%nat) rets.
Proof.
  induction ops as [|op t IH]; intros h o Hi; cbn zeta.
  - cbn. repeat split; try (apply Hi); try reflexivity.
    + exists []. symmetry. apply app_nil_r.
    + constructor.
  - destruct op as [n|].
    + (* __call__ *)
      cbn [ou_run ou_pure]. unfold ou_call. cbn [fst snd].
      set (y := ou_step (o_cfg o) (hget h (o_prev o)) n).
      set (h1 := h ++ [y; y]). set (o1 := with_prev o (length h)).
      assert (Hi1 : inv h1 o1).
      { unfold inv, h1, o1. cbn [with_prev o_prev o_init]. rewrite app_length. cbn [length]. destruct Hi as [H1 H2].
        split; [lia|]. destruct (o_init o); [lia | exact I]. }
      specialize (IH h1 o1 Hi1). cbn zeta in IH.
      destruct IH as ([ext He] & Hinv & Hin & Hcf & Hst & Hout & Hfr).
      assert (Hy : hget h1 (o_prev o1) = y).
      { unfold h1, o1. cbn [with_prev o_prev]. rewrite <- (Nat.add_0_r (length h)). rewrite hget_app_r. reflexivity. }
      assert (Hiv : ou_init_value h1 o1 = ou_init_value h o).
      { unfold ou_init_value, o1, h1. cbn [with_prev o_init o_cfg]. destruct Hi as [_ H2]. destruct (o_init o); [apply hget_app_l; exact H2 | reflexivity]. }
      change (o_cfg o1) with (o_cfg o) in *. rewrite Hy, Hiv in Hst, Hout.
      split; [|split; [|split; [|split; [|split; [|split]]]]].
      * exists ([y; y] ++ ext). rewrite He. unfold h1. rewrite <- app_assoc. reflexivity.
      * exact Hinv.
      * exact Hin.
      * exact Hcf.
      * exact Hst.
      * cbn [map snd]. rewrite Hout. f_equal.
        rewrite He. rewrite hget_app_l by (unfold h1; rewrite app_length; cbn; lia).
        unfold h1. replace (S (length h)) with (length h + 1)%nat by lia. rewrite hget_app_r. reflexivity.
      * constructor; [lia|].
        eapply Forall_impl; [|exact Hfr]. cbn. intros a Ha.
        unfold h1 in Ha. rewrite app_length in Ha. cbn in Ha. lia.
    + (* reset() *)
      cbn [ou_run ou_pure]. unfold ou_reset.
      destruct (o_init o) as [a|] eqn:Ei.
      * cbn [fst snd]. set (o1 := with_prev o a).
        assert (Hi1 : inv h o1).
        { unfold inv, o1. cbn [with_prev o_prev o_init]. destruct Hi as [_ H2]. rewrite Ei in *. split; exact H2. }
        specialize (IH h o1 Hi1). cbn zeta in IH.
        destruct IH as (Hx & Hinv & Hin & Hcf & Hst & Hout & Hfr).
        assert (Hiv : ou_init_value h o1 = ou_init_value h o) by (unfold ou_init_value, o1; cbn [with_prev o_init o_cfg]; reflexivity).
        assert (Hp : hget h (o_prev o1) = ou_init_value h o) by (unfold ou_init_value, o1; cbn [with_prev o_prev]; rewrite Ei; reflexivity).
        change (o_cfg o1) with (o_cfg o) in *. rewrite Hiv, Hp in Hst, Hout.
        assert (Hin' : o_init o1 = Some a) by (unfold o1; cbn [with_prev o_init]; exact Ei).
        rewrite Hin' in Hin.
        split; [exact Hx|]. split; [exact Hinv|]. split; [exact Hin|]. split; [exact Hcf|]. split; [exact Hst|]. split; [exact Hout | exact Hfr].
      * cbn [fst snd]. set (z := zeros_like (c_mu (o_cfg o))). set (h1 := h ++ [z]). set (o1 := with_prev o (length h)).
        assert (Hi1 : inv h1 o1).
        { unfold inv, h1, o1. cbn [with_prev o_prev o_init]. rewrite app_length, Ei. cbn. split; [lia | exact I]. }
        specialize (IH h1 o1 Hi1). cbn zeta in IH.
        destruct IH as ([ext He] & Hinv & Hin & Hcf & Hst & Hout & Hfr).
        assert (Hiv : ou_init_value h1 o1 = z) by (unfold ou_init_value, o1; cbn [with_prev o_init o_cfg]; rewrite Ei; reflexivity).
        assert (Hiv0 : ou_init_value h o = z) by (unfold ou_init_value; rewrite Ei; reflexivity).
        assert (Hp : hget h1 (o_prev o1) = z).
        { unfold h1, o1. cbn [with_prev o_prev]. rewrite <- (Nat.add_0_r (length h)). rewrite hget_app_r. reflexivity. }
        change (o_cfg o1) with (o_cfg o) in *. rewrite Hiv, Hp in Hst, Hout. rewrite Hiv0.
        assert (Hin' : o_init o1 = None) by (unfold o1; cbn [with_prev o_init]; exact Ei).
        rewrite Hin' in Hin.
        split; [exists ([z] ++ ext); rewrite He; unfold h1; rewrite <- app_assoc; reflexivity|].
        split; [exact Hinv|]. split; [exact Hin|]. split; [exact Hcf|]. split; [exact Hst|]. split; [exact Hout|].
        eapply Forall_impl; [|exact Hfr]. cbn. intros a Ha. unfold h1 in Ha. rewrite app_length in Ha. cbn in Ha. lia.
Qed.

(* the caller's initial_noise array is never written, whatever the history *)
Lemma ou_initial_noise_unchanged ops h o a : inv h o -> o_init o = Some a ->
  hget (fst (fst (ou_run h o ops))) a = hget h a.
Proof.
  intros Hi Ha. destruct (ou_run_sim ops h o Hi) as ([ext He] & _). cbn zeta in He. rewrite He.
  apply hget_app_l. destruct Hi as [_ H2]. rewrite Ha in H2. exact H2.
Qed.

(* a second use of the same configuration (reset, then any history) sees the ORIGINAL initial value:
   its outputs are those of the pure process started from initial_noise's value, whatever ran before *)
Lemma ou_second_run_same ops1 ops2 h o a : inv h o -> o_init o = Some a ->
  let r1 := ou_run h o ops1 in
  let r2 := ou_run (fst (fst r1)) (snd (fst r1)) (OReset :: ops2) in
  map (hget (fst (fst r2))) (snd r2) = snd (ou_pure (o_cfg o) (hget h a) (hget h a) ops2).
Proof.
  intros Hi Ha. cbn zeta.
  destruct (ou_run_sim ops1 h o Hi) as (_ & Hinv1 & Hin1 & Hcf1 & _). cbn zeta in *.
  set (h1 := fst (fst (ou_run h o ops1))) in *. set (o1 := snd (fst (ou_run h o ops1))) in *.
  destruct (ou_run_sim (OReset :: ops2) h1 o1 Hinv1) as (_ & _ & _ & _ & _ & Hout & _). cbn zeta in Hout.
  rewrite Hout. cbn [ou_pure]. rewrite Hcf1.
  assert (E : ou_init_value h1 o1 = hget h a).
  { unfold ou_init_value. rewrite Hin1, Ha. apply (ou_initial_noise_unchanged ops1 h o a Hi Ha). }
  rewrite E. reflexivity.
Qed.

(* ---------- VectorizedActionNoise ---------- *)
Lemma vcall_length c st d : length d = length st -> length (vcall c st d) = length st.
Proof. revert d. induction st; intros [|n d] H; cbn in *; try lia. rewrite IHst; lia. Qed.

Lemma vcall_nth c st : forall d i, length d = length st -> (i < length st)%nat ->
  nth i (vcall c st d) [] = ou_step c (nth i st []) (nth i d []).
Proof.
  induction st as [|x st IH]; intros [|n d] i Hl Hi; cbn in *; try lia.
  destruct i; [reflexivity|]. apply IH; lia.
Qed.

Lemma reset_at_length x0 st : forall j, length (reset_at x0 st j) = length st.
Proof. induction st; intros [|j]; cbn; try reflexivity. rewrite IHst. reflexivity. Qed.

Lemma reset_at_nth x0 st : forall j i, (i < length st)%nat ->
  nth i (reset_at x0 st j) [] = if Nat.eqb i j then x0 else nth i st [].
Proof.
  induction st as [|x st IH]; intros j i Hi; cbn in Hi; [lia|].
  destruct j, i; cbn; try reflexivity. apply IH. lia.
Qed.

Lemma vreset_some_length x0 l : forall st, length (fold_left (reset_at x0) l st) = length st.
Proof. induction l; intros st; cbn; [reflexivity|]. rewrite IHl. apply reset_at_length. Qed.

(* reset(indices) resets exactly the listed sub-noises and leaves the others *)
Lemma vreset_some_nth x0 l : forall st i, (i < length st)%nat ->
  nth i (fold_left (reset_at x0) l st) [] = if existsb (Nat.eqb i) l then x0 else nth i st [].
Proof.
  induction l as [|j l IH]; intros st i Hi; cbn [fold_left existsb]; [reflexivity|].
  rewrite IH by (rewrite reset_at_length; exact Hi).
  rewrite reset_at_nth by exact Hi.
  destruct (Nat.eqb i j); cbn [orb]; [destruct (existsb (Nat.eqb i) l); reflexivity | reflexivity].
Qed.

Lemma vreset_spec x0 st ix i : (i < length st)%nat ->
  length (vreset x0 st ix) = length st /\
  nth i (vreset x0 st ix) [] =
    match ix with None => x0 | Some l => if existsb (Nat.eqb i) l then x0 else nth i st [] end.
Proof.
  intros Hi. destruct ix as [l|]; cbn [vreset].
  - split; [apply vreset_some_length | apply vreset_some_nth; exact Hi].
  - split; [apply map_length|].
    clear - Hi. revert i Hi. induction st as [|x st IH]; intros i Hi; cbn in Hi; [lia|].
    destruct i; cbn [map nth]; [reflexivity | apply IH; lia].
Qed.

Definition vwf (n : nat) (ops : list vop) : Prop :=
  Forall (fun op => match op with VCall d => length d = n | VReset _ => True end) ops.

(* no cross-talk: what env i's sub-noise holds and returns is the single process run on env i's own
   draws and the resets that name i (or name nobody in particular) *)
Lemma vrun_project c x0 i ops : forall st, vwf (length st) ops -> (i < length st)%nat ->
  length (fst (vrun c x0 st ops)) = length st /\
  nth i (fst (vrun c x0 st ops)) [] = fst (ou_pure c x0 (nth i st []) (project i ops)) /\
  map (fun row => nth i row []) (snd (vrun c x0 st ops)) = snd (ou_pure c x0 (nth i st []) (project i ops)).
Proof.
  induction ops as [|op t IH]; intros st Hw Hi.
  - cbn. repeat split; reflexivity.
  - inversion Hw as [|? ? Hop Ht]; subst. destruct op as [d|ix].
    + cbn [vrun project ou_pure fst snd map].
      assert (Hl : length (vcall c st d) = length st) by (apply vcall_length; exact Hop).
      destruct (IH (vcall c st d)) as (H1 & H2 & H3); [rewrite Hl; exact Ht | rewrite Hl; exact Hi|].
      rewrite vcall_nth in H2, H3 by assumption.
      split; [rewrite H1; exact Hl|]. split; [exact H2|].
      rewrite H3. f_equal. apply vcall_nth; assumption.
    + cbn [vrun].
      destruct (vreset_spec x0 st ix i Hi) as [Hl Hn].
      destruct (IH (vreset x0 st ix)) as (H1 & H2 & H3); [rewrite Hl; exact Ht | rewrite Hl; exact Hi|].
      rewrite Hn in H2, H3.
      split; [rewrite H1; exact Hl|].
      destruct ix as [l|]; cbn [project].
      * destruct (existsb (Nat.eqb i) l); cbn [app ou_pure]; split; assumption.
      * cbn [ou_pure]. split; assumption.
Qed.

(* n_envs validation: a positive number of independent copies of the initial state, or an error *)
Lemma vec_make_spec n x0 :
  ((0 < n)%Z -> exists st, vec_make n x0 = Some st /\ length st = Z.to_nat n /\ forall i, (i < Z.to_nat n)%nat -> nth i st [] = x0) /\
  ((n <= 0)%Z -> vec_make n x0 = None).
Proof.
  unfold vec_make. split; intros H.
  - destruct (0 <? n)%Z eqn:E; [|apply Z.ltb_ge in E; lia].
    exists (repeat x0 (Z.to_nat n)). split; [reflexivity|]. split; [apply repeat_length|].
    intros i Hi. apply nth_error_nth. clear - Hi. revert i Hi. induction (Z.to_nat n); intros i Hi; [lia|].
    destruct i; cbn; [reflexivity | apply IHn0; lia].
  - destruct (0 <? n)%Z eqn:E; [apply Z.ltb_lt in E; lia | reflexivity].
Qed.

(* ---------- two more facts about the OU update ---------- *)
From Coq Require Import Lqa.
(* with 0 <= theta*dt <= 1 the noise-free step moves towards the mean without overshooting *)
Lemma ou_mean_step_between theta dt m x : 0 <= theta * dt -> theta * dt <= 1 ->
  (x <= m -> x <= ou_step1 theta dt 0 m 0 x 0 /\ ou_step1 theta dt 0 m 0 x 0 <= m) /\
  (m <= x -> m <= ou_step1 theta dt 0 m 0 x 0 /\ ou_step1 theta dt 0 m 0 x 0 <= x).
Proof.
  intros H0 H1. unfold ou_step1.
  assert (E : x + theta * (m - x) * dt + 0 * 0 * 0 == x + (theta * dt) * (m - x)) by ring.
  rewrite E. set (k := theta * dt) in *. split; intros H; split; nra.
Qed.

(* the next state is affine in the draw: shifting the draw by d shifts the state by sigma*sqrt(dt)*d *)
Lemma ou_next_affine theta dt sqdt m s x n d :
  ou_step1 theta dt sqdt m s x (n + d) == ou_step1 theta dt sqdt m s x n + s * sqdt * d.
Proof. unfold ou_step1. ring. Qed.

(* ---------- model mutation score: NormalActionNoise is mu + sigma * N entry by entry ---------- *)
Lemma normal_call_spec : forall mu sigma n,
  Forall2 Qeq (normal_call mu sigma n) (map (fun p => fst (fst p) + snd (fst p) * snd p) (combine (combine mu sigma) n)).
Proof.
  induction mu as [|m mu IH]; intros [|s sigma] [|x n]; cbn [normal_call combine map]; try constructor.
  - cbn [fst snd]. apply Qred_correct.
  - apply IH.
Qed.
Example normal_call_example : normal_call [1; -(2)] [1 # 2; 3] [4; 1] = [3; 1].
Proof. vm_compute. reflexivity. Qed.

(* second mutation sample: reset() without initial_noise restores zeros *)
Lemma zeros_like_spec v : zeros_like v = map (fun _ => 0) v /\ length (zeros_like v) = length v.
Proof. unfold zeros_like. split; [reflexivity | apply map_length]. Qed.
Example zeros_like_example :
  zeros_like [3; 4] = [0; 0] /\
  (let c := {| c_theta := 1; c_dt := 1; c_sqdt := 1; c_mu := [5]; c_sigma := [0] |} in
   let ho := ou_new [] c None in hget (fst ho) (o_prev (snd ho)) = [0]).
Proof. split; reflexivity. Qed.
