From SB3V Require Import Lib.Tactics Gen.Frag_monitor Model.Script Model.Monitor Model.Evaluate Proofs.MonitorProofs.
Local Open Scope Z_scope.

(* ---------- interface lemmas ---------- *)
(* proved up to linear arithmetic, so commuting an addition in the source does not break them *)
Lemma frag_ev_quota n i k : ev_quota n i k = quota n i k.
Proof. unfold ev_quota, quota. f_equal; lia. Qed.
Lemma frag_ev_under_quota c t : ev_under_quota c t = under_quota c t.
Proof. unfold ev_under_quota, under_quota. lia. Qed.

(* the per-env step of the model written with the regenerated fragments *)
Lemma frag_ev_env_step mon target s c :
  ev_env_step mon target s c =
  let '(r, l) := ev_acc (e_r s) (e_l s) (c_r c) in
  if ev_under_quota (e_count s) target then
    if ev_done (c_done c) then
      let '(z1, z2) := ev_restart in
      if mon then match c_ep c with
                  | Some ep => (mk_e (e_count s + 1) z1 z2, [ep])
                  | None => (mk_e (e_count s) z1 z2, [])
                  end
      else (mk_e (e_count s + 1) z1 z2, [(r, l)])
    else (mk_e (e_count s) r l, [])
  else (mk_e (e_count s) r l, []).
Proof.
  unfold ev_env_step, ev_acc, ev_done, ev_restart.
  replace (ev_under_quota (e_count s) target) with (under_quota (e_count s) target) by (symmetry; apply frag_ev_under_quota).
  destruct (under_quota (e_count s) target); [|feq].
  destruct (c_done c); [|feq].
  destruct mon; [destruct (c_ep c)|]; feq.
Qed.

(* ---------- quotas ---------- *)
Definition zsum_seq (f : nat -> Z) (k : nat) : Z := zsum (map f (seq 0 k)).

Lemma zsum_app a b : zsum (a ++ b) = zsum a + zsum b.
Proof. unfold zsum. induction a as [|x a IH]; cbn; [lia|]. cbn in IH. rewrite IH. lia. Qed.

Lemma zsum_seq_S f k : zsum_seq f (S k) = zsum_seq f k + f k.
Proof. unfold zsum_seq. rewrite seq_S, map_app, zsum_app. cbn. lia. Qed.

Lemma zsum_seq_shift f k : zsum_seq f (S k) = f O + zsum_seq (fun i => f (S i)) k.
Proof.
  unfold zsum_seq. cbn [seq map zsum fold_right]. f_equal.
  rewrite <- seq_shift, map_map. reflexivity.
Qed.

Lemma zsum_seq_ext f g k : (forall i, (i < k)%nat -> f i = g i) -> zsum_seq f k = zsum_seq g k.
Proof.
  induction k as [|k IH]; intros H; [reflexivity|].
  rewrite !zsum_seq_S, IH, H by (intros; try apply H; lia). reflexivity.
Qed.

Lemma quota_small i k : (i < k)%nat -> quota 0 (Z.of_nat i) (Z.of_nat k) = 0.
Proof. intros H. unfold quota. apply Z.div_small. lia. Qed.

Lemma targets_sum_nat (m k : nat) : (0 < k)%nat ->
  zsum_seq (fun i => quota (Z.of_nat m) (Z.of_nat i) (Z.of_nat k)) k = Z.of_nat m.
Proof.
  intros Hk. induction m as [|m IH].
  - transitivity (zsum_seq (fun _ => 0) k).
    + apply zsum_seq_ext. intros i Hi. now apply quota_small.
    + clear. induction k as [|k IH]; [reflexivity|]. rewrite zsum_seq_S, IH. lia.
  - (* window shift: sum_{i<k} q(m+1+i) = sum_{i<k} q(m+i) - q(m) + q(m+k) *)
    pose (f := fun i => quota (Z.of_nat m) (Z.of_nat i) (Z.of_nat k)).
    assert (E : zsum_seq (fun i => quota (Z.of_nat (S m)) (Z.of_nat i) (Z.of_nat k)) k = zsum_seq (fun i => f (S i)) k).
    { apply zsum_seq_ext. intros i _. unfold f, quota. f_equal. lia. }
    rewrite E.
    assert (S1 : zsum_seq f (S k) = f O + zsum_seq (fun i => f (S i)) k) by apply zsum_seq_shift.
    assert (S2 : zsum_seq f (S k) = zsum_seq f k + f k) by apply zsum_seq_S.
    fold f in IH.
    assert (Q : f k = f O + 1).
    { unfold f, quota. replace (Z.of_nat m + Z.of_nat k) with (Z.of_nat m + 0 + 1 * Z.of_nat k) by lia.
      rewrite Z.div_add by lia. reflexivity. }
    lia.
Qed.

Lemma targets_sum n k : 0 <= n -> (0 < k)%nat -> zsum (targets n k) = n.
Proof.
  intros Hn Hk. unfold targets. rewrite <- (Z2Nat.id n) by exact Hn.
  apply (targets_sum_nat (Z.to_nat n) k Hk).
Qed.

(* the same for the regenerated expression *)
Lemma targets_sum_gen n k : 0 <= n -> (0 < k)%nat ->
  zsum (map (fun i => ev_quota n (Z.of_nat i) (Z.of_nat k)) (seq 0 k)) = n.
Proof.
  intros Hn Hk. transitivity (zsum (targets n k)); [|exact (targets_sum n k Hn Hk)].
  unfold targets. apply f_equal. apply map_ext. intros i. apply frag_ev_quota.
Qed.

Lemma quota_range n i k : 0 <= i < k -> n / k <= quota n i k <= n / k + 1.
Proof.
  intros H. unfold quota. split.
  - apply Z.div_le_mono; lia.
  - replace (n / k + 1) with ((n + 1 * k) / k) by (rewrite Z.div_add by lia; reflexivity).
    apply Z.div_le_mono; lia.
Qed.

Lemma quota_mono n i j k : 0 < k -> i <= j -> quota n i k <= quota n j k.
Proof. intros. unfold quota. apply Z.div_le_mono; lia. Qed.

Lemma nth_map_seq {A} (f : nat -> A) k i d : (i < k)%nat -> nth i (map f (seq 0 k)) d = f i.
Proof.
  intros H. rewrite (nth_indep _ d (f O)) by (rewrite map_length, seq_length; lia).
  rewrite map_nth, seq_nth by lia. reflexivity.
Qed.

Lemma targets_nth n k i : (i < k)%nat -> nth i (targets n k) 0 = quota n (Z.of_nat i) (Z.of_nat k).
Proof. intros Hi. unfold targets. now rewrite nth_map_seq. Qed.

Lemma targets_balanced n k i j : (i < k)%nat -> (j < k)%nat ->
  nth i (targets n k) 0 - nth j (targets n k) 0 <= 1.
Proof.
  intros Hi Hj. rewrite !targets_nth by assumption.
  pose proof (quota_range n (Z.of_nat i) (Z.of_nat k)). pose proof (quota_range n (Z.of_nat j) (Z.of_nat k)). lia.
Qed.

Lemma targets_nonneg n k i : 0 <= n -> (i < k)%nat -> 0 <= nth i (targets n k) 0.
Proof. intros Hn Hi. rewrite targets_nth by exact Hi. unfold quota. apply Z.div_pos; lia. Qed.

(* ---------- one sub-environment ---------- *)
Fixpoint env_run (mon : bool) (target : Z) (s : est) (col : list cell) : est * list (Z * Z) :=
  match col with
  | [] => (s, [])
  | c :: t => let '(s1, o1) := ev_env_step mon target s c in
              let '(s2, o2) := env_run mon target s1 t in (s2, o1 ++ o2)
  end.

Definition take (z : Z) {A} (l : list A) : list A := firstn (Z.to_nat z) l.

Lemma take_nonpos {A} z (l : list A) : z <= 0 -> take z l = [].
Proof. intros H. unfold take. replace (Z.to_nat z) with O by lia. reflexivity. Qed.

Lemma take_cons {A} z (x : A) l : 0 < z -> take z (x :: l) = x :: take (z - 1) l.
Proof. intros H. unfold take. replace (Z.to_nat z) with (S (Z.to_nat (z - 1))) by lia. reflexivity. Qed.

(* results of env i = its first (target - count) completed episodes from here on; count saturates *)
Lemma env_run_spec mon target col : forall s,
  e_count s <= target ->
  let '(s', out) := env_run mon target s col in
  out = take (target - e_count s) (episodes_from mon (e_r s) (e_l s) col) /\
  e_count s' = Z.min target (e_count s + zlen (episodes_from mon (e_r s) (e_l s) col)).
Proof.
  induction col as [|c t IH]; intros s Hc; cbn [env_run episodes_from].
  - unfold take. rewrite firstn_nil. cbn. split; [reflexivity|lia].
  - unfold ev_env_step, under_quota.
    destruct (e_count s <? target) eqn:Eq.
    + destruct (c_done c).
      * destruct mon.
        -- destruct (c_ep c) as [ep|].
           ++ specialize (IH (mk_e (e_count s + 1) 0 0)). cbn [e_count e_r e_l] in IH.
              destruct (env_run true target (mk_e (e_count s + 1) 0 0) t) as [s' o2].
              destruct IH as [Ho Hcnt]; [lia|]. cbn [app]. rewrite take_cons by lia. split.
              ** rewrite Ho. do 2 f_equal. lia.
              ** rewrite Hcnt. unfold zlen. cbn [length]. lia.
           ++ specialize (IH (mk_e (e_count s) 0 0)). cbn [e_count e_r e_l] in IH.
              destruct (env_run true target (mk_e (e_count s) 0 0) t) as [s' o2].
              destruct IH as [Ho Hcnt]; [lia|]. cbn [app]. auto.
        -- specialize (IH (mk_e (e_count s + 1) 0 0)). cbn [e_count e_r e_l] in IH.
           destruct (env_run false target (mk_e (e_count s + 1) 0 0) t) as [s' o2].
           destruct IH as [Ho Hcnt]; [lia|]. cbn [app]. rewrite take_cons by lia. split.
           ** rewrite Ho. do 2 f_equal. lia.
           ** rewrite Hcnt. unfold zlen. cbn [length]. lia.
      * specialize (IH (mk_e (e_count s) (e_r s + c_r c) (e_l s + 1))). cbn [e_count e_r e_l] in IH.
        destruct (env_run mon target (mk_e (e_count s) (e_r s + c_r c) (e_l s + 1)) t) as [s' o2].
        destruct IH as [Ho Hcnt]; [lia|]. cbn [app]. auto.
    + (* quota reached: nothing is appended any more, whatever happens *)
      assert (Hz : target - e_count s <= 0) by lia.
      rewrite take_nonpos by exact Hz.
      assert (G : forall col s0, e_count s0 = e_count s ->
                  snd (env_run mon target s0 col) = [] /\ e_count (fst (env_run mon target s0 col)) = e_count s).
      { clear IH. induction col as [|c0 col IHc]; intros s0 H0; cbn [env_run]; [cbn; auto|].
        unfold ev_env_step, under_quota. rewrite H0, Eq.
        specialize (IHc (mk_e (e_count s0) (e_r s0 + c_r c0) (e_l s0 + 1)) H0).
        rewrite H0 in *.
        destruct (env_run mon target (mk_e (e_count s) (e_r s0 + c_r c0) (e_l s0 + 1)) col). cbn in *. exact IHc. }
      specialize (G t (mk_e (e_count s) (e_r s + c_r c) (e_l s + 1)) eq_refl).
      destruct (env_run mon target (mk_e (e_count s) (e_r s + c_r c) (e_l s + 1)) t) as [s' o2].
      cbn in G. destruct G as [G1 G2]. subst o2. cbn [app]. split; [reflexivity|].
      rewrite G2. pose proof (Zle_0_nat (length (episodes_from mon (e_r s) (e_l s) (c :: t)))). unfold zlen. lia.
Qed.

(* completed episodes of a longer column extend those of a prefix *)
Lemma episodes_from_app mon a : forall cr cl b,
  exists cr' cl', episodes_from mon cr cl (a ++ b) = episodes_from mon cr cl a ++ episodes_from mon cr' cl' b.
Proof.
  induction a as [|c a IH]; intros cr cl b; cbn [app episodes_from].
  - exists cr, cl. reflexivity.
  - destruct (c_done c).
    + destruct (IH 0 0 b) as (cr' & cl' & E). exists cr', cl'. rewrite E. now rewrite app_assoc.
    + apply IH.
Qed.

(* without a monitor the episodes are (sum, count) of the reward lists between episode ends *)
Lemma episodes_nomon_are_sums col : forall cur,
  episodes_from false (zsum cur) (zlen cur) col = map ep_of (split_done cur col).
Proof.
  induction col as [|c t IH]; intros cur; cbn [episodes_from split_done map]; [reflexivity|].
  destruct (c_done c).
  - cbn [app map]. f_equal; [|apply (IH [])].
    unfold ep_of. now rewrite zsum_snoc, zlen_snoc.
  - rewrite <- (zsum_snoc cur (c_r c)), <- (zlen_snoc cur (c_r c)). apply IH.
Qed.

(* ---------- the vector ---------- *)
Lemma filter_flat_map_tag (k : nat) (f : nat -> list (Z * Z)) i :
  map snd (filter (fun x => Nat.eqb (fst x) i) (flat_map (fun j => map (pair j) (f j)) (seq 0 k)))
  = if (i <? k)%nat then f i else [].
Proof.
  assert (G : forall start len,
    map snd (filter (fun x => Nat.eqb (fst x) i) (flat_map (fun j => map (pair j) (f j)) (seq start len)))
    = if ((start <=? i) && (i <? start + len))%nat then f i else []).
  { intros start len; revert start. induction len as [|len IH]; intros start; cbn [seq flat_map].
    - destruct ((start <=? i) && (i <? start + 0))%nat eqn:E; [lia|reflexivity].
    - rewrite filter_app, map_app, IH.
      assert (H : map snd (filter (fun x => Nat.eqb (fst x) i) (map (pair start) (f start))) = if Nat.eqb start i then f start else []).
      { induction (f start) as [|y l IHl]; cbn; [destruct (Nat.eqb start i); reflexivity|].
        destruct (Nat.eqb start i) eqn:E; cbn; [f_equal|]; exact IHl. }
      rewrite H. destruct (Nat.eqb start i) eqn:E1.
      + apply Nat.eqb_eq in E1. subst.
        replace ((S i <=? i) && (i <? S i + len))%nat with false by lia.
        replace ((i <=? i) && (i <? i + S len))%nat with true by lia. now rewrite app_nil_r.
      + apply Nat.eqb_neq in E1.
        destruct ((S start <=? i) && (i <? S start + len))%nat eqn:E2;
        destruct ((start <=? i) && (i <? start + S len))%nat eqn:E3; try reflexivity; lia. }
  rewrite G. cbn. destruct (i <? k)%nat; reflexivity.
Qed.


(* sub-environments do not influence each other: state and tagged results of env i after any list of
   vector steps are those of the one-env loop on column i *)
Lemma ev_all_proj mon k tg steps : forall sts i, (i < k)%nat ->
  let '(sts', out) := ev_all mon k tg sts steps in
  nth i sts' e0 = fst (env_run mon (nth i tg 0) (nth i sts e0) (column i steps)) /\
  proj i out = snd (env_run mon (nth i tg 0) (nth i sts e0) (column i steps)).
Proof.
  induction steps as [|v rest IH]; intros sts i Hi; cbn [ev_all column map env_run].
  - cbn. auto.
  - unfold ev_vstep. fold (column i rest).
    match goal with |- context [ev_all mon k tg ?S rest] =>
      specialize (IH S i Hi); destruct (ev_all mon k tg S rest) as [sts2 o2] end.
    rewrite nth_map_seq in IH by exact Hi. cbn [fst] in IH.
    destruct (ev_env_step mon (nth i tg 0) (nth i sts e0) (nth i v cell0)) as [s1 o1] eqn:E. cbn [fst snd] in IH.
    destruct (env_run mon (nth i tg 0) s1 (column i rest)) as [s2 o2'] eqn:E2. cbn [fst snd] in *.
    destruct IH as [IH1 IH2]. split; [exact IH1|].
    unfold proj in *. rewrite filter_app, map_app, IH2.
    rewrite (filter_flat_map_tag k (fun j => snd (ev_env_step mon (nth j tg 0) (nth j sts e0) (nth j v cell0))) i).
    replace (i <? k)%nat with true by lia. rewrite E. reflexivity.
Qed.

(* number of results = total increase of the counters *)
Lemma ev_env_step_count mon target s c :
  e_count (fst (ev_env_step mon target s c)) = e_count s + zlen (snd (ev_env_step mon target s c)).
Proof.
  unfold ev_env_step. destruct (under_quota (e_count s) target); [|cbn; unfold zlen; cbn; lia].
  destruct (c_done c); [|cbn; unfold zlen; cbn; lia].
  destruct mon; [destruct (c_ep c)|]; cbn; unfold zlen; cbn; lia.
Qed.

Definition total_count (k : nat) (sts : list est) : Z := zsum_seq (fun i => e_count (nth i sts e0)) k.

Lemma zlen_app {A} (a b : list A) : zlen (a ++ b) = zlen a + zlen b.
Proof. unfold zlen. rewrite app_length. lia. Qed.

Lemma zlen_flat_map_tag (f : nat -> list (Z * Z)) k :
  zlen (flat_map (fun j => map (pair j) (f j)) (seq 0 k)) = zsum_seq (fun j => zlen (f j)) k.
Proof.
  induction k as [|k IH]; [reflexivity|].
  rewrite zsum_seq_S, <- IH, seq_S, flat_map_app, zlen_app. cbn [flat_map]. rewrite app_nil_r.
  unfold zlen. rewrite map_length. reflexivity.
Qed.

Lemma zsum_seq_plus f g k : zsum_seq (fun i => f i + g i) k = zsum_seq f k + zsum_seq g k.
Proof. induction k as [|k IH]; [reflexivity|]. rewrite !zsum_seq_S, IH. lia. Qed.

Lemma ev_all_length mon k tg steps : forall sts,
  let '(sts', out) := ev_all mon k tg sts steps in
  total_count k sts' = total_count k sts + zlen out.
Proof.
  induction steps as [|v rest IH]; intros sts; cbn [ev_all].
  - unfold zlen. cbn. lia.
  - unfold ev_vstep.
    match goal with |- context [ev_all mon k tg ?S rest] =>
      specialize (IH S); destruct (ev_all mon k tg S rest) as [sts2 o2] end.
    rewrite IH, zlen_app.
    rewrite (zlen_flat_map_tag (fun j => snd (ev_env_step mon (nth j tg 0) (nth j sts e0) (nth j v cell0)))).
    assert (E : total_count k (map (fun j => fst (ev_env_step mon (nth j tg 0) (nth j sts e0) (nth j v cell0))) (seq 0 k))
                = total_count k sts + zsum_seq (fun j => zlen (snd (ev_env_step mon (nth j tg 0) (nth j sts e0) (nth j v cell0)))) k).
    { unfold total_count. rewrite <- zsum_seq_plus. apply zsum_seq_ext. intros i Hi.
      rewrite nth_map_seq by exact Hi. apply ev_env_step_count. }
    lia.
Qed.

(* the while loop = all the steps of some prefix, and the guard is false when it stopped by itself *)
Lemma ev_loop_prefix mon k tg steps : forall sts sts' out,
  ev_loop mon k tg sts steps = (sts', out, true) ->
  exists T, (T <= length steps)%nat /\ ev_all mon k tg sts (firstn T steps) = (sts', out) /\ guard k tg sts' = false.
Proof.
  induction steps as [|v rest IH]; intros sts sts' out H; cbn [ev_loop] in H.
  - destruct (guard k tg sts) eqn:G; cbn [negb] in H; [discriminate|]. inv H.
    exists O. cbn. auto.
  - destruct (guard k tg sts) eqn:G; cbn [negb] in H.
    + destruct (ev_vstep mon k tg sts v) as [sts1 o1] eqn:E.
      destruct (ev_loop mon k tg sts1 rest) as [[sts2 o2] h] eqn:E2. inv H.
      destruct (IH _ _ _ E2) as (T & HT & Ha & Hg).
      exists (S T). cbn [firstn ev_all length]. rewrite E, Ha. split; [lia|auto].
    + inv H. exists O. cbn. split; [lia|auto].
Qed.

Lemma guard_false k tg sts i : guard k tg sts = false -> (i < k)%nat -> nth i tg 0 <= e_count (nth i sts e0).
Proof.
  unfold guard. intros H Hi.
  destruct (under_quota (e_count (nth i sts e0)) (nth i tg 0)) eqn:E; [|unfold under_quota in E; lia].
  exfalso. assert (X : existsb (fun i0 => under_quota (e_count (nth i0 sts e0)) (nth i0 tg 0)) (seq 0 k) = true).
  { apply existsb_exists. exists i. split; [apply in_seq; lia|exact E]. }
  congruence.
Qed.

Lemma column_firstn i T steps : column i (firstn T steps) = firstn T (column i steps).
Proof. unfold column. now rewrite firstn_map. Qed.

Lemma nth_ev_init k i : nth i (ev_init k) e0 = e0.
Proof.
  unfold ev_init. destruct (Nat.ltb i k) eqn:E.
  - rewrite nth_map_seq by lia. reflexivity.
  - rewrite nth_overflow; [reflexivity|]. rewrite map_length, seq_length. lia.
Qed.

Lemma take_app_ge {A} z (a b : list A) : z <= zlen a -> take z (a ++ b) = take z a.
Proof.
  intros H. unfold take, zlen in *. rewrite firstn_app.
  replace (Z.to_nat z - length a)%nat with O by lia. cbn. now rewrite app_nil_r.
Qed.

(* MAIN: when evaluate_policy's loop stops, for every sub-environment i the results attributed to i are
   its first quota_i completed episodes (of the whole given stream, not only of what was consumed),
   and the number of results is exactly n *)
Lemma evaluate_returns_exactly_n mon n k steps sts out :
  0 <= n -> (0 < k)%nat ->
  evaluate mon n k steps = (sts, out, true) ->
  zlen out = n /\
  forall i, (i < k)%nat ->
    proj i out = take (quota n (Z.of_nat i) (Z.of_nat k)) (episodes_from mon 0 0 (column i steps)) /\
    quota n (Z.of_nat i) (Z.of_nat k) <= zlen (episodes_from mon 0 0 (column i steps)).
Proof.
  intros Hn Hk H. unfold evaluate in H.
  destruct (ev_loop_prefix _ _ _ _ _ _ _ H) as (T & HT & Ha & Hg).
  assert (P : forall i, (i < k)%nat ->
    let tg := quota n (Z.of_nat i) (Z.of_nat k) in
    let eps := episodes_from mon 0 0 (column i (firstn T steps)) in
    proj i out = take tg eps /\ e_count (nth i sts e0) = tg /\ tg <= zlen eps).
  { intros i Hi. pose proof (ev_all_proj mon k (targets n k) (firstn T steps) (ev_init k) i Hi) as Q.
    rewrite Ha in Q. rewrite nth_ev_init, targets_nth in Q by exact Hi.
    pose proof (env_run_spec mon (quota n (Z.of_nat i) (Z.of_nat k)) (column i (firstn T steps)) e0) as S.
    assert (Hq : 0 <= quota n (Z.of_nat i) (Z.of_nat k)) by (unfold quota; apply Z.div_pos; lia).
    cbn [e_count e_r e_l e0] in S.
    destruct (env_run mon (quota n (Z.of_nat i) (Z.of_nat k)) e0 (column i (firstn T steps))) as [s' o'].
    cbn [fst snd] in Q. destruct Q as [Q1 Q2]. destruct S as [S1 S2]; [exact Hq|].
    pose proof (guard_false _ _ _ i Hg Hi) as G. rewrite targets_nth in G by exact Hi.
    rewrite Q1, S2 in G. cbn zeta.
    rewrite Q2, S1, Q1, S2. replace (quota n (Z.of_nat i) (Z.of_nat k) - 0) with (quota n (Z.of_nat i) (Z.of_nat k)) by lia.
    split; [reflexivity|]. split; lia. }
  split.
  - pose proof (ev_all_length mon k (targets n k) (firstn T steps) (ev_init k)) as L. rewrite Ha in L.
    assert (Z0 : total_count k (ev_init k) = 0).
    { unfold total_count. transitivity (zsum_seq (fun _ => 0) k).
      - apply zsum_seq_ext. intros i _. now rewrite nth_ev_init.
      - clear. induction k as [|k IH]; [reflexivity|]. rewrite zsum_seq_S, IH. lia. }
    assert (Z1 : total_count k sts = n).
    { transitivity (zsum (targets n k)); [|exact (targets_sum n k Hn Hk)].
      unfold total_count, targets. fold (zsum_seq (fun i => quota n (Z.of_nat i) (Z.of_nat k)) k).
      apply zsum_seq_ext. intros i Hi. destruct (P i Hi) as (_ & E & _). exact E. }
    lia.
  - intros i Hi. destruct (P i Hi) as (P1 & _ & P3). cbn zeta in *.
    rewrite column_firstn in *.
    assert (Hs : column i steps = firstn T (column i steps) ++ skipn T (column i steps)) by (symmetry; apply firstn_skipn).
    rewrite Hs.
    destruct (episodes_from_app mon (firstn T (column i steps)) 0 0 (skipn T (column i steps))) as (cr & cl & E).
    rewrite E. rewrite take_app_ge by exact P3. split; [exact P1|].
    rewrite zlen_app. unfold zlen at 2. lia.
Qed.

(* ---------- review items: the monitor-aware branch; Monitor o evaluate ---------- *)
Lemma frag_ev_branches b nb m c :
  ev_has_episode b nb = b /\ ev_monitor_branch m = m /\ ev_count_mon c = c + 1 /\ ev_count_nomon c = c + 1.
Proof. unfold ev_has_episode, ev_monitor_branch, ev_count_mon, ev_count_nomon. repeat split; lia. Qed.

(* the per-env step with the monitor-aware branch spelled with the regenerated tests and counters *)
Lemma frag_ev_env_step_monitor target s c :
  ev_env_step true target s c =
  let '(r, l) := ev_acc (e_r s) (e_l s) (c_r c) in
  if ev_under_quota (e_count s) target then
    if ev_done (c_done c) then
      let '(z1, z2) := ev_restart in
      if ev_monitor_branch true then
        (if ev_has_episode (match c_ep c with Some _ => true | None => false end) (match c_ep c with Some _ => false | None => true end)
         then match c_ep c with Some ep => (mk_e (ev_count_mon (e_count s)) z1 z2, [ep]) | None => (mk_e (e_count s) z1 z2, []) end
         else (mk_e (e_count s) z1 z2, []))
      else (mk_e (ev_count_nomon (e_count s)) z1 z2, [(r, l)])
    else (mk_e (e_count s) r l, [])
  else (mk_e (e_count s) r l, []).
Proof.
  rewrite frag_ev_env_step. unfold ev_acc, ev_done, ev_restart, ev_monitor_branch, ev_has_episode, ev_count_mon.
  destruct (ev_under_quota (e_count s) target); [|reflexivity].
  destruct (c_done c); [|reflexivity]. destruct (c_ep c); reflexivity.
Qed.

(* under a monitor a "done" without an episode entry (a lost life) ends nothing: not counted, nothing appended *)
Lemma life_loss_not_counted target s c : c_done c = true -> c_ep c = None ->
  snd (ev_env_step true target s c) = [] /\ e_count (fst (ev_env_step true target s c)) = e_count s.
Proof.
  intros Hd He. unfold ev_env_step. rewrite Hd, He. destruct (under_quota (e_count s) target); split; reflexivity.
Qed.

(* Monitor o evaluate: when the entries of a column are what the monitor accumulator reports at the real ends, the
   episodes evaluate_policy reads off the infos are the true (sum, count) between REAL ends - lost lives in between
   change nothing *)
Lemma episodes_monitor_are_true col : forall a cr cl,
  mon_consistent a col = true ->
  episodes_from true cr cl (map fst col) = true_episodes (v_ret a) (v_len a) col.
Proof.
  induction col as [|[c real] col IH]; intros a cr cl H; [reflexivity|].
  cbn [mon_consistent] in H. unfold vm_env_step in H. cbn [map fst episodes_from true_episodes].
  destruct real.
  - apply andb_true_iff in H as [H Hrest]. apply andb_true_iff in H as [He Hd]. cbn [implb] in Hd. rewrite Hd.
    destruct (c_ep c) as [[er el]|]; [|discriminate]. cbn [fst snd vm_add v_ret v_len] in He.
    apply andb_true_iff in He as [E1 E2]. apply Z.eqb_eq in E1, E2. subst.
    cbn [app]. f_equal. apply (IH v0 0 0 Hrest).
  - apply andb_true_iff in H as [H Hrest]. apply andb_true_iff in H as [He _].
    destruct (c_ep c); [discriminate|].
    destruct (c_done c); cbn [app]; apply (IH (vm_add a (c_r c))); exact Hrest.
Qed.

(* ---------- model mutation score: the scripted stream (modes) pinned by concrete runs ---------- *)
(* one sub-environment, two episodes: rewards 1,2,3 (info tags 7, 8, 5: the middle step loses a life in mode 3) then 4 *)
Definition pin_script : script :=
  [mk_episode 10 0 [mk_sstep 11 1 false false 7; mk_sstep 12 2 false false 8; mk_sstep 13 3 true false 5];
   mk_episode 20 0 [mk_sstep 21 4 false true 9]].

Example evaluate_scripted_modes :
  (* no monitor: the loop's own accumulators; Monitor and VecMonitor: their entries; all agree on the true episodes *)
  evaluate_scripted 8 0 2 [pin_script] = ([(6, 3); (4, 1)], [0%nat; 0%nat], true) /\
  evaluate_scripted 8 1 2 [pin_script] = ([(6, 3); (4, 1)], [0%nat; 0%nat], true) /\
  evaluate_scripted 8 2 2 [pin_script] = ([(6, 3); (4, 1)], [0%nat; 0%nat], true) /\
  (* mode 3: the lost life in the middle of the first episode is reported as done but ends nothing *)
  evaluate_scripted 8 3 2 [pin_script] = ([(6, 3); (4, 1)], [0%nat; 0%nat], true) /\
  map (fun v => map c_done v) (stream 4 3 [pin_script] [senv_init pin_script]) = [[false]; [true]; [true]; [true]] /\
  map (fun v => map c_done v) (stream 4 1 [pin_script] [senv_init pin_script]) = [[false]; [false]; [true]; [true]] /\
  map (fun v => map c_ep v) (stream 3 1 [pin_script] [senv_init pin_script]) = [[None]; [None]; [Some (6, 3)]] /\
  map (fun v => map c_ep v) (stream 3 0 [pin_script] [senv_init pin_script]) = [[None]; [None]; [None]].
Proof. vm_compute. repeat split. Qed.
