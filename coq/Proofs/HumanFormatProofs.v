(* C20 (build round 5) - HumanOutputFormat.write: the printed table reads back as the dict, the frame is rectangular,
   a refused dump is exactly a collision, no value is overwritten, short keys are printed verbatim. *)
From Coq Require Import List Ascii String Bool Arith ZArith Lia Sorting.Sorted Sorting.Permutation.
From SB3V Require Import Gen.Frag_logger Model.Csv Model.Logger Model.HumanFormat Proofs.CsvProofs Proofs.LoggerProofs.
Import ListNotations.
Local Open Scope nat_scope.

(* ---------- layout: lengths ---------- *)
Lemma maxlen_ge s l : In s l -> List.length s <= maxlen l.
Proof.
  induction l as [|x r IH]; [intros []|]. change (maxlen (x :: r)) with (Nat.max (List.length x) (maxlen r)).
  intros [->|H]; [lia|]. specialize (IH H). lia.
Qed.

Lemma pad_length w s : List.length s <= w -> List.length (pad w s) = w.
Proof. intros H. unfold pad. rewrite app_length, repeat_length. lia. Qed.

Lemma row_line_length kw vw c : List.length (c_key c) <= kw -> List.length (c_val c) <= vw ->
  List.length (row_line kw vw c) = kw + vw + 7.
Proof.
  intros Hk Hv. unfold row_line. repeat rewrite app_length. rewrite (pad_length _ _ Hk), (pad_length _ _ Hv). cbn. lia.
Qed.

(* (c) every line of the table has the same width key_width + val_width + 7 *)
Lemma table_rectangular d : Forall (fun s => List.length s = key_width d + val_width d + 7) (table_lines d).
Proof.
  destruct d as [|c0 r]; [constructor|]. remember (c0 :: r) as d. unfold table_lines. rewrite Heqd at 1.
  constructor; [apply repeat_length|]. apply Forall_app. split.
  - apply Forall_forall. intros s Hs. apply in_map_iff in Hs. destruct Hs as (c & <- & Hc). apply row_line_length.
    + apply maxlen_ge. apply in_map. exact Hc.
    + apply maxlen_ge. apply in_map. exact Hc.
  - constructor; [apply repeat_length|constructor].
Qed.

Lemma maxlen_le m l : Forall (fun s => List.length s <= m) l -> maxlen l <= m.
Proof.
  induction 1 as [|x r Hx Hr IH]; [cbn; lia|]. change (maxlen (x :: r)) with (Nat.max (List.length x) (maxlen r)). lia.
Qed.

(* ---------- the reader ---------- *)
Lemma split_bar_app a b : no_bar a = true -> split_bar (a ++ bar :: b) = Some (a, b).
Proof.
  induction a as [|c a IH]; cbn; intros H.
  - try rewrite ascii_eqb_refl; reflexivity.
  - apply andb_prop in H. destruct H as [Hc Ha]. apply negb_true_iff in Hc. rewrite Hc, (IH Ha). reflexivity.
Qed.

Lemma no_bar_app a b : no_bar (a ++ b) = no_bar a && no_bar b.
Proof. apply forallb_app. Qed.
Lemma no_bar_repeat n : no_bar (repeat sp n) = true.
Proof. induction n; [reflexivity|]. cbn. exact IHn. Qed.
Lemma no_bar_pad w s : no_bar s = true -> no_bar (pad w s) = true.
Proof. intros H. unfold pad. rewrite no_bar_app, H, no_bar_repeat. reflexivity. Qed.

Lemma parse_row_line kw vw c : no_bar (c_key c) = true ->
  HumanFormat.parse_row (row_line kw vw c) = Some (pad kw (c_key c), pad vw (c_val c)).
Proof.
  intros H. unfold row_line. set (K := pad kw (c_key c)). set (V := pad vw (c_val c)).
  assert (HK : no_bar (K ++ [sp]) = true) by (rewrite no_bar_app; unfold K; rewrite (no_bar_pad _ _ H); reflexivity).
  change ([bar; sp] ++ K ++ [sp; bar; sp] ++ V ++ [sp; bar]) with (bar :: sp :: (K ++ [sp; bar; sp] ++ V ++ [sp; bar])).
  replace (K ++ [sp; bar; sp] ++ V ++ [sp; bar]) with ((K ++ [sp]) ++ bar :: (sp :: V ++ [sp; bar])) by (rewrite <- app_assoc; reflexivity).
  unfold HumanFormat.parse_row. rewrite !ascii_eqb_refl. cbn [andb]. rewrite (split_bar_app _ _ HK). rewrite ascii_eqb_refl. cbn [andb].
  replace (2 <=? List.length (V ++ [sp; bar])) with true by (symmetry; apply Nat.leb_le; rewrite app_length; cbn; lia).
  replace (1 <=? List.length (K ++ [sp])) with true by (symmetry; apply Nat.leb_le; rewrite app_length; cbn; lia).
  cbn [andb]. rewrite removelast_last. replace (V ++ [sp; bar]) with ((V ++ [sp]) ++ [bar]) by (rewrite <- app_assoc; reflexivity).
  rewrite !removelast_last. reflexivity.
Qed.

Lemma is_dashes_repeat n : is_dashes (repeat dash n) = true.
Proof. induction n; [reflexivity|]. cbn. exact IHn. Qed.

Lemma parse_rows_lines kw vw n d : Forall (fun c => no_bar (c_key c) = true) d ->
  parse_rows (map (row_line kw vw) d ++ [repeat dash n]) = Some (map (fun c => (pad kw (c_key c), pad vw (c_val c))) d).
Proof.
  induction 1 as [|c r Hc Hr IH].
  - cbn. rewrite is_dashes_repeat. reflexivity.
  - cbn [map app]. remember (map (row_line kw vw) r ++ [repeat dash n]) as tl.
    destruct tl as [|t tl']; [destruct (map (row_line kw vw) r); discriminate|].
    cbn [parse_rows]. rewrite (parse_row_line _ _ _ Hc). cbn [parse_rows] in IH. rewrite IH. reflexivity.
Qed.

(* (a) first half: the printed table, read back, is the dict entry by entry (cells right-padded to the column widths) *)
Lemma parse_table_lines d : Forall (fun c => no_bar (c_key c) = true) d ->
  parse_table (table_lines d) = Some (map (fun c => (pad (key_width d) (c_key c), pad (val_width d) (c_val c))) d).
Proof.
  intros H. destruct d as [|c0 r]; [reflexivity|]. remember (c0 :: r) as d. unfold table_lines. rewrite Heqd at 1.
  cbn [parse_table]. rewrite is_dashes_repeat. apply parse_rows_lines. exact H.
Qed.

(* ---------- the dict ---------- *)
Definition dkeys (d : list cell) : list (text * text) := map (fun c => (c_tag c, c_key c)) d.
Definition hdr (m : nat) (t : text) : text * text := (t, truncate m t).

Lemma pair_eqb_eq t k t' k' : pair_eqb t k t' k' = true <-> (t, k) = (t', k').
Proof.
  unfold pair_eqb. rewrite andb_true_iff, !text_eqb_eq. split; [intros [-> ->]; reflexivity|intros E; inversion E; split; reflexivity].
Qed.
Lemma dmem_spec t k d : dmem t k d = true <-> In (t, k) (dkeys d).
Proof.
  unfold dmem, dkeys. rewrite existsb_exists, in_map_iff. split.
  - intros (c & Hc & E). apply pair_eqb_eq in E. exists c. split; [symmetry; exact E|exact Hc].
  - intros (c & E & Hc). exists c. split; [exact Hc|]. apply pair_eqb_eq. symmetry. exact E.
Qed.

Lemma dset_keys t k d p : In p (dkeys (dset_head t k d)) <-> p = (t, k) \/ In p (dkeys d).
Proof.
  induction d as [|c r IH]; cbn.
  - split; [intros [H|[]]; left; symmetry; exact H|intros [H|[]]; left; symmetry; exact H].
  - destruct (pair_eqb t k (c_tag c) (c_key c)) eqn:E; cbn.
    + apply pair_eqb_eq in E. rewrite <- E. split; [intros [H|H]; [left; symmetry; exact H|right; right; exact H]|].
      intros [H|[H|H]]; [left; symmetry; exact H|left; exact H|right; exact H].
    + rewrite IH. tauto.
Qed.

Lemma dset_key_cells t k d : (forall c, In c d -> c_head c = false -> (c_tag c, c_key c) <> (t, k)) ->
  key_cells (dset_head t k d) = key_cells d.
Proof.
  induction d as [|c r IH]; intros H; [reflexivity|]. cbn [dset_head].
  destruct (pair_eqb t k (c_tag c) (c_key c)) eqn:E.
  - apply pair_eqb_eq in E. unfold key_cells. cbn [filter c_head]. destruct (c_head c) eqn:Hh; cbn [negb]; [reflexivity|].
    exfalso. apply (H c (or_introl eq_refl) Hh). symmetry. exact E.
  - unfold key_cells in *. cbn [filter]. destruct (negb (c_head c)); cbn [map]; rewrite IH; auto; intros c' Hc'; apply H; right; exact Hc'.
Qed.

(* no key cell sits on the place of its own tag's header *)
Definition cells_clear (m : nat) (d : list cell) : Prop :=
  forall c, In c d -> c_head c = false -> c_tag c = [] \/ c_key c <> truncate m (c_tag c).

Lemma dset_clear m t k d : cells_clear m d -> cells_clear m (dset_head t k d).
Proof.
  induction d as [|c r IH]; intros H c' Hc' Hh.
  - cbn in Hc'. destruct Hc' as [<-|[]]. discriminate.
  - cbn [dset_head] in Hc'. destruct (pair_eqb t k (c_tag c) (c_key c)) eqn:E.
    + destruct Hc' as [<-|Hc']; [|apply H; [right; exact Hc'|exact Hh]]. apply pair_eqb_eq in E. inversion E; subst.
      cbn in *. apply (H c (or_introl eq_refl) Hh).
    + destruct Hc' as [<-|Hc']; [apply H; [left; reflexivity|exact Hh]|]. apply IH; [|exact Hc'|exact Hh].
      intros c'' Hc'' Hh''. apply H; [right; exact Hc''|exact Hh''].
Qed.

(* ---------- the scan: tags ---------- *)
Fixpoint chain (tag : text) (its : list item) : Prop :=
  match its with
  | [] => True
  | it :: r => (if it_new it then it_tag it <> [] else it_tag it = tag) /\ chain (it_tag it) r
  end.

Lemma scan_chain m l : forall tag, chain tag (scan m tag l).
Proof.
  induction l as [|e r IH]; intros tag; [exact I|]. cbn [scan chain]. split; [|apply IH].
  unfold item_of, next_tag. destruct (find_slash (e_key e)) as [[|i]|] eqn:E; cbn; try reflexivity.
  destruct (e_key e); [discriminate|]. cbn. discriminate.
Qed.

Definition cellkey (it : item) : text * text := (it_tag it, it_key it).
Definition clash (m : nat) (it : item) : Prop := it_tag it <> [] /\ it_key it = truncate m (it_tag it).

Lemma header_clash_spec m it : header_clash m it = true <-> clash m it.
Proof.
  unfold header_clash, clash. rewrite andb_true_iff, negb_true_iff, Nat.eqb_neq, text_eqb_eq.
  destruct (it_tag it); cbn; split; intros [A B]; split; auto; try congruence; try lia.
Qed.

(* ---------- (b) when the writer refuses ---------- *)
Fixpoint ok_from (m : nat) (seen : list (text * text)) (its : list item) : Prop :=
  match its with
  | [] => True
  | it :: r => let seen1 := if it_new it then hdr m (it_tag it) :: seen else seen in
               ~ In (cellkey it) seen1 /\ ok_from m (cellkey it :: seen1) r
  end.

Lemma run_ok m its : forall d seen, (forall p, In p (dkeys d) <-> In p seen) -> (run m d its <> None <-> ok_from m seen its).
Proof.
  induction its as [|it r IH]; intros d seen Hs; cbn [run ok_from]; [split; [intros _; exact I|discriminate]|].
  unfold step. set (d1 := if it_new it then dset_head (it_tag it) (truncate m (it_tag it)) d else d).
  set (seen1 := if it_new it then hdr m (it_tag it) :: seen else seen).
  assert (H1 : forall p, In p (dkeys d1) <-> In p seen1).
  { intros p. unfold d1, seen1. destruct (it_new it); [|apply Hs]. rewrite dset_keys. cbn. rewrite Hs. unfold hdr. split; intros [A|A]; auto. }
  destruct (dmem (it_tag it) (it_key it) d1) eqn:E.
  - apply dmem_spec in E. apply H1 in E. split; [intros H; exfalso; apply H; reflexivity|intros [H _]; exfalso; apply H; exact E].
  - assert (Hn : ~ In (cellkey it) seen1).
    { intros H. apply H1 in H. apply dmem_spec in H. unfold cellkey in H. cbn in H. congruence. }
    rewrite (IH (d1 ++ [mk_c false (it_tag it) (it_key it) (it_val it)]) (cellkey it :: seen1)); [tauto|].
    intros p. unfold dkeys. rewrite map_app, in_app_iff. cbn. fold (dkeys d1). rewrite H1. unfold cellkey. tauto.
Qed.

Lemma ok_char m its : forall tag seen prev, chain tag its ->
  (tag <> [] -> In (hdr m tag) seen) ->
  (forall p, In p seen -> In p prev \/ exists t, t <> [] /\ p = hdr m t) ->
  (forall p, In p prev -> In p seen) ->
  (ok_from m seen its <->
   NoDup (map cellkey its) /\ (forall p, In p (map cellkey its) -> ~ In p prev) /\ Forall (fun it => ~ clash m it) its).
Proof.
  induction its as [|it r IH]; intros tag seen prev Hc Ht Hs Hp; cbn [ok_from map].
  - split; [intros _; repeat split; [constructor|intros p []|constructor]|intros _; exact I].
  - destruct Hc as [Hn Hc]. set (seen1 := if it_new it then hdr m (it_tag it) :: seen else seen).
    assert (Hh : it_tag it <> [] -> In (hdr m (it_tag it)) seen1).
    { intros Hne. unfold seen1. destruct (it_new it); [left; reflexivity|]. rewrite Hn in *. apply Ht. exact Hne. }
    assert (Hs1 : forall p, In p seen1 -> In p prev \/ exists t, t <> [] /\ p = hdr m t).
    { intros p. unfold seen1. destruct (it_new it); [|apply Hs]. intros [<-|H]; [right; exists (it_tag it); split; [exact Hn|reflexivity]|apply Hs; exact H]. }
    assert (Hp1 : forall p, In p prev -> In p seen1).
    { intros p H. unfold seen1. destruct (it_new it); [right|]; apply Hp; exact H. }
    rewrite (IH (it_tag it) (cellkey it :: seen1) (cellkey it :: prev) Hc).
    + split.
      * intros (Hni & Hnd & Hpr & Hcl). repeat split.
        -- constructor; [|exact Hnd]. intros H. apply (Hpr _ H). left; reflexivity.
        -- intros p [<-|H] Hin; [apply Hni; apply Hp1; exact Hin|apply (Hpr _ H); right; exact Hin].
        -- constructor; [|exact Hcl]. intros [Hne Hk]. apply Hni. unfold cellkey. rewrite Hk. apply Hh. exact Hne.
      * intros (Hnd & Hpr & Hcl). inversion Hnd as [|x l Hx Hnd']; subst. inversion Hcl as [|x l Hx' Hcl']; subst. split; [|repeat split].
        -- intros H. apply Hs1 in H. destruct H as [H|(t & Hne & E)]; [apply (Hpr (cellkey it)); [left; reflexivity|exact H]|].
           apply Hx'. unfold cellkey, hdr in E. inversion E; subst. split; [exact Hne|assumption].
        -- exact Hnd'.
        -- intros p H [<-|Hin]; [apply Hx; exact H|apply (Hpr p); [right; exact H|exact Hin]].
        -- exact Hcl'.
    + intros Hne. right. apply Hh. exact Hne.
    + intros p [<-|H]; [left; left; reflexivity|]. destruct (Hs1 p H) as [A|A]; [left; right; exact A|right; exact A].
    + intros p [<-|H]; [left; reflexivity|right; apply Hp1; exact H].
Qed.

(* (b) the dump is refused (ValueError) exactly when two visible keys are shown with the same text under the same tag,
   or a key is shown with the text of its own tag's header: nothing is ever overwritten silently *)
Lemma write_refused_iff m l :
  let its := scan m [] (sort_e (visible l)) in
  key2str m l <> None <-> NoDup (map cellkey its) /\ Forall (fun it => ~ clash m it) its.
Proof.
  cbn zeta. unfold key2str. rewrite (run_ok m _ [] []); [|intros p; reflexivity].
  rewrite (ok_char m _ [] [] []); [| apply scan_chain | intros H; exfalso; apply H; reflexivity | intros p [] | intros p []].
  split; [intros (A & _ & B); split; assumption|intros (A & B); repeat split; [exact A|intros p _ []|exact B]].
Qed.

(* ---------- (a) second half: the key cells of the dict are the visible keys, each once, in sorted order ---------- *)
Lemma run_cells m its : forall tag d d', chain tag its ->
  (tag <> [] -> In (hdr m tag) (dkeys d)) -> cells_clear m d -> run m d its = Some d' ->
  key_cells d' = key_cells d ++ map (fun it => (it_tag it, it_key it, it_val it)) its.
Proof.
  induction its as [|it r IH]; intros tag d d' Hc Ht Hcl Hr; cbn [run] in Hr.
  - inversion Hr; subst. cbn. rewrite app_nil_r. reflexivity.
  - destruct Hc as [Hn Hc]. unfold step in Hr.
    set (d1 := if it_new it then dset_head (it_tag it) (truncate m (it_tag it)) d else d) in *.
    assert (Hk1 : key_cells d1 = key_cells d).
    { unfold d1. destruct (it_new it); [|reflexivity]. apply dset_key_cells. intros c Hin Hh E. inversion E as [[E1 E2]].
      destruct (Hcl c Hin Hh) as [A|A]; [rewrite A in E1; apply Hn; symmetry; exact E1|apply A; rewrite E2, E1; reflexivity]. }
    assert (Hcl1 : cells_clear m d1) by (unfold d1; destruct (it_new it); [apply dset_clear|]; exact Hcl).
    assert (Hh : it_tag it <> [] -> In (hdr m (it_tag it)) (dkeys d1)).
    { intros Hne. unfold d1. destruct (it_new it); [apply dset_keys; left; reflexivity|]. rewrite Hn in *. apply Ht. exact Hne. }
    destruct (dmem (it_tag it) (it_key it) d1) eqn:E; [discriminate|].
    rewrite (IH (it_tag it) (d1 ++ [mk_c false (it_tag it) (it_key it) (it_val it)]) d' Hc); [| | |exact Hr].
    + unfold key_cells at 1. rewrite filter_app, map_app. cbn. fold (key_cells d1). rewrite Hk1, <- app_assoc. reflexivity.
    + intros Hne. unfold dkeys. rewrite map_app, in_app_iff. left. apply Hh. exact Hne.
    + intros c Hin Hhd. apply in_app_iff in Hin. destruct Hin as [Hin|[<-|[]]]; [apply Hcl1; assumption|]. cbn.
      destruct (it_tag it) as [|a t] eqn:Et; [left; reflexivity|right]. intros Ek.
      assert (In (hdr m (a :: t)) (dkeys d1)) by (apply Hh; discriminate).
      apply dmem_spec in H. unfold hdr in H. rewrite <- Ek in H. cbn in H. congruence.
Qed.

Lemma write_complete m l d : key2str m l = Some d -> key_cells d = cells_spec m l.
Proof.
  unfold key2str, cells_spec. intros H. rewrite (run_cells m _ [] [] d (scan_chain m (sort_e (visible l)) [])); [reflexivity| | |exact H].
  - intros Hne. exfalso. apply Hne. reflexivity.
  - intros c [].
Qed.

(* ---------- (c) cells are never longer than max_length ---------- *)
Definition cell_short (m : nat) (c : cell) : Prop := List.length (c_key c) <= m /\ List.length (c_val c) <= m.

Lemma dset_short m t d : 3 <= m -> Forall (cell_short m) d -> Forall (cell_short m) (dset_head t (truncate m t) d).
Proof.
  intros Hm. induction 1 as [|c r Hc Hr IH]; cbn.
  - constructor; [|constructor]. split; cbn; [apply truncate_length; exact Hm|lia].
  - destruct (pair_eqb t (truncate m t) (c_tag c) (c_key c)); constructor; auto. split; cbn; [apply truncate_length; exact Hm|lia].
Qed.

Lemma run_short m its : 3 <= m -> Forall (fun it => List.length (it_key it) <= m /\ List.length (it_val it) <= m) its ->
  forall d d', Forall (cell_short m) d -> run m d its = Some d' -> Forall (cell_short m) d'.
Proof.
  intros Hm. induction 1 as [|it r Hi Hr IH]; intros d d' Hd H; cbn [run] in H; [inversion H; subst; exact Hd|].
  unfold step in H. destruct (dmem _ _ _); [discriminate|]. apply IH in H; [exact H|]. apply Forall_app. split.
  - destruct (it_new it); [apply dset_short; assumption|exact Hd].
  - constructor; [|constructor]. exact Hi.
Qed.

Lemma scan_short m l : 3 <= m -> forall tag, Forall (fun it => List.length (it_key it) <= m /\ List.length (it_val it) <= m) (scan m tag l).
Proof.
  intros Hm. induction l as [|e r IH]; intros tag; [constructor|]. cbn [scan]. constructor; [|apply IH].
  unfold item_of. destruct (next_tag tag (e_key e)). cbn. split; apply truncate_length; exact Hm.
Qed.

Lemma write_cells_short m l d : 3 <= m -> key2str m l = Some d -> Forall (cell_short m) d.
Proof. intros Hm H. unfold key2str in H. eapply run_short; [exact Hm|apply scan_short; exact Hm|constructor|exact H]. Qed.

Lemma write_width m l d : 3 <= m -> key2str m l = Some d ->
  Forall (fun s => List.length s = key_width d + val_width d + 7) (table_lines d) /\ key_width d + val_width d + 7 <= 2 * m + 7.
Proof.
  intros Hm H. split; [apply table_rectangular|]. pose proof (write_cells_short m l d Hm H) as Hs.
  assert (key_width d <= m). { apply maxlen_le. apply Forall_forall. intros s Hin. apply in_map_iff in Hin. destruct Hin as (c & <- & Hc).
    rewrite Forall_forall in Hs. apply (Hs c Hc). }
  assert (val_width d <= m). { apply maxlen_le. apply Forall_forall. intros s Hin. apply in_map_iff in Hin. destruct Hin as (c & <- & Hc).
    rewrite Forall_forall in Hs. apply (Hs c Hc). }
  lia.
Qed.

(* ---------- (d) keys that fit are printed verbatim ---------- *)
Lemma is_prefix_firstn n s : is_prefix (firstn n s) s = true.
Proof. revert n. induction s as [|c s IH]; intros [|n]; cbn; try reflexivity. rewrite ascii_eqb_refl, IH. reflexivity. Qed.
Lemma is_substr_prefix p s : is_prefix p s = true -> is_substr p s = true.
Proof. intros H. destruct s; cbn; rewrite H; reflexivity. Qed.

(* a tagged key a/rest: shown as three spaces + rest, and tag ++ rest is the key *)
Lemma tagged_key_verbatim m tag e i : find_slash (e_key e) = Some (S i) ->
  let it := item_of m tag e in
  let rest := skipn (S i + 1) (e_key e) in
  it_tag it ++ rest = e_key e /\ (3 + List.length rest <= m -> it_key it = three ++ rest).
Proof.
  intros H. cbn zeta. unfold item_of, next_tag. rewrite H. cbn [it_tag it_key]. split; [apply firstn_skipn|]. intros Hl.
  unfold display_key. rewrite (is_substr_prefix _ _ (is_prefix_firstn _ _)).
  assert (Hlen : List.length (firstn (S i + 1) (e_key e)) = S i + 1).
  { apply firstn_length_le. clear -H. revert i H. induction (e_key e) as [|c s IH]; intros i H; [discriminate|]. cbn in H.
    destruct (ascii_eqb c slash); [discriminate|]. destruct (find_slash s) as [[|j]|] eqn:E; cbn in H; try discriminate.
    - inversion H; subst. destruct s; [discriminate|]. cbn. lia.
    - inversion H; subst. specialize (IH j eq_refl). cbn. lia. }
  rewrite Hlen. replace (negb (S i + 1 =? 0)) with true by (symmetry; apply negb_true_iff, Nat.eqb_neq; lia). cbn [andb].
  apply truncate_short. rewrite app_length. change (List.length three) with 3. exact Hl.
Qed.

Lemma substr_slash p s : is_substr p s = true -> find_slash p <> None -> find_slash s <> None.
Proof.
  assert (Hp : forall p s, is_prefix p s = true -> find_slash p <> None -> find_slash s <> None).
  { induction p0 as [|a p0 IH]; intros s0 H Hn; [exfalso; apply Hn; reflexivity|]. destruct s0 as [|b s0]; [discriminate|]. cbn in H.
    apply andb_prop in H. destruct H as [E H]. apply ascii_eqb_eq in E. subst b. cbn in *. destruct (ascii_eqb a slash); [discriminate|].
    specialize (IH s0 H). destruct (find_slash p0); [|exfalso; apply Hn; reflexivity]. destruct (find_slash s0); [discriminate|]. exfalso. apply IH; [discriminate|reflexivity]. }
  induction s as [|c s IH]; cbn; intros H Hn.
  - rewrite orb_false_r in H. apply (Hp p [] H Hn).
  - apply orb_prop in H. destruct H as [H|H]; [exact (Hp p (c :: s) H Hn)|]. specialize (IH H Hn).
    destruct (ascii_eqb c slash); [discriminate|]. destruct (find_slash s); [discriminate|]. exfalso. apply IH. reflexivity.
Qed.

(* a key without "/" that fits is shown as it is (the current tag is empty or contains a "/", as every tag does) *)
Lemma plain_key_verbatim m tag e : find_slash (e_key e) = None -> (tag = [] \/ find_slash tag <> None) ->
  List.length (e_key e) <= m -> it_key (item_of m tag e) = e_key e /\ it_tag (item_of m tag e) = tag.
Proof.
  intros H Ht Hl. unfold item_of, next_tag. rewrite H. cbn [it_key it_tag]. split; [|reflexivity]. unfold display_key.
  destruct Ht as [->|Ht]; [cbn; apply truncate_short; exact Hl|].
  destruct (is_substr tag (e_key e)) eqn:E; [exfalso; apply (substr_slash _ _ E Ht); exact H|]. rewrite andb_false_r. apply truncate_short. exact Hl.
Qed.

(* ---------- the order: sorted(...) ---------- *)
Definition key_le (a b : entry) : Prop := text_leb (e_key a) (e_key b) = true.

Lemma text_leb_total a : forall b, text_leb a b = true \/ text_leb b a = true.
Proof.
  induction a as [|x a IH]; intros [|y b]; cbn [text_leb]; auto.
  destruct (nat_of_ascii x <? nat_of_ascii y) eqn:E1; [left; reflexivity|].
  destruct (nat_of_ascii y <? nat_of_ascii x) eqn:E2; [right; reflexivity|]. apply IH.
Qed.

Lemma insert_perm e l : Permutation (e :: l) (insert_e e l).
Proof.
  induction l as [|x r IH]; cbn; [apply Permutation_refl|]. destruct (text_leb (e_key e) (e_key x)); [apply Permutation_refl|].
  eapply perm_trans; [apply perm_swap|]. apply perm_skip. exact IH.
Qed.
Lemma sort_perm l : Permutation l (sort_e l).
Proof. induction l as [|x r IH]; cbn; [constructor|]. eapply perm_trans; [apply perm_skip; exact IH|apply insert_perm]. Qed.

Lemma insert_sorted e l : LocallySorted key_le l -> LocallySorted key_le (insert_e e l).
Proof.
  induction 1 as [|x|x y r Hs IH Hxy]; cbn.
  - constructor.
  - destruct (text_leb (e_key e) (e_key x)) eqn:E; constructor; try constructor; try exact E.
    destruct (text_leb_total (e_key e) (e_key x)) as [A|A]; [congruence|exact A].
  - destruct (text_leb (e_key e) (e_key x)) eqn:E.
    + constructor; [constructor; assumption|exact E].
    + cbn in IH. destruct (text_leb (e_key e) (e_key y)) eqn:E2.
      * constructor; [exact IH|]. destruct (text_leb_total (e_key e) (e_key x)) as [A|A]; [congruence|exact A].
      * constructor; [exact IH|exact Hxy].
Qed.
Lemma sort_sorted l : LocallySorted key_le (sort_e l).
Proof. induction l as [|x r IH]; cbn; [constructor|apply insert_sorted; exact IH]. Qed.

(* the rows of the key cells come from the visible entries, in key order, one per entry *)
Lemma scan_length m l : forall tag, List.length (scan m tag l) = List.length l.
Proof. induction l as [|e r IH]; intros tag; cbn; [reflexivity|rewrite IH; reflexivity]. Qed.

Lemma write_order m l :
  Permutation (visible l) (sort_e (visible l)) /\ LocallySorted key_le (sort_e (visible l)) /\
  List.length (cells_spec m l) = List.length (visible l).
Proof.
  split; [apply sort_perm|]. split; [apply sort_sorted|]. unfold cells_spec. rewrite map_length, scan_length.
  symmetry. apply Permutation_length. apply sort_perm.
Qed.

(* ---------- keys without '|' give cells without '|' (the reader's side condition, stated on the input) ---------- *)
Lemma no_bar_firstn n s : no_bar s = true -> no_bar (firstn n s) = true.
Proof. unfold no_bar. revert n. induction s as [|c s IH]; intros [|n] H; try reflexivity. cbn in *. apply andb_prop in H. destruct H as [A B]. rewrite A, (IH n B). reflexivity. Qed.
Lemma no_bar_skipn n s : no_bar s = true -> no_bar (skipn n s) = true.
Proof. unfold no_bar. revert n. induction s as [|c s IH]; intros [|n] H; try reflexivity; [exact H|]. cbn in *. apply andb_prop in H. destruct H as [A B]. apply IH. exact B. Qed.
Lemma no_bar_truncate m s : no_bar s = true -> no_bar (truncate m s) = true.
Proof. intros H. unfold truncate. destruct (m <? List.length s); [|exact H]. rewrite no_bar_app, (no_bar_firstn _ _ H). reflexivity. Qed.

Definition cell_nb (c : cell) : Prop := no_bar (c_key c) = true.
Definition item_nb (m : nat) (it : item) : Prop := no_bar (it_key it) = true /\ no_bar (truncate m (it_tag it)) = true.

Lemma dset_nb t k d : no_bar k = true -> Forall cell_nb d -> Forall cell_nb (dset_head t k d).
Proof.
  intros Hk. induction 1 as [|c r Hc Hr IH]; cbn; [constructor; [exact Hk|constructor]|].
  destruct (pair_eqb t k (c_tag c) (c_key c)); constructor; auto.
Qed.
Lemma run_nb m its : Forall (item_nb m) its -> forall d d', Forall cell_nb d -> run m d its = Some d' -> Forall cell_nb d'.
Proof.
  induction 1 as [|it r [Hi1 Hi2] Hr IH]; intros d d' Hd H; cbn [run] in H; [inversion H; subst; exact Hd|].
  unfold step in H. destruct (dmem _ _ _); [discriminate|]. apply IH in H; [exact H|]. apply Forall_app. split.
  - destruct (it_new it); [apply dset_nb; assumption|exact Hd].
  - constructor; [exact Hi1|constructor].
Qed.
Lemma scan_nb m l : Forall (fun e => no_bar (e_key e) = true) l -> forall tag, no_bar tag = true -> Forall (item_nb m) (scan m tag l).
Proof.
  induction 1 as [|e r He Hr IH]; intros tag Ht; [constructor|]. cbn [scan].
  assert (Ht1 : no_bar (it_tag (item_of m tag e)) = true).
  { unfold item_of, next_tag. destruct (find_slash (e_key e)) as [[|i]|]; cbn [it_tag]; try exact Ht. apply no_bar_firstn. exact He. }
  constructor; [|apply IH; exact Ht1]. split; [|apply no_bar_truncate; exact Ht1].
  revert Ht1. unfold item_of. destruct (next_tag tag (e_key e)) as [t1 nw]. cbn. intros Ht1. apply no_bar_truncate. unfold display_key.
  destruct (negb (List.length t1 =? 0) && is_substr t1 (e_key e)); [|exact He]. rewrite no_bar_app, (no_bar_skipn _ _ He). reflexivity.
Qed.

Lemma write_cells_nb m l d : Forall (fun e => no_bar (e_key e) = true) l -> key2str m l = Some d -> Forall cell_nb d.
Proof.
  intros Hl H. unfold key2str in H. eapply run_nb; [|constructor|exact H]. apply scan_nb; [|reflexivity].
  eapply Permutation_Forall; [apply sort_perm|]. unfold visible. apply Forall_forall. intros e He. apply filter_In in He.
  rewrite Forall_forall in Hl. apply Hl. apply He.
Qed.

(* (a) whole statement: a dump that is not refused prints a table which, read back, is the dict row by row (cells right-padded to the
   common widths); the key cells of the dict are exactly what the visible keys contribute, one per key, in sorted order *)
Lemma write_reads_back m l d lines : Forall (fun e => no_bar (e_key e) = true) l -> key2str m l = Some d -> write_lines m l = Some lines ->
  parse_table lines = Some (map (fun c => (pad (key_width d) (c_key c), pad (val_width d) (c_val c))) d) /\
  key_cells d = cells_spec m l /\
  (d = [] <-> visible l = []) /\ (d = [] -> lines = []).
Proof.
  intros Hl H Hw. unfold write_lines in Hw. rewrite H in Hw. cbn in Hw. inversion Hw; subst lines. split; [|split; [|split]].
  - apply parse_table_lines. exact (write_cells_nb m l d Hl H).
  - apply write_complete. exact H.
  - pose proof (write_complete m l d H) as Hc. pose proof (write_order m l) as (_ & _ & Hlen). split.
    + intros ->. cbn in Hc. rewrite <- Hc in Hlen. cbn in Hlen. destruct (visible l); [reflexivity|discriminate].
    + intros Hv. unfold key2str in H. rewrite Hv in H. cbn in H. inversion H. reflexivity.
  - intros ->. reflexivity.
Qed.

(* ---------- interface lemmas: the regenerated guards / index arithmetic of HumanOutputFormat.write = the model ---------- *)
Definition find_pos (s : text) : Z := match find_slash s with Some i => Z.of_nat i | None => (-1)%Z end.   (* str.find *)

Lemma frag_next_tag tag key :
  next_tag tag key = if lg_tag_found (find_pos key) then (firstn (Z.to_nat (lg_tag_end (find_pos key))) key, true) else (tag, false).
Proof.
  unfold next_tag, find_pos, lg_tag_found, lg_tag_end. destruct (find_slash key) as [[|i]|]; try reflexivity.
  replace (0 <? Z.of_nat (S i))%Z with true by (symmetry; apply Z.ltb_lt; lia). replace (Z.to_nat (Z.of_nat (S i) + 1)) with (S i + 1) by lia. reflexivity.
Qed.

Lemma frag_display_key tag key :
  display_key tag key = if lg_indent_test (Z.of_nat (List.length tag)) (is_substr tag key) then three ++ skipn (List.length tag) key else key.
Proof.
  unfold display_key, lg_indent_test. destruct (List.length tag) as [|n]; [reflexivity|].
  replace (0 <? Z.of_nat (S n))%Z with true by (symmetry; apply Z.ltb_lt; lia). reflexivity.
Qed.

Lemma frag_empty_table (d : list cell) : lg_empty_table (Z.of_nat (List.length d)) = match d with [] => true | _ :: _ => false end.
Proof. unfold lg_empty_table. destruct d; [reflexivity|]. apply Z.eqb_neq. cbn. lia. Qed.

Lemma frag_frame_width c0 r : let d := c0 :: r in
  exists rows, table_lines d = repeat dash (Z.to_nat (lg_frame_width (Z.of_nat (key_width d)) (Z.of_nat (val_width d)))) :: rows.
Proof.
  intros d. unfold lg_frame_width. replace (Z.to_nat (Z.of_nat (key_width d) + Z.of_nat (val_width d) + 7)) with (key_width d + val_width d + 7) by lia.
  eexists. reflexivity.
Qed.

Lemma frag_pad kw vw c :
  row_line kw vw c = [bar; sp] ++ c_key c ++ repeat sp (Z.to_nat (lg_key_pad (Z.of_nat kw) (Z.of_nat (List.length (c_key c))))) ++ [sp; bar; sp]
                     ++ c_val c ++ repeat sp (Z.to_nat (lg_val_pad (Z.of_nat vw) (Z.of_nat (List.length (c_val c))))) ++ [sp; bar].
Proof.
  unfold row_line, pad, lg_key_pad, lg_val_pad.
  replace (Z.to_nat (Z.of_nat kw - Z.of_nat (List.length (c_key c)))) with (kw - List.length (c_key c)) by lia.
  replace (Z.to_nat (Z.of_nat vw - Z.of_nat (List.length (c_val c)))) with (vw - List.length (c_val c)) by lia.
  rewrite <- !app_assoc. reflexivity.
Qed.

Lemma frag_layout kw vw c c0 r :
  row_line kw vw c = [bar; sp] ++ c_key c ++ repeat sp (Z.to_nat (lg_key_pad (Z.of_nat kw) (Z.of_nat (List.length (c_key c))))) ++ [sp; bar; sp]
                     ++ c_val c ++ repeat sp (Z.to_nat (lg_val_pad (Z.of_nat vw) (Z.of_nat (List.length (c_val c))))) ++ [sp; bar] /\
  (let d := c0 :: r in exists rows, table_lines d = repeat dash (Z.to_nat (lg_frame_width (Z.of_nat (key_width d)) (Z.of_nat (val_width d)))) :: rows) /\
  lg_empty_table (Z.of_nat (List.length (c0 :: r))) = false /\ lg_empty_table (Z.of_nat (List.length (@nil cell))) = true.
Proof. exact (conj (frag_pad kw vw c) (conj (frag_frame_width c0 r) (conj (frag_empty_table (c0 :: r)) (frag_empty_table [])))). Qed.
