From Coq Require Import List QArith Qminmax Qfield Lia Setoid Morphisms ZArith Bool.
From SB3V Require Import Gen.Frag_runningmoments Model.RunningMoments Model.VecNorm Proofs.RunningMomentsProofs.
Import ListNotations.
Local Open Scope Q_scope.

Definition idq (x : Q) : Q := x.

(* ---------- interface lemmas ---------- *)
Lemma frag_vn_guards t no :
  vn_step_obs_guard t no = obs_guard t no /\ vn_reset_obs_guard t no = obs_guard t no /\ vn_step_ret_guard t = t.
Proof. destruct t, no; repeat split. Qed.

Lemma frag_vn_returns_acc ret g r : vn_returns_acc ret g r == ret * g + r.
Proof. unfold vn_returns_acc. ring. Qed.

Lemma frag_vn_returns_restart : inject_Z vn_returns_restart == 0.
Proof. reflexivity. Qed.

Lemma frag_vn_normalize_obs x m s c : vn_normalize_obs x m s c = normalize_s x m s c.
Proof. reflexivity. Qed.
Lemma frag_vn_unnormalize_obs y m s : vn_unnormalize_obs y m s == unnormalize_s y m s.
Proof. unfold vn_unnormalize_obs, unnormalize_s. ring. Qed.
Lemma frag_vn_normalize_reward r s c : vn_normalize_reward r s c = normalize_reward_s r s c.
Proof. reflexivity. Qed.
Lemma frag_vn_unnormalize_reward y s : vn_unnormalize_reward y s == unnormalize_reward_s y s.
Proof. unfold vn_unnormalize_reward, unnormalize_reward_s. ring. Qed.
Lemma frag_vn_norm_reward_guard b : vn_norm_reward_guard b = b.
Proof. reflexivity. Qed.

(* ---------- list plumbing ---------- *)
Lemma nth_map_combine3 {A B C} (f : nat * (A * B) -> C) (a : list A) : forall (b : list B) start i da db dc,
  length a = length b -> (i < length b)%nat ->
  nth i (map f (combine (seq start (length b)) (combine a b))) dc = f ((start + i)%nat, (nth i a da, nth i b db)).
Proof.
  induction a as [|x a IH]; intros [|y b] start i da db dc Hl Hi; cbn [length] in *; try lia.
  destruct i as [|i]; cbn [seq combine map nth].
  - now rewrite Nat.add_0_r.
  - rewrite (IH b (S start) i da db dc) by lia. do 2 f_equal. lia.
Qed.

Lemma nth_map_combine {A B C} (f : A * B -> C) (a : list A) : forall (b : list B) i da db dc,
  (i < length a)%nat -> (i < length b)%nat ->
  nth i (map f (combine a b)) dc = f (nth i a da, nth i b db).
Proof.
  induction a as [|x a IH]; intros [|y b] i da db dc Ha Hb; cbn [length] in *; try lia.
  destruct i as [|i]; cbn [combine map nth]; [reflexivity|]. apply IH; lia.
Qed.

(* ---------- observation statistics ---------- *)
Section Obs.
Context (upd : rms -> list Q -> rms) (red : Q -> Q).

Lemma upd_obs_rms_length p st obs : length (p_chans p) = length (v_obs_rms st) ->
  length (upd_obs_rms upd p st obs) = length (v_obs_rms st).
Proof.
  intros H. unfold upd_obs_rms. destruct (obs_guard _ _); [|reflexivity].
  rewrite map_length, combine_length, combine_length, seq_length, H. lia.
Qed.

Lemma upd_obs_rms_nth p st obs ch d :
  length (p_chans p) = length (v_obs_rms st) -> (ch < length (v_obs_rms st))%nat ->
  nth ch (upd_obs_rms upd p st obs) d =
  if obs_guard (v_training st) (v_norm_obs st) && nth ch (p_chans p) false
  then upd (nth ch (v_obs_rms st) d) (chan_col ch obs) else nth ch (v_obs_rms st) d.
Proof.
  intros Hl Hc. unfold upd_obs_rms. destruct (obs_guard _ _); [|reflexivity].
  rewrite (nth_map_combine3 _ (p_chans p) (v_obs_rms st) 0 ch false d d Hl Hc). cbn [Nat.add andb].
  reflexivity.
Qed.

Lemma vn_op_chans_length p st o : length (p_chans p) = length (v_obs_rms st) ->
  length (v_obs_rms (vn_op upd red p st o)) = length (v_obs_rms st).
Proof. intros H. destruct o; cbn [vn_op v_obs_rms]; try apply upd_obs_rms_length; auto. Qed.

(* for every history: the statistics of a normalised channel are the updates with exactly the observation
   batches returned by reset/step while training and norm_obs were set; other channels are never touched *)
Lemma vn_obs_stats_stream p h : forall st ch d,
  length (p_chans p) = length (v_obs_rms st) -> (ch < length (v_obs_rms st))%nat ->
  nth ch (v_obs_rms (vn_run upd red p st h)) d =
  if nth ch (p_chans p) false
  then fold_left upd (obs_batches ch (v_training st) (v_norm_obs st) h) (nth ch (v_obs_rms st) d)
  else nth ch (v_obs_rms st) d.
Proof.
  induction h as [|o h IH]; intros st ch d Hl Hc; cbn [vn_run fold_left obs_batches].
  - destruct (nth ch (p_chans p) false); reflexivity.
  - fold (vn_run upd red p (vn_op upd red p st o) h).
    assert (Hl' : length (p_chans p) = length (v_obs_rms (vn_op upd red p st o))) by (rewrite vn_op_chans_length; assumption).
    assert (Hc' : (ch < length (v_obs_rms (vn_op upd red p st o)))%nat) by (rewrite vn_op_chans_length; assumption).
    rewrite (IH _ ch d Hl' Hc'). clear IH.
    destruct o as [obs|obs rews dones|t no nr]; cbn [vn_op v_obs_rms v_training v_norm_obs].
    + rewrite (upd_obs_rms_nth p st obs ch d Hl Hc).
      destruct (nth ch (p_chans p) false); [|now rewrite andb_false_r].
      rewrite andb_true_r. destruct (obs_guard (v_training st) (v_norm_obs st)); reflexivity.
    + rewrite (upd_obs_rms_nth p st obs ch d Hl Hc).
      destruct (nth ch (p_chans p) false); [|now rewrite andb_false_r].
      rewrite andb_true_r. destruct (obs_guard (v_training st) (v_norm_obs st)); reflexivity.
    + reflexivity.
Qed.

(* frozen when not training, or when norm_obs is off *)
Lemma vn_obs_frozen p st o : obs_guard (v_training st) (v_norm_obs st) = false ->
  (forall t no nr, o <> OSet t no nr) -> v_obs_rms (vn_op upd red p st o) = v_obs_rms st.
Proof.
  intros G Ho. destruct o; cbn [vn_op v_obs_rms]; unfold upd_obs_rms; rewrite ?G; try reflexivity.
Qed.

Lemma vn_ret_frozen p st o : v_training st = false -> v_ret_rms (vn_op upd red p st o) = v_ret_rms st.
Proof. intros G. destruct o; cbn [vn_op v_ret_rms]; rewrite ?G; reflexivity. Qed.

(* get_original_obs / get_original_reward: raw values of the latest step (reset: observation only) *)
Lemma vn_original_is_raw_latest p st obs rews dones :
  v_old_obs (vn_op upd red p st (OStep obs rews dones)) = obs /\
  v_old_rew (vn_op upd red p st (OStep obs rews dones)) = rews /\
  v_old_obs (vn_op upd red p st (OReset obs)) = obs.
Proof. repeat split. Qed.
End Obs.

(* with RunningMeanStd.update: the statistics equal the two-pass moments of the whole stream merged with the
   prior (weight 1e-4, mean 0, variance 1), whatever the batching (n_envs, resets, toggles) was *)
Lemma vn_obs_stats_are_stream_moments red p h n_envs t no nr ch :
  (ch < length (p_chans p))%nat -> nth ch (p_chans p) false = true ->
  Forall (fun b => b <> []) (obs_batches ch t no h) ->
  let u := nth ch (v_obs_rms (vn_run update red p (vn_init p n_envs t no nr) h)) (rms_init eps_default) in
  let xs := concat (obs_batches ch t no h) in
  r_count u == eps_default + qlen xs /\
  r_mean u == qsuml xs / (eps_default + qlen xs) /\
  r_var u == (eps_default + sumsq xs) / (eps_default + qlen xs) - r_mean u * r_mean u.
Proof.
  intros Hc Hn Hall. cbn zeta.
  assert (Hl : length (p_chans p) = length (v_obs_rms (vn_init p n_envs t no nr))) by (cbn; now rewrite map_length).
  rewrite (vn_obs_stats_stream update red p h _ ch _ Hl) by (rewrite <- Hl; exact Hc).
  rewrite Hn. cbn [vn_init v_training v_norm_obs v_obs_rms].
  assert (E : nth ch (map (fun _ : bool => rms_init eps_default) (p_chans p)) (rms_init eps_default) = rms_init eps_default).
  { clear. revert ch. induction (p_chans p) as [|c l IH]; intros [|ch]; cbn; auto. }
  rewrite E. apply (stats_with_prior eps_default); [reflexivity|exact Hall].
Qed.

(* ---------- discounted returns ---------- *)
Definition wf_op (n : nat) (o : vnop) : Prop :=
  match o with OStep _ rews dones => length rews = n /\ length dones = n | _ => True end.

Lemma disc_snoc g acc r : disc g (acc ++ [r]) = disc g acc * g + r.
Proof. unfold disc. now rewrite fold_left_app. Qed.

(* while training: the accumulator of env i is the discounted sum of its rewards since its last episode end
   or the last reset (and it restarts from 0 there) *)
Lemma vn_returns_closed_form upd p h : forall st i acc,
  v_training st = true -> Forall (fun o => wf_op (length (v_returns st)) o /\ forall t no nr, o <> OSet t no nr) h ->
  (i < length (v_returns st))%nat ->
  nth i (v_returns st) 0 = disc (p_gamma p) acc ->
  nth i (v_returns (vn_run upd idq p st h)) 0 = disc (p_gamma p) (rewards_since i acc h).
Proof.
  induction h as [|o h IH]; intros st i acc Ht Hall Hi Hacc; cbn [vn_run fold_left rewards_since]; [exact Hacc|].
  fold (vn_run upd idq p (vn_op upd idq p st o) h).
  inversion Hall as [|? ? [Hw Hns] Hrest]; subst.
  destruct o as [obs|obs rews dones|t no nr]; [| |exfalso; eapply Hns; reflexivity].
  - apply IH; cbn [vn_op v_training v_returns]; try assumption.
    + rewrite map_length. exact Hrest.
    + rewrite map_length. exact Hi.
    + assert (Z0 : forall (l : list Q) k, nth k (map (fun _ : Q => 0) l) 0 = 0) by (induction l; intros [|k]; cbn; auto).
      rewrite Z0. reflexivity.
  - destruct Hw as [Hr Hd].
    assert (Hlen : length (v_returns (vn_op upd idq p st (OStep obs rews dones))) = length (v_returns st)).
    { cbn [vn_op v_returns]. rewrite Ht. unfold restart, acc_returns.
      rewrite map_length, combine_length, map_length, combine_length. lia. }
    assert (Hnth : nth i (v_returns (vn_op upd idq p st (OStep obs rews dones))) 0
                   = if nth i dones false then 0 else nth i (v_returns st) 0 * p_gamma p + nth i rews 0).
    { cbn [vn_op v_returns]. rewrite Ht. unfold restart.
      rewrite (nth_map_combine _ _ dones i 0 false 0) by (unfold acc_returns; rewrite ?map_length, ?combine_length; lia).
      cbn [fst snd]. destruct (nth i dones false); [reflexivity|].
      unfold acc_returns. rewrite (nth_map_combine _ _ rews i 0 0 0) by lia. reflexivity. }
    destruct (nth i dones false) eqn:Ed.
    + apply IH.
      * cbn [vn_op v_training]. exact Ht.
      * rewrite Hlen. exact Hrest.
      * rewrite Hlen. exact Hi.
      * rewrite Hnth. reflexivity.
    + apply IH.
      * cbn [vn_op v_training]. exact Ht.
      * rewrite Hlen. exact Hrest.
      * rewrite Hlen. exact Hi.
      * rewrite Hnth, disc_snoc, Hacc. reflexivity.
Qed.

(* the return statistics are the updates with exactly the return vectors of the training steps *)
Fixpoint ret_batches (g : Q) (training : bool) (rets : list Q) (h : list vnop) : list (list Q) :=
  match h with
  | [] => []
  | OSet t _ _ :: rest => ret_batches g t rets rest
  | OReset _ :: rest => ret_batches g training (map (fun _ => 0) rets) rest
  | OStep _ rews dones :: rest =>
      if training
      then let r' := acc_returns idq g rets rews in r' :: ret_batches g training (restart r' dones) rest
      else ret_batches g training (restart rets dones) rest
  end.

Lemma vn_ret_stats_stream upd p h : forall st,
  v_ret_rms (vn_run upd idq p st h)
  = fold_left upd (ret_batches (p_gamma p) (v_training st) (v_returns st) h) (v_ret_rms st).
Proof.
  induction h as [|o h IH]; intros st; cbn [vn_run fold_left ret_batches]; [reflexivity|].
  fold (vn_run upd idq p (vn_op upd idq p st o) h). rewrite IH. clear IH.
  destruct o as [obs|obs rews dones|t no nr]; cbn [vn_op v_training v_returns v_ret_rms]; try reflexivity.
  destruct (v_training st); reflexivity.
Qed.

(* ---------- transforms ---------- *)
Lemma clipq_inside y c : - c <= y -> y <= c -> clipq y c == y.
Proof.
  intros H1 H2. unfold clipq. rewrite (Q.max_l y (- c)) by exact H1. apply Q.min_l. exact H2.
Qed.

Lemma clipq_bounds y c : 0 <= c -> - c <= clipq y c /\ clipq y c <= c.
Proof.
  intros Hc. unfold clipq. split.
  - apply Q.min_glb; [apply Q.le_max_r|].
    apply Qle_trans with 0; [|exact Hc]. rewrite <- (Qopp_involutive 0). apply Qopp_le_compat. exact Hc.
  - apply Q.le_min_r.
Qed.

Lemma unnormalize_normalize x mean s c :
  0 < s -> - c <= (x - mean) / s -> (x - mean) / s <= c ->
  unnormalize_s (normalize_s x mean s c) mean s == x.
Proof.
  intros Hs H1 H2. unfold unnormalize_s, normalize_s. rewrite clipq_inside by assumption.
  field. intros E. rewrite E in Hs. discriminate.
Qed.

Lemma unnormalize_normalize_reward r s c :
  0 < s -> - c <= r / s -> r / s <= c ->
  unnormalize_reward_s (normalize_reward_s r s c) s == r.
Proof.
  intros Hs H1 H2. unfold unnormalize_reward_s, normalize_reward_s. rewrite clipq_inside by assumption.
  field. intros E. rewrite E in Hs. discriminate.
Qed.

Lemma normalize_clipped x mean s c : 0 <= c -> - c <= normalize_s x mean s c /\ normalize_s x mean s c <= c.
Proof. intros. unfold normalize_s. now apply clipq_bounds. Qed.

(* ---------- pickling and synchronisation keep every statistic ---------- *)
Lemma pickle_preserves_stats st n :
  v_obs_rms (unpickle_pickle st n) = v_obs_rms st /\ v_ret_rms (unpickle_pickle st n) = v_ret_rms st /\
  v_training (unpickle_pickle st n) = v_training st /\ v_norm_obs (unpickle_pickle st n) = v_norm_obs st /\
  v_norm_reward (unpickle_pickle st n) = v_norm_reward st /\ v_returns (unpickle_pickle st n) = repeat 0 n.
Proof. repeat split. Qed.

Lemma sync_copies_all src dst :
  v_obs_rms (sync src dst) = v_obs_rms src /\ v_ret_rms (sync src dst) = v_ret_rms src /\
  v_returns (sync src dst) = v_returns dst /\ v_training (sync src dst) = v_training dst.
Proof. repeat split. Qed.

(* ---------- terminal observations (extension) ---------- *)
Lemma frag_vn_terminal done has :
  vn_term_skip done = negb done /\ vn_term_present has = has /\ forall b, vn_norm_obs_guard b = b.
Proof. repeat split. Qed.

(* the terminal observation of a finished sub-environment gets exactly the transform of the returned observations:
   same function, same (post-update) statistics, same clip; other sub-environments' infos are not touched *)
Lemma terminal_obs_same_transform p st obs rews dones terms ss sr i x :
  nth_error dones i = Some true -> nth_error terms i = Some (Some x) ->
  let '(st', out) := step_outputs p st obs rews dones terms ss sr in
  nth_error (o_term out) i = Some (Some (normalize_obs_model p st' ss x)) /\
  (forall j o, nth_error obs j = Some o -> nth_error (o_obs out) j = Some (normalize_obs_model p st' ss o)) /\
  v_obs_rms st' = upd_obs_rms update p st obs.
Proof.
  intros Hd Ht. unfold step_outputs. cbn [o_term o_obs].
  split; [|split; [|reflexivity]].
  - assert (H : nth_error (combine dones terms) i = Some (true, Some x)).
    { revert i terms Hd Ht. induction dones as [|d dones IH]; intros [|i] [|t terms] Hd Ht; cbn in *; try discriminate.
      - inversion Hd; inversion Ht; subst. reflexivity.
      - now apply IH. }
    erewrite map_nth_error by exact H. reflexivity.
  - intros j o Ho. now apply map_nth_error.
Qed.

Lemma terminal_obs_untouched_when_not_done p st ss t : term_out p st ss false t = t.
Proof. reflexivity. Qed.

(* a channel of a key that is not normalised (or norm_obs off) passes through unchanged *)
Lemma norm_vec_passthrough p chans : forall ms ss x, length ms = length chans -> length ss = length chans -> length x = length chans ->
  norm_vec p false chans ms ss x = x.
Proof.
  induction chans as [|c chans IH]; intros [|m ms] [|s ss] [|v x] H1 H2 H3; cbn in *; try discriminate; try reflexivity.
  f_equal. apply IH; congruence.
Qed.

(* ---------- review items: per-key pass-through; the executable (reduced) run ---------- *)
(* with norm_obs ON, a channel of a key that is not normalised is returned unchanged *)
Lemma per_key_passthrough p : forall chans ms ss x ch,
  length ms = length chans -> length ss = length chans -> length x = length chans ->
  nth ch chans true = false -> nth ch (norm_vec p true chans ms ss x) 0 = nth ch x 0.
Proof.
  induction chans as [|c chans IH]; intros [|m ms] [|s ss] [|v x] ch H1 H2 H3 Hc; cbn in *; try discriminate; try reflexivity.
  destruct ch as [|ch]; cbn in *; [subst c; reflexivity|]. apply IH; congruence.
Qed.

(* ... and a channel of a normalised key gets the clipped standardised value with ITS statistics and hint *)
Lemma per_key_normalised p : forall chans ms ss x ch,
  length ms = length chans -> length ss = length chans -> length x = length chans -> (ch < length chans)%nat ->
  nth ch chans false = true ->
  nth ch (norm_vec p true chans ms ss x) 0
  = normalize_s (nth ch x 0) (r_mean (nth ch ms (rms_init eps_default))) (nth ch ss 0) (p_clip_obs p).
Proof.
  induction chans as [|c chans IH]; intros [|m ms] [|s ss] [|v x] ch H1 H2 H3 Hlt Hc; cbn in *; try discriminate; try lia.
  destruct ch as [|ch]; cbn in *; [subst c; reflexivity|]. apply IH; try congruence. lia.
Qed.

(* the return accumulator's closed form for ANY reduction that preserves the value (Qred in the executable run,
   the identity in the specification run), up to == *)
Lemma vn_returns_closed_form_red upd (red : Q -> Q) p h :
  (forall x, red x == x) ->
  forall st i acc,
  v_training st = true -> Forall (fun o => wf_op (length (v_returns st)) o /\ forall t no nr, o <> OSet t no nr) h ->
  (i < length (v_returns st))%nat ->
  nth i (v_returns st) 0 == disc (p_gamma p) acc ->
  nth i (v_returns (vn_run upd red p st h)) 0 == disc (p_gamma p) (rewards_since i acc h).
Proof.
  intros Hred. induction h as [|o h IH]; intros st i acc Ht Hall Hi Hacc; cbn [vn_run fold_left rewards_since]; [exact Hacc|].
  fold (vn_run upd red p (vn_op upd red p st o) h).
  inversion Hall as [|? ? [Hw Hns] Hrest]; subst.
  destruct o as [obs|obs rews dones|t no nr]; [| |exfalso; eapply Hns; reflexivity].
  - apply IH; cbn [vn_op v_training v_returns]; try assumption.
    + rewrite map_length. exact Hrest.
    + rewrite map_length. exact Hi.
    + assert (Z0 : forall (l : list Q) k, nth k (map (fun _ : Q => 0) l) 0 = 0) by (induction l; intros [|k]; cbn; auto).
      rewrite Z0. reflexivity.
  - destruct Hw as [Hr Hd].
    assert (Hlen : length (v_returns (vn_op upd red p st (OStep obs rews dones))) = length (v_returns st)).
    { cbn [vn_op v_returns]. rewrite Ht. unfold restart, acc_returns.
      rewrite map_length, combine_length, map_length, combine_length. lia. }
    assert (Hnth : nth i (v_returns (vn_op upd red p st (OStep obs rews dones))) 0
                   = if nth i dones false then 0 else red (nth i (v_returns st) 0 * p_gamma p + nth i rews 0)).
    { cbn [vn_op v_returns]. rewrite Ht. unfold restart.
      rewrite (nth_map_combine _ _ dones i 0 false 0) by (unfold acc_returns; rewrite ?map_length, ?combine_length; lia).
      cbn [fst snd]. destruct (nth i dones false); [reflexivity|].
      unfold acc_returns. rewrite (nth_map_combine _ _ rews i 0 0 0) by lia. reflexivity. }
    destruct (nth i dones false) eqn:Ed.
    + apply IH.
      * cbn [vn_op v_training]. exact Ht.
      * rewrite Hlen. exact Hrest.
      * rewrite Hlen. exact Hi.
      * rewrite Hnth. reflexivity.
    + apply IH.
      * cbn [vn_op v_training]. exact Ht.
      * rewrite Hlen. exact Hrest.
      * rewrite Hlen. exact Hi.
      * rewrite Hnth, disc_snoc, Hred, Hacc. reflexivity.
Qed.

Lemma vn_returns_closed_form_executable p h st i acc :
  v_training st = true -> Forall (fun o => wf_op (length (v_returns st)) o /\ forall t no nr, o <> OSet t no nr) h ->
  (i < length (v_returns st))%nat ->
  nth i (v_returns st) 0 == disc (p_gamma p) acc ->
  nth i (v_returns (vn_run update_red Qred p st h)) 0 == disc (p_gamma p) (rewards_since i acc h).
Proof. apply vn_returns_closed_form_red. exact Qred_correct. Qed.

(* ---------- model mutation score: unnormalize per key; the comparators of the trace checker pinned ---------- *)
(* unnormalize_obs: a channel of a key that is not normalised (or norm_obs off) passes through; a normalised one gets y*s + mean *)
Lemma norm_unvec_off p : forall chans ms ss y, length ms = length chans -> length ss = length chans -> length y = length chans ->
  norm_unvec p false chans ms ss y = y.
Proof.
  induction chans as [|c chans IH]; intros [|m ms] [|s ss] [|v y] H1 H2 H3; cbn in *; try discriminate; try reflexivity.
  f_equal. apply IH; congruence.
Qed.

Lemma norm_unvec_per_key p : forall chans ms ss y ch,
  length ms = length chans -> length ss = length chans -> length y = length chans -> (ch < length chans)%nat ->
  nth ch (norm_unvec p true chans ms ss y) 0
  = if nth ch chans false then unnormalize_s (nth ch y 0) (r_mean (nth ch ms (rms_init eps_default))) (nth ch ss 0) else nth ch y 0.
Proof.
  induction chans as [|c chans IH]; intros [|m ms] [|s ss] [|v y] ch H1 H2 H3 Hlt; cbn in *; try discriminate; try lia.
  destruct ch as [|ch]; cbn; [destruct c; reflexivity|]. apply IH; try congruence. lia.
Qed.

(* a concrete step: 1 env, 1 normalised channel, statistics (0, 1, 1e-4), eps 0, hint 1; observation 3 (done), terminal 5, reward 2 *)
Definition pin_p : vnp := mk_vnp 10 10 (1 # 2) 0 [true].
Definition pin_st : vn := vn_op update_red Qred pin_p (vn_init pin_p 1 false true true) (OStep [[3]] [2] [true]).
Definition pin_ck (term_y unn_rew : Q) (out : list Q) : opcheck :=
  mk_ck [Some (0, 1, eps_default, 1)] (0, 1, eps_default, 1) [0] [out] [Some ([5], [term_y])] [[3]] [2] [[3]] [2] [unn_rew].

Example check_state_accepts : check_state tol9 pin_p pin_st (OStep [[3]] [2] [true]) (pin_ck 5 2 [3]) = [true; true; true; true; true; true; true].
Proof. vm_compute. reflexivity. Qed.
(* a wrong terminal observation, a wrong unnormalised reward, a wrong returned observation are each REJECTED (and only there) *)
Example check_state_rejects_terminal : check_state tol9 pin_p pin_st (OStep [[3]] [2] [true]) (pin_ck 6 2 [3]) = [true; true; true; false; true; true; true].
Proof. vm_compute. reflexivity. Qed.
Example check_state_rejects_unnorm_reward : check_state tol9 pin_p pin_st (OStep [[3]] [2] [true]) (pin_ck 5 7 [3]) = [true; true; true; true; true; false; true].
Proof. vm_compute. reflexivity. Qed.
Example check_state_rejects_observation : nth 3 (check_state tol9 pin_p pin_st (OStep [[3]] [2] [true]) (pin_ck 5 2 [4])) true = false.
Proof. vm_compute. reflexivity. Qed.

(* a wrong hint for the return statistics is rejected even when the returned reward is consistent with it; a sub-environment that is
   not done carries no terminal observation (None) and is accepted *)
Example check_state_rejects_reward_hint :
  check_state tol9 pin_p pin_st (OStep [[3]] [2] [true])
    (mk_ck [Some (0, 1, eps_default, 1)] (0, 1, eps_default, 2) [0] [[3]] [Some ([5], [5])] [[3]] [1] [[3]] [2] [2])
  = [true; true; true; true; false; true; true].
Proof. vm_compute. reflexivity. Qed.
Definition pin_st2 : vn := vn_op update_red Qred pin_p (vn_init pin_p 1 false true true) (OStep [[3]] [2] [false]).
Example check_state_accepts_not_done :
  check_state tol9 pin_p pin_st2 (OStep [[3]] [2] [false])
    (mk_ck [Some (0, 1, eps_default, 1)] (0, 1, eps_default, 1) [0] [[3]] [None] [[3]] [2] [[3]] [2] [2])
  = [true; true; true; true; true; true; true].
Proof. vm_compute. reflexivity. Qed.

(* the original observation / reward (get_original_obs, get_original_reward) must be the raw values: wrong ones are rejected; a reset carries no reward *)
Example check_state_rejects_original_obs :
  nth 6 (check_state tol9 pin_p pin_st (OStep [[3]] [2] [true])
           (mk_ck [Some (0, 1, eps_default, 1)] (0, 1, eps_default, 1) [0] [[3]] [Some ([5], [5])] [[3]] [2] [[4]] [2] [2])) true = false /\
  nth 6 (check_state tol9 pin_p pin_st (OStep [[3]] [2] [true])
           (mk_ck [Some (0, 1, eps_default, 1)] (0, 1, eps_default, 1) [0] [[3]] [Some ([5], [5])] [[3]] [2] [[3]] [9] [2])) true = false.
Proof. vm_compute. split; reflexivity. Qed.
Definition pin_st3 : vn := vn_op update_red Qred pin_p (vn_init pin_p 1 false true true) (OReset [[3]]).
Example check_state_accepts_reset :
  check_state tol9 pin_p pin_st3 (OReset [[3]]) (mk_ck [Some (0, 1, eps_default, 1)] (0, 1, eps_default, 1) [0] [[3]] [] [[3]] [] [[3]] [] [])
  = [true; true; true; true; true; true; true].
Proof. vm_compute. reflexivity. Qed.
(* a hint that is off by 1e-3 is rejected although the returned observation is consistent with it (tolerance 4*tol + 1e-8) *)
Example check_state_rejects_obs_hint :
  nth 3 (check_state tol9 pin_p pin_st (OStep [[3]] [2] [true])
           (mk_ck [Some (0, 1, eps_default, 1001 # 1000)] (0, 1, eps_default, 1) [0] [[3000 # 1001]] [Some ([5], [5000 # 1001])] [] [2] [[3]] [2] [2])) true = false.
Proof. vm_compute. reflexivity. Qed.
(* the threshold of the hint is 4*tol + 1e-8 (1.4e-8 here): s*s = 1 + 1e-8 is accepted, s*s = 1 + 2e-8 is rejected *)
Example check_state_hint_threshold :
  let ck (s : Q) := mk_ck [Some (0, 1, eps_default, s)] (0, 1, eps_default, 1) [0] [[3 / s]] [Some ([5], [5 / s])] [] [2] [[3]] [2] [2] in
  nth 3 (check_state tol9 pin_p pin_st (OStep [[3]] [2] [true]) (ck (200000001 # 200000000))) false = true /\
  nth 3 (check_state tol9 pin_p pin_st (OStep [[3]] [2] [true]) (ck (100000001 # 100000000))) true = false.
Proof. vm_compute. split; reflexivity. Qed.
(* statistics: every component of every channel is compared *)
Example stats_pins :
  rms_close tol9 tol9 (mk_rms 1 2 3) 1 2 3 = true /\ rms_close tol9 tol9 (mk_rms 1 2 3) 0 2 3 = false /\
  rms_close tol9 tol9 (mk_rms 1 2 3) 1 0 3 = false /\ rms_close tol9 tol9 (mk_rms 1 2 3) 1 2 0 = false /\
  stats_ok tol9 [mk_rms 1 2 3; mk_rms 4 5 6] [Some (1, 2, 3, 0); Some (4, 5, 6, 0)] = true /\
  stats_ok tol9 [mk_rms 1 2 3; mk_rms 4 5 6] [Some (1, 2, 3, 0); Some (4, 5, 7, 0)] = false /\
  stats_ok tol9 [mk_rms 1 2 3; mk_rms 4 5 6] [Some (0, 2, 3, 0); Some (4, 5, 6, 0)] = false /\
  stats_ok tol9 [mk_rms 1 2 3; mk_rms 4 5 6] [None; Some (4, 5, 6, 0)] = true /\ stats_ok tol9 [mk_rms 1 2 3] [] = false.
Proof. repeat split. Qed.
(* the tolerances themselves: just inside / just outside *)
Example tolerance_pins :
  close5 1 (1 + (1 # 100000)) = true /\ close5 1 (1 + (15 # 1000000)) = false /\ close5 0 (1 # 1000000) = true /\ close5 0 (15 # 10000000) = false /\
  rms_close tol9 tol9 (mk_rms 1 1 1) (1 + (15 # 10000000000)) 1 1 = true /\ rms_close tol9 tol9 (mk_rms 1 1 1) (1 + (3 # 1000000000)) 1 1 = false.
Proof. repeat split. Qed.

Example all2_pins :
  all2 Qeq_bool [1; 2] [1; 2] = true /\ all2 Qeq_bool [1; 2] [1; 3] = false /\ all2 Qeq_bool [1; 2] [2; 2] = false /\
  all2 Qeq_bool [1] [1; 2] = false /\ all2 Qeq_bool [1; 2] [1] = false /\ all2 Qeq_bool [] [] = true.
Proof. repeat split. Qed.
Example hints_ok_pins :
  hints_ok tol9 0 [] [] = true /\ hints_ok tol9 0 [rms_init eps_default] [Some (0, 1, 1, 1)] = true /\
  hints_ok tol9 0 [rms_init eps_default] [Some (0, 1, 1, 2)] = false /\ hints_ok tol9 0 [rms_init eps_default] [None] = true.
Proof. repeat split. Qed.
Example sqrt_hint_pins : sqrt_hint_ok tol9 3 9 0 = true /\ sqrt_hint_ok tol9 3 8 0 = false /\ sqrt_hint_ok tol9 (-3) 9 0 = false /\
  sqrt_hint_ok tol9 3 8 1 = true /\ sqrt_hint_ok tol9 3 10 1 = false.
Proof. repeat split. Qed.
Example norm_unvec_pins :
  norm_unvec pin_p true [false; true] [rms_init 1; mk_rms 2 1 1] [1; 3] [5; 5] = [5; 5 * 3 + 2].
Proof. reflexivity. Qed.
