(* Proofs about Model/OffPolicyCollect.v *)
From Coq Require Import ZArith QArith Qminmax List Bool Lia Lqa Qfield.
From SB3V Require Import Model.Script Lib.QUtil Lib.ListUtil Gen.Frag_offpolicy Model.OnPolicyCollect Proofs.OnPolicyCollectProofs
  Model.OffPolicyCollect.
Import ListNotations.
Local Open Scope Z_scope.

Ltac inv H := inversion H; subst; clear H.

(* ------------------------------------------------------------------ fragments vs model *)

Lemma frag_scale lo hi a : (off_scale lo hi a == scale lo hi a)%Q.
Proof. unfold off_scale, scale, Qdiv. ring. Qed.

Lemma frag_off_unscale lo hi x : (off_unscale lo hi x == unscale lo hi x)%Q.
Proof. unfold off_unscale, unscale. ring. Qed.

Lemma frag_noise_clip s z : (off_noise_clip s z == clip1 (s + z))%Q.
Proof.
  unfold off_noise_clip, clip1.
  assert (E1 : (inject_Z (- (1)) == -1)%Q) by reflexivity.
  assert (E2 : (inject_Z 1 == 1)%Q) by reflexivity.
  rewrite E1, E2. reflexivity.
Qed.

Lemma frag_noise_guard b : off_noise_guard b = b.
Proof. reflexivity. Qed.

Lemma frag_use_terminal o :
  stored_next o = if off_use_terminal (vo_done o) (has_term o) then match vo_term o with Some t => t | None => vo_obs o end else vo_obs o.
Proof.
  unfold stored_next, off_use_terminal, has_term. destruct (vo_term o), (vo_done o); reflexivity.
Qed.

Lemma frag_off_warmup nt ls sde sdew : off_warmup nt ls sde sdew = ((nt <? ls) && negb (sde && sdew))%bool.
Proof. reflexivity. Qed.

Lemma frag_off_counters nt ne steps eps total f :
  off_count nt ne steps = (nt + ne, steps + 1) /\ off_episode_inc eps = eps + 1 /\
  off_learn_guard nt total = (nt <? total) /\
  off_more_step steps f = off_more (TfStep f) steps eps /\ off_more_episode eps f = off_more (TfEpis f) steps eps.
Proof.
  unfold off_count, off_episode_inc, off_learn_guard, off_more_step, off_more_episode, off_more.
  repeat split; try reflexivity; try (f_equal; lia).
Qed.

(* ------------------------------------------------------------------ the true successor *)

(* what is stored as next observation is the step's own observation: the terminal observation when the episode
   ended - never the auto-reset observation the vec env returned *)
Theorem stored_next_is_step_observation sc c :
  stored_next (snd (vstep1 sc c)) = st_tag (snd (env_step sc c)).
Proof.
  unfold vstep1, stored_next. destruct (env_step sc c) as [c1 st]. cbn [snd].
  destruct (st_term st || st_trunc st)%bool; [destruct (env_reset sc c1) as [[c2 ot] ri]|]; reflexivity.
Qed.

Theorem stored_flags sc c :
  let st := snd (env_step sc c) in
  let o := snd (vstep1 sc c) in
  vo_done o = (st_term st || st_trunc st)%bool /\ vo_tl o = (st_trunc st && negb (st_term st))%bool /\ vo_r4 o = st_r4 st.
Proof.
  unfold vstep1. destruct (env_step sc c) as [c1 st]. cbn [snd].
  destruct (st_term st || st_trunc st)%bool eqn:D; [destruct (env_reset sc c1) as [[c2 ot] ri]|]; cbn; auto.
Qed.

(* ------------------------------------------------------------------ the add log *)

Definition to_c (st : ostate) : cstate := mkC (os_cur st) (os_obs st) true.

Definition spec_trans (ak : akind) (sc : script) (st : ostate) (g : nat) (o : orc) : trans :=
  let out := out_at sc (os_cur st) g in
  mkT (obs_at sc (to_c st) g) (stored_next out) (buffer_action ak o) (vo_r4 out) (vo_done out) (vo_tl out)
      (off_env_action ak (buffer_action ak o)).

Definition ostep (sc : script) (st : ostate) : ostate :=
  mkOS (fst (vstep1 sc (os_cur st))) (vo_obs (snd (vstep1 sc (os_cur st)))).

Lemma off_step_eq ak sc st o :
  off_step ak sc st o = (ostep sc st, spec_trans ak sc st 0 o, vo_done (snd (vstep1 sc (os_cur st)))).
Proof.
  unfold off_step, ostep, spec_trans, out_at. cbn [env_after obs_at to_c cs_obs].
  destruct (vstep1 sc (os_cur st)) as [c' out]. reflexivity.
Qed.

Lemma off_collect_cons ak sc st o r :
  off_collect ak sc st (o :: r) =
  (fst (off_collect ak sc (ostep sc st) r), spec_trans ak sc st 0 o :: snd (off_collect ak sc (ostep sc st) r)).
Proof.
  cbn [off_collect]. rewrite off_step_eq. destruct (off_collect ak sc (ostep sc st) r). reflexivity.
Qed.

Lemma to_c_ostep sc st : obs_at sc (to_c (ostep sc st)) = obs_at sc (step_state sc (to_c st)).
Proof. reflexivity. Qed.

Lemma spec_trans_shift ak sc st g o : spec_trans ak sc (ostep sc st) g o = spec_trans ak sc st (S g) o.
Proof.
  unfold spec_trans. rewrite to_c_ostep. destruct (obs_start_shift sc (to_c st) g) as [A _]. rewrite A.
  unfold ostep at 1 2 3 4. cbn [os_cur]. rewrite <- !out_at_shift. reflexivity.
Qed.

(* the g-th add of a column, for every script, oracle and number of steps *)
Theorem off_collect_trans ak sc : forall os st g o,
  nth_error os g = Some o ->
  nth_error (snd (off_collect ak sc st os)) g = Some (spec_trans ak sc st g o).
Proof.
  induction os as [|q r IH]; intros st g o H; [destruct g; discriminate H|].
  rewrite off_collect_cons. cbn [snd]. destruct g as [|g].
  - inv H. reflexivity.
  - cbn [nth_error] in *. rewrite (IH _ _ _ H), spec_trans_shift. reflexivity.
Qed.

Theorem off_collect_length ak sc : forall os st, length (snd (off_collect ak sc st os)) = length os.
Proof.
  induction os as [|q r IH]; intros st; [reflexivity|]. rewrite off_collect_cons. cbn [snd length]. rewrite IH. reflexivity.
Qed.

Lemma off_collect_app ak sc : forall a b st,
  off_collect ak sc st (a ++ b) =
  (fst (off_collect ak sc (fst (off_collect ak sc st a)) b),
   snd (off_collect ak sc st a) ++ snd (off_collect ak sc (fst (off_collect ak sc st a)) b)).
Proof.
  induction a as [|q r IH]; intros b st.
  - cbn. destruct (off_collect ak sc st b); reflexivity.
  - cbn [app]. rewrite !off_collect_cons, IH. reflexivity.
Qed.

(* ------------------------------------------------------------------ the loops only choose a prefix of the oracle *)

Lemma off_rollout_prefix ak sc ne tf : forall orcs steps eps os nt s l,
  off_rollout ak sc ne tf orcs steps eps os nt = (s, l) ->
  exists k, (k <= length orcs)%nat /\
    l = snd (off_collect ak sc os (firstn k orcs)) /\
    l_os s = fst (off_collect ak sc os (firstn k orcs)) /\
    l_orcs s = skipn k orcs /\ l_nt s = nt + Z.of_nat k * ne.
Proof.
  induction orcs as [|o r IH]; intros steps eps os nt s l H; cbn [off_rollout] in H.
  - destruct (off_more tf steps eps); inv H; exists O; cbn; repeat split; auto; lia.
  - destruct (off_more tf steps eps).
    + rewrite off_step_eq in H.
      match type of H with context [off_rollout ?a ?b ?c ?d ?e ?f ?g ?h ?i] =>
        destruct (off_rollout a b c d e f g h i) as [s1 l1] eqn:E end.
      inv H. apply IH in E. destruct E as (k & Hk & -> & A & B & C).
      exists (S k). cbn [firstn skipn length]. rewrite off_collect_cons. cbn [fst snd].
      repeat split; auto; lia.
    + inv H. exists O. cbn. repeat split; auto; lia.
Qed.

Lemma off_learn_loop_prefix ak sc ne tf total : forall fuel s s' l,
  off_learn_loop fuel ak sc ne tf total s = (s', l) ->
  exists k, (k <= length (l_orcs s))%nat /\
    l = snd (off_collect ak sc (l_os s) (firstn k (l_orcs s))) /\
    l_os s' = fst (off_collect ak sc (l_os s) (firstn k (l_orcs s))) /\
    l_orcs s' = skipn k (l_orcs s) /\ l_nt s' = l_nt s + Z.of_nat k * ne.
Proof.
  induction fuel as [|f IH]; intros s s' l H; cbn [off_learn_loop] in H.
  - destruct (l_nt s <? total); inv H; exists O; cbn; repeat split; auto; lia.
  - destruct (l_nt s <? total); [|inv H; exists O; cbn; repeat split; auto; lia].
    destruct (off_rollout ak sc ne tf (l_orcs s) 0 0 (l_os s) (l_nt s)) as [s1 l1] eqn:E.
    apply off_rollout_prefix in E. destruct E as (k & Hk & -> & A & B & C).
    destruct (l_exh s1).
    + inv H. exists k. auto.
    + destruct (off_learn_loop f ak sc ne tf total s1) as [s2 l2] eqn:E2. inv H.
      apply IH in E2. destruct E2 as (k2 & Hk2 & -> & A2 & B2 & C2).
      rewrite B in *. rewrite A in *.
      assert (L : length (skipn k (l_orcs s)) = (length (l_orcs s) - k)%nat) by apply skipn_length.
      exists (k + k2)%nat.
      assert (F : firstn (k + k2) (l_orcs s) = firstn k (l_orcs s) ++ firstn k2 (skipn k (l_orcs s))).
      { rewrite <- (firstn_skipn k (l_orcs s)) at 1. rewrite firstn_app, firstn_firstn.
        rewrite firstn_length. replace (Nat.min (k + k2) k) with k by lia.
        replace (k + k2 - Nat.min k (length (l_orcs s)))%nat with k2 by lia. reflexivity. }
      rewrite F, off_collect_app. cbn [fst snd].
      repeat split; auto; try lia.
      rewrite B2. apply skipn_skipn_add.
Qed.

(* every learn(): the adds are exactly the ground-truth log of the steps taken - once each, in order -
   and the remaining oracle entries are untouched *)
Theorem off_learn_log ak sc ne tf c os nt s l :
  off_learn ak sc ne tf c os nt = (s, l) ->
  let os0 := if oc_env_reset c then os_reset sc os else os in
  exists k, (k <= length (oc_orcs c))%nat /\
    l = snd (off_collect ak sc os0 (firstn k (oc_orcs c))) /\
    l_os s = fst (off_collect ak sc os0 (firstn k (oc_orcs c))) /\
    l_orcs s = skipn k (oc_orcs c) /\
    l_nt s = (if oc_reset c then 0 else nt) + Z.of_nat k * ne.
Proof.
  unfold off_learn. intros H. apply off_learn_loop_prefix in H. cbn [l_os l_orcs l_nt] in H. exact H.
Qed.

(* ------------------------------------------------------------------ scaling algebra over Q *)

Theorem unscale_scale lo hi a : (~ hi == lo -> unscale lo hi (scale lo hi a) == a)%Q.
Proof. intros H. unfold unscale, scale. field. intros E. apply H. lra. Qed.

Theorem scale_unscale lo hi x : (~ hi == lo -> scale lo hi (unscale lo hi x) == x)%Q.
Proof. intros H. unfold unscale, scale. field. intros E. apply H. lra. Qed.

Theorem clip1_in_unit x : (-1 <= clip1 x <= 1)%Q.
Proof.
  unfold clip1. split.
  - apply Q.min_glb; [apply Q.le_max_r | lra].
  - apply Q.le_min_r.
Qed.

Theorem clip1_id x : (-1 <= x <= 1 -> clip1 x == x)%Q.
Proof. intros [A B]. unfold clip1. rewrite (Q.max_l x (-1) A). apply Q.min_l. exact B. Qed.

Theorem scale_in_unit lo hi a : (lo < hi -> lo <= a <= hi -> -1 <= scale lo hi a <= 1)%Q.
Proof.
  intros H [A B]. unfold scale.
  assert (D : (0 < hi - lo)%Q) by lra.
  assert (L : (0 <= (a - lo) / (hi - lo))%Q) by (apply Qle_shift_div_l; [exact D | lra]).
  assert (U : ((a - lo) / (hi - lo) <= 1)%Q) by (apply Qle_shift_div_r; [exact D | lra]).
  split; lra.
Qed.

Definition in_unit (x : Q) : Prop := (-1 <= x <= 1)%Q.

(* with action noise the stored action is clipped into [-1,1] whatever the policy and the noise produced *)
(* [Forall2 Qlt lo hi]: non-degenerate bounds (with low = high the code divides by zero; never generated) *)
Theorem buffer_action_in_unit_noise lo hi u nz : Forall2 Qlt lo hi ->
  Forall in_unit (buffer_action (ABox lo hi) (mkO u (Some nz))).
Proof.
  intros _. cbn [buffer_action o_u o_noise]. generalize (map3 (fun a l h => scale l h a) u lo hi). intros sc. revert nz.
  induction sc as [|s sc IH]; intros nz; destruct nz as [|z nz]; cbn [map2q]; constructor; [apply clip1_in_unit | apply IH].
Qed.

(* without noise it is the scaled action, in [-1,1] as soon as the unscaled action is inside the (non-degenerate) bounds *)
Theorem buffer_action_in_unit_plain lo hi u :
  Forall3 (fun a l h => (l < h /\ l <= a <= h)%Q) u lo hi ->
  Forall in_unit (buffer_action (ABox lo hi) (mkO u None)).
Proof.
  cbn [buffer_action o_u o_noise]. induction 1 as [|a l h u lo hi [H1 H2] _ IH]; cbn [map3]; constructor; [|exact IH].
  apply scale_in_unit; assumption.
Qed.

(* rescaling any stored action in [-1,1] gives an in-bounds environment action *)
Theorem off_env_action_in_bounds ba lo hi :
  Forall2 Qle lo hi -> length ba = length lo -> Forall in_unit ba ->
  Forall3 (fun x l h => (l <= x <= h)%Q) (off_env_action (ABox lo hi) ba) lo hi.
Proof. exact (env_action_in_bounds_squash ba lo hi). Qed.

(* without noise the environment receives exactly the action the policy chose *)
Theorem off_env_action_roundtrip lo hi u :
  Forall3 (fun a l h => ~ (h == l)%Q) u lo hi ->
  Forall2 Qeq (off_env_action (ABox lo hi) (buffer_action (ABox lo hi) (mkO u None))) u.
Proof.
  cbn [buffer_action off_env_action o_u o_noise]. induction 1 as [|a l h u lo hi H _ IH]; cbn [map3]; constructor; [|exact IH].
  apply unscale_scale. exact H.
Qed.

(* ------------------------------------------------------------------ gSDE resampling / per-env noise reset guards *)
Lemma frag_off_sde u f j hn :
  off_sde_guard u f j = sde_resample u f j /\ off_sde_start_guard u = u /\ off_noise_reset_guard hn = hn.
Proof. repeat split; reflexivity. Qed.

(* ------------------------------------------------------------------ callback stop *)
(* without a stop request the stop-aware log is the plain log: all theorems about off_collect apply *)
Theorem off_collect_s_no_stop ak sc : forall os st,
  off_collect_s ak sc st (map (fun o => (o, false)) os) = off_collect ak sc st os.
Proof.
  induction os as [|o r IH]; intros st; [reflexivity|].
  cbn [map off_collect_s off_collect]. destruct (off_step ak sc st o) as [[st1 t] d]. rewrite IH. reflexivity.
Qed.

(* a stopped step moves the environment but neither the stored log nor the algorithm's last observation *)
Theorem off_step_stopped_spec sc st :
  os_obs (off_step_stopped sc st) = os_obs st /\ os_cur (off_step_stopped sc st) = fst (vstep1 sc (os_cur st)).
Proof. split; reflexivity. Qed.

(* ------------------------------------------------------------------ the exhaustion flag *)
(* running out of fuel before the target is flagged ... *)
Theorem off_learn_loop_no_fuel ak sc ne tf total s :
  l_nt s < total -> off_learn_loop 0 ak sc ne tf total s = (mkL (l_os s) (l_nt s) (l_orcs s) true, []).
Proof. intros H. cbn [off_learn_loop]. apply Z.ltb_lt in H. rewrite H. reflexivity. Qed.

(* ... but with a train frequency >= 1 the fuel that off_learn supplies is never the reason: a collect_rollouts call either takes
   an oracle entry or finds the oracle list empty *)
Lemma off_rollout_exh ak sc ne tf : forall orcs steps eps os nt s l,
  off_rollout ak sc ne tf orcs steps eps os nt = (s, l) ->
  (l_exh s = true -> l_orcs s = []) /\ (length (l_orcs s) <= length orcs)%nat /\
  (off_more tf steps eps = true -> l_exh s = false -> (length (l_orcs s) < length orcs)%nat).
Proof.
  induction orcs as [|o r IH]; intros steps eps os nt s l H; cbn [off_rollout] in H.
  - destruct (off_more tf steps eps); inv H; cbn; repeat split; auto; intros; discriminate.
  - destruct (off_more tf steps eps).
    + destruct (off_step ak sc os o) as [[os1 t] dn].
      match type of H with context [off_rollout ?a ?b ?c ?d ?e ?f ?g ?h ?i] =>
        destruct (off_rollout a b c d e f g h i) as [s1 l1] eqn:E end.
      inv H. apply IH in E. destruct E as (A & B & _). cbn [length]. repeat split; auto; intros; lia.
    + inv H. cbn. repeat split; auto; intros; discriminate.
Qed.

Lemma off_learn_loop_exh ak sc ne tf total : off_more tf 0 0 = true -> forall fuel s s' l,
  l_exh s = false -> (length (l_orcs s) < fuel)%nat ->
  off_learn_loop fuel ak sc ne tf total s = (s', l) ->
  (l_exh s' = true -> l_orcs s' = []) /\ (l_exh s' = false -> total <= l_nt s').
Proof.
  intros M. induction fuel as [|f IH]; intros s s' l X L H; [lia|]. cbn [off_learn_loop] in H.
  destruct (Z.ltb_spec (l_nt s) total) as [N|N].
  - destruct (off_rollout ak sc ne tf (l_orcs s) 0 0 (l_os s) (l_nt s)) as [s1 l1] eqn:E.
    apply off_rollout_exh in E. destruct E as (A & B & C).
    destruct (l_exh s1) eqn:X1.
    + inv H. split; [intros _; exact (A eq_refl) | intros D; rewrite X1 in D; discriminate D].
    + destruct (off_learn_loop f ak sc ne tf total s1) as [s2 l2] eqn:E2. inv H.
      apply (IH s1 s' l2 X1); [|exact E2]. specialize (C M eq_refl). lia.
  - inv H. split; [intros D; rewrite X in D; discriminate D | intros _; exact N].
Qed.

(* the flag reported by a learn() call means "the oracle list was used up", and without it the target was reached *)
Theorem off_learn_flag ak sc ne tf c os nt s l :
  off_more tf 0 0 = true ->
  off_learn ak sc ne tf c os nt = (s, l) ->
  (l_exh s = true -> l_orcs s = []) /\
  (l_exh s = false -> (if oc_reset c then oc_total c else oc_total c + nt) <= l_nt s).
Proof.
  intros M H. unfold off_learn in H. apply (off_learn_loop_exh ak sc ne tf _ M) in H; [exact H | reflexivity | cbn; lia].
Qed.

(* ------------------------------------------------------------------ model mutation score: pins of the comparators *)
(* show_trans compares the stored action with the first and the env action with the second implementation list *)
Example show_trans_pins :
  let t := mkT 1 2 [1 # 2] 3 true false [5]%Q in
  show_trans (1 # 1000) (1 # 1000) t ([1 # 2], [5])%Q = (1, 2, 3, true, false, true, true) /\
  show_trans (1 # 1000) (1 # 1000) t ([5], [1 # 2])%Q = (1, 2, 3, true, false, false, false) /\
  show_trans (1 # 1000) (1 # 1000) t ([1 # 2], [1 # 2])%Q = (1, 2, 3, true, false, true, false) /\
  show_trans (1 # 1000) (1 # 1000) t ([5], [5])%Q = (1, 2, 3, true, false, false, true).
Proof. vm_compute. repeat split; reflexivity. Qed.

(* ------------------------------------------------------------------ how many steps a collect_rollouts call takes *)
Lemma off_step_done ak sc st o : snd (off_step ak sc st o) = t_done (snd (fst (off_step ak sc st o))).
Proof. unfold off_step. destruct (vstep1 sc (os_cur st)) as [c' out]. reflexivity. Qed.

(* a rollout that does not run out of oracle entries takes exactly train_freq steps (unit "step"), resp. ends exactly when the
   train_freq-th episode of this rollout ends (unit "episode": every stored done counts once) *)
Theorem off_rollout_counts ak sc ne tf : forall orcs steps eps os nt s l,
  off_rollout ak sc ne tf orcs steps eps os nt = (s, l) -> l_exh s = false ->
  match tf with
  | TfStep f => steps <= f -> steps + Z.of_nat (length l) = f
  | TfEpis f => eps <= f -> eps + Z.of_nat (length (filter t_done l)) = f /\ (l <> [] -> forall d, t_done (last l d) = true)
  end.
Proof.
  induction orcs as [|o r IH]; intros steps eps os nt s l H X; cbn [off_rollout] in H.
  - destruct (off_more tf steps eps) eqn:M; inv H; [discriminate X|].
    destruct tf as [f|f]; cbn [off_more] in M; apply Z.ltb_ge in M; cbn; intros; [lia | split; [lia | congruence]].
  - destruct (off_more tf steps eps) eqn:M.
    + pose proof (off_step_done ak sc os o) as D. destruct (off_step ak sc os o) as [[os1 t] dn]. cbn [fst snd] in D. subst dn.
      match type of H with context [off_rollout ?a ?b ?c ?d ?e ?f ?g ?h ?i] =>
        destruct (off_rollout a b c d e f g h i) as [s1 l1] eqn:E end.
      inv H. specialize (IH _ _ _ _ _ _ E X).
      destruct tf as [f|f]; cbn [off_more] in M; apply Z.ltb_lt in M; intros B.
      * cbn [length]. lia.
      * cbn [filter]. destruct (t_done t) eqn:T.
        -- destruct IH as [A C]; [lia|]. split; [cbn [length]; lia|]. intros _ d.
           destruct l1 as [|t1 l1']; [exact T|]. apply (C ltac:(discriminate) d).
        -- destruct IH as [A C]; [lia|]. split; [exact A|]. intros _ d.
           destruct l1 as [|t1 l1']; [cbn in A; lia|]. apply (C ltac:(discriminate) d).
    + inv H. destruct tf as [f|f]; cbn [off_more] in M; apply Z.ltb_ge in M; cbn; intros; [lia | split; [lia | congruence]].
Qed.
