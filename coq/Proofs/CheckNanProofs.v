(* C17 (build round 5) - VecCheckNan: proofs. *)
From SB3V Require Import Lib.Tactics Model.CheckNan Gen.Frag_checknan.
Import ListNotations.
Local Open Scope nat_scope.

(* ---- regenerated guards ---- *)
Lemma frag_skip_check_guard : forall c warned,
  skip_check_guard (raise_exception c) (warn_once c) warned = negb (raise_exception c) && warn_once c && warned.
Proof. intros c w. unfold skip_check_guard. destruct (raise_exception c), (warn_once c), w; reflexivity. Qed.
Lemma frag_array_checks : forall c a,
  array_has_inf (check_inf c) (existsb is_inf a) = check_inf c && existsb is_inf a /\ array_has_nan (existsb is_nan a) = existsb is_nan a.
Proof.
  intros c a. unfold array_has_inf, array_has_nan.
  destruct (check_inf c), (existsb is_inf a), (existsb is_nan a); split; reflexivity.
Qed.
Lemma check_val_is_regenerated_guard : forall c warned arrays,
  skip_check_guard (raise_exception c) (warn_once c) warned = true -> check_val c warned arrays = (VPass, warned).
Proof. intros c w a H. unfold check_val. rewrite frag_skip_check_guard in H. rewrite H. reflexivity. Qed.
Lemma array_issues_is_regenerated : forall c k a,
  array_issues c k a = (if array_has_inf (check_inf c) (existsb is_inf a) then [(k, IInf)] else []) ++
                       (if array_has_nan (existsb is_nan a) then [(k, INan)] else []).
Proof. intros c k a. destruct (frag_array_checks c a) as [E1 E2]. rewrite E1, E2. reflexivity. Qed.

(* ---- detection is exact ---- *)
Lemma bad_split : forall c a, existsb (bad_cell c) a = existsb is_nan a || (check_inf c && existsb is_inf a).
Proof.
  intros c a. induction a as [|v a IH]; cbn; [destruct (check_inf c); reflexivity|].
  rewrite IH. unfold bad_cell.
  destruct (is_nan v), (is_inf v), (check_inf c), (existsb is_nan a), (existsb is_inf a); reflexivity.
Qed.

Lemma array_issues_nil : forall c k a, array_issues c k a = [] <-> existsb (bad_cell c) a = false.
Proof.
  intros c k a. rewrite bad_split. unfold array_issues.
  destruct (check_inf c), (existsb is_inf a), (existsb is_nan a); cbn; split; intro H; try reflexivity; try discriminate.
Qed.

Lemma issues_from_nil : forall c arrays k, issues_from c k arrays = [] <-> Forall (fun a => existsb (bad_cell c) a = false) arrays.
Proof.
  intros c arrays. induction arrays as [|a r IH]; intro k; cbn.
  - split; auto.
  - split.
    + intro H. apply app_eq_nil in H. destruct H as [H1 H2]. constructor; [apply (array_issues_nil c k a); auto|apply (IH (S k)); auto].
    + intro H. inversion H; subst. apply (array_issues_nil c k a) in H2. apply (IH (S k)) in H3. rewrite H2, H3. reflexivity.
Qed.

Lemma issues_nonempty_iff_some_bad : forall c arrays, issues c arrays <> [] <-> some_bad c arrays.
Proof.
  intros c arrays. unfold issues, some_bad. split.
  - intro H. destruct (Forall_Exists_dec (fun a => existsb (bad_cell c) a = false) (fun a => bool_dec _ _) arrays) as [F|E].
    + exfalso. apply H. apply issues_from_nil; auto.
    + apply Exists_exists in E. destruct E as (a & Ha & Hb).
      apply not_false_is_true in Hb. apply existsb_exists in Hb. destruct Hb as (v & Hv & Hbad).
      exists a, v. auto.
  - intros (a & v & Ha & Hv & Hb) H. apply issues_from_nil in H.
    rewrite Forall_forall in H. specialize (H a Ha).
    assert (existsb (bad_cell c) a = true) by (apply existsb_exists; exists v; auto). congruence.
Qed.

(* a check that is not switched off (raise mode, or no warning given yet, or warn_once off) reports iff some checked cell is nan,
   or infinite under check_inf; it raises in raise mode and warns otherwise; and it never reports on anything else *)
Theorem detection_exact : forall c warned arrays,
  negb (raise_exception c) && warn_once c && warned = false ->
  (some_bad c arrays ->
     exists f, f <> [] /\ f = issues c arrays /\
               check_val c warned arrays = (if raise_exception c then VRaise f else VWarn f, true)) /\
  (~ some_bad c arrays -> check_val c warned arrays = (VPass, warned)).
Proof.
  intros c w arrays G. unfold check_val. rewrite G. split.
  - intro S. apply issues_nonempty_iff_some_bad in S. destruct (issues c arrays) as [|i f] eqn:E; [congruence|].
    exists (i :: f). repeat split; congruence.
  - intro S. destruct (issues c arrays) as [|i f] eqn:E; [reflexivity|].
    exfalso. apply S. apply issues_nonempty_iff_some_bad. congruence.
Qed.

(* warn mode with warn_once: after the first warning nothing is checked any more *)
Theorem warn_once_silent_afterwards : forall c arrays,
  raise_exception c = false -> warn_once c = true -> check_val c true arrays = (VPass, true).
Proof. intros c a R W. unfold check_val. rewrite R, W. reflexivity. Qed.

(* ---- pass-through ---- *)
Lemma finite_no_issue : forall c a, Forall (fun v => is_finite v = true) a -> existsb (bad_cell c) a = false.
Proof.
  intros c a H. induction H as [|v a Hv _ IH]; cbn; [reflexivity|].
  rewrite IH. destruct v; try discriminate. unfold bad_cell. cbn. destruct (check_inf c); reflexivity.
Qed.

Lemma finite_check_passes : forall c w arrays, arrays_finite arrays -> check_val c w arrays = (VPass, w).
Proof.
  intros c w arrays H. unfold check_val.
  assert (E : issues c arrays = []).
  { apply issues_from_nil. eapply Forall_impl; [|exact H]. intros a Ha. apply finite_no_issue; auto. }
  rewrite E. destruct (negb (raise_exception c) && warn_once c && w); reflexivity.
Qed.

Lemma dones_finite : forall d, Forall (fun v => is_finite v = true) (dones_arr d).
Proof. intro d. unfold dones_arr. apply Forall_forall. intros v Hv. apply in_map_iff in Hv. destruct Hv as (b & <- & _). reflexivity. Qed.

(* on finite data the wrapper is the identity, for every history, configuration and warning state: nothing warned, nothing raised,
   observations / rewards / dones handed on as they came *)
Theorem identity_on_finite : forall c warned evs,
  Forall event_finite evs -> cn_run c warned evs = map identity_out evs.
Proof.
  intros c w evs H. revert w. induction H as [|ev evs He _ IH]; intro w; cbn; [reflexivity|].
  assert (E : cn_step c w ev = (identity_out ev, w)).
  { destruct ev as [obs|a obs r d]; cbn in *.
    - rewrite finite_check_passes; auto.
    - destruct He as (Ha & Ho & Hr). rewrite finite_check_passes; auto.
      rewrite finite_check_passes; [reflexivity|].
      apply Forall_app. split; [exact Ho|]. inversion Hr; subst. repeat constructor; auto. apply dones_finite. }
  rewrite E. rewrite IH. reflexivity.
Qed.

(* whatever the verdict, data that is handed on is handed on unchanged; a raise in step_async happens before the wrapped env steps *)
Theorem data_unchanged : forall c w ev,
  match fst (cn_step c w ev) with
  | CNReset _ o => ev = NReset o
  | CNStep _ _ o r d => exists a, ev = NStep a o r d
  | CNResetRaised _ => exists o, ev = NReset o /\ some_bad c o
  | CNAsyncRaised _ => exists a o r d, ev = NStep a o r d /\ some_bad c [a]
  | CNWaitRaised _ _ => exists a o r d, ev = NStep a o r d /\ some_bad c (o ++ [r; dones_arr d])
  end.
Proof.
  assert (R : forall c w arrays f w', check_val c w arrays = (VRaise f, w') -> some_bad c arrays).
  { intros c w arrays f w' H. unfold check_val in H.
    destruct (negb (raise_exception c) && warn_once c && w); [discriminate|].
    apply issues_nonempty_iff_some_bad. destruct (issues c arrays); [discriminate|congruence]. }
  intros c w ev. destruct ev as [obs|a obs r d]; cbn.
  - destruct (check_val c w obs) as [v w'] eqn:E. destruct v; cbn; eauto.
  - destruct (check_val c w [a]) as [v w'] eqn:E. destruct v; cbn.
    + destruct (check_val c w' (obs ++ [r; dones_arr d])) as [v2 w2] eqn:E2. destruct v2; cbn; eauto 8.
    + destruct (check_val c w' (obs ++ [r; dones_arr d])) as [v2 w2] eqn:E2. destruct v2; cbn; eauto 8.
    + exists a, obs, r, d. eauto.
Qed.

(* raise mode: what an event produces does not depend on the history *)
Theorem raise_mode_history_independent : forall c warned evs,
  raise_exception c = true -> cn_run c warned evs = map (fun ev => fst (cn_step c false ev)) evs.
Proof.
  intros c w evs R.
  assert (V : forall w arrays, fst (check_val c w arrays) = fst (check_val c false arrays)).
  { intros w0 arrays. unfold check_val. rewrite R. cbn. destruct (issues c arrays); reflexivity. }
  assert (S : forall w ev, fst (cn_step c w ev) = fst (cn_step c false ev)).
  { intros w0 ev. destruct ev as [obs|a obs r d]; cbn.
    - specialize (V w0 obs). destruct (check_val c w0 obs) as [v1 w1], (check_val c false obs) as [v2 w2]. cbn in V. subst v2.
      destruct v1; reflexivity.
    - pose proof (V w0 [a]) as Va. destruct (check_val c w0 [a]) as [v1 w1], (check_val c false [a]) as [v2 w2]. cbn in Va. subst v2.
      destruct v1; try reflexivity.
      + pose proof (V w1 (obs ++ [r; dones_arr d])) as V1. pose proof (V w2 (obs ++ [r; dones_arr d])) as V2.
        destruct (check_val c w1 (obs ++ [r; dones_arr d])) as [x1 y1], (check_val c w2 (obs ++ [r; dones_arr d])) as [x2 y2],
                 (check_val c false (obs ++ [r; dones_arr d])) as [x3 y3]. cbn in *. subst. destruct x3; reflexivity.
      + pose proof (V w1 (obs ++ [r; dones_arr d])) as V1. pose proof (V w2 (obs ++ [r; dones_arr d])) as V2.
        destruct (check_val c w1 (obs ++ [r; dones_arr d])) as [x1 y1], (check_val c w2 (obs ++ [r; dones_arr d])) as [x2 y2],
                 (check_val c false (obs ++ [r; dones_arr d])) as [x3 y3]. cbn in *. subst. destruct x3; reflexivity. }
  revert w. induction evs as [|ev evs IH]; intro w; cbn; [reflexivity|].
  destruct (cn_step c w ev) as [o w'] eqn:E. rewrite IH. f_equal. rewrite <- (S w ev), E. reflexivity.
Qed.
