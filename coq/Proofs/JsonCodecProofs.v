From Coq Require Import List ZArith Bool String Ascii Lia.
From SB3V Require Import Gen.Frag_saveload Model.JsonCodec.
Import ListNotations.
Local Open Scope Z_scope.

(* ---------- interface: the decision regenerated from save_util.py ---------- *)
(* proved by cases on the two tests, so equivalent boolean rewritings of the source still check *)
Lemma frag_roundtrippable v : roundtrippable v = sl_roundtrippable (dumps_ok v) (sl_same_scalar (same_vt v (jnorm v)) (negb (same_vt v (jnorm v)))).
Proof.
  unfold roundtrippable, sl_roundtrippable, sl_same_scalar.
  destruct (dumps_ok v); destruct (same_vt v (jnorm v)); reflexivity.
Qed.

Lemma frag_keep_plain v : is_plain (store_item v) = sl_keep_plain (dumps_ok v) (roundtrippable v).
Proof. unfold store_item, sl_keep_plain. destruct (dumps_ok v); destruct (roundtrippable v); reflexivity. Qed.

(* the scalar comparison, the type test and the plain-str key test of _same_value_and_type, as regenerated *)
Lemma frag_same_tests eq ty isstr :
  sl_same_scalar eq (negb eq) = eq /\ sl_type_differs ty (negb ty) = negb ty /\ sl_key_plain isstr (negb isstr) = isstr.
Proof. destruct eq, ty, isstr; repeat split. Qed.

(* a key is accepted by same_vt exactly when it is identical; after jnorm every key is a plain str, so a dictionary
   is kept as JSON only if all its keys are plain str (KSub, a str subclass, is not) *)
Lemma key_kept_iff_plain_str k : key_eqb k (KS (key_text k)) = sl_key_plain (key_is_str k) (negb (key_is_str k)).
Proof. destruct k; cbn; try reflexivity. apply String.eqb_refl. Qed.

(* ---------- induction principle for the nested type ---------- *)
Section JvInd.
Variable P : jv -> Prop.
Hypothesis HNull : P JNull.
Hypothesis HBool : forall b, P (JBool b).
Hypothesis HInt : forall z, P (JInt z).
Hypothesis HFloat : forall t n, P (JFloat t n).
Hypothesis HStr : forall s, P (JStr s).
Hypothesis HList : forall l, Forall P l -> P (JList l).
Hypothesis HTuple : forall l, Forall P l -> P (JTuple l).
Hypothesis HDict : forall d, Forall (fun kv => P (snd kv)) d -> P (JDict d).
Hypothesis HSub : forall c b, P b -> P (JSub c b).
Hypothesis HOpaque : forall i, P (JOpaque i).

Fixpoint jv_ind' (v : jv) : P v :=
  match v with
  | JNull => HNull
  | JBool b => HBool b
  | JInt z => HInt z
  | JFloat t n => HFloat t n
  | JStr s => HStr s
  | JList l => HList l ((fix go (l : list jv) : Forall P l :=
                           match l with [] => Forall_nil P | x :: r => Forall_cons x (jv_ind' x) (go r) end) l)
  | JTuple l => HTuple l ((fix go (l : list jv) : Forall P l :=
                             match l with [] => Forall_nil P | x :: r => Forall_cons x (jv_ind' x) (go r) end) l)
  | JDict d => HDict d ((fix go (d : list (key * jv)) : Forall (fun kv => P (snd kv)) d :=
                           match d with [] => Forall_nil _ | kv :: r => Forall_cons kv (jv_ind' (snd kv)) (go r) end) d)
  | JSub c b => HSub c b (jv_ind' b)
  | JOpaque i => HOpaque i
  end.
End JvInd.

(* ---------- the nested loops of same_vt, named ---------- *)
Fixpoint all2 {A} (f : A -> A -> bool) (la lb : list A) : bool :=
  match la, lb with
  | [], [] => true
  | x :: la', y :: lb' => f x y && all2 f la' lb'
  | _, _ => false
  end.

Definition same_kv (a b : key * jv) : bool := key_eqb (fst a) (fst b) && same_vt (snd a) (snd b).

Lemma same_vt_list la : forall lb, same_vt (JList la) (JList lb) = all2 same_vt la lb.
Proof. induction la as [|x la IH]; intros [|y lb]; try reflexivity. cbn [all2]. rewrite <- IH. reflexivity. Qed.

Lemma same_vt_tuple la : forall lb, same_vt (JTuple la) (JTuple lb) = all2 same_vt la lb.
Proof. induction la as [|x la IH]; intros [|y lb]; try reflexivity. cbn [all2]. rewrite <- IH. reflexivity. Qed.

Lemma same_vt_dict da : forall db, same_vt (JDict da) (JDict db) = all2 same_kv da db.
Proof.
  induction da as [|[k x] da IH]; intros [|[k' y] db]; try reflexivity.
  cbn [all2]. rewrite <- IH. unfold same_kv. cbn [fst snd]. reflexivity.
Qed.

Lemma key_eqb_eq a b : key_eqb a b = true -> a = b.
Proof.
  destruct a, b; cbn; intros H; try discriminate; try reflexivity.
  - apply String.eqb_eq in H. now subst.
  - apply Z.eqb_eq in H. now subst.
  - apply Z.eqb_eq in H. now subst.
  - apply Bool.eqb_prop in H. now subst.
  - apply Z.eqb_eq in H. now subst.
  - apply andb_true_iff in H as [H1 H2]. apply Z.eqb_eq in H1. apply String.eqb_eq in H2. now subst.
Qed.

(* ---------- _same_value_and_type accepts only identical trees ---------- *)
Lemma same_vt_sound a : forall b, same_vt a b = true -> a = b.
Proof.
  induction a as [ | b | z | t n | s | l IHl | l IHl | d IHd | c b IHb | i ] using jv_ind'; intros b0 H.
  - destruct b0; try discriminate. reflexivity.
  - destruct b0; try discriminate. cbn in H. apply Bool.eqb_prop in H. now subst.
  - destruct b0; try discriminate. cbn in H. apply Z.eqb_eq in H. now subst.
  - destruct b0; try discriminate. cbn in H. apply andb_true_iff in H as [H Hn2]. apply andb_true_iff in H as [H Hn1].
    apply Z.eqb_eq in H. apply negb_true_iff in Hn1, Hn2. now subst.
  - destruct b0; try discriminate. cbn in H. apply String.eqb_eq in H. now subst.
  - destruct b0 as [| | | | |lb| | | |]; try discriminate. rewrite same_vt_list in H. f_equal.
    revert lb H. induction IHl as [|x l Hx Hl IH]; intros [|y lb] H; cbn in H; try discriminate; [reflexivity|].
    apply andb_true_iff in H as [H1 H2]. f_equal; [now apply Hx|now apply IH].
  - destruct b0 as [| | | | | |lb| | |]; try discriminate. rewrite same_vt_tuple in H. f_equal.
    revert lb H. induction IHl as [|x l Hx Hl IH]; intros [|y lb] H; cbn in H; try discriminate; [reflexivity|].
    apply andb_true_iff in H as [H1 H2]. f_equal; [now apply Hx|now apply IH].
  - destruct b0 as [| | | | | | |db| |]; try discriminate. rewrite same_vt_dict in H. f_equal.
    revert db H. induction IHd as [|[k x] l Hx Hl IH]; intros [|[k' y] db] H; cbn in H; try discriminate; [reflexivity|].
    apply andb_true_iff in H as [H1 H2]. unfold same_kv in H1. cbn [fst snd] in *. apply andb_true_iff in H1 as [Hk Hv].
    apply key_eqb_eq in Hk. subst k'. f_equal; [f_equal; now apply Hx|now apply IH].
  - destruct b0; try discriminate. cbn in H. apply andb_true_iff in H as [H1 H2].
    apply Z.eqb_eq in H1. subst. f_equal. now apply IHb.
  - destruct b0; try discriminate. cbn in H. apply Z.eqb_eq in H. now subst.
Qed.

(* ---------- MAIN: with the repaired rule the codec is the identity on ALL value trees ---------- *)
Lemma load_store_item v : load_item (store_item v) = v.
Proof.
  unfold store_item, roundtrippable. destruct (negb (dumps_ok v)); [reflexivity|].
  destruct (same_vt v (jnorm v)) eqn:E; [|reflexivity]. cbn. symmetry. now apply same_vt_sound.
Qed.

Lemma roundtrip_all d : json_to_data (data_to_json d) = d.
Proof.
  unfold json_to_data, data_to_json. rewrite map_map. cbn [fst snd].
  induction d as [|[k v] d IH]; [reflexivity|]. cbn [map fst snd]. now rewrite load_store_item, IH.
Qed.

(* ---------- which values are kept as plain JSON: exactly the faithful ones ---------- *)
Lemma all2_same_refl_map (l : list jv) :
  Forall (fun v => faithful v = true -> same_vt v (jnorm v) = true) l ->
  forallb faithful l = true -> all2 same_vt l (map jnorm l) = true.
Proof.
  induction 1 as [|x l Hx Hl IH]; intros Hf; [reflexivity|]. cbn in Hf. apply andb_true_iff in Hf as [H1 H2].
  cbn [map all2]. rewrite Hx, IH by assumption. reflexivity.
Qed.

Lemma faithful_kept v : faithful v = true -> same_vt v (jnorm v) = true /\ dumps_ok v = true.
Proof.
  induction v as [ | b | z | t n | s | l IHl | l IHl | d IHd | c b IHb | i ] using jv_ind'; intros Hf; cbn [faithful] in Hf; try discriminate.
  - split; reflexivity.
  - split; [cbn; now destruct b|reflexivity].
  - split; [cbn; apply Z.eqb_refl|reflexivity].
  - apply negb_true_iff in Hf. subst. split; [cbn; now rewrite Z.eqb_refl|reflexivity].
  - split; [cbn; apply String.eqb_refl|reflexivity].
  - split.
    + cbn [jnorm]. rewrite same_vt_list. apply all2_same_refl_map; [|exact Hf].
      eapply Forall_impl; [|exact IHl]. intros a Ha Hfa. now destruct (Ha Hfa).
    + cbn [dumps_ok]. apply forallb_forall. intros x Hx. rewrite Forall_forall in IHl. rewrite forallb_forall in Hf.
      now destruct (IHl x Hx (Hf x Hx)).
  - split.
    + cbn [jnorm]. rewrite same_vt_dict. revert Hf. induction IHd as [|[k x] d Hx Hd IH]; intros Hf; [reflexivity|].
      cbn in Hf. apply andb_true_iff in Hf as [H1 H2]. apply andb_true_iff in H1 as [Hk Hv].
      cbn [map all2 fst snd]. unfold same_kv at 1. cbn [fst snd] in *. destruct k; try discriminate. cbn [key_text key_eqb].
      rewrite String.eqb_refl. destruct (Hx Hv) as [-> _]. cbn. now apply IH.
    + cbn [dumps_ok]. apply forallb_forall. intros [k x] Hx. rewrite Forall_forall in IHd. rewrite forallb_forall in Hf.
      specialize (Hf _ Hx). cbn [fst snd] in *. apply andb_true_iff in Hf as [Hk Hv].
      destruct (IHd _ Hx Hv) as [_ Hdx]. cbn [snd] in Hdx. rewrite Hdx. destruct k; try discriminate. reflexivity.
Qed.

Lemma kept_faithful v : same_vt v (jnorm v) = true -> dumps_ok v = true -> faithful v = true.
Proof.
  induction v as [ | b | z | t n | s | l IHl | l IHl | d IHd | c b IHb | i ] using jv_ind'; intros Hs Hd; try reflexivity.
  - cbn in Hs. apply andb_true_iff in Hs as [Hs _]. apply andb_true_iff in Hs as [_ Hs]. exact Hs.
  - cbn [jnorm] in Hs. rewrite same_vt_list in Hs. cbn [dumps_ok] in Hd. cbn [faithful].
    revert Hs Hd. induction IHl as [|x l Hx Hl IH]; intros Hs Hd; [reflexivity|].
    cbn in Hs, Hd. apply andb_true_iff in Hs as [S1 S2]. apply andb_true_iff in Hd as [D1 D2].
    cbn [forallb]. rewrite Hx, IH by assumption. reflexivity.
  - cbn in Hs. discriminate.
  - cbn [jnorm] in Hs. rewrite same_vt_dict in Hs. cbn [dumps_ok] in Hd. cbn [faithful].
    revert Hs Hd. induction IHd as [|[k x] d Hx Hdd IH]; intros Hs Hd; [reflexivity|].
    cbn [map all2 forallb fst snd] in *. apply andb_true_iff in Hs as [S1 S2]. apply andb_true_iff in Hd as [D1 D2].
    unfold same_kv in S1. cbn [fst snd] in S1. apply andb_true_iff in S1 as [K1 V1]. apply andb_true_iff in D1 as [_ D1].
    rewrite (Hx V1 D1), IH by assumption. destruct k; try discriminate. reflexivity.
  - cbn [jnorm dumps_ok] in *. destruct b; try discriminate; cbn in Hs; discriminate.
  - cbn in Hd. discriminate.
Qed.

Lemma kept_iff_faithful v : is_plain (store_item v) = true <-> faithful v = true.
Proof.
  unfold store_item, roundtrippable. split.
  - destruct (dumps_ok v) eqn:D; cbn [negb]; [|discriminate].
    destruct (same_vt v (jnorm v)) eqn:E; [|discriminate]. intros _. now apply kept_faithful.
  - intros H. destruct (faithful_kept v H) as [-> ->]. reflexivity.
Qed.

(* everything else travels as an opaque (pickled) blob and comes back as it was *)
Lemma not_faithful_pickled v : faithful v = false -> store_item v = Pickled v.
Proof.
  intros H. destruct (store_item v) eqn:E.
  - assert (X : is_plain (store_item v) = true) by now rewrite E. apply kept_iff_faithful in X. congruence.
  - unfold store_item in E. destruct (roundtrippable v); congruence.
Qed.

(* ---------- extension: custom_objects ---------- *)
Lemma custom_objects_spec d custom :
  json_to_data_custom (data_to_json d) custom
  = map (fun kv => (fst kv, match lookup_custom (fst kv) custom with Some v => v | None => snd kv end)) d.
Proof.
  unfold json_to_data_custom, data_to_json. rewrite map_map. apply map_ext. intros [k v]. cbn [fst snd].
  destruct (lookup_custom k custom); [reflexivity|]. now rewrite load_store_item.
Qed.

Lemma custom_objects_none d : json_to_data_custom (data_to_json d) [] = d.
Proof. rewrite custom_objects_spec. cbn [lookup_custom]. induction d as [|[k v] d IH]; [reflexivity|]. cbn [map fst snd]. now rewrite IH. Qed.

(* ---------- model mutation score: what json.dumps accepts, pinned ---------- *)
Example dumps_ok_pins :
  dumps_ok (JDict [(KOther 1, JNull)]) = false /\ dumps_ok (JDict [(KI 1, JNull); (KSub 4 "k", JTuple [JFloat 1 true])]) = true /\
  dumps_ok (JList [JOpaque 1]) = false /\ dumps_ok (JSub 1 (JFloat 1 false)) = true /\ dumps_ok (JSub 1 (JList [])) = false.
Proof. repeat split. Qed.

(* the text json.dumps writes for keys that are not strings *)
Example key_text_pins :
  key_text (KB true) = "true"%string /\ key_text (KB false) = "false"%string /\ key_text KNone = "null"%string /\
  key_text (KS "pi") = "pi"%string /\ key_text (KSub 4 "pi") = "pi"%string /\
  jnorm (JDict [(KB true, JNull); (KNone, JTuple [])]) = JDict [(KS "true", JNull); (KS "null", JList [])].
Proof. repeat split. Qed.
