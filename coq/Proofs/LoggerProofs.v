From Coq Require Import List QArith Qfield ZArith Bool Lia Ascii String.
From SB3V Require Import Gen.Frag_logger Model.Csv Model.Logger Proofs.CsvProofs.
Import ListNotations.
Local Open Scope Q_scope.

(* ---------- interface lemmas ---------- *)
Lemma frag_mean_update old c v :
  fst (lg_mean_update old c v) == mean_step old c v /\ snd (lg_mean_update old c v) = (c + 1)%Z.
Proof. unfold lg_mean_update, mean_step. cbn [fst snd]. split; [unfold Qdiv; ring|lia]. Qed.

Lemma frag_is_excluded st k fmt :
  is_excluded st k fmt =
  match get_kv k (l_exc st) with
  | Some ex => lg_is_excluded true true (mem_text fmt ex) false false (negb (mem_text fmt ex))
  | None => lg_is_excluded false true false true false true
  end.
Proof. unfold is_excluded, lg_is_excluded. destruct (get_kv k (l_exc st)); [destruct (mem_text fmt l)|]; reflexivity. Qed.

Lemma frag_human_hidden st k :
  human_hidden st k =
  match get_kv k (l_exc st) with
  | Some ex => lg_human_hidden true (mem_text t_stdout ex) (mem_text t_log ex)
  | None => false
  end.
Proof.
  unfold human_hidden, lg_human_hidden. destruct (get_kv k (l_exc st)); [|reflexivity].
  destruct (mem_text t_stdout l), (mem_text t_log l); reflexivity.
Qed.

(* ---------- association lists ---------- *)
Lemma text_eqb_refl a : text_eqb a a = true.
Proof. now apply text_eqb_eq. Qed.

Lemma text_eqb_neq a b : a <> b -> text_eqb a b = false.
Proof. intros H. destruct (text_eqb a b) eqn:E; [|reflexivity]. apply text_eqb_eq in E. contradiction. Qed.

Lemma get_set_same {V} k (v : V) m : get_kv k (set_kv k v m) = Some v.
Proof.
  induction m as [|[k' v'] m IH]; cbn [set_kv get_kv]; [now rewrite text_eqb_refl|].
  destruct (text_eqb k k') eqn:E; cbn [get_kv]; rewrite E; [reflexivity|exact IH].
Qed.

Lemma get_set_other {V} k k2 (v : V) m : k <> k2 -> get_kv k2 (set_kv k v m) = get_kv k2 m.
Proof.
  intros Hne. induction m as [|[k' v'] m IH]; cbn [set_kv get_kv].
  - rewrite text_eqb_neq by congruence. reflexivity.
  - destruct (text_eqb k k') eqn:E; cbn [get_kv].
    + apply text_eqb_eq in E. subst k'. rewrite text_eqb_neq by congruence. reflexivity.
    + rewrite IH. reflexivity.
Qed.

(* ---------- record: the value and its exclusions are what was given, other keys untouched ---------- *)
Lemma record_sets st k v e :
  get_kv k (l_val (l_record st k v e)) = Some v /\ get_kv k (l_exc (l_record st k v e)) = Some e.
Proof. unfold l_record. cbn. split; apply get_set_same. Qed.

Lemma record_keeps_others st k v e k2 : k <> k2 ->
  get_kv k2 (l_val (l_record st k v e)) = get_kv k2 (l_val st) /\
  get_kv k2 (l_exc (l_record st k v e)) = get_kv k2 (l_exc st) /\
  get_kv k2 (l_cnt (l_record st k v e)) = get_kv k2 (l_cnt st).
Proof. intros H. unfold l_record. cbn. repeat split; try apply get_set_other; auto. Qed.

(* ---------- record_mean reports the arithmetic mean ---------- *)
Fixpoint lsum (l : list Q) : Q := match l with [] => 0 | x :: t => x + lsum t end.

Definition mean_ops (k : text) (e : list text) (vs : list Q) : list lop := map (fun v => ORecordMean k (Some v) e) vs.

Lemma record_mean_step st k x e :
  value_of (l_record_mean st k (Some x) e) k = mean_step (value_of st k) (count_of st k) x /\
  count_of (l_record_mean st k (Some x) e) k = (count_of st k + 1)%Z.
Proof. unfold l_record_mean, value_of, count_of. cbn [l_val l_cnt]. rewrite !get_set_same. split; reflexivity. Qed.

Lemma mean_step_sum m c x : (0 <= c)%Z -> mean_step m c x * inject_Z (c + 1) == m * inject_Z c + x.
Proof.
  intros Hc. unfold mean_step. field.
  intros E. assert (H : (0 < c + 1)%Z) by lia. rewrite Zlt_Qlt in H. rewrite E in H. discriminate.
Qed.

Lemma mean_inv k e vs : forall st S,
  (0 <= count_of st k)%Z -> value_of st k * inject_Z (count_of st k) == S ->
  let st' := fst (l_run st (mean_ops k e vs)) in
  value_of st' k * inject_Z (count_of st' k) == S + lsum vs /\
  count_of st' k = (count_of st k + Z.of_nat (List.length vs))%Z.
Proof.
  induction vs as [|x vs IH]; intros st S Hc HS; cbn [mean_ops map l_run fst lsum List.length].
  - split; [rewrite HS; ring|lia].
  - destruct (record_mean_step st k x e) as [Hv Hn].
    specialize (IH (l_record_mean st k (Some x) e) (S + x)).
    fold (mean_ops k e vs). cbn zeta in IH. destruct IH as [I1 I2].
    + rewrite Hn. lia.
    + rewrite Hv, Hn, mean_step_sum by exact Hc. rewrite HS. reflexivity.
    + split; [rewrite I1; ring|]. rewrite I2, Hn. lia.
Qed.

(* k calls of record_mean on a key with no count yet (fresh after a dump): the pending value is sum / k *)
Lemma record_mean_is_mean st k e vs : vs <> [] -> count_of st k = 0%Z ->
  value_of (fst (l_run st (mean_ops k e vs))) k == lsum vs / inject_Z (Z.of_nat (List.length vs)).
Proof.
  intros Hne Hc. destruct (mean_inv k e vs st 0) as [H1 H2]; [lia|rewrite Hc; ring|].
  cbn zeta in *. rewrite Hc in H2. cbn [Z.add] in H2. rewrite H2 in H1.
  assert (Hp : ~ inject_Z (Z.of_nat (List.length vs)) == 0).
  { intros E. destruct vs; [congruence|]. cbn [List.length] in E.
    assert (H : (0 < Z.of_nat (S (List.length vs)))%Z) by lia. rewrite Zlt_Qlt in H. rewrite E in H. discriminate. }
  rewrite Qplus_0_l in H1. rewrite <- H1. field. exact Hp.
Qed.

Lemma record_mean_none st k e : l_record_mean st k None e = st.
Proof. reflexivity. Qed.

(* ---------- dump ---------- *)
Lemma dump_clears st : fst (l_dump st) = l0.
Proof. reflexivity. Qed.

Lemma filter_excluded_spec fmt st k v :
  In (k, v) (filter_fmt fmt st) <-> In (k, v) (l_val st) /\ is_excluded st k fmt = false.
Proof.
  unfold filter_fmt. rewrite filter_In. cbn [fst]. split; intros [A B]; split; auto.
  - now apply negb_true_iff in B.
  - now apply negb_true_iff.
Qed.

(* a key recorded with exclusion tuple e reaches a generic writer iff the writer's name is not in e *)
Lemma is_excluded_after_record st k v e fmt :
  is_excluded (l_record st k v e) k fmt = negb (visible_spec fmt e).
Proof. unfold is_excluded, visible_spec. destruct (record_sets st k v e) as [_ ->]. now rewrite negb_involutive. Qed.

(* every pending value is handed to every generic writer it is not excluded from, at the dump *)
Lemma dump_delivers st k v :
  In (k, v) (l_val st) ->
  (is_excluded st k t_csv = false -> In (k, v) (d_csv (snd (l_dump st)))) /\
  (is_excluded st k t_json = false -> In (k, v) (d_json (snd (l_dump st)))).
Proof. intros H. cbn. split; intros E; apply filter_excluded_spec; auto. Qed.

(* the human formats: hidden iff "stdout" or "log" is in the tuple - for both of them *)
Lemma human_filter_spec st k v :
  In (k, v) (filter_human st) <-> In (k, v) (l_val st) /\ human_hidden st k = false.
Proof.
  unfold filter_human. rewrite filter_In. cbn [fst]. split; intros [A B]; split; auto.
  - now apply negb_true_iff in B.
  - now apply negb_true_iff.
Qed.

(* ---------- extension: CSV padding count, log levels, truncation ---------- *)
(* one separator character per new key, as regenerated from CSVOutputFormat.write *)
Lemma frag_csv_pad (extra : list text) :
  List.length (repeat comma (List.length extra)) = Z.to_nat (lg_csv_pad 1 (Z.of_nat (List.length extra))).
Proof. unfold lg_csv_pad. rewrite repeat_length. lia. Qed.

Lemma frag_log_emits cfg level : lg_log_emits cfg level = log_emits cfg level.
Proof. reflexivity. Qed.

Lemma log_level_filter cfg level : log_emits cfg level = true <-> (cfg <= level)%Z.
Proof. unfold log_emits. apply Z.leb_le. Qed.

Lemma frag_dump_disabled cfg st :
  l_dump_level cfg st = if lg_dump_disabled cfg DISABLED_ then (st, None) else (fst (l_dump st), Some (snd (l_dump st))).
Proof. unfold l_dump_level, lg_dump_disabled. destruct (Z.eqb cfg DISABLED_); reflexivity. Qed.

(* a disabled logger writes nothing and keeps what is pending; otherwise dump is the ordinary one *)
Lemma dump_disabled_noop st : l_dump_level DISABLED_ st = (st, None).
Proof. reflexivity. Qed.
Lemma dump_enabled cfg st : cfg <> DISABLED_ -> l_dump_level cfg st = (l0, Some (snd (l_dump st))).
Proof. intros H. unfold l_dump_level. apply Z.eqb_neq in H. rewrite H. reflexivity. Qed.

Lemma frag_truncate m s :
  truncate m s = if lg_truncates (Z.of_nat (List.length s)) (Z.of_nat m)
                 then firstn (Z.to_nat (lg_truncate_keep (Z.of_nat m))) s ++ dots else s.
Proof.
  unfold truncate, lg_truncates, lg_truncate_keep.
  destruct (Nat.ltb m (List.length s)) eqn:E.
  - apply Nat.ltb_lt in E. replace (Z.of_nat m <? Z.of_nat (List.length s))%Z with true by lia.
    replace (Z.to_nat (Z.of_nat m - 3)) with (m - 3)%nat by lia. reflexivity.
  - apply Nat.ltb_ge in E. replace (Z.of_nat m <? Z.of_nat (List.length s))%Z with false by lia. reflexivity.
Qed.

(* what is shown never exceeds max_length (for max_length >= 3), and short texts are shown unchanged *)
Lemma truncate_length m s : (3 <= m)%nat -> (List.length (truncate m s) <= m)%nat.
Proof.
  intros Hm. unfold truncate. destruct (Nat.ltb m (List.length s)) eqn:E.
  - apply Nat.ltb_lt in E. rewrite app_length, firstn_length. cbn. lia.
  - apply Nat.ltb_ge in E. exact E.
Qed.
Lemma truncate_short m s : (List.length s <= m)%nat -> truncate m s = s.
Proof. intros H. unfold truncate. replace (Nat.ltb m (List.length s)) with false; [reflexivity|]. symmetry. apply Nat.ltb_ge. exact H. Qed.

(* ---------- review item: record_mean interleaved with operations on other keys ---------- *)
Lemma other_key_keeps st k k2 v e : text_eqb k k2 = false ->
  value_of (l_record st k2 v e) k = value_of st k /\ count_of (l_record st k2 v e) k = count_of st k.
Proof.
  intros E. assert (Hne : k2 <> k) by (intros ->; rewrite text_eqb_refl in E; discriminate).
  unfold value_of, count_of, l_record. cbn [l_val l_cnt]. rewrite get_set_other by exact Hne. split; reflexivity.
Qed.

Lemma other_key_mean_keeps st k k2 x e : text_eqb k k2 = false ->
  value_of (l_record_mean st k2 x e) k = value_of st k /\ count_of (l_record_mean st k2 x e) k = count_of st k.
Proof.
  intros E. assert (Hne : k2 <> k) by (intros ->; rewrite text_eqb_refl in E; discriminate).
  destruct x as [x|]; [|split; reflexivity].
  unfold value_of, count_of, l_record_mean. cbn [l_val l_cnt]. rewrite !get_set_other by exact Hne. split; reflexivity.
Qed.

Lemma mean_interleaved_inv k ops : forall st S,
  forallb (mean_safe k) ops = true ->
  (0 <= count_of st k)%Z -> value_of st k * inject_Z (count_of st k) == S ->
  let st' := fst (l_run st ops) in
  value_of st' k * inject_Z (count_of st' k) == S + lsum (mean_values k ops) /\
  count_of st' k = (count_of st k + Z.of_nat (List.length (mean_values k ops)))%Z.
Proof.
  induction ops as [|o ops IH]; intros st S Hs Hc HS; cbn [l_run fst mean_values lsum List.length].
  - split; [rewrite HS; ring|lia].
  - cbn [forallb] in Hs. apply andb_true_iff in Hs as [Ho Hs].
    destruct o as [k2 v e|k2 [x|] e|]; cbn [mean_safe] in Ho; try discriminate.
    + apply negb_true_iff in Ho. destruct (other_key_keeps st k k2 v e Ho) as [Ev Ec].
      cbn [l_run]. destruct (IH (l_record st k2 v e) S Hs) as [I1 I2]; [rewrite Ec; exact Hc|rewrite Ev, Ec; exact HS|].
      cbn zeta in *. split; [exact I1|rewrite I2, Ec; reflexivity].
    + cbn [l_run]. destruct (text_eqb k k2) eqn:E.
      * apply text_eqb_eq in E. subst k2. destruct (record_mean_step st k x e) as [Hv Hn].
        specialize (IH (l_record_mean st k (Some x) e) (S + x) Hs). cbn zeta in IH. destruct IH as [I1 I2].
        -- rewrite Hn. lia.
        -- rewrite Hv, Hn, mean_step_sum by exact Hc. rewrite HS. reflexivity.
        -- cbn [lsum List.length]. split; [rewrite I1; ring|]. rewrite I2, Hn. lia.
      * destruct (other_key_mean_keeps st k k2 (Some x) e E) as [Ev Ec].
        destruct (IH (l_record_mean st k2 (Some x) e) S Hs) as [I1 I2]; [rewrite Ec; exact Hc|rewrite Ev, Ec; exact HS|].
        cbn zeta in *. split; [exact I1|rewrite I2, Ec; reflexivity].
    + cbn [l_run]. apply IH; assumption.
Qed.

(* any interleaving of record / record_mean on other keys and record_mean(None): the pending value of k is the arithmetic
   mean of the values given for k since the last dump *)
Lemma record_mean_interleaved st k ops :
  count_of st k = 0%Z -> forallb (mean_safe k) ops = true -> mean_values k ops <> [] ->
  value_of (fst (l_run st ops)) k == lsum (mean_values k ops) / inject_Z (Z.of_nat (List.length (mean_values k ops))).
Proof.
  intros Hc Hs Hne. destruct (mean_interleaved_inv k ops st 0 Hs) as [H1 H2]; [lia|rewrite Hc; ring|].
  cbn zeta in *. rewrite Hc in H2. cbn [Z.add] in H2. rewrite H2 in H1.
  assert (Hp : ~ inject_Z (Z.of_nat (List.length (mean_values k ops))) == 0).
  { intros E. destruct (mean_values k ops); [congruence|]. cbn [List.length] in E.
    assert (H : (0 < Z.of_nat (S (List.length l)))%Z) by lia. rewrite Zlt_Qlt in H. rewrite E in H. discriminate. }
  rewrite Qplus_0_l in H1. rewrite <- H1. field. exact Hp.
Qed.

(* the value handed to the writers at the next dump is that mean (for the formats k is not excluded from) *)
Lemma mean_reaches_dump st k q :
  get_kv k (l_val st) = Some (LNum q) -> In (k, LNum q) (d_pending (snd (l_dump st))).
Proof.
  cbn. generalize (l_val st). induction l as [|[k' v] l IH]; cbn [get_kv]; [discriminate|].
  destruct (text_eqb k k') eqn:E; intros H.
  - apply text_eqb_eq in E. inversion H; subst. now left.
  - right. now apply IH.
Qed.

(* ---------- model mutation score: the comparators of the correspondence driver and mean_defined, pinned ---------- *)
Example mean_defined_pins :
  let T := fun s : string => list_ascii_of_string s in
  mean_defined (l_record l0 (T "k"%string) (LStr (T "abc"%string)) []) (T "k"%string) = false /\
  mean_defined (l_record l0 (T "k"%string) (LNum 1) []) (T "k"%string) = true /\ mean_defined l0 (T "k"%string) = true /\
  mean_defined (l_record l0 (T "k"%string) (LStr (T "abc"%string)) []) (T "j"%string) = true.
Proof. repeat split. Qed.

Example lval_close_pins :
  lval_close (LNum 1) (LNum (1 + (15 # 10000000000))) = true /\ lval_close (LNum 1) (LNum (1 + (3 # 1000000000))) = false /\
  lval_close (LStr []) (LStr []) = true /\ lval_close (LNum 1) (LStr []) = false /\ lval_close (LStr []) (LNum 1) = false.
Proof. repeat split. Qed.

Example entry_ok_pins :
  let T := fun s : string => list_ascii_of_string s in
  let k := T "k"%string in
  entry_ok [(k, [T "csv"%string])] (k, LNum 1) (k, LNum 1, [T "csv"%string]) = true /\
  entry_ok [(k, [T "csv"%string])] (k, LNum 1) (k, LNum 1, [T "json"%string]) = false /\     (* another exclusion tuple *)
  entry_ok [] (k, LNum 1) (k, LNum 1, [T "csv"%string]) = false /\                             (* no exclusion entry for the key *)
  entry_ok [(k, [T "csv"%string])] (k, LNum 1) (T "j"%string, LNum 1, [T "csv"%string]) = false /\   (* another key *)
  entry_ok [(k, [T "csv"%string])] (k, LNum 1) (k, LNum 2, [T "csv"%string]) = false.          (* another value *)
Proof. repeat split. Qed.
