(* C10 (round 3) - interface lemmas: fragments regenerated from noise.py vs Model/Noise.v *)
From Coq Require Import QArith List.
From SB3V Require Import Gen.Frag_noise Model.Noise.
Import ListNotations.
Local Open Scope Q_scope.

Lemma frag_ou_update x theta mu dt sigma sqdt n :
  noise_ou_update x theta mu dt sigma sqdt n == ou_step1 theta dt sqdt mu sigma x n.
Proof. unfold noise_ou_update, ou_step1. ring. Qed.

Lemma frag_ou_new_state y : noise_ou_new_state y == y.
Proof. unfold noise_ou_new_state. ring. Qed.

(* every entry of the model's vector step is the regenerated expression *)
Lemma frag_ou_stepv theta dt sqdt : forall mu sigma x n,
  Forall2 Qeq (ou_stepv theta dt sqdt mu sigma x n)
              (map (fun p => noise_ou_new_state (noise_ou_update (snd (fst p)) theta (fst (fst (fst p))) dt (snd (fst (fst p))) sqdt (snd p)))
                   (combine (combine (combine mu sigma) x) n)).
Proof.
  induction mu as [|m mu IH]; intros [|s sigma] [|xi x] [|ni n]; cbn [ou_stepv combine map]; try constructor.
  - rewrite Qred_correct. cbn [fst snd]. rewrite frag_ou_new_state, frag_ou_update. reflexivity.
  - apply IH.
Qed.

Lemma frag_ou_reset (b : bool) i z : noise_ou_reset b i z == (if b then i else z).
Proof. unfold noise_ou_reset. destruct b; reflexivity. Qed.

(* so reset() restores initial_noise when there is one and zeros otherwise: the model's reset value *)
Lemma frag_ou_reset_model (init : option Q) z :
  noise_ou_reset (match init with Some _ => true | None => false end) (match init with Some v => v | None => 0 end) z
  == match init with Some v => v | None => z end.
Proof. destruct init; apply frag_ou_reset. Qed.
