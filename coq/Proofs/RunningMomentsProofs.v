From Coq Require Import List QArith Qfield Lia Setoid Morphisms ZArith.
From SB3V Require Import Gen.Frag_runningmoments Model.RunningMoments.
Import ListNotations.
Local Open Scope Q_scope.

(* ---------- interface: the regenerated update_from_moments is the model's ---------- *)
Lemma frag_update_from_moments s bm bv bc :
  ~ r_count s + bc == 0 ->
  let '(m, v, c) := rms_update_from_moments (r_mean s) (r_var s) (r_count s) bm bv bc in
  let '(m', v', c') := rms_store m v c in
  rms_eq (mk_rms m' v' c') (update_from_moments s bm bv bc).
Proof.
  intros H. unfold rms_update_from_moments, rms_store, update_from_moments, rms_eq. cbn.
  split; [|split]; field; exact H.
Qed.

(* ---------- the merge adds the batch's raw moments exactly ---------- *)
Lemma merge_raw_moments s bm bv bc :
  ~ r_count s + bc == 0 ->
  S0 (update_from_moments s bm bv bc) == S0 s + bc /\
  S1 (update_from_moments s bm bv bc) == S1 s + bc * bm /\
  S2 (update_from_moments s bm bv bc) == S2 s + bc * (bv + bm * bm).
Proof.
  intros H. unfold S0, S1, S2, update_from_moments. cbn. split; [|split]; field; exact H.
Qed.

(* ---------- raw moments of a batch ---------- *)
Lemma qlen_cons x xs : qlen (x :: xs) == qlen xs + 1.
Proof.
  unfold qlen. cbn [length]. rewrite Nat2Z.inj_succ. unfold Z.succ. rewrite inject_Z_plus. reflexivity.
Qed.

Lemma qlen_nonneg xs : 0 <= qlen xs.
Proof. unfold qlen. change 0 with (inject_Z 0). rewrite <- Zle_Qle. lia. Qed.

Lemma qlen_pos xs : xs <> [] -> 0 < qlen xs.
Proof.
  destruct xs as [|x xs]; [congruence|]. intros _. rewrite qlen_cons.
  pose proof (qlen_nonneg xs). apply Qlt_le_trans with (0 + 1); [reflexivity|].
  apply Qplus_le_l. exact H.
Qed.

Lemma qlen_app a b : qlen (a ++ b) == qlen a + qlen b.
Proof. unfold qlen. rewrite app_length, Nat2Z.inj_add, inject_Z_plus. reflexivity. Qed.

Lemma qsuml_app a b : qsuml (a ++ b) == qsuml a + qsuml b.
Proof. induction a as [|x a IH]; cbn [app qsuml]; [ring|]. rewrite IH. ring. Qed.

Lemma sumsq_app a b : sumsq (a ++ b) == sumsq a + sumsq b.
Proof. unfold sumsq. rewrite map_app. apply qsuml_app. Qed.

Lemma sum_centered m xs :
  qsuml (map (fun x => (x - m) * (x - m)) xs) == sumsq xs - 2 * m * qsuml xs + qlen xs * m * m.
Proof.
  induction xs as [|x xs IH].
  - unfold sumsq, qlen. cbn. ring.
  - cbn [map qsuml]. rewrite IH, qlen_cons. unfold sumsq. cbn [map qsuml]. ring.
Qed.

Lemma batch_raw_moments xs : xs <> [] ->
  qlen xs * bmean xs == qsuml xs /\ qlen xs * (bvar xs + bmean xs * bmean xs) == sumsq xs.
Proof.
  intros Hne. pose proof (qlen_pos xs Hne) as Hp.
  assert (Hn : ~ qlen xs == 0) by (intros E; rewrite E in Hp; discriminate).
  split.
  - unfold bmean. field. exact Hn.
  - unfold bvar. rewrite sum_centered. unfold bmean. field. exact Hn.
Qed.

(* one update adds (n, sum x, sum x^2) of the batch *)
Lemma update_raw_moments s xs : xs <> [] -> 0 < r_count s ->
  S0 (update s xs) == S0 s + qlen xs /\
  S1 (update s xs) == S1 s + qsuml xs /\
  S2 (update s xs) == S2 s + sumsq xs /\
  0 < r_count (update s xs).
Proof.
  intros Hne Hc. pose proof (qlen_pos xs Hne) as Hp.
  assert (Hpos : 0 < r_count s + qlen xs).
  { apply Qlt_trans with (0 + qlen xs); [rewrite Qplus_0_l; exact Hp|]. apply Qplus_lt_l. exact Hc. }
  assert (Hn : ~ r_count s + qlen xs == 0) by (intros E; rewrite E in Hpos; discriminate).
  destruct (merge_raw_moments s (bmean xs) (bvar xs) (qlen xs) Hn) as (H0 & H1 & H2).
  destruct (batch_raw_moments xs Hne) as (B1 & B2).
  unfold update. split; [|split; [|split]].
  - exact H0.
  - rewrite H1, B1. reflexivity.
  - rewrite H2, B2. reflexivity.
  - unfold update_from_moments. cbn. exact Hpos.
Qed.

(* any sequence of non-empty batches adds the raw moments of the concatenated stream *)
Lemma updates_raw_moments bs : forall s,
  Forall (fun b => b <> []) bs -> 0 < r_count s ->
  S0 (updates s bs) == S0 s + qlen (concat bs) /\
  S1 (updates s bs) == S1 s + qsuml (concat bs) /\
  S2 (updates s bs) == S2 s + sumsq (concat bs) /\
  0 < r_count (updates s bs).
Proof.
  induction bs as [|b bs IH]; intros s Hall Hc; cbn [updates fold_left concat].
  - unfold qlen, sumsq. cbn. split; [|split; [|split]]; try ring. exact Hc.
  - inversion Hall as [|? ? Hb Hbs]; subst.
    destruct (update_raw_moments s b Hb Hc) as (U0 & U1 & U2 & Up).
    destruct (IH (update s b) Hbs Up) as (I0 & I1 & I2 & Ip). fold (updates (update s b) bs).
    split; [|split; [|split]].
    + rewrite I0, U0, qlen_app. ring.
    + rewrite I1, U1, qsuml_app. ring.
    + rewrite I2, U2, sumsq_app. ring.
    + exact Ip.
Qed.

(* statistics are determined by their raw moments *)
Lemma rms_eq_of_raw a b :
  0 < r_count a -> S0 a == S0 b -> S1 a == S1 b -> S2 a == S2 b -> rms_eq a b.
Proof.
  unfold S0, S1, S2, rms_eq. intros Hp H0 H1 H2.
  assert (Hn : ~ r_count a == 0) by (intros E; rewrite E in Hp; discriminate).
  assert (Hm : r_mean a == r_mean b).
  { rewrite <- H0 in H1. apply Qmult_inj_l in H1; assumption. }
  split; [exact Hm|]. split; [|exact H0].
  rewrite <- H0, <- Hm in H2. apply Qmult_inj_l in H2; [|exact Hn].
  apply (Qplus_inj_r _ _ (r_mean a * r_mean a)). exact H2.
Qed.

(* MAIN: however a stream is split into (non-empty) batches, the statistics are the same *)
Lemma batching_invariance s bs bs' :
  0 < r_count s -> Forall (fun b => b <> []) bs -> Forall (fun b => b <> []) bs' ->
  concat bs = concat bs' -> rms_eq (updates s bs) (updates s bs').
Proof.
  intros Hc H1 H2 E.
  destruct (updates_raw_moments bs s H1 Hc) as (A0 & A1 & A2 & Ap).
  destruct (updates_raw_moments bs' s H2 Hc) as (B0 & B1 & B2 & _).
  apply rms_eq_of_raw; [exact Ap| | | ].
  - rewrite A0, B0, E. reflexivity.
  - rewrite A1, B1, E. reflexivity.
  - rewrite A2, B2, E. reflexivity.
Qed.

(* and they are the moments of the stream merged with the prior carried by s *)
Lemma stats_are_stream_moments s bs :
  0 < r_count s -> Forall (fun b => b <> []) bs ->
  let xs := concat bs in
  let u := updates s bs in
  let tot := r_count s + qlen xs in
  r_count u == tot /\
  r_mean u == (r_count s * r_mean s + qsuml xs) / tot /\
  r_var u == (r_count s * (r_var s + r_mean s * r_mean s) + sumsq xs) / tot - r_mean u * r_mean u.
Proof.
  intros Hc Hall. cbn zeta.
  destruct (updates_raw_moments bs s Hall Hc) as (A0 & A1 & A2 & Ap).
  unfold S0, S1, S2 in *.
  assert (Hn : ~ r_count (updates s bs) == 0) by (intros E; rewrite E in Ap; discriminate).
  assert (Hn' : ~ r_count s + qlen (concat bs) == 0) by (rewrite <- A0; exact Hn).
  split; [exact A0|]. split.
  - rewrite <- A1. rewrite <- A0. field. exact Hn.
  - rewrite <- A2. rewrite <- A0. field. exact Hn.
Qed.

(* with the documented prior (mean 0, variance 1, weight eps) *)
Lemma stats_with_prior eps bs :
  0 < eps -> Forall (fun b => b <> []) bs ->
  let xs := concat bs in
  let u := updates (rms_init eps) bs in
  r_count u == eps + qlen xs /\
  r_mean u == qsuml xs / (eps + qlen xs) /\
  r_var u == (eps + sumsq xs) / (eps + qlen xs) - r_mean u * r_mean u.
Proof.
  intros He Hall. cbn zeta.
  destruct (stats_are_stream_moments (rms_init eps) bs He Hall) as (C & M & V). cbn [rms_init r_count r_mean r_var] in *.
  pose proof (qlen_nonneg (concat bs)) as Hl.
  assert (Hn : ~ eps + qlen (concat bs) == 0).
  { intros E. assert (0 < eps + qlen (concat bs)).
    { apply Qlt_le_trans with (eps + 0); [rewrite Qplus_0_r; exact He|]. apply Qplus_le_r. exact Hl. }
    rewrite E in H. discriminate. }
  split; [exact C|]. split.
  - rewrite M. field. exact Hn.
  - rewrite V. field. exact Hn.
Qed.

(* combine(other) adds other's raw moments: merging two statistics = statistics of both streams *)
Lemma combine_raw_moments s o :
  ~ r_count s + r_count o == 0 ->
  S0 (rms_combine s o) == S0 s + S0 o /\ S1 (rms_combine s o) == S1 s + S1 o /\ S2 (rms_combine s o) == S2 s + S2 o.
Proof.
  intros H. destruct (merge_raw_moments s (r_mean o) (r_var o) (r_count o) H) as (H0 & H1 & H2).
  unfold rms_combine, S0, S1, S2 in *. split; [|split]; assumption.
Qed.

(* ---------- the executable (reduced) variant computes the same statistics ---------- *)
Lemma update_from_moments_compat a b bm bv bc :
  rms_eq a b -> rms_eq (update_from_moments a bm bv bc) (update_from_moments b bm bv bc).
Proof.
  intros (Hm & Hv & Hc). unfold update_from_moments, rms_eq. cbn.
  split; [|split]; rewrite ?Hm, ?Hv, ?Hc; reflexivity.
Qed.

Lemma update_red_eq a b xs : rms_eq a b -> rms_eq (update_red a xs) (update b xs).
Proof.
  intros H. unfold update_red. pose proof (update_from_moments_compat a b (bmean xs) (bvar xs) (qlen xs) H) as (Hm & Hv & Hc).
  unfold rms_eq, update in *. cbn [r_mean r_var r_count]. rewrite !Qred_correct. auto.
Qed.

Lemma updates_red_eq bs : forall a b, rms_eq a b -> rms_eq (fold_left update_red bs a) (updates b bs).
Proof.
  induction bs as [|x bs IH]; intros a b H; cbn [fold_left updates]; [exact H|].
  apply IH. apply update_red_eq. exact H.
Qed.

(* the documented prior of RunningMeanStd(epsilon=1e-4): weight 1e-4, mean 0, variance 1 *)
Lemma prior_is_documented : eps_default = 1 # 10000 /\ rms_init eps_default = mk_rms 0 1 (1 # 10000).
Proof. split; reflexivity. Qed.
