(* C16 x C03: HerReplayBuffer is a DictReplayBuffer - the ring laws of C03 hold for the data it stores, so a real
   (non-relabelled) HER sample is the data of ONE add among the last `capacity`, same env column; and the batch split. *)
From SB3V Require Import Lib.Tactics Gen.Frag_her Model.Replay Model.Her Proofs.ReplayProofs Proofs.HerProofs.
Local Open Scope Z_scope.

(* the tags of a stored slot are those of one env column of an add (truncate_last_trajectory may later set done / timeout) *)
Definition same_data (s : hslot) (x : hin) : Prop :=
  x_obs s = Her.i_obs x /\ x_ach s = i_ach x /\ x_des s = i_des x /\ x_nobs s = i_nobs x /\ x_nach s = i_nach x /\
  x_ndes s = i_ndes x /\ x_act s = Her.i_act x /\ x_rew s = Her.i_rew x /\ x_info s = i_info x.

Definition rows_step (h : list (list hin)) (o : hop) : list (list hin) :=
  match o with HAdd r => h ++ [r] | _ => h end.
Definition her_rows (ops : list hop) : list (list hin) := fold_left rows_step ops [].
Definition hlen (h : list (list hin)) : Z := Z.of_nat (length h).
Definition hrow (h : list (list hin)) (k : Z) (e : nat) : hin := nth e (nth (Z.to_nat k) h []) din.

Record DH (b : her) (h : list (list hin)) : Prop := {
  d_cap : 0 < h_cap b;
  d_pos : h_pos b = hlen h mod h_cap b;
  d_data : forall e k, 0 <= k -> hlen h - h_cap b <= k < hlen h -> same_data (sl (h_cols b e) (k mod h_cap b)) (hrow h k e);
  (* before the first wrap: nothing beyond the cursor is sampleable *)
  d_fresh : hlen h < h_cap b -> forall e, 0 <= cur (h_cols b e) <= h_pos b /\ forall q, hlen h <= q < h_cap b -> ln (h_cols b e) q = 0
}.

Lemma same_data_store hto c x : same_data (store hto c x) x.
Proof. unfold same_data, store. cbn. repeat split; reflexivity. Qed.

Lemma same_data_mark hto s x : same_data s x -> same_data (mark_end hto s) x.
Proof. unfold same_data, mark_end. cbn. tauto. Qed.

Lemma sl_col_add cap hto p p' c x : sl (col_add cap hto p p' c x) = fupd (sl c) p (store hto c x).
Proof. unfold col_add. destruct (Her.i_done x); reflexivity. Qed.

Lemma close_keeps_unwritten cap p c : 0 < cap -> 0 <= cur c <= p -> p <= cap ->
  forall q, p <= q < cap -> ln (close_episode cap p c) q = ln c q.
Proof.
  intros Hc Hcur Hp q Hq. cbn [close_episode ln]. unfold set_range, in_arange, ep_end.
  destruct (Z.ltb_spec p (cur c)); [lia|]. rewrite (Z.mod_small (q - cur c)) by lia.
  destruct (Z.ltb_spec (cur c + (q - cur c)) p); [lia|reflexivity].
Qed.

Lemma hlen_snoc h r : hlen (h ++ [r]) = hlen h + 1.
Proof. unfold hlen. rewrite app_length. cbn [length]. lia. Qed.

Lemma hrow_snoc_old h r k e : 0 <= k < hlen h -> hrow (h ++ [r]) k e = hrow h k e.
Proof. unfold hrow, hlen. intros H. f_equal. apply app_nth1. lia. Qed.

Lemma hrow_snoc_new h r e : hrow (h ++ [r]) (hlen h) e = nth e r din.
Proof. unfold hrow, hlen. rewrite Nat2Z.id, nth_middle. reflexivity. Qed.

Lemma DH_create bs n hto : DH (her_create bs n hto) [].
Proof.
  assert (0 < capacity bs n) by (unfold capacity; lia).
  constructor; cbn [her_create h_cap h_pos h_cols col0 cur ln sl]; unfold hlen; cbn [length].
  - assumption.
  - rewrite Z.mod_0_l; lia.
  - intros; lia.
  - intros _ e. split; [lia|reflexivity].
Qed.

Lemma DH_step b h o : HJ b -> DH b h -> DH (her_step b o) (rows_step h o).
Proof.
  intros HB D. pose proof (HJ_pos _ HB) as Hp. pose proof (d_cap _ _ D) as Hc.
  pose proof (Z.mod_pos_bound (hlen h) (h_cap b) Hc) as Hmb.
  assert (Hlen : 0 <= hlen h) by (unfold hlen; lia).
  destruct o as [row| |]; cbn [her_step rows_step].
  - rewrite her_add_fields. rewrite (add_cursor_mod _ _ (h_full b) Hc Hp).
    constructor; cbn [h_cap h_pos h_cols]; rewrite ?hlen_snoc.
    + exact Hc.
    + rewrite (d_pos _ _ D). rewrite Zplus_mod_idemp_l. reflexivity.
    + intros e k Hk0 Hk. rewrite sl_col_add. unfold fupd. rewrite (d_pos _ _ D).
      destruct (Z.eq_dec k (hlen h)) as [->|Hne].
      * rewrite Z.eqb_refl, hrow_snoc_new. apply same_data_store.
      * destruct (Z.eqb_spec (k mod h_cap b) (hlen h mod h_cap b)) as [E|E].
        -- apply mod_inj_window in E; [contradiction|lia|lia].
        -- rewrite hrow_snoc_old by lia. apply (d_data _ _ D); lia.
    + intros Hsmall e. assert (Hs : hlen h < h_cap b) by lia.
      destruct (d_fresh _ _ D Hs e) as (Hcur & Hz).
      assert (Hpe : h_pos b = hlen h) by (rewrite (d_pos _ _ D); apply Z.mod_small; lia).
      rewrite Hpe in *. rewrite (Z.mod_small (hlen h + 1)) by lia.
      unfold col_add. set (c := h_cols b e) in *.
      assert (Hinv : invalidate (h_cap b) (hlen h) c = ln c).
      { unfold invalidate. rewrite (Hz (hlen h)) by lia. reflexivity. }
      destruct (Her.i_done (nth e row din)).
      * cbn [close_episode cur]. split; [lia|]. intros q Hq.
        rewrite close_keeps_unwritten; cbn [cur ln]; try lia. rewrite Hinv. apply Hz. lia.
      * cbn [cur ln]. split; [lia|]. intros q Hq. rewrite Hinv. apply Hz. lia.
  - constructor; cbn [her_truncate h_cap h_pos h_cols].
    + exact Hc.
    + apply (d_pos _ _ D).
    + intros e k Hk0 Hk. pose proof (d_data _ _ D e k Hk0 Hk) as S. unfold col_truncate.
      destruct (cur (h_cols b e) =? h_pos b); [exact S|]. cbn [close_episode sl]. unfold fupd.
      destruct (k mod h_cap b =? (h_pos b - 1) mod h_cap b) eqn:E; [|exact S].
      apply Z.eqb_eq in E. rewrite <- E. apply same_data_mark. exact S.
    + intros Hs e. destruct (d_fresh _ _ D Hs e) as (Hcur & Hz). unfold col_truncate.
      destruct (Z.eqb_spec (cur (h_cols b e)) (h_pos b)); [split; assumption|].
      cbn [close_episode cur]. split; [lia|]. intros q Hq.
      assert (Hpe : h_pos b = hlen h) by (rewrite (d_pos _ _ D); apply Z.mod_small; lia).
      rewrite close_keeps_unwritten; cbn [cur ln]; try lia. apply Hz. lia.
  - exact D.
Qed.

Theorem DH_run ops : forall b h, HJ b -> DH b h -> DH (her_run b ops) (fold_left rows_step ops h).
Proof.
  unfold her_run. induction ops as [|o ops IH]; intros b h HB D; cbn [fold_left]; [exact D|].
  apply IH; [apply HJ_step; exact HB|apply DH_step; assumption].
Qed.

(* the tags returned by _get_real_samples for slot i, env e *)
Definition real_tags (c : colst) (i : Z) : Z * Z * Z * Z * Z * Z * Z * Z :=
  let s := sl c i in (x_obs s, x_ach s, x_des s, x_act s, x_nobs s, x_nach s, x_ndes s, x_rew s).
Definition in_tags (x : hin) : Z * Z * Z * Z * Z * Z * Z * Z :=
  (Her.i_obs x, i_ach x, i_des x, Her.i_act x, i_nobs x, i_nach x, i_ndes x, Her.i_rew x).

(* C03's soundness statement for the HER buffer: every sampleable slot returns the data of column e of ONE add k
   among the last `capacity` adds, stored in slot k mod capacity *)
Theorem her_real_sample_sound bs n hto ops e i :
  let b := her_run (her_create bs n hto) ops in let h := her_rows ops in let c := capacity bs n in
  0 <= i < c -> valid (h_cols b e) i = true ->
  exists k, 0 <= k /\ hlen h - c <= k < hlen h /\ i = k mod c /\
    real_tags (h_cols b e) i = in_tags (hrow h k e) /\
    (forall r, real_sample (h_cols b e) i = r ->
       let '(o, a, d, act, no, na, nd, dn, rw) := r in (o, a, d, act, no, na, nd, rw) = in_tags (hrow h k e)).
Proof.
  cbn zeta. intros Hi Hv.
  pose proof (HJ_run ops _ (HJ_create bs n hto)) as HB.
  pose proof (DH_run ops _ _ (HJ_create bs n hto) (DH_create bs n hto)) as D. fold (her_rows ops) in D.
  set (b := her_run (her_create bs n hto) ops) in *. set (h := her_rows ops) in *.
  assert (Hcap : h_cap b = capacity bs n) by (unfold b; rewrite her_cap_run; reflexivity).
  pose proof (d_cap _ _ D) as Hc. rewrite Hcap in *.
  assert (Hlen : 0 <= hlen h) by (unfold hlen; lia).
  assert (Hstored : i < Z.min (hlen h) (capacity bs n)).
  { destruct (Z_lt_le_dec (hlen h) (capacity bs n)) as [Hs|Hs]; [|lia].
    destruct (Z_lt_le_dec i (hlen h)) as [|Hge]; [lia|exfalso].
    destruct (d_fresh _ _ D ltac:(rewrite Hcap; exact Hs) e) as (_ & Hz).
    unfold valid in Hv. apply Z.ltb_lt in Hv. rewrite (Hz i) in Hv by (rewrite Hcap; lia). lia. }
  destruct (add_of_slot_spec (hlen h) (capacity bs n) i Hc Hlen ltac:(lia)) as (Hk0 & Hk & Hkm).
  exists (add_of_slot (hlen h) (capacity bs n) i). split; [exact Hk0|]. split; [exact Hk|]. split; [symmetry; exact Hkm|].
  pose proof (d_data _ _ D e _ Hk0 ltac:(rewrite Hcap; exact Hk)) as S. rewrite Hcap, Hkm in S.
  destruct S as (S1 & S2 & S3 & S4 & S5 & S6 & S7 & S8 & S9).
  assert (E : real_tags (h_cols b e) i = in_tags (hrow h (add_of_slot (hlen h) (capacity bs n) i) e)).
  { unfold real_tags, in_tags. congruence. }
  split; [exact E|]. intros r <-. unfold real_sample. unfold real_tags, in_tags in E. injection E as -> -> -> -> -> -> -> ->. reflexivity.
Qed.

(* ------------------------------------------------------------------ the batch: both parts from sampleable cells only *)
Lemma in_zrange lo n x : In x (zrange lo n) <-> lo <= x < lo + Z.of_nat n.
Proof.
  revert lo. induction n as [|n IH]; intros lo; cbn [zrange In]; [lia|]. rewrite IH. lia.
Qed.

(* np.flatnonzero(ep_length > 0): every candidate decodes (np.unravel_index) to a sampleable (slot, env) cell *)
Theorem valid_flat_spec b f : 0 <= h_nenv b -> In f (valid_flat b) <->
  exists i e, f = i * h_nenv b + Z.of_nat e /\ 0 <= i < h_cap b /\ (Z.of_nat e < h_nenv b) /\ valid (h_cols b e) i = true.
Proof.
  intros Hn. unfold valid_flat. rewrite in_flat_map. split.
  - intros (i & Hi & Hf). apply in_zrange in Hi. apply in_flat_map in Hf. destruct Hf as (e & He & Hf).
    apply in_seq in He. destruct (valid (h_cols b e) i) eqn:V; [|destruct Hf]. destruct Hf as [<-|[]].
    exists i, e. repeat split; try lia. exact V.
  - intros (i & e & -> & Hi & He & V). exists i. split; [apply in_zrange; lia|].
    apply in_flat_map. exists e. split; [apply in_seq; lia|]. rewrite V. left. reflexivity.
Qed.

(* the batch of B indices drawn from these candidates is split at nb_virtual: relabelled + real = B, both parts non-negative *)
Theorem her_batch_split n B : 0 <= n -> 0 <= B ->
  let v := nb_virtual n B in 0 <= v /\ 0 <= B - v /\ v + (B - v) = B.
Proof. intros Hn HB. cbn zeta. pose proof (virtual_share_bounds n B Hn HB). lia. Qed.

(* any B draws from the candidates: nb_virtual of them are relabelled, B - nb_virtual are real, every one of both parts is a sampleable
   cell, nothing is dropped or duplicated, and the batch lists the real ones first *)
Theorem her_split_spec b n B draws : 0 <= n -> 0 <= B -> Z.of_nat (length draws) = B ->
  Forall (fun f => In f (valid_flat b)) draws ->
  let '(vi, re) := her_split n B draws in
  Z.of_nat (length vi) = nb_virtual n B /\ Z.of_nat (length re) = B - nb_virtual n B /\ vi ++ re = draws /\
  Forall (fun f => In f (valid_flat b)) vi /\ Forall (fun f => In f (valid_flat b)) re /\
  her_batch_cells n B draws = map (fun f => (false, f)) re ++ map (fun f => (true, f)) vi /\
  (her_split_what, her_split_at, her_split_env_what, her_split_env_at, her_real_uses, her_virtual_uses, her_batch_order, her_candidates) = (1, 1, 1, 1, 1, 1, 1, 1) /\
  her_candidates_size B = B.
Proof.
  intros Hn HB Hl Hall. unfold her_batch_cells, her_split. pose proof (virtual_share_bounds n B Hn HB) as Hv.
  set (v := Z.to_nat (nb_virtual n B)).
  assert (Hvl : (v <= length draws)%nat) by (unfold v; lia).
  split; [rewrite firstn_length_le by exact Hvl; unfold v; lia|].
  split; [rewrite skipn_length; unfold v; lia|].
  split; [apply firstn_skipn|].
  split; [rewrite <- (firstn_skipn v draws) in Hall; apply Forall_app in Hall; tauto|].
  split; [rewrite <- (firstn_skipn v draws) in Hall; apply Forall_app in Hall; tauto|].
  repeat split; reflexivity.
Qed.
