(* C01 (build round 5) - proofs about the observation plumbing (Model/ObsBuf.v) and the index dispatch, with the interface
   lemmas to the regenerated fragments of group obsbuf. *)
From SB3V Require Import Lib.Tactics.
From SB3V Require Import Gen.Frag_obsbuf Model.ObsBuf.
Local Open Scope nat_scope.

(* ---------------------------------------------------------------- keys, rows *)
Lemma okey_eqb_eq a b : okey_eqb a b = true <-> a = b.
Proof.
  destruct a, b; simpl; split; intro H; try congruence; try discriminate.
  - apply Z.eqb_eq in H. congruence.
  - inv H. apply Z.eqb_refl.
Qed.
Lemma okey_eqb_refl a : okey_eqb a a = true.
Proof. apply okey_eqb_eq. reflexivity. Qed.
Lemma okey_eqb_sym a b : okey_eqb a b = okey_eqb b a.
Proof.
  destruct (okey_eqb a b) eqn:E1, (okey_eqb b a) eqn:E2; auto.
  - apply okey_eqb_eq in E1. subst. rewrite okey_eqb_refl in E2. discriminate.
  - apply okey_eqb_eq in E2. subst. rewrite okey_eqb_refl in E1. discriminate.
Qed.
Lemma existsb_okey_in key keys : In key keys -> existsb (okey_eqb key) keys = true.
Proof. intro H. apply existsb_exists. exists key. split; auto. apply okey_eqb_refl. Qed.
Lemma existsb_okey_notin key keys : ~ In key keys -> existsb (okey_eqb key) keys = false.
Proof.
  intro H. destruct (existsb (okey_eqb key) keys) eqn:E; auto.
  apply existsb_exists in E. destruct E as [x [Hx He]]. apply okey_eqb_eq in He. subst. contradiction.
Qed.

Lemma row_set_length {X} i (x : X) l : length (row_set i x l) = length l.
Proof. revert i. induction l; intros [|i]; simpl; auto. Qed.
Lemma row_set_idem {X} i (x : X) l : row_set i x (row_set i x l) = row_set i x l.
Proof. revert i. induction l; intros [|i]; simpl; auto. f_equal. auto. Qed.
Lemma nth_row_set {X} i j (x d : X) l : i < length l ->
  nth j (row_set i x l) d = if Nat.eqb j i then x else nth j l d.
Proof.
  revert i j. induction l; intros i j H; simpl in H; [lia|].
  destruct i, j; simpl; auto. apply IHl. lia.
Qed.
Lemma nth_error_row_set_same {X} i (x : X) l : i < length l -> nth_error (row_set i x l) i = Some x.
Proof. revert i. induction l; intros [|i] H; simpl in *; try lia; auto. apply IHl. lia. Qed.
Lemma nth_error_row_set_other {X} i j (x : X) l : i <> j -> nth_error (row_set i x l) j = nth_error l j.
Proof. revert i j. induction l; intros [|i] [|j] H; simpl; auto; try lia. Qed.
Lemma firstn_S_row_set {X} i (x : X) l : i < length l -> firstn (S i) (row_set i x l) = firstn i l ++ [x].
Proof.
  revert i. induction l; intros i H; simpl in H; [lia|].
  destruct i; [reflexivity|]. change (a :: firstn (S i) (row_set i x l) = a :: (firstn i l ++ [x])). f_equal. apply IHl. lia.
Qed.

Section Proofs.
Variable V : Type.
Variable dV : V.
Notation buf := (buf V).
Notation obs := (obs V).

(* ---------------------------------------------------------------- buffer get / set *)
Lemma get_set_same (b : buf) key i v : buf_get (buf_set b key i v) key = row_set i v (buf_get b key).
Proof.
  induction b as [|[k rows] r IH]; simpl; [destruct i; reflexivity|].
  destruct (okey_eqb k key) eqn:E; simpl; rewrite E; auto.
Qed.
Lemma get_set_other (b : buf) key key' i v : okey_eqb key key' = false -> buf_get (buf_set b key i v) key' = buf_get b key'.
Proof.
  intro H. induction b as [|[k rows] r IH]; simpl; auto.
  destruct (okey_eqb k key) eqn:E; simpl.
  - apply okey_eqb_eq in E. subst. rewrite H. reflexivity.
  - destruct (okey_eqb k key'); auto.
Qed.
Lemma set_keys (b : buf) key i v : map fst (buf_set b key i v) = map fst b.
Proof. induction b as [|[k rows] r IH]; simpl; auto. destruct (okey_eqb k key); simpl; congruence. Qed.
Lemma set_lengths n (b : buf) key i v :
  Forall (fun kr => length (snd kr) = n) b -> Forall (fun kr => length (snd kr) = n) (buf_set b key i v).
Proof.
  induction 1 as [|[k rows] r H1 H2 IH]; simpl; auto.
  destruct (okey_eqb k key); constructor; auto. simpl in *. rewrite row_set_length. auto.
Qed.

Lemma save_obs_cons k keys (b : buf) i o :
  save_obs dV (k :: keys) b i o = save_obs dV keys (buf_set b k i (save_value dV k o)) i o.
Proof. reflexivity. Qed.

(* the whole effect of _save_obs on any key's array *)
Lemma get_save_obs keys : forall (b : buf) i o key,
  buf_get (save_obs dV keys b i o) key =
  if existsb (okey_eqb key) keys then row_set i (save_value dV key o) (buf_get b key) else buf_get b key.
Proof.
  induction keys as [|k keys IH]; intros b i o key; [reflexivity|].
  rewrite save_obs_cons, IH. simpl existsb.
  destruct (okey_eqb key k) eqn:E.
  - apply okey_eqb_eq in E. subst k. rewrite get_set_same. simpl.
    destruct (existsb (okey_eqb key) keys); auto. apply row_set_idem.
  - rewrite get_set_other by (rewrite okey_eqb_sym; exact E). reflexivity.
Qed.
Lemma save_obs_keys keys : forall (b : buf) i o, map fst (save_obs dV keys b i o) = map fst b.
Proof. induction keys as [|k keys IH]; intros; [reflexivity|]. rewrite save_obs_cons, IH. apply set_keys. Qed.
Lemma save_obs_lengths n keys : forall (b : buf) i o,
  Forall (fun kr => length (snd kr) = n) b -> Forall (fun kr => length (snd kr) = n) (save_obs dV keys b i o).
Proof. induction keys as [|k keys IH]; intros; [assumption|]. rewrite save_obs_cons. apply IH. apply set_lengths. assumption. Qed.

Lemma wf_save_obs sp n (b : buf) i o : wf_buf sp n b -> wf_buf sp n (save_obs dV (obs_space_info sp) b i o).
Proof. intros [H1 H2]. split; [rewrite save_obs_keys; auto | apply save_obs_lengths; auto]. Qed.
Lemma wf_init sp n : wf_buf sp n (buf_init dV (obs_space_info sp) n).
Proof.
  split; unfold buf_init.
  - rewrite map_map. simpl. apply map_id.
  - apply Forall_forall. intros kr H. apply in_map_iff in H. destruct H as [k [Hk _]]. subst. simpl. apply repeat_length.
Qed.
Lemma get_length_in n (b : buf) key : Forall (fun kr => length (snd kr) = n) b -> In key (map fst b) -> length (buf_get b key) = n.
Proof.
  induction 1 as [|[k rows] r H1 H2 IH]; simpl; [tauto|]. intros [H|H].
  - subst. rewrite okey_eqb_refl. auto.
  - destruct (okey_eqb k key); auto.
Qed.
Lemma wf_get_length sp n (b : buf) key : wf_buf sp n b -> In key (obs_space_info sp) -> length (buf_get b key) = n.
Proof. intros [H1 H2] H. apply get_length_in; auto. rewrite H1. auto. Qed.

(* (a) per-env independence of _save_obs *)
Lemma save_obs_rows sp n (b : buf) i o key j : wf_buf sp n b -> i < n -> In key (obs_space_info sp) ->
  nth j (buf_get (save_obs dV (obs_space_info sp) b i o) key) dV =
  if Nat.eqb j i then save_value dV key o else nth j (buf_get b key) dV.
Proof.
  intros Hw Hi Hk. rewrite get_save_obs, existsb_okey_in by assumption.
  apply nth_row_set. rewrite (wf_get_length sp n) by assumption. assumption.
Qed.
Lemma save_obs_other_keys keys (b : buf) i o key : ~ In key keys -> buf_get (save_obs dV keys b i o) key = buf_get b key.
Proof. intro H. rewrite get_save_obs, existsb_okey_notin by assumption. reflexivity. Qed.

(* ---------------------------------------------------------------- saving every env, then reading *)
Lemma save_all_keys keys l : forall (b : buf) i0, map fst (save_all dV keys b i0 l) = map fst b.
Proof. induction l as [|o r IH]; intros; simpl; auto. rewrite IH. apply save_obs_keys. Qed.

Lemma get_save_all keys key l : In key keys -> forall (b : buf) i0,
  length (buf_get b key) = i0 + length l ->
  buf_get (save_all dV keys b i0 l) key = firstn i0 (buf_get b key) ++ map (save_value dV key) l.
Proof.
  intro Hk. induction l as [|o r IH]; intros b i0 Hl; simpl in *.
  - rewrite app_nil_r. apply eq_sym, firstn_all2. lia.
  - rewrite IH.
    + rewrite get_save_obs, existsb_okey_in by assumption.
      rewrite firstn_S_row_set by lia. rewrite <- app_assoc. reflexivity.
    + rewrite get_save_obs, existsb_okey_in by assumption. rewrite row_set_length. lia.
Qed.

Lemma dict_items_canon : forall (b : buf) ks, map fst b = map (@Some Z) ks -> NoDup ks ->
  dict_items b = map (fun k => (k, buf_get b (Some k))) ks.
Proof.
  induction b as [|[k0 rows] r IH]; intros [|k ks] H Hn; simpl in H; try discriminate; [reflexivity|].
  inv H. inv Hn. unfold dict_items. simpl. rewrite Z.eqb_refl. f_equal.
  change (dict_items r = map (fun k1 => (k1, if (k =? k1)%Z then rows else buf_get r (Some k1))) ks).
  rewrite (IH ks) by assumption. apply map_ext_in. intros k1 Hk1.
  destruct (Z.eqb_spec k k1); [subst; contradiction|reflexivity].
Qed.

(* (b) Dummy and Subproc agree on stacking, from ANY well-formed buffer (whatever was written before) *)
Lemma obs_from_buf_save_all sp (b : buf) l : wf_space sp -> wf_buf sp (length l) b ->
  obs_from_buf sp (save_all dV (obs_space_info sp) b 0 l) = stack_obs dV sp l.
Proof.
  intros Hs Hw.
  assert (G : forall key, In key (obs_space_info sp) ->
            buf_get (save_all dV (obs_space_info sp) b 0 l) key = map (save_value dV key) l).
  { intros key Hk. rewrite get_save_all; auto. rewrite (wf_get_length sp (length l)); auto. }
  destruct sp as [|ks|n]; unfold obs_from_buf; simpl.
  - f_equal. rewrite G by (simpl; auto). reflexivity.
  - f_equal. rewrite (dict_items_canon _ ks).
    + apply map_ext_in. intros k Hk. f_equal. apply G. simpl. apply in_map. assumption.
    + rewrite save_all_keys. apply Hw.
    + exact Hs.
  - f_equal. apply map_ext_in. intros i Hi. apply G. simpl. unfold tuple_keys.
    apply (in_map (fun i0 => Some (Z.of_nat i0))). assumption.
Qed.

Lemma batch_kind_obs_from_buf sp (b : buf) : batch_kind (obs_from_buf sp b) = kind_of sp.
Proof. destruct sp; reflexivity. Qed.
Lemma batch_kind_stack_obs sp l : batch_kind (stack_obs dV sp l) = kind_of sp.
Proof. destruct sp; reflexivity. Qed.

(* ---------------------------------------------------------------- histories *)
Lemma wrun_app sp h1 : forall (b : buf) h2,
  wrun dV sp b (h1 ++ h2) =
  (fst (wrun dV sp (fst (wrun dV sp b h1)) h2), snd (wrun dV sp b h1) ++ snd (wrun dV sp (fst (wrun dV sp b h1)) h2)).
Proof.
  induction h1 as [|[i o|] r IH]; intros b h2; simpl.
  - destruct (wrun dV sp b h2); reflexivity.
  - apply IH.
  - rewrite IH. destruct (wrun dV sp b r) as [b1 o1]. simpl. reflexivity.
Qed.
Lemma wf_wrun sp n h : forall (b : buf), wf_buf sp n b -> wf_buf sp n (fst (wrun dV sp b h)).
Proof.
  induction h as [|[i o|] r IH]; intros b H; simpl; auto.
  - apply IH. apply wf_save_obs. assumption.
  - specialize (IH b H). destruct (wrun dV sp b r). assumption.
Qed.

(* (b), full form: after ANY write history, saving all envs and reading = _stack_obs of the per-env observations *)
Lemma dummy_stack_agrees_with_subproc sp n h l : wf_space sp -> length l = n ->
  let b := fst (wrun_init dV sp n h) in
  obs_from_buf sp (save_all dV (obs_space_info sp) b 0 l) = stack_obs dV sp l /\
  batch_kind (obs_from_buf sp (save_all dV (obs_space_info sp) b 0 l)) = kind_of sp.
Proof.
  intros Hs Hl b. split; [|apply batch_kind_obs_from_buf].
  apply obs_from_buf_save_all; auto. subst n. apply wf_wrun. apply wf_init.
Qed.

(* (c) the returned batch is the value of the buffer VERSION at the time of the call: later writes do not change it *)
Lemma snapshot_is_a_copy sp (b : buf) h1 h2 :
  snd (wrun dV sp b (h1 ++ WSnap :: h2)) =
  snd (wrun dV sp b h1) ++ obs_from_buf sp (fst (wrun dV sp b h1)) :: snd (wrun dV sp (fst (wrun dV sp b h1)) h2).
Proof.
  rewrite wrun_app. simpl. destruct (wrun dV sp (fst (wrun dV sp b h1)) h2). reflexivity.
Qed.
Lemma snapshots_prefix sp (b : buf) h1 h2 :
  firstn (length (snd (wrun dV sp b h1))) (snd (wrun dV sp b (h1 ++ h2))) = snd (wrun dV sp b h1).
Proof.
  rewrite wrun_app. simpl. rewrite firstn_app, Nat.sub_diag, firstn_all. simpl. apply app_nil_r.
Qed.

(* ---------------------------------------------------------------- fragments: key dispatch *)
Lemma frag_save_value key (o : obs) : save_value_with dV (fun k => save_guard k true) key o = save_value dV key o.
Proof. destruct key; reflexivity. Qed.
Lemma frag_save_codes :
  save_loop_source = 1%Z /\ save_plain_bufkey = 1%Z /\ save_plain_row = 1%Z /\ save_plain_value = 1%Z /\
  save_item_bufkey = 1%Z /\ save_item_row = 1%Z /\ save_item_value = 2%Z /\ ofb_return = 1%Z.
Proof. repeat split; reflexivity. Qed.

Definition dto_code (d t : bool) : Z :=
  if dto_guard_dict d t then dto_ret_dict else if dto_guard_tuple d t then dto_ret_tuple else dto_ret_plain.
Lemma frag_dict_to_obs sp (b : buf) : dict_to_obs_code (dto_code (is_dict sp) (is_tuple sp)) sp b = dict_to_obs sp b.
Proof. destruct sp; reflexivity. Qed.

Definition stk_code (d t : bool) : Z :=
  if stk_guard_dict d t then stk_ret_dict else if stk_guard_tuple d t then stk_ret_tuple else stk_ret_plain.
Lemma frag_stack_obs sp (l : list obs) :
  stack_obs_code dV (stk_code (is_dict sp) (is_tuple sp)) sp l = stack_obs dV sp l /\ stk_tuple_len = 1%Z.
Proof. split; [destruct sp|]; reflexivity. Qed.
End Proofs.

Definition osi_code (d t : bool) : Z :=
  if osi_guard_dict d t then osi_sub_dict else if osi_guard_tuple d t then osi_sub_tuple else osi_sub_plain.
Lemma frag_obs_space_info sp :
  obs_space_info_code (osi_code (is_dict sp) (is_tuple sp)) sp = obs_space_info sp /\
  osi_loop_source = 1%Z /\ osi_appended = 1%Z /\ osi_return = 1%Z.
Proof. split; [destruct sp|repeat split]; reflexivity. Qed.

(* ---------------------------------------------------------------- _get_indices and indexed calls *)
Definition ix_is_none (ix : indices) : bool := match ix with INone => true | _ => false end.
Definition ix_is_int (ix : indices) : bool := match ix with IInt _ => true | _ => false end.
Definition gi_code (ix : indices) : Z :=
  if gi_guard_none (ix_is_none ix) true (ix_is_int ix) then gi_all
  else if gi_guard_int (ix_is_none ix) true (ix_is_int ix) then gi_single else 0%Z.
Lemma frag_get_indices n ix : indices_of_code (gi_code ix) n ix = get_indices n ix /\ gi_return = 1%Z.
Proof. split; [destruct ix|]; reflexivity. Qed.
Lemma frag_gi_decision ix : gi_code ix = get_indices_code (ix_is_none ix) (ix_is_int ix).
Proof. destruct ix; reflexivity. Qed.
Lemma frag_indexed_methods :
  gte_indices = 1%Z /\ gte_return = 1%Z /\ get_attr_targets = 1%Z /\ get_attr_return = 1%Z /\ set_attr_targets = 1%Z /\
  set_attr_loop_source = 1%Z /\ set_attr_receiver = 1%Z /\ env_method_targets = 1%Z /\ env_method_return = 1%Z /\
  is_wrapped_targets = 1%Z /\ is_wrapped_return = 1%Z.
Proof. repeat split; reflexivity. Qed.

Lemma py_index_range n i t : py_index n i = Some t -> t < n.
Proof.
  unfold py_index. intro H.
  destruct ((0 <=? i)%Z && (i <? Z.of_nat n)%Z) eqn:E1; [inv H; lia|].
  destruct ((- Z.of_nat n <=? i)%Z && (i <? 0)%Z) eqn:E2; [inv H; lia|discriminate].
Qed.
Lemma py_index_nonneg n i : (0 <= i < Z.of_nat n)%Z -> py_index n i = Some (Z.to_nat i).
Proof. intro H. unfold py_index. destruct ((0 <=? i)%Z && (i <? Z.of_nat n)%Z) eqn:E; [reflexivity|lia]. Qed.
Lemma py_index_negative n i : (- Z.of_nat n <= i < 0)%Z -> py_index n i = Some (n - Z.to_nat (- i)).
Proof.
  intro H. unfold py_index.
  destruct ((0 <=? i)%Z && (i <? Z.of_nat n)%Z) eqn:E1; [lia|].
  destruct ((- Z.of_nat n <=? i)%Z && (i <? 0)%Z) eqn:E2; [f_equal; lia|lia].
Qed.
Lemma py_index_out n i : (i < - Z.of_nat n \/ Z.of_nat n <= i)%Z -> py_index n i = None.
Proof.
  intro H. unfold py_index.
  destruct ((0 <=? i)%Z && (i <? Z.of_nat n)%Z) eqn:E1; [lia|].
  destruct ((- Z.of_nat n <=? i)%Z && (i <? 0)%Z) eqn:E2; [lia|reflexivity].
Qed.
Lemma map_opt_forall {A B} (f : A -> option B) (P : B -> Prop) l : forall r,
  (forall a b, f a = Some b -> P b) -> map_opt f l = Some r -> Forall P r.
Proof.
  induction l as [|a l IH]; intros r Hf H; simpl in H; [inv H; constructor|].
  destruct (f a) eqn:E; [|discriminate]. destruct (map_opt f l) eqn:E2; [|discriminate]. inv H.
  constructor; eauto.
Qed.
Lemma target_envs_in_range n ix ts : target_envs n ix = Some ts -> Forall (fun t => t < n) ts.
Proof. apply map_opt_forall. apply py_index_range. Qed.
Lemma map_opt_seq n k : k + 0 <= n -> forall m, m + k = n -> map_opt (py_index n) (map Z.of_nat (seq m k)) = Some (seq m k).
Proof.
  intros _. induction k as [|k IH]; intros m H; simpl; [reflexivity|].
  rewrite py_index_nonneg by lia. rewrite IH by lia. rewrite Nat2Z.id. reflexivity.
Qed.
Lemma target_envs_none n : target_envs n INone = Some (seq 0 n).
Proof. unfold target_envs. simpl. apply map_opt_seq; lia. Qed.

Section IndexedProofs.
Variables W R : Type.
Variable f : W -> W * R.

Lemma call_loop_length ts : forall sts, length (fst (call_loop f sts ts)) = length sts.
Proof.
  induction ts as [|t r IH]; intros sts; simpl; auto.
  destruct (nth_error sts t) eqn:E; [|apply IH].
  destruct (f w) as [s' x]. specialize (IH (row_set t s' sts)).
  destruct (call_loop f (row_set t s' sts) r). simpl in *. rewrite IH. apply row_set_length.
Qed.
(* exactly the targets, in that order (repetitions included) *)
Lemma call_loop_order ts : forall sts, Forall (fun t => t < length sts) ts -> map fst (snd (call_loop f sts ts)) = ts.
Proof.
  induction ts as [|t r IH]; intros sts H; simpl; auto. inv H.
  destruct (nth_error sts t) eqn:E; [|apply nth_error_None in E; lia].
  destruct (f w) as [s' x]. specialize (IH (row_set t s' sts)).
  destruct (call_loop f (row_set t s' sts) r). simpl in *. f_equal. apply IH. rewrite row_set_length. assumption.
Qed.
Lemma call_loop_untouched ts j : ~ In j ts -> forall sts, nth_error (fst (call_loop f sts ts)) j = nth_error sts j.
Proof.
  induction ts as [|t r IH]; intros Hj sts; simpl; auto.
  assert (t <> j /\ ~ In j r) as [H1 H2] by (simpl in Hj; tauto).
  destruct (nth_error sts t) eqn:E; [|apply IH; assumption].
  destruct (f w) as [s' x]. specialize (IH H2 (row_set t s' sts)).
  destruct (call_loop f (row_set t s' sts) r). simpl in *. rewrite IH. apply nth_error_row_set_other. assumption.
Qed.
Lemma call_loop_app t1 : forall sts t2,
  call_loop f sts (t1 ++ t2) =
  (fst (call_loop f (fst (call_loop f sts t1)) t2), snd (call_loop f sts t1) ++ snd (call_loop f (fst (call_loop f sts t1)) t2)).
Proof.
  induction t1 as [|t r IH]; intros sts t2; simpl.
  - destruct (call_loop f sts t2); reflexivity.
  - destruct (nth_error sts t) eqn:E; [|apply IH].
    destruct (f w) as [s' x]. rewrite IH. destruct (call_loop f (row_set t s' sts) r). reflexivity.
Qed.
(* sub-environment j sees as many calls as j occurs among the targets, on its own state only *)
Lemma call_loop_projection ts j : forall sts s, nth_error sts j = Some s ->
  nth_error (fst (call_loop f sts ts)) j = Some (fst (iter_calls f s (count_occ Nat.eq_dec ts j))) /\
  map snd (filter (fun p => Nat.eqb (fst p) j) (snd (call_loop f sts ts))) = snd (iter_calls f s (count_occ Nat.eq_dec ts j)).
Proof.
  induction ts as [|t r IH]; intros sts s Hs; simpl; auto.
  destruct (Nat.eq_dec t j) as [->|Hne].
  - rewrite Hs. simpl. destruct (f s) as [s' x].
    assert (Hj : j < length sts) by (apply nth_error_Some; congruence).
    specialize (IH (row_set j s' sts) s' (nth_error_row_set_same j s' sts Hj)).
    destruct (call_loop f (row_set j s' sts) r) as [sts' xs]. simpl in *. rewrite Nat.eqb_refl.
    destruct (iter_calls f s' (count_occ Nat.eq_dec r j)). simpl in *. destruct IH as [IH1 IH2]. split; [assumption|]. f_equal. assumption.
  - destruct (nth_error sts t) eqn:E; [|apply IH; assumption].
    destruct (f w) as [s' x].
    assert (Hs' : nth_error (row_set t s' sts) j = Some s) by (rewrite nth_error_row_set_other; assumption).
    specialize (IH (row_set t s' sts) s Hs').
    destruct (call_loop f (row_set t s' sts) r) as [sts' xs]. simpl in *.
    destruct (Nat.eqb_spec t j); [contradiction|]. assumption.
Qed.

Lemma indexed_call_touches_get_indices sts ix ts : target_envs (length sts) ix = Some ts ->
  indexed_call f sts ix = Some (call_loop f sts ts) /\
  map fst (snd (call_loop f sts ts)) = ts /\
  length (fst (call_loop f sts ts)) = length sts /\
  (forall j, ~ In j ts -> nth_error (fst (call_loop f sts ts)) j = nth_error sts j) /\
  (forall j s, nth_error sts j = Some s ->
     nth_error (fst (call_loop f sts ts)) j = Some (fst (iter_calls f s (count_occ Nat.eq_dec ts j))) /\
     map snd (filter (fun p => Nat.eqb (fst p) j) (snd (call_loop f sts ts))) = snd (iter_calls f s (count_occ Nat.eq_dec ts j))).
Proof.
  intro H. split; [unfold indexed_call; rewrite H; reflexivity|].
  split; [apply call_loop_order; apply target_envs_in_range with (ix := ix); assumption|].
  split; [apply call_loop_length|].
  split; [intros; apply call_loop_untouched; assumption|].
  intros; apply call_loop_projection; assumption.
Qed.
Lemma indexed_call_index_error sts ix : target_envs (length sts) ix = None -> indexed_call f sts ix = None.
Proof. intro H. unfold indexed_call. rewrite H. reflexivity. Qed.
End IndexedProofs.

Lemma target_positions n :
  target_envs n INone = Some (seq 0 n) /\
  (forall i, (0 <= i < Z.of_nat n)%Z -> target_envs n (IInt i) = Some [Z.to_nat i]) /\
  (forall i, (- Z.of_nat n <= i < 0)%Z -> target_envs n (IInt i) = Some [n - Z.to_nat (- i)]) /\
  (forall i, (i < - Z.of_nat n \/ Z.of_nat n <= i)%Z -> target_envs n (IInt i) = None) /\
  (forall ix ts, target_envs n ix = Some ts -> Forall (fun t => t < n) ts).
Proof.
  split; [apply target_envs_none|].
  split; [intros i H; unfold target_envs; simpl; rewrite py_index_nonneg by assumption; reflexivity|].
  split; [intros i H; unfold target_envs; simpl; rewrite py_index_negative by assumption; reflexivity|].
  split; [intros i H; unfold target_envs; simpl; rewrite py_index_out by assumption; reflexivity|].
  apply target_envs_in_range.
Qed.
