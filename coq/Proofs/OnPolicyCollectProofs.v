(* Proofs about Model/OnPolicyCollect.v *)
From Coq Require Import ZArith QArith Qminmax List Bool Lia Lqa.
From SB3V Require Import Model.Script Lib.QUtil Gen.Frag_onpolicy Model.OnPolicyCollect.
Import ListNotations.
Local Open Scope Z_scope.

Ltac inv H := inversion H; subst; clear H.

(* ------------------------------------------------------------------ fragments vs model *)

Definition has_term (o : vout) : bool := match vo_term o with Some _ => true | None => false end.

Lemma frag_boot_cond o : onp_boot_cond (vo_done o) (has_term o) (vo_tl o) = bootstraps o.
Proof. unfold onp_boot_cond, bootstraps, has_term. destruct (vo_done o), (vo_term o), (vo_tl o); reflexivity. Qed.

Lemma frag_boot_reward gamma o p :
  (reward_of gamma o p ==
   if onp_boot_cond (vo_done o) (has_term o) (vo_tl o)
   then onp_boot_reward (inject_Z (vo_r4 o) / 4) gamma (p_tv p) else inject_Z (vo_r4 o) / 4)%Q.
Proof.
  rewrite frag_boot_cond. unfold reward_of, onp_boot_reward. destruct (bootstraps o); ring.
Qed.

Lemma frag_clip a lo hi : (onp_clip a lo hi == qclip a lo hi)%Q.
Proof. reflexivity. Qed.

Lemma frag_rollout_guard k n : onp_rollout_guard k n = (k <? n).
Proof. reflexivity. Qed.

(* several learn() calls: each one is the rollouts from the carried state, after an env reset when asked for *)
Lemma learns_cons ak gamma sc st reset rs r :
  learns ak gamma sc st ((reset, rs) :: r) =
  let st0 := if reset then col_reset sc st else st in
  (fst (learns ak gamma sc (fst (rollouts ak gamma sc st0 rs)) r),
   snd (rollouts ak gamma sc st0 rs) :: snd (learns ak gamma sc (fst (rollouts ak gamma sc st0 rs)) r)).
Proof.
  cbn [learns]. destruct (rollouts ak gamma sc (if reset then col_reset sc st else st) rs) as [st1 outs].
  cbn [fst snd]. destruct (learns ak gamma sc st1 r). reflexivity.
Qed.

Lemma frag_unscale lo hi x : (onp_unscale lo hi x == unscale lo hi x)%Q.
Proof. unfold onp_unscale, unscale. ring. Qed.

Lemma frag_vec_flags sc c :
  let st := snd (env_step sc c) in
  let o := snd (vstep1 sc c) in
  vo_done o = onp_vec_done (st_term st) (st_trunc st) /\
  vo_tl o = onp_vec_timelimit (st_term st) (st_trunc st) /\
  vo_terminated o = st_term st /\ vo_truncated o = st_trunc st.
Proof.
  unfold vstep1, onp_vec_done, onp_vec_timelimit. destruct (env_step sc c) as [c1 st]. cbn [snd].
  destruct (st_term st) eqn:T, (st_trunc st) eqn:U; cbn [orb];
    try (destruct (env_reset sc c1) as [[c2 ot] ri]); cbn; rewrite ?T, ?U; auto.
Qed.

(* ------------------------------------------------------------------ the auto-reset step *)

(* terminal observation present iff done; it is the step's own observation; the returned observation is then
   the next episode's reset observation *)
Lemma vstep1_done sc c :
  let st := snd (env_step sc c) in
  let o := snd (vstep1 sc c) in
  vo_done o = (st_term st || st_trunc st)%bool /\
  (vo_done o = true -> vo_term o = Some (st_tag st) /\
                       vo_obs o = snd (fst (env_reset sc (fst (env_step sc c))))) /\
  (vo_done o = false -> vo_term o = None /\ vo_obs o = st_tag st) /\
  vo_r4 o = st_r4 st.
Proof.
  unfold vstep1. destruct (env_step sc c) as [c1 st]. cbn [fst snd].
  destruct (st_term st || st_trunc st)%bool eqn:D.
  - destruct (env_reset sc c1) as [[c2 ot] ri]. cbn. repeat split; auto; discriminate.
  - cbn. repeat split; auto; discriminate.
Qed.

(* bootstrap exactly when the step was truncated and not terminated *)
Theorem bootstraps_iff sc c :
  let st := snd (env_step sc c) in
  bootstraps (snd (vstep1 sc c)) = (st_trunc st && negb (st_term st))%bool.
Proof.
  unfold vstep1, bootstraps. destruct (env_step sc c) as [c1 st]. cbn [snd].
  destruct (st_term st), (st_trunc st); cbn [orb];
    try (destruct (env_reset sc c1) as [[c2 ot] ri]); reflexivity.
Qed.

Theorem reward_spec gamma o p :
  (reward_of gamma o p == inject_Z (vo_r4 o) / 4 + (if bootstraps o then gamma * p_tv p else 0))%Q.
Proof. unfold reward_of. destruct (bootstraps o); ring. Qed.

(* ------------------------------------------------------------------ the ground truth and the slots *)

Definition obs_at (sc : script) (st : cstate) (g : nat) : Z :=
  match g with O => cs_obs st | S g' => vo_obs (out_at sc (cs_cur st) g') end.
Definition start_at (sc : script) (st : cstate) (g : nat) : bool :=
  match g with O => cs_start st | S g' => vo_done (out_at sc (cs_cur st) g') end.
Definition state_at (sc : script) (st : cstate) (g : nat) : cstate :=
  mkC (env_after sc (cs_cur st) g) (obs_at sc st g) (start_at sc st g).

Lemma env_after_shift sc : forall g c, env_after sc c (S g) = env_after sc (fst (vstep1 sc c)) g.
Proof.
  induction g as [|g IH]; intros c; [reflexivity|].
  change (env_after sc c (S (S g))) with (fst (vstep1 sc (env_after sc c (S g)))).
  rewrite IH. reflexivity.
Qed.

Lemma out_at_shift sc g c : out_at sc c (S g) = out_at sc (fst (vstep1 sc c)) g.
Proof. unfold out_at. rewrite env_after_shift. reflexivity. Qed.

Definition step_state (sc : script) (st : cstate) : cstate :=
  mkC (fst (vstep1 sc (cs_cur st))) (vo_obs (snd (vstep1 sc (cs_cur st)))) (vo_done (snd (vstep1 sc (cs_cur st)))).

Lemma step_col_fst ak gamma sc st p : fst (step_col ak gamma sc st p) = step_state sc st.
Proof. unfold step_col, step_state. destruct (vstep1 sc (cs_cur st)) as [c' o]. reflexivity. Qed.

Lemma state_at_shift sc st g : state_at sc (step_state sc st) g = state_at sc st (S g).
Proof.
  unfold state_at, step_state. cbn [cs_cur]. rewrite env_after_shift.
  f_equal; destruct g; cbn [obs_at start_at cs_obs cs_start cs_cur]; rewrite ?out_at_shift; reflexivity.
Qed.

Lemma state_at_0 sc st : state_at sc st 0 = st.
Proof. destruct st; reflexivity. Qed.

(* the slot the property describes for global step g of a column that started in state st *)
Definition spec_slot (ak : act_kind) (gamma : Q) (sc : script) (st : cstate) (g : nat) (p : pol) : slot :=
  let o := out_at sc (cs_cur st) g in
  mkS (obs_at sc st g) (p_id p) (p_act p) (reward_of gamma o p) (start_at sc st g) (p_val p) (p_logp p)
      (env_action ak (p_act p)) (bootstraps o) (if bootstraps o then vo_term o else None).

Lemma collect_cons ak gamma sc st p r :
  collect ak gamma sc st (p :: r) =
  (fst (collect ak gamma sc (step_state sc st) r),
   snd (step_col ak gamma sc st p) :: snd (collect ak gamma sc (step_state sc st) r)).
Proof.
  cbn [collect]. rewrite <- (step_col_fst ak gamma sc st p).
  destruct (step_col ak gamma sc st p) as [st1 s]. cbn [fst snd].
  destruct (collect ak gamma sc st1 r). reflexivity.
Qed.

Lemma step_col_snd ak gamma sc st p : snd (step_col ak gamma sc st p) = spec_slot ak gamma sc st 0 p.
Proof.
  unfold step_col, spec_slot, out_at. cbn [env_after obs_at start_at].
  destruct (vstep1 sc (cs_cur st)) as [c' o]. reflexivity.
Qed.

Lemma obs_start_shift sc st g :
  obs_at sc (step_state sc st) g = obs_at sc st (S g) /\ start_at sc (step_state sc st) g = start_at sc st (S g).
Proof.
  unfold step_state. destruct g; cbn [obs_at start_at cs_obs cs_start cs_cur]; rewrite ?out_at_shift; split; reflexivity.
Qed.

Lemma spec_slot_shift ak gamma sc st g p :
  spec_slot ak gamma sc (step_state sc st) g p = spec_slot ak gamma sc st (S g) p.
Proof.
  unfold spec_slot. destruct (obs_start_shift sc st g) as [A B]. rewrite A, B.
  unfold step_state at 1 2 3 4. cbn [cs_cur]. rewrite <- !out_at_shift. reflexivity.
Qed.

(* every slot of every column, for every number of steps *)
Theorem collect_slot ak gamma sc : forall ps st g p,
  nth_error ps g = Some p ->
  nth_error (snd (collect ak gamma sc st ps)) g = Some (spec_slot ak gamma sc st g p).
Proof.
  induction ps as [|q r IH]; intros st g p H; [destruct g; discriminate H|].
  rewrite collect_cons. cbn [snd]. destruct g as [|g].
  - inv H. cbn [nth_error]. rewrite step_col_snd. reflexivity.
  - cbn [nth_error] in *. rewrite (IH _ _ _ H), spec_slot_shift. reflexivity.
Qed.

Theorem collect_state ak gamma sc : forall ps st,
  fst (collect ak gamma sc st ps) = state_at sc st (length ps).
Proof.
  induction ps as [|q r IH]; intros st; [rewrite state_at_0; reflexivity|].
  rewrite collect_cons. cbn [fst length]. rewrite IH, state_at_shift. reflexivity.
Qed.

Lemma collect_length ak gamma sc : forall ps st, length (snd (collect ak gamma sc st ps)) = length ps.
Proof.
  induction ps as [|q r IH]; intros st; [reflexivity|]. rewrite collect_cons. cbn [snd length]. rewrite IH. reflexivity.
Qed.

(* consecutive rollouts continue one another: state is carried across rollout boundaries *)
Theorem collect_app ak gamma sc : forall ps1 ps2 st,
  collect ak gamma sc st (ps1 ++ ps2) =
  (fst (collect ak gamma sc (fst (collect ak gamma sc st ps1)) ps2),
   snd (collect ak gamma sc st ps1) ++ snd (collect ak gamma sc (fst (collect ak gamma sc st ps1)) ps2)).
Proof.
  induction ps1 as [|q r IH]; intros ps2 st.
  - cbn. destruct (collect ak gamma sc st ps2); reflexivity.
  - cbn [app]. rewrite !collect_cons, IH. reflexivity.
Qed.

Lemma rollouts_cons ak gamma sc st ps r :
  rollouts ak gamma sc st (ps :: r) =
  let st1 := fst (collect ak gamma sc st ps) in
  (fst (rollouts ak gamma sc st1 r),
   mkR (snd (collect ak gamma sc st ps)) (cs_obs st1) (cs_start st1) :: snd (rollouts ak gamma sc st1 r)).
Proof.
  cbn [rollouts]. destruct (collect ak gamma sc st ps) as [st1 sl]. cbn [fst snd].
  destruct (rollouts ak gamma sc st1 r). reflexivity.
Qed.

(* the rollouts of a learn() are consecutive slices of one uninterrupted collection *)
Theorem rollouts_are_slices ak gamma sc : forall rs st,
  concat (map ro_slots (snd (rollouts ak gamma sc st rs))) = snd (collect ak gamma sc st (concat rs)) /\
  fst (rollouts ak gamma sc st rs) = fst (collect ak gamma sc st (concat rs)).
Proof.
  induction rs as [|ps r IH]; intros st; [split; reflexivity|].
  rewrite rollouts_cons. cbn zeta. cbn [snd fst map concat ro_slots].
  rewrite collect_app. cbn [fst snd]. destruct (IH (fst (collect ak gamma sc st ps))) as [A B].
  rewrite A, B. split; reflexivity.
Qed.

Lemma obs_start_state_at sc : forall a st k,
  obs_at sc (state_at sc st a) k = obs_at sc st (a + k) /\ start_at sc (state_at sc st a) k = start_at sc st (a + k).
Proof.
  induction a as [|a IH]; intros st k.
  - rewrite state_at_0. split; reflexivity.
  - rewrite <- state_at_shift. destruct (IH (step_state sc st) k) as [A B]. rewrite A, B.
    destruct (obs_start_shift sc st (a + k)) as [C D]. cbn [plus]. rewrite C, D. split; reflexivity.
Qed.

(* the value that bootstraps the end of rollout number r is taken at the observation that follows its last
   step, and the final dones are those of that last step *)
Theorem last_values_follow_last_step ak gamma sc : forall rs st r ro,
  nth_error (snd (rollouts ak gamma sc st rs)) r = Some ro ->
  let G := length (concat (firstn (S r) rs)) in
  ro_last_obs ro = obs_at sc st G /\ ro_dones ro = start_at sc st G.
Proof.
  induction rs as [|ps rest IH]; intros st r ro H; [destruct r; discriminate H|].
  rewrite rollouts_cons in H. cbn zeta in H. cbn [snd] in H. destruct r as [|r].
  - inv H. cbn [firstn concat ro_last_obs ro_dones]. rewrite app_nil_r, collect_state. split; reflexivity.
  - cbn [nth_error] in H. apply IH in H. cbn zeta in H.
    change (firstn (S (S r)) (ps :: rest)) with (ps :: firstn (S r) rest). cbn [concat]. rewrite app_length.
    rewrite collect_state in H. destruct H as [A B]. rewrite A, B.
    apply obs_start_state_at.
Qed.

(* episode_start[t] = done[t-1], carried across rollouts; true right after an env reset *)
Theorem episode_start_is_previous_done sc st g :
  start_at sc st (S g) = vo_done (out_at sc (cs_cur st) g) /\ start_at sc st 0 = cs_start st.
Proof. split; reflexivity. Qed.

Theorem reset_sets_start sc st : cs_start (col_reset sc st) = true /\
  cs_obs (col_reset sc st) = snd (fst (env_reset sc (cs_cur st))).
Proof. unfold col_reset. destruct (env_reset sc (cs_cur st)) as [[c o] i]. split; reflexivity. Qed.

(* ------------------------------------------------------------------ the action the environment receives *)

Lemma qclip_in_bounds a lo hi : (lo <= hi -> lo <= qclip a lo hi <= hi)%Q.
Proof.
  intros H. unfold qclip. split.
  - apply Q.min_glb; [apply Q.le_max_r | exact H].
  - apply Q.le_min_r.
Qed.

Lemma qclip_id a lo hi : (lo <= a <= hi -> qclip a lo hi == a)%Q.
Proof.
  intros [H1 H2]. unfold qclip. rewrite (Q.max_l a lo H1). apply Q.min_l. exact H2.
Qed.

Lemma unscale_in_bounds lo hi x : (lo <= hi -> -1 <= x <= 1 -> lo <= unscale lo hi x <= hi)%Q.
Proof.
  intros H [H1 H2]. unfold unscale.
  assert (A : (0 <= (x + 1) * (hi - lo))%Q) by (apply Qmult_le_0_compat; lra).
  assert (B : (0 <= (1 - x) * (hi - lo))%Q) by (apply Qmult_le_0_compat; lra).
  assert (E1 : (lo + (1 # 2) * (x + 1) * (hi - lo) == lo + (1 # 2) * ((x + 1) * (hi - lo)))%Q) by ring.
  assert (E2 : (lo + (1 # 2) * (x + 1) * (hi - lo) == hi - (1 # 2) * ((1 - x) * (hi - lo)))%Q) by ring.
  split; [rewrite E1 | rewrite E2]; lra.
Qed.

Inductive Forall3 {A B C} (P : A -> B -> C -> Prop) : list A -> list B -> list C -> Prop :=
| F3_nil : Forall3 P [] [] []
| F3_cons x y z a b c : P x y z -> Forall3 P a b c -> Forall3 P (x :: a) (y :: b) (z :: c).

Theorem env_action_in_bounds_clip a lo hi :
  Forall2 Qle lo hi -> length a = length lo ->
  Forall3 (fun x l h => (l <= x <= h)%Q) (env_action (ActClip lo hi) a) lo hi.
Proof.
  intros H. revert a. induction H as [|l h lo hi Hlh _ IH]; intros a L; destruct a as [|x a]; try discriminate L.
  - constructor.
  - cbn [env_action map3]. constructor; [apply qclip_in_bounds; exact Hlh|]. apply IH. cbn in L. lia.
Qed.

Theorem env_action_in_bounds_squash a lo hi :
  Forall2 Qle lo hi -> length a = length lo -> Forall (fun x => (-1 <= x <= 1)%Q) a ->
  Forall3 (fun x l h => (l <= x <= h)%Q) (env_action (ActSquash lo hi) a) lo hi.
Proof.
  intros H. revert a. induction H as [|l h lo hi Hlh _ IH]; intros a L Fa; destruct a as [|x a]; try discriminate L.
  - constructor.
  - inv Fa. cbn [env_action map3]. constructor; [apply unscale_in_bounds; assumption|]. apply IH; [cbn in L; lia | assumption].
Qed.

(* ------------------------------------------------------------------ gSDE resampling cadence *)

Lemma frag_sde_guard u f j : onp_sde_guard u f j = sde_resample u f j /\ onp_sde_start_guard u = u.
Proof. split; reflexivity. Qed.

Theorem sde_positions_spec u f : forall k j x,
  In x (sde_positions u f k j) <-> (j <= x < j + Z.of_nat k /\ sde_resample u f x = true).
Proof.
  induction k as [|k IH]; intros j x.
  - cbn. split; [tauto | intros [H _]; lia].
  - cbn [sde_positions]. rewrite in_app_iff, IH. split.
    + intros [H|H].
      * destruct (sde_resample u f j) eqn:E; [|destruct H]. destruct H as [<-|[]]. split; [lia | exact E].
      * destruct H as [H1 H2]. split; [lia | exact H2].
    + intros [H1 H2]. destruct (Z.eq_dec x j) as [->|N].
      * left. rewrite H2. left. reflexivity.
      * right. split; [lia | exact H2].
Qed.

(* inside a rollout the noise is resampled exactly at the step indices that are multiples of sde_sample_freq (> 0), and never
   when sde_sample_freq <= 0 or gSDE is off *)
Theorem sde_resample_iff u f j :
  sde_resample u f j = true <-> u = true /\ 0 < f /\ exists q, j = q * f.
Proof.
  unfold sde_resample. rewrite !andb_true_iff, Z.ltb_lt, Z.eqb_eq. split.
  - intros [[A B] C]. repeat split; auto. exists (j / f). pose proof (Z.div_mod j f). lia.
  - intros (A & B & q & ->). repeat split; auto. apply Z_mod_mult.
Qed.

Theorem sde_calls_spec u f k x :
  In x (sde_calls u f k) <-> (u = true /\ x = 0) \/ (0 <= x < Z.of_nat k /\ sde_resample u f x = true).
Proof.
  unfold sde_calls. rewrite in_app_iff, sde_positions_spec. destruct u; cbn [In]; split.
  - intros [[<-|[]]|H]; [left; auto | right; exact H].
  - intros [[_ ->]|H]; [left; left; reflexivity | right; exact H].
  - intros [[]|H]; right; exact H.
  - intros [[E _]|H]; [discriminate E | right; exact H].
Qed.

(* ------------------------------------------------------------------ callback stop *)
Theorem collect_s_no_stop ak gamma sc : forall ps st,
  collect_s ak gamma sc st (map (fun p => (p, false)) ps) = collect ak gamma sc st ps.
Proof.
  induction ps as [|p r IH]; intros st; [reflexivity|].
  cbn [map collect_s collect]. destruct (step_col ak gamma sc st p) as [st1 s]. rewrite IH. reflexivity.
Qed.

Theorem step_col_stopped_spec sc st :
  cs_obs (step_col_stopped sc st) = cs_obs st /\ cs_start (step_col_stopped sc st) = cs_start st /\
  cs_cur (step_col_stopped sc st) = fst (vstep1 sc (cs_cur st)).
Proof. repeat split. Qed.

(* ------------------------------------------------------------------ model mutation score: the list comparator *)
(* qclose_all accepts exactly the lists of the same length whose entries are pairwise close *)
Theorem qclose_all_spec rel abs : forall ms is_,
  qclose_all rel abs ms is_ = true <-> Forall2 (fun m i => qclose rel abs m i = true) ms is_.
Proof.
  induction ms as [|m ms IH]; intros [|i is_]; cbn [qclose_all]; split; intros H;
    try discriminate H; try (inversion H; fail); try constructor.
  - apply andb_true_iff in H. exact (proj1 H).
  - apply andb_true_iff in H. apply IH. exact (proj2 H).
  - inversion H; subst. apply andb_true_iff. split; [assumption | apply IH; assumption].
Qed.

Example qclose_all_pins :
  qclose_all (1 # 1000) (1 # 1000) [1; 2 # 3]%Q [1; 2 # 3]%Q = true /\
  qclose_all (1 # 1000) (1 # 1000) []%Q []%Q = true /\
  qclose_all (1 # 1000) (1 # 1000) [1; 2 # 3]%Q [1; 3 # 4]%Q = false /\
  qclose_all (1 # 1000) (1 # 1000) [1; 2]%Q [1]%Q = false /\
  qclose_all (1 # 1000) (1 # 1000) [1]%Q [1; 2]%Q = false.
Proof. vm_compute. repeat split; reflexivity. Qed.
