(* C02 - SubprocVecEnv is observationally equivalent to DummyVecEnv under any timing: the protocol half.
   Only statements: every proof is [exact <lemma>], followed by Print Assumptions.
   Generic in the worker state W, commands C, replies R; any number of workers; any parent program
   (list of send / recv instructions); EVERY schedule (list of atomic actions). *)
From Coq Require Import List ZArith Bool.
From SB3V Require Import Gen.Frag_Subproc Model.Script Model.VecEnv Model.Subproc Proofs.SubprocProofs Proofs.SubprocAttrProofs.
Import ListNotations.
Local Open Scope nat_scope.

(* every interleaving of parent and worker steps under which the parent program completes hands the
   parent the values of the sequential (DummyVecEnv-order) run, pipe by pipe, in program order *)
Theorem C02_schedule_independence : forall (W C R : Type) (wstep : W -> C -> W * R)
  (prog : list (instr C)) (sts : list W) (sched : list action) (cfg' : config W C R),
  exec wstep (init prog sts) sched = Some cfg' -> pc cfg' = [] ->
  exists sq', seq_exec wstep (sinit sts) prog = Some sq' /\ log cfg' = s_log sq'.
Proof. exact (@schedule_independence). Qed.
Print Assumptions C02_schedule_independence.

(* no deadlock: when every recv of the program has its send (the program runs sequentially), every
   configuration reachable under any schedule can be completed, and then with the sequential result *)
Theorem C02_no_deadlock : forall (W C R : Type) (wstep : W -> C -> W * R)
  (prog : list (instr C)) (sts : list W) (sqf : sconfig W R) (sched : list action) (cfg : config W C R),
  seq_exec wstep (sinit sts) prog = Some sqf ->
  exec wstep (init prog sts) sched = Some cfg ->
  exists sched' cfg', exec wstep cfg sched' = Some cfg' /\ pc cfg' = [] /\ log cfg' = s_log sqf.
Proof. exact (@no_deadlock). Qed.
Print Assumptions C02_no_deadlock.

(* the replies of a worker depend on the commands it received only (one at a time = in a batch) *)
Theorem C02_worker_determinism : forall (W C R : Type) (wstep : W -> C -> W * R) s cs1 cs2,
  wrun wstep s (cs1 ++ cs2)
  = (fst (wrun wstep (fst (wrun wstep s cs1)) cs2), snd (wrun wstep s cs1) ++ snd (wrun wstep (fst (wrun wstep s cs1)) cs2)).
Proof. exact (@worker_determinism). Qed.
Print Assumptions C02_worker_determinism.

(* send-to-all then receive-from-all (step, reset) is the DummyVecEnv loop: worker i handles command i,
   results are gathered in index order, for every number of workers *)
Theorem C02_all_workers_method_is_the_loop : forall (W C R : Type) (wstep : W -> C -> W * R)
  (sts : list W) (payload : nat -> C) (lg : list (nat * R)),
  seq_exec wstep (mk_sconfig lg (map (fun s => mk_sworker [] s) sts))
           (sends (seq 0 (length sts)) payload ++ recvs (seq 0 (length sts)))
  = Some (mk_sconfig (lg ++ map (fun '(i, s) => (i, snd (wstep s (payload i)))) (combine (seq 0 (length sts)) sts))
                     (map (fun '(i, s) => mk_sworker [] (fst (wstep s (payload i)))) (combine (seq 0 (length sts)) sts))).
Proof. exact (@seq_all_method). Qed.
Print Assumptions C02_all_workers_method_is_the_loop.

(* scripted workers: a step() of the SubprocVecEnv model (under any schedule, by the theorems above) returns,
   in sub-environment order, exactly the outputs of the DummyVecEnv loop of Model/VecEnv.v (C01) and leaves the
   workers' environments and reset_infos as that loop leaves them *)
Theorem C02_step_eq_dummy_step : forall (ws : list wstate) (acts : list Z),
  length acts = length ws ->
  let n := length ws in
  let r := step_loop sc_step sc_reset (map ws_env ws) (map ws_ri ws) acts in
  exists sq,
    seq_exec sworker_step (mk_sconfig [] (map (fun s => mk_sworker [] s) ws))
             (sends (seq 0 n) (fun i => CmdStep (nth i acts 0%Z)) ++ recvs (seq 0 n)) = Some sq /\
    map fst (s_log sq) = seq 0 n /\
    map snd (s_log sq) = map reply_of (combine (snd (fst r)) (snd (fst (fst r)))) /\
    map (fun w => ws_env (sw_st w)) (s_workers sq) = fst (fst (fst r)) /\
    map (fun w => ws_ri (sw_st w)) (s_workers sq) = snd (fst (fst r)) /\
    Forall (fun w => sw_queue w = []) (s_workers sq).
Proof. exact subproc_step_eq_dummy_step. Qed.
Print Assumptions C02_step_eq_dummy_step.

(* --- index-subset methods (get_attr / set_attr / env_method / ... over ANY list of in-range indices, any
       order, repetitions allowed) and whole histories, for all numbers of workers --- *)
Theorem C02_targets_method_is_the_loop : forall (W C R : Type) (wstep : W -> C -> W * R)
  (ts : list nat) (sts : list W) (payload : nat -> C) (lg : list (nat * R)),
  Forall (fun t => t < length sts) ts ->
  seq_exec wstep (mk_sconfig lg (map (fun s => mk_sworker [] s) sts)) (sends ts payload ++ recvs ts)
  = Some (mk_sconfig (lg ++ combine ts (snd (dloop wstep sts ts payload)))
                     (map (fun s => mk_sworker [] s) (fst (dloop wstep sts ts payload)))).
Proof. exact (@seq_targets_method). Qed.
Print Assumptions C02_targets_method_is_the_loop.

Theorem C02_history_any_schedule : forall (W C R : Type) (wstep : W -> C -> W * R)
  (calls : list (list nat * (nat -> C))) (sts : list W) (sched : list action) (cfg' : config W C R),
  calls_in_range (length sts) calls ->
  exec wstep (init (history_prog calls) sts) sched = Some cfg' -> pc cfg' = [] ->
  log cfg' = snd (dhistory wstep sts calls).
Proof. exact (@history_any_schedule). Qed.
Print Assumptions C02_history_any_schedule.

Theorem C02_history_no_deadlock : forall (W C R : Type) (wstep : W -> C -> W * R)
  (calls : list (list nat * (nat -> C))) (sts : list W) (sched : list action) (cfg : config W C R),
  calls_in_range (length sts) calls ->
  exec wstep (init (history_prog calls) sts) sched = Some cfg ->
  exists sched' cfg', exec wstep cfg sched' = Some cfg' /\ pc cfg' = [] /\ log cfg' = snd (dhistory wstep sts calls).
Proof. exact (@history_no_deadlock). Qed.
Print Assumptions C02_history_no_deadlock.

(* the programs the harness evaluates (built from the regenerated skeletons): every schedule, no deadlock *)
Theorem C02_scripted_history_any_schedule : forall scs flags cs sched cfg',
  let n := length scs in
  let prog := calls_prog n (repeat None n) (repeat None n) cs in
  Forall (call_targets_ok n) cs ->
  exec sworker_step (init prog (winitw scs flags)) sched = Some cfg' -> pc cfg' = [] ->
  log cfg' = snd (dhistory sworker_step (winitw scs flags) (calls_methods n (repeat None n) (repeat None n) cs)).
Proof. exact scripted_history_any_schedule. Qed.
Print Assumptions C02_scripted_history_any_schedule.

Theorem C02_scripted_history_no_deadlock : forall scs flags cs sched cfg,
  let n := length scs in
  let prog := calls_prog n (repeat None n) (repeat None n) cs in
  Forall (call_targets_ok n) cs ->
  exec sworker_step (init prog (winitw scs flags)) sched = Some cfg ->
  exists sched' cfg', exec sworker_step cfg sched' = Some cfg' /\ pc cfg' = [] /\
    log cfg' = snd (dhistory sworker_step (winitw scs flags) (calls_methods n (repeat None n) (repeat None n) cs)).
Proof. exact scripted_history_no_deadlock. Qed.
Print Assumptions C02_scripted_history_no_deadlock.

Theorem C02_reset_eq_dummy_reset : forall (ws : list wstate) (seeds opts : list (option Z)),
  length seeds = length ws -> length opts = length ws ->
  let n := length ws in
  let r := reset_loop (A:=Z) sc_reset (map ws_env ws) seeds opts in
  exists sq,
    seq_exec sworker_step (mk_sconfig [] (map (fun s => mk_sworker [] s) ws))
             (sends (seq 0 n) (fun i => CmdReset (nth i seeds None) (nth i opts None)) ++ recvs (seq 0 n)) = Some sq /\
    map fst (s_log sq) = seq 0 n /\
    map snd (s_log sq) = map rreply_of (combine (snd (fst r)) (snd (fst (fst r)))) /\
    map (fun w => ws_env (sw_st w)) (s_workers sq) = fst (fst (fst r)) /\
    map (fun w => ws_ri (sw_st w)) (s_workers sq) = snd (fst (fst r)) /\
    Forall (fun w => sw_queue w = []) (s_workers sq).
Proof. exact subproc_reset_eq_dummy_reset. Qed.
Print Assumptions C02_reset_eq_dummy_reset.

(* --- the communication skeleton regenerated from subproc_vec_env.py is the one of the model --- *)
Theorem C02_fragment_skeletons :
  skel_step_async ++ skel_step_wait = model_skel_step /\ skel_reset = model_skel_reset /\
  skel_get_attr = model_skel_targets KGetAttr /\ skel_set_attr = model_skel_targets KSetAttr /\
  skel_env_method = model_skel_targets KEnvMethod /\ skel_env_is_wrapped = model_skel_targets KIsWrapped /\
  skel_has_attr = model_skel_targets KHasAttr.
Proof. exact (conj frag_skel_step (conj frag_skel_reset (conj frag_skel_get_attr (conj frag_skel_set_attr
        (conj frag_skel_env_method (conj frag_skel_env_is_wrapped frag_skel_has_attr)))))). Qed.
Print Assumptions C02_fragment_skeletons.

Theorem C02_fragment_targets_and_worker :
  (skel_targets_in_index_order = true /\ skel_indices_none_is_range = true) /\
  worker_recvs_per_iteration = 1 /\
  Forall (fun k => In (k, 1) worker_replies) [KStep; KReset; KGetAttr; KSetAttr; KEnvMethod; KIsWrapped; KHasAttr; KRender; KGetSpaces].
Proof. exact (conj frag_skel_targets_order frag_worker_one_reply). Qed.
Print Assumptions C02_fragment_targets_and_worker.

Theorem C02_fragment_payloads_targets_order :
  (skel_step_async_payload = [PayOwnAction] /\ skel_reset_payload = [PayOwnSeedOption] /\
   skel_get_attr_payload = [PayCallArgs] /\ skel_set_attr_payload = [PayCallArgs] /\ skel_env_method_payload = [PayCallArgs] /\
   skel_env_is_wrapped_payload = [PayCallArgs] /\ skel_has_attr_payload = [PayCallArgs]) /\
  ((skel_get_attr_targets_ok && skel_set_attr_targets_ok && skel_env_method_targets_ok && skel_env_is_wrapped_targets_ok && skel_has_attr_targets_ok)%bool = true /\
   (skel_step_wait_results_ordered && skel_reset_results_ordered && skel_get_attr_results_ordered && skel_set_attr_results_ordered
    && skel_env_method_results_ordered && skel_env_is_wrapped_results_ordered && skel_has_attr_results_ordered && skel_get_images_results_ordered)%bool = true) /\
  (worker_step_reply_ok = true /\ worker_reset_reply_ok = true) /\
  skel_get_images = [SendEach true KRender; RecvEach true].
Proof. exact (conj frag_skel_payloads (conj frag_skel_targets_and_order (conj frag_worker_reply_shapes frag_skel_get_images))). Qed.
Print Assumptions C02_fragment_payloads_targets_order.

Theorem C02_skeleton_programs : forall (C : Type) n targets (payload : cmdkind -> nat -> C) k,
  skel_prog n targets payload [SendEach true k; RecvEach true] = sends (seq 0 n) (payload k) ++ recvs (seq 0 n) /\
  skel_prog n targets payload (model_skel_targets k) = sends targets (payload k) ++ recvs targets.
Proof. exact (fun C n targets payload k => conj (skel_prog_all n targets payload k) (skel_prog_targets n targets payload k)). Qed.
Print Assumptions C02_skeleton_programs.

(* ---------- build round 5: has_attr as an atomic public call ---------- *)
(* EVERY schedule: after any legal history (steps, resets, set_attr, env methods that create or delete the attribute, ...) has_attr(name)
   receives one boolean per worker in index order, each the presence of the attribute in that sub-environment NOW; the public answer
   (their conjunction) is the DummyVecEnv answer on the current sub-environment states; has_attr changes no state *)
Theorem C02_has_attr_any_schedule : forall scs flags cs nm sched cfg',
  let n := length scs in
  let prog := calls_prog n (repeat None n) (repeat None n) (cs ++ [KaHasAttr nm]) in
  let before := snd (dhistory sworker_step (winitw scs flags) (calls_methods n (repeat None n) (repeat None n) cs)) in
  Forall (call_targets_ok n) cs ->
  exec sworker_step (init prog (winitw scs flags)) sched = Some cfg' -> pc cfg' = [] ->
  log cfg' = before ++ combine (seq 0 n) (map (fun w => ResBool (attr_present w nm)) (dummy_states scs flags cs)) /\
  has_attr_answer (map snd (skipn (length before) (log cfg'))) = dummy_has_attr (dummy_states scs flags cs) nm /\
  dummy_states scs flags (cs ++ [KaHasAttr nm]) = dummy_states scs flags cs.
Proof. exact scripted_has_attr_any_schedule. Qed.
Print Assumptions C02_has_attr_any_schedule.

Theorem C02_has_attr_no_deadlock : forall scs flags cs nm sched cfg,
  let n := length scs in
  let prog := calls_prog n (repeat None n) (repeat None n) (cs ++ [KaHasAttr nm]) in
  let before := snd (dhistory sworker_step (winitw scs flags) (calls_methods n (repeat None n) (repeat None n) cs)) in
  Forall (call_targets_ok n) cs ->
  exec sworker_step (init prog (winitw scs flags)) sched = Some cfg ->
  exists sched' cfg', exec sworker_step cfg sched' = Some cfg' /\ pc cfg' = [] /\
    has_attr_answer (map snd (skipn (length before) (log cfg'))) = dummy_has_attr (dummy_states scs flags cs) nm.
Proof. exact scripted_has_attr_no_deadlock. Qed.
Print Assumptions C02_has_attr_no_deadlock.

(* the DummyVecEnv loop for a command that changes no state (has_attr, get_attr, env_is_wrapped): states untouched, one reply per in-range
   target computed from the state at the time of the call - generic in the worker *)
Theorem C02_read_only_call_sees_current_state : forall (W C R : Type) (wstep : W -> C -> W * R) (c : C) (ans : W -> R),
  (forall w, wstep w c = (w, ans w)) ->
  forall ts sts,
    dloop wstep sts ts (fun _ => c)
    = (sts, flat_map (fun t => match nth_error sts t with Some w => [ans w] | None => [] end) ts).
Proof. exact (@dloop_read_only). Qed.
Print Assumptions C02_read_only_call_sees_current_state.

(* what the worker does with the new commands: the env method creates / deletes the attribute, set_attr creates it, has_attr, step and reset leave it *)
Theorem C02_has_attr_tracks_changes : forall w,
  attr_present (fst (sworker_step w (CmdDynMethod true))) 2 = true /\
  attr_present (fst (sworker_step w (CmdDynMethod false))) 2 = false /\
  attr_present (fst (sworker_step w CmdSetMade)) 3 = true /\
  (forall nm, fst (sworker_step w (CmdHasAttr nm)) = w) /\
  (forall a nm, attr_present (fst (sworker_step w (CmdStep a))) nm = attr_present w nm) /\
  (forall s o nm, attr_present (fst (sworker_step w (CmdReset s o))) nm = attr_present w nm).
Proof. exact has_attr_tracks_changes. Qed.
Print Assumptions C02_has_attr_tracks_changes.

(* regenerated: has_attr asks the workers of _get_target_remotes(indices=None), sends the caller's argument only, keeps no state and returns
   all([...]) of the replies in target order; the worker looks the attribute up when it handles the command *)
Theorem C02_fragment_has_attr :
  skel_has_attr = model_skel_targets KHasAttr /\ skel_has_attr_payload = [PayCallArgs] /\ skel_has_attr_targets_ok = true /\
  skel_has_attr_results_ordered = true /\ skel_has_attr_answer_is_all = true /\ worker_has_attr_reply_ok = true /\
  skel_indices_none_is_range = true.
Proof. exact frag_has_attr_public_answer. Qed.
Print Assumptions C02_fragment_has_attr.


(* ---------- non-vacuity ---------- *)
Definition ex_scA : script := [mk_episode 10 1 [mk_sstep 11 (-3) false false 5; mk_sstep 12 4 true true 6]; mk_episode 20 2 [mk_sstep 21 1 false true 7]].
Definition ex_scB : script := [mk_episode 30 3 [mk_sstep 31 0 true false 8]].
Definition ex_calls : list call :=
  [KaSeed 5; KaReset; KaStep [100; 101]%Z; KaSetAttr 7 [1]; KaGetAttr [1; 0]; KaStep [102; 103]%Z; KaEnvMethod 9 [0]].
Definition ex_prog := calls_prog 2 [None; None] [None; None] ex_calls.

(* the program runs sequentially (every recv has its send) ... *)
Example ex_seq_runs : exists sq, seq_exec sworker_step (sinit (winit [ex_scA; ex_scB])) ex_prog = Some sq.
Proof. eexists. vm_compute. reflexivity. Qed.

(* ... a schedule that lets worker 1 run before worker 0 and delays the parent completes the program ... *)
Example ex_two_schedules_same_log :
  fst (run_subproc_scripted [ex_scA; ex_scB] ex_calls [0; 0; 2; 1; 0; 5; 3; 1; 1; 0; 2; 7]) = 0 /\
  fst (run_subproc_scripted [ex_scA; ex_scB] ex_calls []) = 0 /\
  snd (run_subproc_scripted [ex_scA; ex_scB] ex_calls [0; 0; 2; 1; 0; 5; 3; 1; 1; 0; 2; 7])
  = snd (run_subproc_scripted [ex_scA; ex_scB] ex_calls []) /\
  Some (snd (run_subproc_scripted [ex_scA; ex_scB] ex_calls [])) = run_seq_scripted [ex_scA; ex_scB] ex_calls.
Proof. vm_compute. repeat split; reflexivity. Qed.

(* ... and a recv without its send is a program that cannot run (the hypothesis of C02_no_deadlock is needed) *)
Example ex_unbalanced : seq_exec sworker_step (sinit (winit [ex_scA])) [Recv 0] = None.
Proof. reflexivity. Qed.

(* the index-subset calls of the example are in range (repeated and unsorted indices included) *)
Example ex_targets_ok : Forall (call_targets_ok 2) ex_calls /\ Forall (call_targets_ok 2) [KaGetAttr [1; 1; 0]; KaSetAttr 3 [1; 0]].
Proof. split; repeat constructor. Qed.
Example ex_dhistory : snd (dhistory sworker_step (winit [ex_scA; ex_scB]) (calls_methods 2 [None; None] [None; None] ex_calls))
                      = snd (run_subproc_scripted [ex_scA; ex_scB] ex_calls [3; 1; 4; 1; 5; 9; 2; 6]).
Proof. vm_compute. reflexivity. Qed.

(* step_async ; get_attr ; step_wait is NOT one of the atomic calls of the property: in the protocol model (as in the real
   SubprocVecEnv) the get_attr receive takes the step reply waiting in the pipe, which DummyVecEnv cannot reproduce *)
Example ex_async_interleaving_mixes_replies :
  option_map (fun sq => map (fun p => match snd p with ResStep _ _ => true | _ => false end) (s_log sq))
    (seq_exec sworker_step (mk_sconfig [] (map (fun s => mk_sworker [] s) (map (fun w => fst (sworker_step w (CmdReset None None))) (winit [ex_scA; ex_scB]))))
       (sends [0; 1] (fun i => CmdStep (Z.of_nat i)) ++ sends [1] (fun _ => CmdGetAttr) ++ recvs [1] ++ recvs [0; 1]))
  = Some [true; true; false].
Proof. vm_compute. reflexivity. Qed.

(* non-vacuity, and why a remembered answer cannot be right: on two sub-environments has_attr(dynamic attribute) is false, becomes true only when
   the env method has created it in BOTH, false again after one deletes it; set_attr-created attribute likewise; under two schedules *)
Definition ex_attr_calls : list call :=
  [KaReset; KaHasAttr 2; KaDynMethod true [1]; KaHasAttr 2; KaDynMethod true [0]; KaHasAttr 2; KaStep [100; 101]%Z; KaDynMethod false [1]; KaHasAttr 2;
   KaHasAttr 3; KaSetMade [1; 0]; KaHasAttr 3; KaHasAttr 0; KaHasAttr 1].
Definition ex_answers (lg : list (nat * sres)) : list bool :=
  flat_map (fun p => match p with (1, ResBool b) => [b] | _ => [] end) lg.
Example ex_has_attr_answer_changes :
  Forall (call_targets_ok 2) ex_attr_calls /\
  fst (run_subproc_scripted [ex_scA; ex_scB] ex_attr_calls [3; 1; 4; 1; 5; 9; 2; 6; 5; 3; 5; 8; 9; 7; 9]) = 0 /\
  snd (run_subproc_scripted [ex_scA; ex_scB] ex_attr_calls [3; 1; 4; 1; 5; 9; 2; 6; 5; 3; 5; 8; 9; 7; 9]) = run_dummy_scripted [ex_scA; ex_scB] [] ex_attr_calls /\
  map (fun k => dummy_has_attr (dummy_states [ex_scA; ex_scB] [] (firstn k ex_attr_calls)) 2) [1; 3; 5; 8] = [false; false; true; false] /\
  map (fun k => dummy_has_attr (dummy_states [ex_scA; ex_scB] [] (firstn k ex_attr_calls)) 3) [9; 11] = [false; true].
Proof. split; [repeat constructor|]. vm_compute. repeat split; reflexivity. Qed.
