(* C06 - on-policy collection records what happened and bootstraps time-limit truncations.
   Only statements: every proof is [exact <lemma>], followed by Print Assumptions. *)
From Coq Require Import ZArith QArith Qminmax List Bool.
From SB3V Require Import Lib.QUtil Model.Script Gen.Frag_onpolicy Model.OnPolicyCollect Proofs.OnPolicyCollectProofs.
From SB3V Require Import Model.Gae Model.Pipeline Proofs.PipelineProofs.
From SB3V Require Refuted.C06_callback_stop.
Import ListNotations.
Local Open Scope Z_scope.

(* For every script, action kind, gamma, start state, number of collected steps and policy oracle: the slot of
   global step g holds the observation the policy saw (the reset observation, or what the g-1-th env step
   returned), the sampled action / value / log-prob of that very forward call, episode_start = previous done,
   the environment's reward plus gamma*V(terminal observation) exactly when the bootstrap flag holds, and the
   environment received the clipped / unsquashed / unchanged action. *)
Theorem C06_slot_spec : forall ak gamma sc ps st g p,
  nth_error ps g = Some p ->
  nth_error (snd (collect ak gamma sc st ps)) g = Some (spec_slot ak gamma sc st g p).
Proof. exact collect_slot. Qed.
Print Assumptions C06_slot_spec.

(* the rollouts of a learn() are consecutive slices of one uninterrupted collection: last observation and
   episode starts are carried across rollout boundaries *)
Theorem C06_rollouts_are_slices : forall ak gamma sc rs st,
  concat (map ro_slots (snd (rollouts ak gamma sc st rs))) = snd (collect ak gamma sc st (concat rs)) /\
  fst (rollouts ak gamma sc st rs) = fst (collect ak gamma sc st (concat rs)).
Proof. exact rollouts_are_slices. Qed.
Print Assumptions C06_rollouts_are_slices.

(* ... and across learn() calls without reset the state is simply kept; with reset the env is reset, the
   observation is the reset observation and episode_start is 1 *)
Theorem C06_reset_sets_start : forall sc st, cs_start (col_reset sc st) = true /\
  cs_obs (col_reset sc st) = snd (fst (env_reset sc (cs_cur st))).
Proof. exact reset_sets_start. Qed.
Print Assumptions C06_reset_sets_start.

Theorem C06_episode_start_is_previous_done : forall sc st g,
  start_at sc st (S g) = vo_done (out_at sc (cs_cur st) g) /\ start_at sc st 0 = cs_start st.
Proof. exact episode_start_is_previous_done. Qed.
Print Assumptions C06_episode_start_is_previous_done.

(* the bootstrap happens exactly when the environment's step was truncated and not terminated *)
Theorem C06_bootstrap_iff_truncated_not_terminated : forall sc c,
  let st := snd (env_step sc c) in
  bootstraps (snd (vstep1 sc c)) = (st_trunc st && negb (st_term st))%bool.
Proof. exact bootstraps_iff. Qed.
Print Assumptions C06_bootstrap_iff_truncated_not_terminated.

Theorem C06_reward : forall gamma o p,
  (reward_of gamma o p == inject_Z (vo_r4 o) / 4 + (if bootstraps o then gamma * p_tv p else 0))%Q.
Proof. exact reward_spec. Qed.
Print Assumptions C06_reward.

(* what the auto-reset step hands over: terminal observation iff done, it is the step's own observation, the
   returned observation is then the next episode's first observation *)
Theorem C06_terminal_observation : forall sc c,
  let st := snd (env_step sc c) in
  let o := snd (vstep1 sc c) in
  vo_done o = (st_term st || st_trunc st)%bool /\
  (vo_done o = true -> vo_term o = Some (st_tag st) /\
                       vo_obs o = snd (fst (env_reset sc (fst (env_step sc c))))) /\
  (vo_done o = false -> vo_term o = None /\ vo_obs o = st_tag st) /\
  vo_r4 o = st_r4 st.
Proof. exact vstep1_done. Qed.
Print Assumptions C06_terminal_observation.

(* the values used to bootstrap the end of rollout r are taken at the observation that follows its last step *)
Theorem C06_last_values_follow_last_step : forall ak gamma sc rs st r ro,
  nth_error (snd (rollouts ak gamma sc st rs)) r = Some ro ->
  let G := length (concat (firstn (S r) rs)) in
  ro_last_obs ro = obs_at sc st G /\ ro_dones ro = start_at sc st G.
Proof. exact last_values_follow_last_step. Qed.
Print Assumptions C06_last_values_follow_last_step.

Theorem C06_env_action_in_bounds_clip : forall a lo hi,
  Forall2 Qle lo hi -> length a = length lo ->
  Forall3 (fun x l h => (l <= x <= h)%Q) (env_action (ActClip lo hi) a) lo hi.
Proof. exact env_action_in_bounds_clip. Qed.
Print Assumptions C06_env_action_in_bounds_clip.

Theorem C06_clip_keeps_in_bounds_action : forall a lo hi, (lo <= a <= hi -> qclip a lo hi == a)%Q.
Proof. exact qclip_id. Qed.
Print Assumptions C06_clip_keeps_in_bounds_action.

Theorem C06_env_action_in_bounds_squash : forall a lo hi,
  Forall2 Qle lo hi -> length a = length lo -> Forall (fun x => (-1 <= x <= 1)%Q) a ->
  Forall3 (fun x l h => (l <= x <= h)%Q) (env_action (ActSquash lo hi) a) lo hi.
Proof. exact env_action_in_bounds_squash. Qed.
Print Assumptions C06_env_action_in_bounds_squash.

(* ---- the model's formulas are the statements regenerated from the source ---- *)
Theorem C06_fragment_bootstrap : forall gamma o p,
  onp_boot_cond (vo_done o) (has_term o) (vo_tl o) = bootstraps o /\
  (reward_of gamma o p ==
   if onp_boot_cond (vo_done o) (has_term o) (vo_tl o)
   then onp_boot_reward (inject_Z (vo_r4 o) / 4) gamma (p_tv p) else inject_Z (vo_r4 o) / 4)%Q.
Proof. exact (fun gamma o p => conj (frag_boot_cond o) (frag_boot_reward gamma o p)). Qed.
Print Assumptions C06_fragment_bootstrap.

Theorem C06_fragment_unscale : forall lo hi x, (onp_unscale lo hi x == unscale lo hi x)%Q.
Proof. exact frag_unscale. Qed.
Print Assumptions C06_fragment_unscale.

Theorem C06_fragment_clip_and_guard : forall a lo hi k n,
  (onp_clip a lo hi == qclip a lo hi)%Q /\ onp_rollout_guard k n = (k <? n).
Proof. exact (fun a lo hi k n => conj (frag_clip a lo hi) (frag_rollout_guard k n)). Qed.
Print Assumptions C06_fragment_clip_and_guard.

(* the function the correspondence evaluates over several learn() calls is the per-call composition of the above *)
Theorem C06_learns_unfold : forall ak gamma sc st reset rs r,
  learns ak gamma sc st ((reset, rs) :: r) =
  let st0 := if reset then col_reset sc st else st in
  (fst (learns ak gamma sc (fst (rollouts ak gamma sc st0 rs)) r),
   snd (rollouts ak gamma sc st0 rs) :: snd (learns ak gamma sc (fst (rollouts ak gamma sc st0 rs)) r)).
Proof. exact learns_cons. Qed.
Print Assumptions C06_learns_unfold.

Theorem C06_fragment_vec_flags : forall sc c,
  let st := snd (env_step sc c) in
  let o := snd (vstep1 sc c) in
  vo_done o = onp_vec_done (st_term st) (st_trunc st) /\
  vo_tl o = onp_vec_timelimit (st_term st) (st_trunc st) /\
  vo_terminated o = st_term st /\ vo_truncated o = st_trunc st.
Proof. exact frag_vec_flags. Qed.
Print Assumptions C06_fragment_vec_flags.

(* gSDE: reset_noise is called once before the loop and then exactly at the step indices (0-based, within the rollout) that are
   multiples of sde_sample_freq; never inside the loop when sde_sample_freq <= 0 *)
Theorem C06_sde_resampling_cadence : forall u f k x,
  (In x (sde_calls u f k) <-> (u = true /\ x = 0) \/ (0 <= x < Z.of_nat k /\ sde_resample u f x = true)) /\
  (sde_resample u f x = true <-> u = true /\ 0 < f /\ exists q, x = q * f).
Proof. exact (fun u f k x => conj (sde_calls_spec u f k x) (sde_resample_iff u f x)). Qed.
Print Assumptions C06_sde_resampling_cadence.

Theorem C06_fragment_sde : forall u f j, onp_sde_guard u f j = sde_resample u f j /\ onp_sde_start_guard u = u.
Proof. exact frag_sde_guard. Qed.
Print Assumptions C06_fragment_sde.

(* callback stop requests: without one the stop-aware collection is the plain one; a stopped step moves the environment but not
   _last_obs / _last_episode_starts - the consequence for a continued learn() is the finding in Refuted/C06_callback_stop.v *)
Theorem C06_no_stop_collection_is_plain : forall ak gamma sc ps st,
  collect_s ak gamma sc st (map (fun p => (p, false)) ps) = collect ak gamma sc st ps.
Proof. exact collect_s_no_stop. Qed.
Print Assumptions C06_no_stop_collection_is_plain.

Theorem C06_stopped_step : forall sc st,
  cs_obs (step_col_stopped sc st) = cs_obs st /\ cs_start (step_col_stopped sc st) = cs_start st /\
  cs_cur (step_col_stopped sc st) = fst (vstep1 sc (cs_cur st)).
Proof. exact step_col_stopped_spec. Qed.
Print Assumptions C06_stopped_step.

(* ---- composition with C05: collect_rollouts followed by compute_returns_and_advantage ---- *)

(* the column (rewards, values, episode_starts, last_values, dones) that collection hands to the GAE loop is, cell by cell:
   reward = env reward + gamma*V(terminal obs) exactly on truncated-and-not-terminated steps, value = the policy's value of the
   observation it saw, next value = the next slot's value / last_values, non-terminal = 1 - done of that same step *)
Theorem C06_pipeline_cells : forall ak gamma sc st ps lv,
  pipeline_cells ak gamma sc st ps lv = spec_cells gamma sc st ps lv.
Proof. exact pipeline_cells_spec. Qed.
Print Assumptions C06_pipeline_cells.

(* hence the advantage stored for step t of env column e is the discounted sum of the GAE definition over those cells,
   for every script, n_steps, oracle and gamma / lambda *)
Theorem C06_pipeline_advantage : forall ak gamma lam sc st ps lv t,
  (nth t (pipeline_adv ak gamma lam sc st ps lv) 0 == adv_def gamma lam (skipn t (spec_cells gamma sc st ps lv)))%Q.
Proof. exact onpolicy_pipeline. Qed.
Print Assumptions C06_pipeline_advantage.

(* rollout r of a learn(): the same, from the state reached after all earlier steps (last observation / episode start carried) *)
Theorem C06_pipeline_rollouts : forall ak gamma lam sc rs lvs st r ps lv advs,
  nth_error rs r = Some ps -> nth_error lvs r = Some lv ->
  nth_error (pipeline_rollouts ak gamma lam sc st rs lvs) r = Some advs ->
  let st_r := state_at sc st (length (concat (firstn r rs))) in
  advs = pipeline_adv ak gamma lam sc st_r ps lv /\
  forall t, (nth t advs 0 == adv_def gamma lam (skipn t (spec_cells gamma sc st_r ps lv)))%Q.
Proof. exact onpolicy_pipeline_rollouts. Qed.
Print Assumptions C06_pipeline_rollouts.

(* env independence at the pipeline level: the vectorised loop over rows of cells gives, in column e, the pipeline of env e *)
Theorem C06_pipeline_env_independent : forall gamma lam (cols : list (list stp)) T e,
  Forall (fun c => length c = T) cols -> (e < length cols)%nat ->
  column e 0%Q (gae_rows gamma lam (length cols) (rows_of_cols cols T)) = gae_code gamma lam (nth e cols []).
Proof. exact pipeline_env_independent. Qed.
Print Assumptions C06_pipeline_env_independent.

(* the list comparator used by the correspondence entry points (check_col, check_off): it accepts exactly the lists of the same length
   whose entries are pairwise close *)
Theorem C06_list_comparator_spec : forall rel abs ms is_,
  qclose_all rel abs ms is_ = true <-> Forall2 (fun m i => qclose rel abs m i = true) ms is_.
Proof. exact qclose_all_spec. Qed.
Print Assumptions C06_list_comparator_spec.

(* ---- non-vacuity ---- *)
Definition ex_sc : script :=
  [mk_episode 10 0 [mk_sstep 11 4 false false 0; mk_sstep 12 (-8) false true 0];     (* truncated *)
   mk_episode 20 0 [mk_sstep 21 8 true true 0];                                       (* both *)
   mk_episode 30 0 [mk_sstep 31 0 true false 0]].                                     (* terminated *)
Definition ex_pol (i : Z) : pol := mkP i [inject_Z i; 5%Q] (inject_Z i) (- inject_Z i) 100.

Example C06_ex :
  let st := col_reset ex_sc cstate0 in
  let r := rollouts (ActClip [-1; 0] [1; 1])%Q (1 # 2) ex_sc st [[ex_pol 0; ex_pol 1]; [ex_pol 2; ex_pol 3]] in
  map (fun ro => (map (fun s => (s_obs s, s_start s, s_boot s, Qred (s_rew s), map Qred (s_envact s))) (ro_slots ro),
                  ro_last_obs ro, ro_dones ro)) (snd r) =
  [([(10, true, false, 1%Q, [0%Q; 1%Q]); (11, false, true, 48%Q, [1%Q; 1%Q])], 20, true);
   ([(20, true, false, 2%Q, [1%Q; 1%Q]); (30, true, false, 0%Q, [1%Q; 1%Q])], 10, true)].
Proof. vm_compute. reflexivity. Qed.

Example C06_ex_sde : sde_calls true 3 8 = [0; 0; 3; 6] /\ sde_calls true (-1) 8 = [0] /\ sde_calls false 2 8 = [].
Proof. repeat split; reflexivity. Qed.

(* pipeline on the example script: second step is truncated (bootstrapped with V = 100, gamma = 1/2), non-terminal flag 0 there *)
Example C06_ex_pipeline :
  let st := col_reset ex_sc cstate0 in
  map (fun c => (Qred (s_r c), Qred (s_v c), Qred (s_nv c), Qred (s_nnt c))) (pipeline_cells ActId (1 # 2) ex_sc st [ex_pol 0; ex_pol 1] 7) =
  [(1%Q, 0%Q, 1%Q, 1%Q); (48%Q, 1%Q, 7%Q, 0%Q)] /\
  map Qred (pipeline_adv ActId (1 # 2) 1 ex_sc st [ex_pol 0; ex_pol 1] 7) = [25%Q; 47%Q].
Proof. vm_compute. split; reflexivity. Qed.
