(* C07 - each training update applies the gradient of the published objective.
   Only statements: every proof is [exact <lemma>], followed by Print Assumptions.
   What is proved: closed-form derivatives of each published objective with respect to the network
   outputs on the batch (away from the kinks of min / clamp / Huber), the TD targets, gradient-norm
   clipping, the delayed-actor cadence; the executable twins used by the correspondence compute
   these real-valued definitions; the assembly lines regenerated from the train() methods agree
   with the twins.  Autograd through the networks and the optimizer arithmetic are trusted. *)
From Coq Require Import Reals QArith Qreals Qminmax List ZArith.
From Coquelicot Require Import Hierarchy Derive.
From SB3V Require Import Gen.Frag_loss Model.LossCommon Model.LossPPO Model.LossA2C Model.LossDQN Model.LossSAC Model.LossTD3.
From SB3V Require Import Proofs.LossProofs Proofs.LossFragProofs Proofs.LossTwinProofs.
Import ListNotations.
Local Open Scope R_scope.

(* a batch objective k * sum_i f_i(x_i): its partial derivative in the output of sample i is k * f_i' *)
Theorem C07_batch_partial : forall k pre f post x0 l,
  is_derive f x0 l -> is_derive (fun x => k * sum_terms (pre ++ (f, x) :: post)) x0 (k * l).
Proof. exact sum_terms_partial. Qed.
Print Assumptions C07_batch_partial.

(* ---------------- PPO ---------------- *)
Theorem C07_ppo_surrogate :
  (forall A c r, 0 <= c -> r <> 1 - c -> r <> 1 + c -> is_derive (ppo_surr A c) r (ppo_surr_grad A c r)) /\
  (forall A c r, - ppo_surr A c r <= A * r).
Proof. exact (conj ppo_surr_derive ppo_surrogate_pessimistic). Qed.
Print Assumptions C07_ppo_surrogate.

Theorem C07_ppo_derivatives :
  (forall A c cv ret oldv oldlp ec vc lp v ent, 0 <= c ->
     exp (lp - oldlp) <> 1 - c -> exp (lp - oldlp) <> 1 + c ->
     is_derive (fun x => ppo_term A c cv ret oldv oldlp ec vc x v ent) lp
       (ppo_surr_grad A c (exp (lp - oldlp)) * exp (lp - oldlp) + ec * match ent with Some _ => 0 | None => 1 end)) /\
  (forall A c cv ret oldv oldlp ec vc lp v ent,
     match cv with None => True | Some cc => 0 < cc /\ Rabs (v - oldv) <> cc end ->
     is_derive (fun x => ppo_term A c cv ret oldv oldlp ec vc lp x ent) v (vc * ppo_value_grad cv ret oldv v)) /\
  (forall A c cv ret oldv oldlp ec vc lp v e,
     is_derive (fun x => ppo_term A c cv ret oldv oldlp ec vc lp v (Some x)) e (- ec)).
Proof. exact (conj ppo_dlogp (conj ppo_dvalue ppo_dentropy)). Qed.
Print Assumptions C07_ppo_derivatives.

Example C07_ppo_hyp_ok : 0 <= 1/5 /\ exp (0 - 0) <> 1 - 1/5 /\ exp (0 - 0) <> 1 + 1/5 /\ (0 < 1/2 /\ Rabs (1 - 0) <> 1/2).
Proof. rewrite !Rminus_0_r, exp_0, Rabs_R1. repeat split; Lra.lra. Qed.

(* ---------------- A2C ---------------- *)
Theorem C07_a2c_derivatives :
  (forall A ret ec vc lp v ent,
     is_derive (fun x => a2c_term A ret ec vc x v ent) lp (- A + ec * match ent with Some _ => 0 | None => 1 end)) /\
  (forall A ret ec vc lp v ent, is_derive (fun x => a2c_term A ret ec vc lp x ent) v (vc * (2 * (v - ret)))) /\
  (forall A ret ec vc lp v e, is_derive (fun x => a2c_term A ret ec vc lp v (Some x)) e (- ec)).
Proof. exact (conj a2c_dlogp (conj a2c_dvalue a2c_dentropy)). Qed.
Print Assumptions C07_a2c_derivatives.

(* ---------------- DQN ---------------- *)
Theorem C07_dqn :
  (forall target q, q - target <> 1 -> q - target <> -1 -> is_derive (dqn_term target) q (huber_grad (q - target))) /\
  (forall r gamma nqs nqs', dqn_target r 1 gamma nqs = r /\ dqn_target r 1 gamma nqs = dqn_target r 1 gamma nqs') /\
  (forall r gamma nqs, dqn_target r 0 gamma nqs = r + gamma * max_list nqs) /\
  (forall l x, In x l -> x <= max_list l).
Proof. exact (conj dqn_term_derive (conj dqn_target_done (conj dqn_target_not_done max_list_ge))). Qed.
Print Assumptions C07_dqn.

(* ---------------- SAC ---------------- *)
Theorem C07_sac :
  (forall target q, is_derive (sac_critic_term target) q (q - target)) /\
  (forall alpha lp qpis, is_derive (fun x => sac_actor_term alpha x qpis) lp alpha) /\
  (forall alpha lp q1 q2, q1 < q2 ->
     is_derive (fun x => sac_actor_term alpha lp [x; q2]) q1 (-1) /\
     is_derive (fun x => sac_actor_term alpha lp [q1; x]) q2 0) /\
  (forall lp H la, is_derive (sac_temp_term lp H) la (- (lp + H))) /\
  (forall r d gamma alpha nqs nlp,
     sac_target r d gamma alpha nqs nlp = r + (1 - d) * gamma * (min_list nqs - alpha * nlp) /\
     sac_target r 1 gamma alpha nqs nlp = r) /\
  (forall l x, In x l -> min_list l <= x).
Proof.
  exact (conj sac_critic_term_derive (conj sac_actor_dlogp (conj sac_actor_dq_min (conj sac_temp_derive (conj sac_target_spec min_list_le))))).
Qed.
Print Assumptions C07_sac.

(* any number of critics: the actor gradient flows (with -1) only through the strictly smallest Q-value *)
Theorem C07_sac_actor_any_number_of_critics : forall alpha lp pre x post, pre ++ post <> [] ->
  (x < min_list (pre ++ post) -> is_derive (fun y : R => sac_actor_term alpha lp (pre ++ y :: post)) x (-1)) /\
  (min_list (pre ++ post) < x -> is_derive (fun y : R => sac_actor_term alpha lp (pre ++ y :: post)) x 0).
Proof. exact sac_actor_dq_general. Qed.
Print Assumptions C07_sac_actor_any_number_of_critics.

Example C07_sac_three_critics_hyp_ok : [1; 3] ++ [2] <> [] /\ 0 < min_list ([1; 3] ++ [2]).
Proof. split; [discriminate|]. cbn. unfold Rmin. repeat destruct (Rle_dec _ _); Lra.lra. Qed.

(* ---------------- TD3 / DDPG ---------------- *)
Theorem C07_td3 :
  (forall target q, is_derive (td3_critic_term target) q (2 * (q - target))) /\
  (forall q, is_derive td3_actor_term q (-1)) /\
  (forall c a n, 0 <= c -> -1 <= td3_next_action c a n <= 1 /\ Rabs (clampR (- c) c n) <= c) /\
  (forall a n k, td3_next_action 0 a n = clampR (-1) 1 a /\ td3_actor_step k 1 = true) /\
  (forall n delay, (0 < delay)%Z -> (td3_actor_step n delay = true <-> exists k, n = (k * delay)%Z)).
Proof.
  exact (conj td3_critic_term_derive (conj td3_actor_term_derive (conj td3_next_action_bounds (conj ddpg_is_td3_special td3_actor_step_spec)))).
Qed.
Print Assumptions C07_td3.

(* ---------------- gradient-norm clipping ---------------- *)
Theorem C07_clip_grad : forall max_norm total, 0 < max_norm -> 0 <= total ->
  0 < clip_coef max_norm total <= 1 /\ clip_coef max_norm total * total <= max_norm /\
  (total + 1 / 1000000 <= max_norm -> clip_coef max_norm total = 1).
Proof. exact clip_coef_spec. Qed.
Print Assumptions C07_clip_grad.

(* ---------------- the executable twins compute these definitions ---------------- *)
Theorem C07_twins_compute_model :
  (forall r d g nq, Q2R (td_target_Q r d g nq) = td_target (Q2R r) (Q2R d) (Q2R g) (Q2R nq)) /\
  (forall x, Q2R (huber_grad_Q x) = huber_grad (Q2R x)) /\
  (forall x, Q2R (huber_Q x) = huber (Q2R x)) /\
  (forall A c r, Q2R (ppo_surr_Q A c r) = ppo_surr (Q2R A) (Q2R c) (Q2R r)) /\
  (forall A c r, Q2R (ppo_surr_grad_Q A c r) = ppo_surr_grad (Q2R A) (Q2R c) (Q2R r)) /\
  (forall cv o v, Q2R (ppo_value_pred_Q cv o v) = ppo_value_pred (optR cv) (Q2R o) (Q2R v)) /\
  (forall cv ret o v, Q2R (ppo_value_grad_Q cv ret o v) = ppo_value_grad (optR cv) (Q2R ret) (Q2R o) (Q2R v)) /\
  (forall m t, ~ (t + (1 # 1000000) == 0)%Q -> Q2R (clip_coef_Q m t) = clip_coef (Q2R m) (Q2R t)) /\
  (forall c a n, Q2R (td3_next_action_Q c a n) = td3_next_action (Q2R c) (Q2R a) (Q2R n)) /\
  (forall A c r e n q y, ~ (n == 0)%Q ->
     Q2R ((ppo_surr_grad_Q A c r * r + e) / n) = (ppo_surr_grad (Q2R A) (Q2R c) (Q2R r) * Q2R r + Q2R e) / Q2R n /\
     Q2R (huber_grad_Q (q - y) / n) = huber_grad (Q2R q - Q2R y) / Q2R n /\
     Q2R ((q - y) / n) = (Q2R q - Q2R y) / Q2R n).
Proof.
  exact (conj td_target_Q_R (conj huber_grad_Q_R (conj huber_Q_R (conj ppo_surr_Q_R (conj ppo_surr_grad_Q_R (conj ppo_value_pred_Q_R
        (conj ppo_value_grad_Q_R (conj clip_coef_Q_R (conj td3_next_action_Q_R component_values))))))))).
Qed.
Print Assumptions C07_twins_compute_model.

(* every component of the lists returned by the batch twins is that scalar helper at the corresponding
   inputs (Q level, closed under the global context) *)
Local Open Scope Q_scope.
Theorem C07_batch_twins_components :
  (forall c cv ec vc he advs ratios rets oldvs vs ents i,
     (i < length advs)%nat -> (i < length ratios)%nat -> (i < length rets)%nat -> (i < length oldvs)%nat -> (i < length vs)%nat ->
     let R := ppo_batch_Q c cv ec vc he advs ratios rets oldvs vs ents in
     nth i (fst (snd R)) 0 == (ppo_surr_grad_Q (nth i advs 0) c (nth i ratios 0) * nth i ratios 0 + (if he then 0 else ec)) / qlen advs /\
     nth i (fst (snd (snd R))) 0 == vc * ppo_value_grad_Q cv (nth i rets 0) (nth i oldvs 0) (nth i vs 0) / qlen advs /\
     snd (snd (snd R)) == - ec / qlen advs) /\
  (forall ec vc he advs lps rets vs ents i, (i < length advs)%nat -> (i < length rets)%nat -> (i < length vs)%nat ->
     let R := a2c_batch_Q ec vc he advs lps rets vs ents in
     nth i (fst (snd R)) 0 == (- nth i advs 0 + (if he then 0 else ec)) / qlen advs /\
     nth i (fst (snd (snd R))) 0 == vc * 2 * (nth i vs 0 - nth i rets 0) / qlen advs /\
     snd (snd (snd R)) == - ec / qlen advs) /\
  (forall gamma rs ds rows qs i, let R := dqn_batch_Q gamma rs ds rows qs in
     (i < length qs)%nat -> (i < length (fst R))%nat ->
     nth i (snd (snd R)) 0 == huber_grad_Q (nth i qs 0 - nth i (fst R) 0) / qlen qs /\
     fst (snd R) = qmean (qmap2 (fun q y => huber_Q (q - y)) qs (fst R))) /\
  (forall ys qcols,
     snd (sac_critic_Q ys qcols) = map (fun qs => qmap2 (fun q y => (q - y) / qlen ys) qs ys) qcols /\
     snd (td3_critic_Q ys qcols) = map (fun qs => qmap2 (fun q y => 2 * (q - y) / qlen ys) qs ys) qcols) /\
  (forall ys qs i, (i < length qs)%nat -> (i < length ys)%nat ->
     nth i (qmap2 (fun q y => (q - y) / qlen ys) qs ys) 0 == (nth i qs 0 - nth i ys 0) / qlen ys /\
     nth i (qmap2 (fun q y => 2 * (q - y) / qlen ys) qs ys) 0 == 2 * (nth i qs 0 - nth i ys 0) / qlen ys) /\
  (forall alpha lps rows la H q1s i, (i < length lps)%nat -> (i < length q1s)%nat ->
     nth i (fst (snd (sac_actor_Q alpha lps rows))) 0 == alpha / qlen lps /\
     fst (sac_temp_Q la H lps) == - (la * qmean (map (fun lp => lp + H) lps)) /\
     snd (sac_temp_Q la H lps) == - qmean (map (fun lp => lp + H) lps) /\
     nth i (snd (td3_actor_Q q1s)) 0 == - (1) / qlen q1s /\ fst (td3_actor_Q q1s) == - qmean q1s).
Proof.
  exact (conj ppo_batch_components (conj a2c_batch_components (conj dqn_batch_components (conj critic_twins_unfold (conj critic_components actor_temp_twins))))).
Qed.
Print Assumptions C07_batch_twins_components.
Local Open Scope R_scope.

(* ---------------- regenerated fragments of the train() methods ---------------- *)
Local Open Scope Q_scope.
Theorem C07_fragments_targets :
  (forall gamma r d row, dqn_target_Q gamma r d row == dqn_target_frag r d gamma (qmax_list row)) /\
  (forall gamma alpha r d row nlp,
     sac_target_Q gamma alpha r d row nlp == sac_target_frag r d gamma (sac_soft_value (qmin_list row) alpha nlp)) /\
  (forall gamma r d row, td3_target_Q gamma r d row == td3_target_frag r d gamma (qmin_list row)) /\
  (forall r d g nq, dqn_target_frag r d g nq == td_target_Q r d g nq /\ sac_target_frag r d g nq == td_target_Q r d g nq /\
                    td3_target_frag r d g nq == td_target_Q r d g nq) /\
  (forall n delay, td3_delay_guard n delay = td3_actor_step n delay).
Proof. exact (conj frag_dqn_target (conj frag_sac_target (conj frag_td3_target (conj frag_targets frag_td3_delay)))). Qed.
Print Assumptions C07_fragments_targets.

Theorem C07_fragments_signs_and_bounds : forall a lp m c cv cr,
  sac_actor_term_frag a lp m == a * lp - m /\
  ppo_clip_lo c == 1 - c /\ ppo_clip_hi c == 1 + c /\ ppo_vclip_lo cv cr == - cv.
Proof. exact frag_signs. Qed.
Print Assumptions C07_fragments_signs_and_bounds.

Theorem C07_fragments_losses :
  (forall c cv ec vc he advs ratios rets oldvs vs ents,
     fst (ppo_batch_Q c cv ec vc he advs ratios rets oldvs vs ents)
     == ppo_loss (qmean (qmap2 (fun a r => ppo_surr_Q a c r) advs ratios)) (qmean ents)
          (qmean (qmap3 (fun ret o v => (ret - ppo_value_pred_Q cv o v) * (ret - ppo_value_pred_Q cv o v)) rets oldvs vs)) ec vc) /\
  (forall ec vc he advs lps rets vs ents,
     fst (a2c_batch_Q ec vc he advs lps rets vs ents)
     == a2c_loss (Qred (- qmean (qmap2 Qmult advs lps))) (qmean ents)
          (qmean (qmap2 (fun ret v => (ret - v) * (ret - v)) rets vs)) ec vc) /\
  (forall A r, ppo_surr1 A r == A * r) /\
  (forall advs std, ~ std + (1 # 100000000) == 0 -> Forall2 Qeq (adv_norm_Q advs std) (map (fun a => ppo_adv_norm a (qmean advs) std) advs)) /\
  (forall a m s, ~ s + (1 # 100000000) == 0 -> ppo_adv_norm a m s == (a - m) / (s + (1 # 100000000)) /\ a2c_adv_norm a m s == (a - m) / (s + (1 # 100000000))).
Proof. exact (conj frag_ppo_loss (conj frag_a2c_loss (conj frag_surr (conj frag_adv_norm_model frag_adv_norm)))). Qed.
Print Assumptions C07_fragments_losses.

(* ---------------- optimizer-facing logic ---------------- *)
(* _update_learning_rate / update_learning_rate: every param group of every optimizer is set to
   schedule(progress_remaining); the regenerated code assigns the value it is given and is given the
   schedule at the current progress *)
Theorem C07_learning_rate_application :
  (forall sched progress opts,
     length (apply_lr sched progress opts) = length opts /\
     Forall2 (fun new old => length new = length old /\ Forall (fun lr => lr = sched progress) new) (apply_lr sched progress opts) opts) /\
  (forall lr p, lr_assigned lr == lr /\ lr_progress_arg p == p) /\
  (forall sched progress opts,
     Forall (Forall (fun lr => lr == lr_assigned (sched (lr_progress_arg progress)))) (apply_lr (fun p => sched (lr_progress_arg p)) progress opts)).
Proof. exact (conj apply_lr_spec (conj frag_lr frag_lr_model)). Qed.
Print Assumptions C07_learning_rate_application.

Example C07_lr_example : apply_lr (fun p => (3 # 1000) * p) (1 # 2) [[1; 1]; [7]] = [[(3 # 1000) * (1 # 2); (3 # 1000) * (1 # 2)]; [(3 # 1000) * (1 # 2)]].
Proof. reflexivity. Qed.

(* SAC set-up: target_entropy "auto" = -prod(action shape); ent_coef "auto" starts at 1, "auto_x" at x *)
Theorem C07_sac_temperature_setup :
  (forall shape x,
     sac_target_entropy_Q None shape == sac_auto_target_entropy (inject_Z (fold_right Z.mul 1%Z shape)) /\
     sac_init_alpha_Q (EntAuto None) == sac_default_init /\
     sac_init_alpha_Q (EntAuto (Some x)) == sac_log_arg 1 x) /\
  (forall d, sac_target_entropy_Q None [d] == - inject_Z d).
Proof. exact (conj frag_sac_setup sac_target_entropy_vector). Qed.
Print Assumptions C07_sac_temperature_setup.

(* the learned coefficient starts at the parsed value: exp(log_ent_coef) = init; "auto" starts at log 1 = 0 *)
Theorem C07_sac_log_ent_coef_init : forall s, 0 < sac_init_alpha_Q s ->
  (exp (sac_log_alpha_init s) = Q2R (sac_init_alpha_Q s) /\ sac_log_alpha_init (EntAuto None) = 0)%R.
Proof. exact sac_log_alpha_init_spec. Qed.
Print Assumptions C07_sac_log_ent_coef_init.

(* ---------------- the remaining helpers of the twins are pinned to closed forms / the R definitions ---------------- *)
Theorem C07_twin_values_and_schedule :
  (forall l, Q2R (qsum l) = LossCommon.sumR (map Q2R l)) /\
  (forall l, l <> [] -> Q2R (qmean l) = meanR (map Q2R l)) /\
  (forall n total lr0,
     (progress_Q n total == Qmax 0 (1 - n / total) /\
      lr_Q true lr0 n total == lr0 * Qmax 0 (1 - n / total) /\ lr_Q false lr0 n total == lr0 /\
      clipped_Q lr0 n total == clip_coef_Q lr0 n * total)%Q) /\
  (forall ys qcols alpha lps rows gamma rs ds nrows qs,
     (fst (sac_critic_Q ys qcols) == (1 # 2) * qsum (map (fun col => qmean (qmap2 (fun q y => (q - y) * (q - y)) col ys)) qcols) /\
      fst (td3_critic_Q ys qcols) == qsum (map (fun col => qmean (qmap2 (fun q y => (q - y) * (q - y)) col ys)) qcols) /\
      fst (sac_actor_Q alpha lps rows) == qmean (qmap2 (fun lp m => alpha * lp - m) lps (map qmin_list rows)) /\
      fst (snd (dqn_batch_Q gamma rs ds nrows qs)) == qmean (qmap2 (fun q y => huber_Q (q - y)) qs (fst (dqn_batch_Q gamma rs ds nrows qs))))%Q) /\
  (forall m row, argmin_mask m row true = map (fun _ => 0%Q) row) /\
  (forall a i, sac_learned (EntFixed a) = false /\ sac_learned (EntAuto i) = true) /\
  (forall q y alpha lp m,
     Q2R ((q - y) * (q - y)) = sq_err (Q2R y) (Q2R q) /\
     Q2R ((1 # 2) * ((q - y) * (q - y))) = sac_critic_term (Q2R y) (Q2R q) /\
     Q2R ((q - y) * (q - y)) = td3_critic_term (Q2R y) (Q2R q) /\
     Q2R (alpha * lp - m) = (Q2R alpha * Q2R lp - Q2R m)%R).
Proof.
  exact (conj qsum_R (conj qmean_R (conj progress_lr_spec (conj twin_loss_values (conj argmin_mask_found (conj sac_learned_spec critic_actor_terms_R)))))).
Qed.
Print Assumptions C07_twin_values_and_schedule.

(* the unbiased variance that ties the advantage standard deviation handed to adv_norm_Q *)
Theorem C07_advantage_variance : forall advs,
  (adv_var_Q advs == qsum (map (fun a => (a - qmean advs) * (a - qmean advs)) advs) / (qlen advs - 1))%Q.
Proof. exact adv_var_spec. Qed.
Print Assumptions C07_advantage_variance.
