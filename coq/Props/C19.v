(* C19 - no aliasing between the library and its callers. Statements only. *)
From Coq Require Import List ZArith Bool.
From SB3V Require Import Model.Alias Proofs.AliasProofs.
Import ListNotations.
Local Open Scope nat_scope.

(* every component program written from the (repaired) source obeys the copy discipline *)
Theorem C19_all_components_disciplined : all_disciplined = true.
Proof. vm_compute. reflexivity. Qed.
Print Assumptions C19_all_components_disciplined.

(* ONE call of ANY disciplined program, on any heap, for any array computations F:
   caller-owned locations keep their contents; results are arguments or fresh objects that are not
   retained; live state is old library state or fresh; references stay valid *)
Theorem C19_call_frame :
  forall (F : nat -> list (list Z) -> list Z) (args : list loc) (h0 : heap) (sl0 : list loc),
  (forall l, In l sl0 -> l < length h0) ->
  forall (p : prog) (dd0 : list loc),
  disciplined (length args) (length sl0) p = true ->
  let s := run F p args h0 sl0 dd0 in
  (forall l, l < length h0 -> ~ In l sl0 -> content (s_heap s) l = content h0 l) /\
  (forall l, In l (s_rets s) -> In l args \/ (length h0 <= l /\ ~ In l (s_slots s))) /\
  (forall l, In l (s_slots s) -> In l sl0 \/ length h0 <= l) /\
  length h0 <= length (s_heap s) /\
  (forall l, In l (s_slots s) -> l < length (s_heap s)) /\
  (forall l, In l (s_rets s) -> In l args \/ l < length (s_heap s)) /\
  length (s_slots s) = length sl0.
Proof. exact disciplined_frame. Qed.
Print Assumptions C19_call_frame.

(* ONE call from two heaps that agree on the live library objects and the arguments gives the same
   results (locations and contents) and the same library state *)
Theorem C19_call_noninterference :
  forall F p args sl0 dd0 h1 h2,
  length h1 = length h2 ->
  (forall l, In l sl0 \/ In l args -> content h1 l = content h2 l) ->
  let s1 := run F p args h1 sl0 dd0 in
  let s2 := run F p args h2 sl0 dd0 in
  s_slots s1 = s_slots s2 /\ s_dead s1 = s_dead s2 /\ s_rets s1 = s_rets s2 /\
  length (s_heap s1) = length (s_heap s2) /\
  (forall l, In l sl0 \/ In l args \/ length h1 <= l -> content (s_heap s1) l = content (s_heap s2) l).
Proof. exact call_noninterference. Qed.
Print Assumptions C19_call_noninterference.

(* EVERY history of disciplined calls, caller allocations and caller writes: no call changes the
   contents of anything the caller holds (arguments passed, results returned earlier) *)
Theorem C19_history_frame :
  forall F nslots es w,
  Inv nslots w -> events_disciplined nslots es = true -> frame_holds F w es.
Proof. exact history_frame. Qed.
Print Assumptions C19_history_frame.

(* EVERY history: extra caller writes (in the second run only) to objects the caller holds and does
   not hand back to the library never change what any call returns *)
Theorem C19_history_noninterference :
  forall F nslots w pes,
  Inv nslots w -> calls_disciplined nslots pes = true -> clean [] pes = true ->
  run_hist F w (left_run pes) = run_hist F w (right_run pes).
Proof. exact history_noninterference. Qed.
Print Assumptions C19_history_noninterference.

(* non-vacuity: VecFrameStack-like component (1 live slot), caller allocates actions, steps, scribbles
   over the returned observation (location 8), steps again *)
Definition F1 : nat -> list (list Z) -> list Z := fun f cs => Z.of_nat f :: concat cs.
Definition ex_w : world := mk_world [[0%Z]] [0] [] [].
Definition ex_pes : list pevent :=
  [ Both (EAlloc [5%Z]); Both (ECall framestack_step [1]); Extra 8 [77%Z]; Both (ECall framestack_step [1]) ].
Example C19_ex_inv : Inv 1 ex_w.
Proof. unfold Inv, ex_w; simpl. split; [reflexivity|]. split; [intros l [<-|[]]; auto | intros l []]. Qed.
Example C19_ex_hyps : calls_disciplined 1 ex_pes = true /\ clean [] ex_pes = true.
Proof. split; vm_compute; reflexivity. Qed.
(* location 8 is the observation returned by the first step, so the extra write hits a held object *)
Example C19_ex_dirty_is_held : knows (final_world F1 ex_w (left_run (firstn 2 ex_pes))) 8 = true.
Proof. vm_compute; reflexivity. Qed.
Example C19_ex_outputs_equal :
  run_hist F1 ex_w (left_run ex_pes) = run_hist F1 ex_w (right_run ex_pes) /\
  length (run_hist F1 ex_w (left_run ex_pes)) = 2.
Proof. split; vm_compute; reflexivity. Qed.

(* HerReplayBuffer with copy_info_dict: add() retains fresh copies of the info dicts AND of the mutable values inside
   them; sample() only reads library state.  (Instances of the general theorems above for these two programs.) *)
Theorem C19_her_programs_disciplined : her_components_disciplined = true.
Proof. vm_compute. reflexivity. Qed.
Print Assumptions C19_her_programs_disciplined.

(* non-vacuity for HER: the caller passes 7 objects (locations 7..13), add() retains copies, the caller then overwrites
   the mutable value inside its info dict (location 13) in the second run only; sample() returns the same five objects *)
Definition her_w : world :=
  mk_world (map (fun n => [Z.of_nat n]) (seq 0 14)) (seq 0 7) [] (seq 7 7).
Definition her_pes : list pevent :=
  [ Both (ECall her_add (seq 7 7)); Extra 13 [77%Z]; Both (ECall her_sample []) ].
Example C19_her_hyps : calls_disciplined 7 her_pes = true /\ clean [] her_pes = true.
Proof. split; vm_compute; reflexivity. Qed.
Example C19_her_outputs_equal :
  run_hist F1 her_w (left_run her_pes) = run_hist F1 her_w (right_run her_pes) /\
  length (run_hist F1 her_w (left_run her_pes)) = 2.
Proof. split; vm_compute; reflexivity. Qed.

(* further library operations written as programs and tied by per-call facts: the user-level VecNormalize transforms,
   predict() on Dict observations (copy, then reshape the copy), the rollout buffer's add / compute / get / reset *)
Theorem C19_more_programs_disciplined : extra_components_disciplined = true.
Proof. vm_compute. reflexivity. Qed.
Print Assumptions C19_more_programs_disciplined.
