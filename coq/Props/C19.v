(* C19 - no aliasing between the library and its callers. Statements only. *)
From Coq Require Import List ZArith Bool.
From SB3V Require Import Model.Alias.
Import ListNotations.

(* every component program written from the (repaired) source obeys the copy discipline *)
Theorem C19_all_components_disciplined : all_disciplined = true.
Proof. vm_compute. reflexivity. Qed.
Print Assumptions C19_all_components_disciplined.
