(* C10 - seeded training is reproducible.  PARTIAL BY NATURE: "the implementation is a function of
   (seed, configuration)" cannot be exhibited or refuted inside Gallina (every Gallina function is
   one).  What is logic - where the seeds go - is proved here; bit-reproducibility itself is decided
   by the paired-run search of harness/c10.py.
   Only statements: every proof is [exact <lemma>], followed by Print Assumptions. *)
From Coq Require Import ZArith List Bool.
From SB3V Require Import Gen.Frag_seed Model.Seeding Proofs.SeedingProofs Proofs.SeedingFragProofs.
Import ListNotations.
Local Open Scope Z_scope.

(* every generator of the registry is seeded from s at set-up; sub-env i has s+i pending *)
Theorem C10_all_seeded_after_setup_partial : forall n s,
  let x := run (init n) (setup (Some s)) in
  s_py x = Seeded s /\ s_np x = Seeded s /\ s_torch x = Seeded s /\ s_aspace x = Seeded s /\
  s_pending x = seeds_from s n /\ s_delivered x = repeat [] n.
Proof. exact all_seeded_after_setup. Qed.
Print Assumptions C10_all_seeded_after_setup_partial.

Theorem C10_no_seed_nothing_seeded : forall n,
  let x := run (init n) (setup None) in
  s_py x = Unseeded /\ s_np x = Unseeded /\ s_torch x = Unseeded /\ s_aspace x = Unseeded /\ s_pending x = repeat None n.
Proof. exact no_seed_nothing_seeded. Qed.
Print Assumptions C10_no_seed_nothing_seeded.

(* sub-env i receives s+i at the first reset only; every later explicit or automatic reset passes None *)
Theorem C10_env_seed_once_partial : forall n s later i, forallb is_reset later = true -> (i < n)%nat ->
  exists k, nth_error (s_delivered (run (init n) (setup (Some s) ++ Reset :: later))) i = Some (Some (s + Z.of_nat i) :: repeat None k).
Proof. exact env_seed_once. Qed.
Print Assumptions C10_env_seed_once_partial.

Example C10_env_seed_once_example :
  forallb is_reset [AutoReset 1; Reset; AutoReset 0; AutoReset 1] = true /\
  s_delivered (run (init 3) (setup (Some 7) ++ Reset :: [AutoReset 1; Reset; AutoReset 0; AutoReset 1]))
  = [[Some 7; None; None]; [Some 8; None; None; None]; [Some 9; None]].
Proof. split; reflexivity. Qed.

(* changing the seed changes every generator's seed and every delivered env seed; sub-envs differ *)
Theorem C10_seed_injective_partial : forall s s' i j,
  (s <> s' -> Seeded s <> Seeded s' /\ s + Z.of_nat i <> s' + Z.of_nat i) /\
  (i <> j -> s + Z.of_nat i <> s + Z.of_nat j).
Proof. exact seed_injective. Qed.
Print Assumptions C10_seed_injective_partial.

(* every consumer of randomness draws from a generator of the seeded registry *)
Theorem C10_consumers_covered_partial : forall n s later c, forallb is_reset later = true ->
  match c with CEnvDynamics i => (i < n)%nat | _ => True end ->
  is_seeded (run (init n) (setup (Some s) ++ Reset :: later)) (consumer_gen c) = true.
Proof. exact consumers_covered. Qed.
Print Assumptions C10_consumers_covered_partial.

(* the tag the scan must find at a consumer's call site resolves to a generator of the consumer's kind *)
Theorem C10_consumer_tags_partial : forall c,
  exists g, gen_of_tag (consumer_tag c) = Some g /\ tag_of_gen g = consumer_tag c /\ (0 <= consumer_tag c <= 4).
Proof. exact consumer_tag_resolves. Qed.
Print Assumptions C10_consumer_tags_partial.

(* the call-site scan passes exactly when every site resolves to a seeded generator (tags 0..4) *)
Theorem C10_scan_rule_partial : forall n s later tags, forallb is_reset later = true -> (0 < n)%nat ->
  scan_ok (run (init n) (setup (Some s) ++ Reset :: later)) tags = forallb (fun t => (0 <=? t) && (t <=? 4)) tags.
Proof. exact scan_ok_spec. Qed.
Print Assumptions C10_scan_rule_partial.

Example C10_scan_example :
  scan_ok (run (init 2) (setup (Some 3) ++ [Reset])) [1; 2; 3; 4; 0] = true /\
  scan_ok (run (init 2) (setup (Some 3) ++ [Reset])) [1; 5] = false /\
  scan_ok (run (init 2) (setup None ++ [Reset])) [1] = false.
Proof. repeat split; reflexivity. Qed.

(* ---------------- regenerated fragments of set_random_seed / VecEnv.seed ---------------- *)
(* the argument of each seeding call is the user's seed; sub-env idx gets seed + idx *)
Theorem C10_fragments_partial :
  (forall s ms, setup (Some s) = [SetRandomSeed (seed_py_arg (seed_global_arg s ms)); ActionSpaceSeed (seed_aspace_arg s ms); EnvSeed (seed_env_arg s ms)] /\
             seed_np_arg (seed_global_arg s ms) = seed_py_arg (seed_global_arg s ms) /\ seed_torch_arg (seed_global_arg s ms) = seed_py_arg (seed_global_arg s ms)) /\
  (forall s ms, seed_py_arg s = s /\ seed_np_arg s = s /\ seed_torch_arg s = s /\ seed_global_arg s ms = s /\ seed_aspace_arg s ms = s /\ seed_env_arg s ms = s) /\
  (forall s n i, (i < n)%nat -> nth_error (seeds_from s n) i = Some (Some (seed_vecenv_elt s (Z.of_nat i)))).
Proof. exact (conj frag_setup (conj frag_seed_args frag_vecenv_seed)). Qed.
Print Assumptions C10_fragments_partial.

(* re-seeding a built model: set_random_seed(s) after set-up with another seed b (or none) leaves every
   generator seeded with s and s+i pending for sub-env i *)
Theorem C10_reseed_partial : forall n b s,
  let x := run (init n) (setup b ++ setup (Some s)) in
  s_py x = Seeded s /\ s_np x = Seeded s /\ s_torch x = Seeded s /\ s_aspace x = Seeded s /\ s_pending x = seeds_from s n.
Proof. exact reseed_all_seeded. Qed.
Print Assumptions C10_reseed_partial.

(* the scan's tag numbering is the inverse of gen_of_tag (every sub-env generator has tag 4) *)
Theorem C10_tag_numbering_partial : forall g, gen_of_tag (tag_of_gen g) = Some (match g with GEnv _ => GEnv 0 | _ => g end).
Proof. exact gen_of_tag_of_gen. Qed.
Print Assumptions C10_tag_numbering_partial.
