(* C17 - VecEnv wrappers keep the contract and transform terminal observations alike.
   Only statements: every proof is [exact <lemma>], followed by Print Assumptions. *)
From Coq Require Import List ZArith QArith Bool Lia.
From SB3V Require Import Gen.Frag_stacking Gen.Frag_checknan Model.WrapperBounds Proofs.WrapperBoundsProofs Model.CheckNan Proofs.CheckNanProofs Model.Script Model.VecEnv Model.Wrappers Proofs.WrappersProofs Model.RunningMoments Model.VecNorm Proofs.WrapperStackProofs Model.EnvUtil Proofs.EnvUtilProofs.
Import ListNotations.
Local Open Scope nat_scope.

(* --- frame stacking, any frame type F, any n_stack >= 1, any history of resets / steps / episode ends --- *)
Theorem C17_window_is_episode_suffix : forall (F : Type) (zero : F) (n : nat), 1 <= n ->
  forall evs : list (fevent F), fs_run zero n evs = padded_suffix zero n (ep_frames evs).
Proof. exact (@window_is_episode_suffix). Qed.
Print Assumptions C17_window_is_episode_suffix.

Theorem C17_terminal_stack_is_finished_episode_suffix : forall (F : Type) (zero : F) (n : nat), 1 <= n ->
  forall (evs : list (fevent F)) (t : F),
  fs_terminal (fs_run zero n evs) t = padded_suffix zero n (ep_frames evs ++ [t]).
Proof. exact (@terminal_stack_is_finished_episode_suffix). Qed.
Print Assumptions C17_terminal_stack_is_finished_episode_suffix.

(* "zero-padded suffix" spelled out: episodes shorter than the stack depth are padded with zeros on
   the old side, longer ones show their last n observations *)
Theorem C17_padded_short : forall (F : Type) (zero : F) (n : nat), 1 <= n -> forall fr : list F,
  length fr <= n -> padded_suffix zero n fr = repeat zero (n - length fr) ++ fr.
Proof. exact (@padded_short). Qed.
Print Assumptions C17_padded_short.

Theorem C17_padded_long : forall (F : Type) (zero : F) (n : nat), 1 <= n -> forall fr : list F,
  n <= length fr -> padded_suffix zero n fr = lastn n fr.
Proof. exact (@padded_long). Qed.
Print Assumptions C17_padded_long.

Theorem C17_window_length : forall (F : Type) (zero : F) (n : nat), 1 <= n ->
  forall evs : list (fevent F), length (fs_run zero n evs) = n.
Proof. exact (@window_length). Qed.
Print Assumptions C17_window_length.

(* the VecFrameStack wrapper of the executable model (Box observations of one shape) runs exactly this *)
Theorem C17_box_window_is_episode_suffix : forall n cf z t fevs evs st,
  1 <= n ->
  map fev_of evs = map Some fevs ->
  Forall (fun e => tzeros_like (frame_of e) = z) (FReset t :: fevs) ->
  fs_state n cf st (BReset (OBox t) :: evs) = [(0%Z, padded_suffix z n (ep_frames (FReset t :: fevs)))].
Proof. exact box_window_is_episode_suffix. Qed.
Print Assumptions C17_box_window_is_episode_suffix.

Theorem C17_box_step_output : forall n cf w t rew d tl term,
  snd (w_step (WFrameStack n cf) [(0%Z, w)] (mk_bout (OBox t) rew d tl term))
  = mk_bout (OBox (tcat (lookup 0%Z cf false) (fs_next (tzeros_like t) n w t d))) rew d tl
      (if d then option_map (fun x => match x with
                                      | OBox tm => OBox (tcat (lookup 0%Z cf false) (fs_terminal w tm))
                                      | ODict kv => st_show cf x (st_push [(0%Z, w)] x)
                                      end) term
       else term).
Proof. exact box_step_output. Qed.
Print Assumptions C17_box_step_output.

(* the Dict (per-key) instance: for every key of a Dict observation the wrapper keeps the zero-padded suffix of
   that key's frames of the current episode; any number of keys, any per-key channel order *)
Theorem C17_dict_window_is_episode_suffix : forall n cf z k kv0 fevs evs st,
  1 <= n ->
  dict_ok k (BReset (ODict kv0)) -> Forall (dict_ok k) evs ->
  map (key_event k) evs = map Some fevs ->
  Forall (fun e => tzeros_like (frame_of e) = z) (FReset (lookup k kv0 tempty) :: fevs) ->
  lookup k (fs_state n cf st (BReset (ODict kv0) :: evs)) []
  = padded_suffix z n (ep_frames (FReset (lookup k kv0 tempty) :: fevs)).
Proof. exact dict_window_is_episode_suffix. Qed.
Print Assumptions C17_dict_window_is_episode_suffix.

Theorem C17_dict_step_output : forall n cf st kv rew d tl term,
  let st' := fst (w_step (WFrameStack n cf) st (mk_bout (ODict kv) rew d tl term)) in
  snd (w_step (WFrameStack n cf) st (mk_bout (ODict kv) rew d tl term))
  = mk_bout (ODict (map (fun '(k, w) => (k, tcat (lookup k cf false) w)) st')) rew d tl
      (if d then option_map (fun x => match x with
                                      | ODict tkv => ODict (map (fun '(k, w) => (k, tcat (lookup k cf false) w)) (st_push st x))
                                      | OBox _ => st_show cf x (st_push st x)
                                      end) term
       else term).
Proof. exact dict_step_output. Qed.
Print Assumptions C17_dict_step_output.

(* VecTransposeImage on a Dict with any number of image keys: exactly the image keys are transposed *)
Theorem C17_transpose_dict_keys : forall keys kv k t,
  NoDup (map fst kv) -> In (k, t) kv ->
  lookup k (kvs (tr_obs keys (ODict kv))) tempty = if memk k keys then ttranspose t else t.
Proof. exact transpose_dict_keys. Qed.
Print Assumptions C17_transpose_dict_keys.

(* --- any stack of wrappers (structural induction on the wrapper list) --- *)
Theorem C17_passthrough : forall ws sts out,
  b_rew (snd (stack_step ws sts out)) = b_rew out /\ b_done (snd (stack_step ws sts out)) = b_done out /\
  b_tl (snd (stack_step ws sts out)) = b_tl out.
Proof. exact passthrough. Qed.
Print Assumptions C17_passthrough.

(* the terminal observation returned by any wrapper stack is the observation the same stack (in the same
   state) would have returned had the terminal observation arrived as an ordinary observation *)
Theorem C17_terminal_transform_eq_obs_transform : forall ws sts out t,
  b_done out = true -> b_term out = Some t ->
  b_term (snd (stack_step ws sts out)) = Some (b_obs (snd (stack_step ws sts (ordinary out t)))).
Proof. exact terminal_transform_eq_obs_transform. Qed.
Print Assumptions C17_terminal_transform_eq_obs_transform.

(* --- round 3: stacks that mix the wrappers above, observation re-encodings and VecNormalize (Model/VecNorm.v of C15,
       read only).  A layer in its current state transforms per-sub-environment step outputs; stacks are typed chains
       (layers may change the observation type). --- *)
Theorem C17_stack_passthrough : forall A C (s : stack A C), all_good A C s -> forall o,
  g_done (run_stack s o) = g_done o /\ g_tl (run_stack s o) = g_tl o /\ g_rew (run_stack s o) = stack_rew s (g_rew o).
Proof. exact stack_passthrough. Qed.
Print Assumptions C17_stack_passthrough.

Theorem C17_stack_terminal_transform : forall A C (s : stack A C), all_good A C s -> forall o t,
  g_done o = true -> g_term o = Some t ->
  g_term (run_stack s o) = Some (g_obs (run_stack s (gordinary o t))).
Proof. exact stack_terminal_transform. Qed.
Print Assumptions C17_stack_terminal_transform.

Theorem C17_stack_no_terminal : forall A C (s : stack A C), all_good A C s -> forall o,
  g_term o = None -> g_term (run_stack s o) = None.
Proof. exact stack_no_terminal. Qed.
Print Assumptions C17_stack_no_terminal.

(* the layers: every wrapper of Model/Wrappers.v in any state (reward untouched), any re-encoding of observations
   (reward untouched), VecNormalize with any normaliser N / reward transform rw (reward transformed by rw only) *)
Theorem C17_layers_are_good :
  (forall w s, good_layer (wrapper_layer w s) /\ forall r, l_rew (wrapper_layer w s) r = r) /\
  (forall A B (f : A -> B), good_layer (map_layer f) /\ forall r, l_rew (map_layer f) r = r) /\
  (forall N rw, good_layer (vn_layer N rw) /\ forall r, l_rew (vn_layer N rw) r = rw r).
Proof.
  exact (conj (fun w s => conj (wrapper_layer_good w s) (fun r => eq_refl))
        (conj (fun A B f => conj (map_layer_good A B f) (fun r => eq_refl))
              (fun N rw => conj (vn_layer_good N rw) (fun r => eq_refl)))).
Qed.
Print Assumptions C17_layers_are_good.

(* the VecNormalize model of C15 (step_outputs), projected on sub-environment i, IS the layer vn_of built from the
   statistics AFTER this step's update: observations and terminal observations go through the same normalize_obs *)
Theorem C17_vecnormalize_is_layer : forall p st obs rews dones terms ss sr i x r d t tl,
  nth_error obs i = Some x -> nth_error rews i = Some r -> nth_error dones i = Some d -> nth_error terms i = Some t ->
  let st' := fst (step_outputs p st obs rews dones terms ss sr) in
  let out := snd (step_outputs p st obs rews dones terms ss sr) in
  let g := l_step (vn_of p st' ss sr) (mk_gout x r d tl t) in
  nth_error (o_obs out) i = Some (g_obs g) /\ nth_error (o_rews out) i = Some (g_rew g) /\
  nth_error (o_term out) i = Some (g_term g) /\ g_done g = d /\ g_tl g = tl /\
  v_obs_rms st' = upd_obs_rms update p st obs.
Proof. exact vecnormalize_is_layer. Qed.
Print Assumptions C17_vecnormalize_is_layer.

(* DummyVecEnv (C01's sub_step, any sub-environment) under any stack of good layers still satisfies the auto-reset
   contract, up to the observation transform of the stack *)
Theorem C17_contract_under_stack : forall E O A0 I Opt Enc C
  (e_step : E -> A0 -> E * (O * Z * bool * bool * I)) (e_reset : E -> option Z -> option Opt -> E * (O * I))
  (enc : O -> Enc) (s : stack Enc C) e ri a e1 obs r term trunc info e' ri' o c,
  all_good Enc C s ->
  e_step e a = (e1, (obs, r, term, trunc, info)) ->
  sub_step e_step e_reset e ri a = (e', ri', o, c) ->
  let g := run_stack s (base_gout enc o) in
  g_done g = (term || trunc) /\ g_tl g = (trunc && negb term) /\ g_rew g = stack_rew s (inject_Z r / 4)%Q /\
  ((term || trunc) = true ->
     exists obs2 ri2, e_reset e1 None None = (e', (obs2, ri2)) /\ ri' = Some ri2 /\
       g_term g = Some (g_obs (run_stack s (gordinary (base_gout enc o) (enc obs)))) /\
       (* the returned observation is the stack's transform of the NEXT episode's first observation *)
       g_obs g = g_obs (run_stack s (mk_gout (enc obs2) (inject_Z r / 4)%Q true (trunc && negb term) (Some (enc obs))))) /\
  ((term || trunc) = false -> g_term g = None /\ so_obs o = obs /\ ri' = ri).
Proof. exact contract_under_stack. Qed.
Print Assumptions C17_contract_under_stack.

(* --- vec_env/__init__.py: sync_envs_normalization walks the training and the evaluation chain in lock-step --- *)
Theorem C17_sync_succeeds_iff_compatible : forall (S : Type) (copy_stats : S -> S -> S) train evalc,
  (exists r, sync_chain copy_stats train evalc = Some r) <-> compatible train evalc = true.
Proof. exact (@sync_succeeds_iff_compatible). Qed.
Print Assumptions C17_sync_succeeds_iff_compatible.

Theorem C17_sync_levels : forall (S : Type) (copy_stats : S -> S -> S) train evalc r,
  sync_chain copy_stats train evalc = Some r ->
  length r = length evalc /\
  forall k,
    nth_error r k =
    match nth_error train k, nth_error evalc k with
    | Some (LNorm st), Some (LNorm se) => Some (LNorm (copy_stats st se))
    | _, e => e
    end.
Proof. exact (@sync_levels). Qed.
Print Assumptions C17_sync_levels.

(* with the VecNormalize model of C15: ret_rms copied at every VecNormalize level, obs_rms only when the training level answers
   hasattr(level, "obs_rms") (h: own attribute or forwarded by VecEnvWrapper.__getattr__), then the level is C15's VecNorm.sync *)
Theorem C17_sync_levels_vecnorm : forall train evalc r k st h se he,
  sync_chain vn_copy train evalc = Some r ->
  nth_error train k = Some (LNorm (st, h)) -> nth_error evalc k = Some (LNorm (se, he)) ->
  exists s', nth_error r k = Some (LNorm (s', h || he)) /\
    v_ret_rms s' = v_ret_rms st /\
    v_obs_rms s' = (if h then v_obs_rms st else v_obs_rms se) /\
    (h = true -> s' = VecNorm.sync st se) /\
    v_returns s' = v_returns se /\ v_training s' = v_training se /\ v_norm_obs s' = v_norm_obs se /\ v_norm_reward s' = v_norm_reward se.
Proof. exact sync_levels_vecnorm. Qed.
Print Assumptions C17_sync_levels_vecnorm.

(* --- declared spaces --- *)
Theorem C17_stacked_space_shape : forall cf ts s,
  ts <> [] -> Forall (fun t => t_shape t = s) ts ->
  t_shape (tcat cf ts) = if cf then set_hd (length ts * hd 0 s) s else set_last (length ts * last s 0) s.
Proof. exact stacked_space_shape. Qed.
Print Assumptions C17_stacked_space_shape.

Theorem C17_transposed_space_shape : forall t h w c, t_shape t = [h; w; c] -> t_shape (ttranspose t) = [c; h; w].
Proof. exact transposed_space_shape. Qed.
Print Assumptions C17_transposed_space_shape.

(* --- regenerated compute_stacking / update arithmetic --- *)
Theorem C17_fragment_axes : forall (cf : bool) (r : Z), (1 <= r)%Z ->
  py_axis r (repeat_axis cf) = (if cf then 0 else r - 1)%Z /\
  (py_axis (r + 1) (stack_dimension cf) - 1 = py_axis r (repeat_axis cf))%Z.
Proof. exact (fun cf r H => conj (frag_repeat_axis cf r H) (frag_axes_agree cf r H)). Qed.
Print Assumptions C17_fragment_axes.

Theorem C17_fragment_stacked_dim : forall (k d : nat), stacked_dim (Z.of_nat d) (Z.of_nat k) = Z.of_nat (k * d).
Proof. exact frag_stacked_dim_model. Qed.
Print Assumptions C17_fragment_stacked_dim.

Theorem C17_fragment_roll_one_frame : forall f : Z, update_shift f = (- f)%Z.
Proof. exact frag_update_shift. Qed.
Print Assumptions C17_fragment_roll_one_frame.

(* the regenerated arithmetic is what the model's functions do: update() rolls by -shift / frame = one frame = fs_push; the stacked
   axis of the declared shape is stacked_dim *)
Theorem C17_fs_push_is_regenerated_roll : forall (F : Type) (w : list F) (o : F) (f : Z),
  (0 < f)%Z -> fs_push w o = skipn (frames_rolled f) w ++ [o].
Proof. exact fs_push_is_regenerated_roll. Qed.
Print Assumptions C17_fs_push_is_regenerated_roll.

Theorem C17_stacked_shape_is_regenerated_dim : forall ts s,
  ts <> [] -> s <> [] -> Forall (fun t => t_shape t = s) ts ->
  Z.of_nat (hd 0 (t_shape (tcat true ts))) = stacked_dim (Z.of_nat (hd 0 s)) (Z.of_nat (length ts)) /\
  Z.of_nat (last (t_shape (tcat false ts)) 0) = stacked_dim (Z.of_nat (last s 0)) (Z.of_nat (length ts)).
Proof. exact stacked_shape_is_regenerated_dim. Qed.
Print Assumptions C17_stacked_shape_is_regenerated_dim.

Theorem C17_fragment_auto_order : forall img sf : bool,
  (if auto_order_is_image_guard img then auto_order_of_image sf else default_channels_first) = (img && sf)%bool.
Proof. exact frag_auto_order. Qed.
Print Assumptions C17_fragment_auto_order.

Theorem C17_fragment_default_order : default_channels_first = false.
Proof. exact frag_default_order. Qed.
Print Assumptions C17_fragment_default_order.

(* ---------- non-vacuity ---------- *)
(* frames 1..5 in two episodes, n_stack = 3: [reset 1; step 2; step 3 (ends, terminal 9); step 4] *)
Definition ex_evs : list (fevent Z) := [FReset 1%Z; FStep 2%Z false None; FStep 3%Z true (Some 9%Z); FStep 4%Z false None].
Example ex_window : fs_run 0%Z 3 ex_evs = [0; 3; 4]%Z /\ ep_frames ex_evs = [3; 4]%Z.
Proof. split; reflexivity. Qed.
Example ex_terminal : fs_terminal (fs_run 0%Z 3 [FReset 1%Z; FStep 2%Z false None]) 9%Z = [1; 2; 9]%Z.
Proof. reflexivity. Qed.
Example ex_short_episode_terminal : fs_terminal (fs_run 0%Z 3 [FReset 1%Z; FStep 2%Z false None; FStep 3%Z true (Some 9%Z)]) 7%Z = [0; 3; 7]%Z.
Proof. reflexivity. Qed.

Definition ex_t (v : Z) : tensor := tfull [2; 2; 1] v.
Example ex_box_hyps :
  map fev_of [BStep (mk_bout (OBox (ex_t 2)) 0%Z false false None)] = map Some [FStep (ex_t 2) false None] /\
  Forall (fun e => tzeros_like (frame_of e) = ex_t 0) [FReset (ex_t 1); FStep (ex_t 2) false None].
Proof. split; [reflexivity|repeat constructor]. Qed.

(* a stack FrameStack(2, channels last) -> Transpose: terminal and ordinary observations alike *)
Definition ex_ws : list wrapper := [WFrameStack 2 [(0%Z, false)]; WTranspose [0%Z]; WMonitor].
Definition ex_sts : list wstate := fst (stack_reset ex_ws (stack_init ex_ws) (OBox (ex_t 1))).
Definition ex_out : bout := mk_bout (OBox (ex_t 5)) 3%Z true true (Some (OBox (ex_t 2))).
Example ex_terminal_alike :
  b_done ex_out = true /\ b_term ex_out = Some (OBox (ex_t 2)) /\
  b_term (snd (stack_step ex_ws ex_sts ex_out))
  = Some (OBox (mk_tensor [2; 2; 2] [1; 1; 1; 1; 2; 2; 2; 2]%Z)) /\
  b_obs (snd (stack_step ex_ws ex_sts ex_out)) = OBox (mk_tensor [2; 2; 2] [0; 0; 0; 0; 5; 5; 5; 5]%Z).
Proof. repeat split; reflexivity. Qed.

Example ex_shape : t_shape (tcat true [ex_t 1; ex_t 2; ex_t 3]) = [6; 2; 1] /\
                   t_shape (tcat false [ex_t 1; ex_t 2; ex_t 3]) = [2; 2; 3].
Proof. split; reflexivity. Qed.

(* Dict observation with two keys: hypotheses of the per-key theorem, and two image keys transposed *)
Definition ex_kv (v : Z) : list (Z * tensor) := [(1%Z, tfull [2] v); (2%Z, ex_t v)].
Example ex_dict_hyps :
  dict_ok 2%Z (BReset (ODict (ex_kv 1))) /\
  map (key_event 2%Z) [BStep (mk_bout (ODict (ex_kv 2)) 0%Z false false None)] = map Some [FStep (ex_t 2) false None] /\
  lookup 2%Z (fs_state 3 [(1%Z, false); (2%Z, true)] [] [BReset (ODict (ex_kv 1)); BStep (mk_bout (ODict (ex_kv 2)) 0%Z false false None)]) []
  = [ex_t 0; ex_t 1; ex_t 2].
Proof. split; [|split]; [split; [repeat constructor; cbn; intuition discriminate|cbn; auto]|reflexivity|reflexivity]. Qed.
Example ex_two_image_keys :
  tr_obs [1%Z; 2%Z] (ODict [(1%Z, ex_t 4); (2%Z, tfull [1; 2; 3] 5%Z); (3%Z, tfull [2] 6%Z)])
  = ODict [(1%Z, mk_tensor [1; 2; 2] [4; 4; 4; 4]%Z); (2%Z, mk_tensor [3; 1; 2] [5; 5; 5; 5; 5; 5]%Z); (3%Z, tfull [2] 6%Z)].
Proof. reflexivity. Qed.

(* a mixed stack: VecFrameStack(2) -> cells as rational channels -> VecNormalize (mean 1, s 2, clip 10; rewards / 2) *)
Definition ex_flat (o : vobs) : list Q := match o with OBox t => map inject_Z (t_data t) | ODict _ => [] end.
Definition ex_N (x : list Q) : list Q := map (fun v => normalize_s v 1%Q 2%Q 10%Q) x.
Definition ex_mixed : stack vobs (list Q) :=
  SCons _ _ _ (wrapper_layer (WFrameStack 2 [(0%Z, false)]) [(0%Z, [tfull [1] 0%Z; tfull [1] 3%Z])])
    (SCons _ _ _ (map_layer ex_flat) (SCons _ _ _ (vn_layer ex_N (fun r => r / 2)%Q) (SNil _))).
Example ex_mixed_good : all_good _ _ ex_mixed.
Proof.
  unfold ex_mixed.
  apply AGCons; [apply wrapper_layer_good|]. apply AGCons; [apply map_layer_good|].
  apply AGCons; [apply vn_layer_good|]. apply AGNil.
Qed.
Example ex_mixed_run :
  let g := run_stack ex_mixed (mk_gout (OBox (tfull [1] 9%Z)) (6 # 4)%Q true true (Some (OBox (tfull [1] 5%Z)))) in
  g_done g = true /\ g_tl g = true /\ (g_rew g == 3 # 4)%Q /\
  Forall2 Qeq (g_obs g) [(-1 # 2)%Q; 4%Q] /\
  (match g_term g with Some t => Forall2 Qeq t [1%Q; 2%Q] | None => False end).
Proof. cbv zeta. vm_compute. repeat split; try reflexivity; repeat constructor; reflexivity. Qed.

Example ex_sync :
  sync_chain copy_tags [LOther 1%Z; LNorm (Some 10%Z, 11%Z); LNorm (None, 21%Z)] [LOther 2%Z; LNorm (Some 30%Z, 31%Z); LNorm (Some 40%Z, 41%Z); LOther 3%Z]
  = Some [LOther 2%Z; LNorm (Some 10%Z, 11%Z); LNorm (Some 40%Z, 21%Z); LOther 3%Z] /\
  sync_chain copy_tags [LNorm (Some 10%Z, 11%Z)] [LOther 2%Z] = None /\
  compatible [LOther 1%Z; LNorm (Some 10%Z, 11%Z)] [LOther 2%Z; LNorm (Some 30%Z, 31%Z)] = true.
Proof. repeat split; reflexivity. Qed.

(* ================= build round 5: declared bounds of the stacked space, VecCheckNan ================= *)
(* A tensor seen from the stacking axis is a grid (rows x cells along the axis); P b x: bounds b admit cell x (any bounds type, any cell type).
   If the wrapped env's observations and terminal observations lie within the bounds bg, the zero frame does too (every element's bounds
   contain 0) and the bounds do not vary along the stacking axis, then for EVERY n_stack, history and shape the returned window and every
   stacked terminal observation lie within the declared bounds np.repeat(bg, n_stack, axis) *)
Theorem C17_window_within_declared_bounds : forall (B X : Type) (P : B -> X -> Prop) (bg : grid B) (zero : grid X) (n : nat) (evs : list (fevent (grid X))),
  1 <= n -> guniform bg -> gwithin P bg zero -> Forall (fevent_ok (gwithin P bg)) evs ->
  gwithin P (grepeat n bg) (gcat (length bg) (fs_run zero n evs)) /\
  forall t, gwithin P bg t -> gwithin P (grepeat n bg) (gcat (length bg) (fs_terminal (fs_run zero n evs) t)).
Proof. exact window_within_declared_bounds. Qed.
Print Assumptions C17_window_within_declared_bounds.

(* against TILED bounds (n copies side by side, what a repaired wrapper would declare) no uniformity is needed *)
Theorem C17_window_within_tiled_bounds : forall (B X : Type) (P : B -> X -> Prop) (bg : grid B) (zero : grid X) (n : nat) (evs : list (fevent (grid X))),
  1 <= n -> gwithin P bg zero -> Forall (fevent_ok (gwithin P bg)) evs ->
  gwithin P (gtile n bg) (gcat (length bg) (fs_run zero n evs)) /\
  forall t, gwithin P bg t -> gwithin P (gtile n bg) (gcat (length bg) (fs_terminal (fs_run zero n evs) t)).
Proof. exact window_within_tiled_bounds. Qed.
Print Assumptions C17_window_within_tiled_bounds.

Theorem C17_repeat_is_tile_when_uniform : forall (B : Type) (bg : grid B) (n : nat), guniform bg -> grepeat n bg = gtile n bg.
Proof. exact repeat_is_tile_when_uniform. Qed.
Print Assumptions C17_repeat_is_tile_when_uniform.

Theorem C17_fragment_declared_bounds : forall x : Z, declared_low x = x /\ declared_high x = x.
Proof. exact frag_declared_bounds. Qed.
Print Assumptions C17_fragment_declared_bounds.

(* --- VecCheckNan --- *)
Theorem C17_checknan_identity_on_finite : forall c warned evs,
  Forall event_finite evs -> cn_run c warned evs = map identity_out evs.
Proof. exact identity_on_finite. Qed.
Print Assumptions C17_checknan_identity_on_finite.

Theorem C17_checknan_detection_exact : forall c warned arrays,
  negb (raise_exception c) && warn_once c && warned = false ->
  (some_bad c arrays ->
     exists f, f <> [] /\ f = issues c arrays /\
               check_val c warned arrays = (if raise_exception c then VRaise f else VWarn f, true)) /\
  (~ some_bad c arrays -> check_val c warned arrays = (VPass, warned)).
Proof. exact detection_exact. Qed.
Print Assumptions C17_checknan_detection_exact.

Theorem C17_checknan_warn_once_silent_afterwards : forall c arrays,
  raise_exception c = false -> warn_once c = true -> check_val c true arrays = (VPass, true).
Proof. exact warn_once_silent_afterwards. Qed.
Print Assumptions C17_checknan_warn_once_silent_afterwards.

Theorem C17_checknan_data_unchanged : forall c w ev,
  match fst (cn_step c w ev) with
  | CNReset _ o => ev = NReset o
  | CNStep _ _ o r d => exists a, ev = NStep a o r d
  | CNResetRaised _ => exists o, ev = NReset o /\ some_bad c o
  | CNAsyncRaised _ => exists a o r d, ev = NStep a o r d /\ some_bad c [a]
  | CNWaitRaised _ _ => exists a o r d, ev = NStep a o r d /\ some_bad c (o ++ [r; dones_arr d])
  end.
Proof. exact data_unchanged. Qed.
Print Assumptions C17_checknan_data_unchanged.

Theorem C17_checknan_raise_mode_history_independent : forall c warned evs,
  raise_exception c = true -> cn_run c warned evs = map (fun ev => fst (cn_step c false ev)) evs.
Proof. exact raise_mode_history_independent. Qed.
Print Assumptions C17_checknan_raise_mode_history_independent.

Theorem C17_fragment_checknan_guards : forall c warned a,
  skip_check_guard (raise_exception c) (warn_once c) warned = negb (raise_exception c) && warn_once c && warned /\
  array_has_inf (check_inf c) (existsb is_inf a) = check_inf c && existsb is_inf a /\ array_has_nan (existsb is_nan a) = existsb is_nan a.
Proof. exact (fun c w a => conj (frag_skip_check_guard c w) (frag_array_checks c a)). Qed.
Print Assumptions C17_fragment_checknan_guards.

Theorem C17_checknan_model_is_regenerated_guards : forall c warned arrays k a,
  (skip_check_guard (raise_exception c) (warn_once c) warned = true -> check_val c warned arrays = (VPass, warned)) /\
  array_issues c k a = (if array_has_inf (check_inf c) (existsb is_inf a) then [(k, IInf)] else []) ++
                       (if array_has_nan (existsb is_nan a) then [(k, INan)] else []).
Proof. exact (fun c w arrays k a => conj (check_val_is_regenerated_guard c w arrays) (array_issues_is_regenerated c k a)). Qed.
Print Assumptions C17_checknan_model_is_regenerated_guards.

(* non-vacuity: bounds [1,5] x [-3,7] on two rows that do not vary along the axis (2 cells), zero within, frames within; the grid view of tensors *)
Definition ex_P (b : Z * Z) (x : Z) : Prop := (fst b <= x <= snd b)%Z.
Definition ex_bg : grid (Z * Z) := [[(-1, 5); (-1, 5)]; [(-3, 7); (-3, 7)]]%Z.
Example ex_bounds_hyps :
  guniform ex_bg /\ gwithin ex_P ex_bg [[0; 0]; [0; 0]]%Z /\
  Forall (fevent_ok (gwithin ex_P ex_bg)) [FReset [[1; 2]; [-3; 7]]%Z; FStep [[5; -1]; [0; 1]]%Z true (Some [[4; 4]; [6; 6]]%Z)] /\
  grepeat 2 ex_bg = [[(-1, 5); (-1, 5); (-1, 5); (-1, 5)]; [(-3, 7); (-3, 7); (-3, 7); (-3, 7)]]%Z /\
  gcat 2 (fs_run [[0; 0]; [0; 0]]%Z 2 [FReset [[1; 2]; [-3; 7]]%Z]) = [[0; 0; 1; 2]; [0; 0; -3; 7]]%Z.
Proof.
  split; [repeat constructor; eexists; exists 2; reflexivity|].
  split; [repeat constructor; unfold ex_P; cbn; lia|].
  split; [|split; reflexivity].
  repeat constructor; unfold ex_P; cbn; lia.
Qed.
Example ex_trepeat :
  trepeat false 2 (mk_tensor [2; 2] [1; 2; 3; 4]%Z) = mk_tensor [2; 4] [1; 1; 2; 2; 3; 3; 4; 4]%Z /\
  trepeat true 2 (mk_tensor [2; 2] [1; 2; 3; 4]%Z) = mk_tensor [4; 2] [1; 2; 1; 2; 3; 4; 3; 4]%Z /\
  ttile true 2 (mk_tensor [2; 2] [1; 2; 3; 4]%Z) = mk_tensor [4; 2] [1; 2; 3; 4; 1; 2; 3; 4]%Z.
Proof. repeat split; reflexivity. Qed.
(* VecCheckNan: warn mode + warn_once + check_inf off: inf ignored, first nan warned, second nan silent, data handed on *)
Example ex_checknan :
  cn_run (mk_cfg false true false) false
    [NReset [[Fin 1; PInf]]; NStep [Fin 0%Z] [[NaN; Fin 2]] [Fin 1%Z] [false]; NStep [NaN] [[Fin 3; Fin 3]] [NaN] [true]]
  = [CNReset VPass [[Fin 1; PInf]]; CNStep VPass (VWarn [(0, INan)]) [[NaN; Fin 2]] [Fin 1%Z] [false]; CNStep VPass VPass [[Fin 3; Fin 3]] [NaN] [true]] /\
  cn_run (mk_cfg true false true) false [NStep [PInf] [[Fin 1%Z]] [Fin 1%Z] [false]; NStep [Fin 0%Z] [[Fin 1%Z]; [NInf]] [NaN] [false]]
  = [CNAsyncRaised [(0, IInf)]; CNWaitRaised VPass [(1, IInf); (2, INan)]] /\
  event_finite (NStep [Fin 0%Z] [[Fin 1%Z]] [Fin 1%Z] [false]).
Proof. repeat split; repeat constructor. Qed.
