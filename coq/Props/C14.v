(* C14 - action distributions are mathematically consistent.
   Only statements: every proof is [exact <lemma>], followed by Print Assumptions.
   Theorems are over the reals (stdlib real-number axioms; see REGISTRY["note"] of harness/c14.py).
   The model (Model/Distributions.v) is tied to distributions.py by the regenerated fragments
   (Gen/Frag_dist.v, interface theorems at the end) and by the Interval-checked correspondence. *)
From Coq Require Import Reals QArith Qreals List.
From Coquelicot Require Import Hierarchy Derive.
From SB3V Require Import Gen.Frag_dist Model.Distributions Proofs.DistributionsProofs Proofs.DistributionsFragProofs.
From SB3V Require Import Refuted.C14_squashed_mode.
Import ListNotations.
Local Open Scope R_scope.

(* ---------------- tanh change of variables ---------------- *)
(* tanh is differentiable with derivative 1 - tanh^2, artanh is its inverse on (-1,1), and tanh is an
   increasing bijection: P(tanh U <= a) = P(U <= artanh a) *)
Theorem C14_tanh_change_of_variables :
  (forall u, is_derive tanh u (1 - (tanh u) ^ 2)) /\
  (forall u, artanh (tanh u) = u) /\
  (forall a, -1 < a < 1 -> tanh (artanh a) = a) /\
  (forall u a, -1 < a < 1 -> (tanh u <= a <-> u <= artanh a)) /\
  (* so the CDF of the action is F_U o artanh; its derivative (the density in action space) is
     f_U(artanh a) / (1 - a^2) *)
  (forall (F f : R -> R) a, (forall u, is_derive F u (f u)) -> -1 < a < 1 ->
     is_derive (fun y => F (artanh y)) a (f (artanh a) / (1 - a ^ 2))).
Proof. exact (conj tanh_derive (conj artanh_tanh (conj tanh_artanh (conj tanh_le_iff squash_change_of_variables)))). Qed.
Print Assumptions C14_tanh_change_of_variables.

(* with epsilon = 0 the code's log_prob is the log of the product over dimensions of that density;
   the epsilon inside the logarithm lowers it by at most sum eps / (1 - a^2);
   the sample-and-log-prob helper (cached pre-squash sample) = log_prob(sample) while the clamp is inactive *)
Theorem C14_squashed_logprob :
  (forall feps p acts, length acts = length p ->
     List.Forall (fun a => -1 + feps <= a <= 1 - feps /\ -1 < a < 1) acts ->
     squashed_logprob feps 0 p acts
     = sumR (map2 (fun ml a => ln (squashed_pdf (fst ml) (exp (snd ml)) a)) p acts)) /\
  (forall eps p gacts acts, 0 <= eps -> List.Forall (fun a => -1 < a < 1) acts ->
     0 <= squashed_logprob_g 0 p acts gacts - squashed_logprob_g eps p acts gacts
       <= sumR (map (fun a => eps / (1 - a ^ 2)) acts)) /\
  (forall feps eps p us, List.Forall (fun u => -1 + feps <= tanh u <= 1 - feps) us ->
     squashed_logprob feps eps p (map tanh us) = squashed_logprob_g eps p (map tanh us) us).
Proof. exact (conj squashed_logprob_exact (conj squashed_epsilon_gap squashed_cached_agrees)). Qed.
Print Assumptions C14_squashed_logprob.

Example C14_squashed_hyp_ok :
  length [1/2; -9/10] = length [(0, 0); (1, -1)] /\
  List.Forall (fun a => -1 + 1/1000 <= a <= 1 - 1/1000 /\ -1 < a < 1) [1/2; -9/10].
Proof. split; [reflexivity|]. repeat constructor; Lra.lra. Qed.

Example C14_cached_hyp_ok : List.Forall (fun u => -1 + 0 <= tanh u <= 1 - 0) [0; 3; -20].
Proof. repeat constructor; pose proof (tanh_range 0); pose proof (tanh_range 3); pose proof (tanh_range (-20)); Lra.lra. Qed.

(* ---------------- mass one on product spaces ---------------- *)
Theorem C14_mass_one :
  (forall l, l <> [] -> sumR (softmax l) = 1) /\
  (forall dims, List.Forall (fun d => d <> []) dims ->
     sumR (map (fun a => exp (multicat_logprob dims a)) (all_actions dims)) = 1) /\
  (forall ls, sumR (map (fun bs => exp (bernoulli_logprob ls bs)) (all_bits (length ls))) = 1).
Proof. exact (conj softmax_sums_to_one (conj multicat_mass_one bernoulli_mass_one)). Qed.
Print Assumptions C14_mass_one.

Example C14_multicat_hyp_ok : List.Forall (fun d : list R => d <> []) [[0; 1; -2]; [30; -30]] /\
  length (all_actions [[0; 1; -2]; [30; -30]]) = 6%nat /\ length (all_bits 3) = 8%nat.
Proof. split; [repeat constructor; discriminate | split; reflexivity]. Qed.

(* ---------------- log-probability is the sum over dimensions, the joint density the product ---------------- *)
Theorem C14_logprob_is_sum_over_dims :
  (forall m s p x xs, gauss_logprob ((m, s) :: p) (x :: xs) = normal_logpdf m (exp s) x + gauss_logprob p xs) /\
  (forall p xs, exp (gauss_logprob p xs) = prodR (map2 (fun ml x => normal_pdf (fst ml) (exp (snd ml)) x) p xs)) /\
  (forall d t k a, multicat_logprob (d :: t) (k :: a) = cat_logprob d k + multicat_logprob t a) /\
  (forall l ls b bs, bernoulli_logprob (l :: ls) (b :: bs) = bern_logprob l b + bernoulli_logprob ls bs).
Proof. exact (conj gauss_logprob_cons (conj gauss_joint_density_is_product (conj multicat_logprob_cons bernoulli_logprob_cons))). Qed.
Print Assumptions C14_logprob_is_sum_over_dims.

(* ---------------- mode maximises ---------------- *)
Theorem C14_mode_maximises :
  (forall p xs, length xs = length p -> gauss_logprob p xs <= gauss_logprob p (gauss_mode p)) /\
  (forall l, l <> [] -> (argmax l < length l)%nat /\ max_at l (argmax l)) /\
  (forall l m k, max_at l m -> (k < length l)%nat -> cat_logprob l k <= cat_logprob l m) /\
  (forall dims a, List.Forall2 (fun d k => (k < length d)%nat) dims a ->
     multicat_logprob dims a <= multicat_logprob dims (multicat_mode dims)) /\
  (forall ls bs, length bs = length ls -> bernoulli_logprob ls bs <= bernoulli_logprob ls (bernoulli_mode ls)).
Proof.
  exact (conj gauss_mode_maximises (conj argmax_spec (conj cat_mode_maximises (conj multicat_mode_maximises bernoulli_mode_maximises)))).
Qed.
Print Assumptions C14_mode_maximises.

Example C14_mode_hyp_ok : List.Forall2 (fun (d : list R) k => (k < length d)%nat) [[0; 1; -2]; [30; -30]] [2; 0]%nat.
Proof. repeat constructor. Qed.

(* squashed Gaussian: only this much holds - the pre-image of mode() maximises the pre-squash Gaussian
   density and mode() is the median of the action (tanh is increasing); it is not the maximiser of the
   action-space density (refuted below) *)
Theorem C14_squashed_mode_partial :
  (forall p xs, length xs = length p -> gauss_logprob p xs <= gauss_logprob p (map artanh (squashed_mode p))) /\
  (forall u mu, tanh u <= tanh mu <-> u <= mu).
Proof. exact (conj squashed_mode_preimage_maximises tanh_le_tanh_iff). Qed.
Print Assumptions C14_squashed_mode_partial.

Theorem C14_squashed_mode_not_maximiser_refuted' :
  exists (mu ls a : R), -1 < a < 1 /\
    squashed_pdf mu (exp ls) (nth 0 (squashed_mode [(mu, ls)]) 0) < squashed_pdf mu (exp ls) a.
Proof. exact C14_squashed_mode_not_maximiser_refuted. Qed.
Print Assumptions C14_squashed_mode_not_maximiser_refuted'.

(* ---------------- entropy ---------------- *)
(* Gaussian: sum over dimensions of the 1-D formula; discrete distributions: entropy() is the
   expectation of -log_prob under the mass function over the whole product space *)
Theorem C14_entropy :
  (forall p, gauss_entropy p = INR (length p) * (1 / 2 + 1 / 2 * ln (2 * PI)) + sumR (map snd p)) /\
  (forall dims, List.Forall (fun d => d <> []) dims ->
     multicat_entropy dims
     = - sumR (map (fun a => exp (multicat_logprob dims a) * multicat_logprob dims a) (all_actions dims))) /\
  (forall ls, bernoulli_entropy ls
     = - sumR (map (fun bs => exp (bernoulli_logprob ls bs) * bernoulli_logprob ls bs) (all_bits (length ls)))) /\
  (forall l, bern_entropy1 l = - (sigmoid l * ln (sigmoid l) + (1 - sigmoid l) * ln (1 - sigmoid l))).
Proof.
  exact (conj gaussian_entropy_sum (conj multicat_entropy_is_expectation (conj bernoulli_entropy_is_expectation bern_entropy_textbook))).
Qed.
Print Assumptions C14_entropy.

(* ---------------- gSDE ---------------- *)
(* expln > 0, variance >= 0, std > 0; reparametrisation: the log-density of loc + e * scale depends on
   the draw only through e^2 *)
Theorem C14_gsde_positive_and_rsample :
  (forall eps ls, 0 <= eps -> 0 < expln eps ls) /\
  (forall x c, 0 <= gsde_variance x c) /\
  (forall eps x c, 0 < eps -> 0 < gsde_std eps x c) /\
  (forall mu sigma e, sigma <> 0 ->
     normal_logpdf mu sigma (mu + e * sigma) = - e ^ 2 / 2 - ln sigma - ln (sqrt (2 * PI))).
Proof. exact (conj expln_positive (conj gsde_variance_nonneg (conj gsde_std_positive normal_logpdf_rsample))). Qed.
Print Assumptions C14_gsde_positive_and_rsample.

(* gSDE is a diagonal Gaussian with std = sqrt(latent^2 . std^2 + eps): log_prob and entropy reduce to the
   Gaussian ones (so additivity / mode / entropy theorems above apply); squashed gSDE = that Gaussian at the
   inverted action minus the squash correction; sample = mean + latent . weights; squashed samples lie in (-1,1) *)
Theorem C14_gsde_reduces_to_gaussian :
  (forall eps x means stdcols acts, 0 < eps ->
     gsde_logprob eps x means stdcols acts = gauss_logprob (gsde_params eps x means stdcols) acts) /\
  (forall eps x stdcols means, 0 < eps -> length means = length stdcols ->
     gsde_entropy eps x stdcols = gauss_entropy (gsde_params eps x means stdcols)) /\
  (forall feps eps x means stdcols acts, List.Forall (fun a => -1 + feps <= a <= 1 - feps /\ -1 < a < 1) acts ->
     gsde_logprob_squashed feps eps x means stdcols acts
     = gsde_logprob eps x means stdcols (map artanh acts) - sumR (map (squash_correction eps) acts)) /\
  (forall x means wcols,
     gsde_sample x means wcols = map2 (fun m w => m + dot x w) means wcols /\
     (forall j, nth j (gsde_sample x means wcols) 0 - nth j means 0
                = if (j <? Nat.min (length means) (length wcols))%nat then dot x (nth j wcols []) else 0 - nth j means 0)) /\
  (forall p noise, List.Forall (fun a => -1 < a < 1) (squashed_sample p noise)).
Proof.
  exact (conj gsde_logprob_is_gaussian (conj gsde_entropy_is_gaussian (conj gsde_logprob_squashed_spec (conj gsde_sample_spec squashed_sample_in_support)))).
Qed.
Print Assumptions C14_gsde_reduces_to_gaussian.

(* ---------------- regenerated fragments of distributions.py ---------------- *)
Theorem C14_fragments :
  (forall t, sum_independent_dims t =
     if dist_sum_per_row (tensor_rank t)
     then match t with T2 rows => map sumR rows | T1 v => map (fun x => x) v end
     else match t with T1 v => [sumR v] | T2 rows => [] end) /\
  (forall lp lm, Q2R (dist_atanh lp lm) = (Q2R lp - Q2R lm) / 2) /\
  (forall log_std e l1p eps,
     Q2R (fst (dist_expln log_std e l1p eps)) = expln_safe (Q2R eps) (Q2R log_std) /\
     Q2R (snd (dist_expln log_std e l1p eps)) = expln_gen (Q2R log_std) (Q2R e) (Q2R l1p)) /\
  (forall lp corr, Q2R (dist_squash_update lp corr) = Q2R lp - Q2R corr) /\
  (forall lp corr, Q2R (dist_gsde_squash_update lp corr) = Q2R lp - Q2R corr).
Proof.
  exact (conj frag_sum_per_row (conj frag_atanh (conj frag_expln (conj frag_squash_update frag_gsde_squash_update)))).
Qed.
Print Assumptions C14_fragments.

(* the reparametrised sample mean + noise * exp(log_std): its log-probability depends on the noise only *)
Theorem C14_gauss_rsample_logprob : forall p noise, length noise = length p ->
  gauss_logprob p (gauss_rsample p noise)
  = sumR (map2 (fun ml e => - e ^ 2 / 2 - snd ml - ln (sqrt (2 * PI))) p noise).
Proof. exact gauss_logprob_rsample. Qed.
Print Assumptions C14_gauss_rsample_logprob.

(* MultiCategorical: the split pieces are consecutive, non-overlapping slices of the flat logits (their concatenation is
   the first sum(action_dims) logits), one piece per action dimension *)
Theorem C14_split_logits_partition : forall sizes flat,
  concat (split_logits sizes flat) = firstn (fold_right Nat.add 0%nat sizes) flat /\
  length (split_logits sizes flat) = length sizes.
Proof. exact split_logits_concat. Qed.
Print Assumptions C14_split_logits_partition.

Example C14_split_logits_example : split_logits [2; 3]%nat [1; 2; 3; 4; 5] = [[1; 2]; [3; 4; 5]].
Proof. reflexivity. Qed.
