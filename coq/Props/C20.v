(* C20 - Logger outputs are complete and re-readable.
   Only statements: every proof is [exact <lemma>], followed by Print Assumptions.
   The two statements the faithful model violates (findings F5, F6) are in Refuted/C20_*.v. *)
From Coq Require Import List QArith ZArith Bool Ascii String.
From SB3V Require Import Gen.Frag_logger Model.Csv Model.Logger Model.HumanFormat Proofs.CsvProofs Proofs.LoggerProofs Proofs.HumanFormatProofs
  Refuted.C20_csv_multiline Refuted.C20_human_exclude Refuted.C20_blank_row Refuted.C20_human_slash_key.
Import ListNotations.

(* ---- record / record_mean / dump ---- *)
Theorem C20_record_sets : forall st k v e,
  get_kv k (l_val (l_record st k v e)) = Some v /\ get_kv k (l_exc (l_record st k v e)) = Some e.
Proof. exact record_sets. Qed.
Print Assumptions C20_record_sets.

Theorem C20_record_keeps_others : forall st k v e k2, k <> k2 ->
  get_kv k2 (l_val (l_record st k v e)) = get_kv k2 (l_val st) /\
  get_kv k2 (l_exc (l_record st k v e)) = get_kv k2 (l_exc st) /\
  get_kv k2 (l_cnt (l_record st k v e)) = get_kv k2 (l_cnt st).
Proof. exact record_keeps_others. Qed.
Print Assumptions C20_record_keeps_others.

(* record_mean's update as regenerated from logger.py *)
Theorem C20_mean_fragment : forall old c v,
  (fst (lg_mean_update old c v) == mean_step old c v)%Q /\ snd (lg_mean_update old c v) = (c + 1)%Z.
Proof. exact frag_mean_update. Qed.
Print Assumptions C20_mean_fragment.

(* any number of record_mean calls since the last dump: the pending value is the arithmetic mean *)
Theorem C20_record_mean_is_mean : forall st k e vs, vs <> [] -> count_of st k = 0%Z -> mean_defined st k = true ->
  (value_of (fst (l_run st (mean_ops k e vs))) k == lsum vs / inject_Z (Z.of_nat (List.length vs)))%Q.
Proof. exact (fun st k e vs Hne Hc _ => record_mean_is_mean st k e vs Hne Hc). Qed.
Print Assumptions C20_record_mean_is_mean.

Example C20_mean_example :
  (value_of (fst (l_run l0 (mean_ops [] [] [1; 2; 6]%Q))) [] == 3)%Q /\ count_of l0 [] = 0%Z.
Proof. split; reflexivity. Qed.

Theorem C20_dump_clears : forall st, fst (l_dump st) = l0.
Proof. exact dump_clears. Qed.
Print Assumptions C20_dump_clears.

(* per-format exclusion (csv, json): as regenerated; a recorded key is excluded iff the format is in its tuple *)
Theorem C20_is_excluded_fragment : forall st k fmt,
  is_excluded st k fmt =
  match get_kv k (l_exc st) with
  | Some ex => lg_is_excluded true true (mem_text fmt ex) false false (negb (mem_text fmt ex))
  | None => lg_is_excluded false true false true false true
  end.
Proof. exact frag_is_excluded. Qed.
Print Assumptions C20_is_excluded_fragment.

Theorem C20_filter_excluded_spec : forall fmt st k v,
  In (k, v) (filter_fmt fmt st) <-> In (k, v) (l_val st) /\ is_excluded st k fmt = false.
Proof. exact filter_excluded_spec. Qed.
Print Assumptions C20_filter_excluded_spec.

Theorem C20_excluded_iff_in_tuple : forall st k v e fmt,
  is_excluded (l_record st k v e) k fmt = negb (visible_spec fmt e).
Proof. exact is_excluded_after_record. Qed.
Print Assumptions C20_excluded_iff_in_tuple.

Theorem C20_dump_delivers : forall st k v,
  In (k, v) (l_val st) ->
  (is_excluded st k t_csv = false -> In (k, v) (d_csv (snd (l_dump st)))) /\
  (is_excluded st k t_json = false -> In (k, v) (d_json (snd (l_dump st)))).
Proof. exact dump_delivers. Qed.
Print Assumptions C20_dump_delivers.

(* the human formats (stdout, log): the test regenerated from HumanOutputFormat.write hides a key from BOTH as
   soon as either name is in the tuple - the model is faithful to that (finding F6, Refuted/C20_human_exclude.v) *)
Theorem C20_human_hidden_fragment : forall st k,
  human_hidden st k =
  match get_kv k (l_exc st) with
  | Some ex => lg_human_hidden true (mem_text t_stdout ex) (mem_text t_log ex)
  | None => false
  end.
Proof. exact frag_human_hidden. Qed.
Print Assumptions C20_human_hidden_fragment.

Theorem C20_human_filter_spec : forall st k v,
  In (k, v) (filter_human st) <-> In (k, v) (l_val st) /\ human_hidden st k = false.
Proof. exact human_filter_spec. Qed.
Print Assumptions C20_human_filter_spec.

Theorem C20_human_exclude_stdout_hides_log_refuted :
  exists st k v e,
    st = l_record l0 k v e /\ visible_spec t_log e = true /\ visible_spec t_stdout e = false /\
    d_log (snd (l_dump st)) = [] /\ In (k, v) (d_pending (snd (l_dump st))).
Proof. exact Refuted.C20_human_exclude.C20_human_exclude_stdout_hides_log_refuted. Qed.
Print Assumptions C20_human_exclude_stdout_hides_log_refuted.

(* ---- CSV at character level ---- *)
(* the reader inverts the printer on every table (quoted cells may contain anything, also line breaks) *)
Theorem C20_parse_print_table : forall t,
  Forall (fun r => r <> [] /\ forallb cell_ok r = true) t -> parse_csv (print_table t) = t.
Proof. exact parse_print_table. Qed.
Print Assumptions C20_parse_print_table.

(* MAIN: every history of dumps - keys appearing, disappearing, re-appearing, any order oracle for new columns,
   numbers rendered as plain text, strings with quotes/commas/spaces but NO line break - leaves a file that reads
   back as the table of what was recorded (header = all keys ever seen, empty cell where a key was absent) *)
Theorem C20_csv_roundtrip : forall kv0 extra0 rest,
  extra0 <> [] -> dumps_ok [] ((kv0, extra0) :: rest) ->
  let c := csv_run csv0 ((kv0, extra0) :: rest) in
  parse_csv (c_file c) = expected_table (c_keys c) ((kv0, extra0) :: rest).
Proof. exact csv_roundtrip. Qed.
Print Assumptions C20_csv_roundtrip.

Example C20_csv_example :
  let T := fun s : string => list_ascii_of_string s in
  let dumps := [ ([(T "a"%string, FU (T "1"%string)); (T "s"%string, FQ (T "he said ""hi"", ok"%string))], [T "s"%string; T "a"%string]);
                 ([(T "b"%string, FU (T "2.5"%string))], [T "b"%string]);
                 ([(T "a"%string, FU (T "3"%string)); (T "c"%string, FQ (T "x"%string))], [T "c"%string]) ] in
  dumps_ok [] dumps /\
  c_file (csv_run csv0 dumps)
  = T "s,a,b,c"%string ++ [nl] ++ T """he said """"hi"""", ok"",1,,"%string ++ [nl] ++ T ",,2.5,"%string ++ [nl] ++ T ",3,,""x"""%string ++ [nl].
Proof.
  cbn zeta. split; [|vm_compute; reflexivity].
  cbn [dumps_ok]. repeat split; try (vm_compute; reflexivity); vm_compute; intros k H;
    repeat (destruct H as [<-|H]; [intuition (try discriminate; auto 10)|]); try contradiction.
Qed.

(* with a line break in a value and a later new column the statement fails (finding F5) *)
Theorem C20_csv_multiline_header_rewrite_refuted :
  exists dumps,
    let c := csv_run csv0 dumps in
    table_eqb (parse_csv (c_file c)) (expected_table (c_keys c) dumps) = false /\
    nth 0 (nth 1 (parse_csv (c_file c)) []) (FU []) = FQ (Refuted.C20_csv_multiline.T "x," ++ [nl] ++ Refuted.C20_csv_multiline.T "y") /\
    nth 0 (nth 1 (expected_table (c_keys c) dumps) []) (FU []) = FQ (Refuted.C20_csv_multiline.T "x" ++ [nl] ++ Refuted.C20_csv_multiline.T "y").
Proof. exact Refuted.C20_csv_multiline.C20_csv_multiline_header_rewrite_refuted. Qed.
Print Assumptions C20_csv_multiline_header_rewrite_refuted.

(* ---- extension: CSV padding count, log levels, disabled logger, truncation in the human formats ---- *)
Theorem C20_csv_pad_fragment : forall extra : list text,
  List.length (repeat comma (List.length extra)) = Z.to_nat (lg_csv_pad 1 (Z.of_nat (List.length extra))).
Proof. exact frag_csv_pad. Qed.
Print Assumptions C20_csv_pad_fragment.

Theorem C20_log_level_filter : forall cfg level,
  lg_log_emits cfg level = log_emits cfg level /\ (log_emits cfg level = true <-> (cfg <= level)%Z).
Proof. exact (fun cfg level => conj (frag_log_emits cfg level) (log_level_filter cfg level)). Qed.
Print Assumptions C20_log_level_filter.

Theorem C20_dump_level : forall cfg st,
  l_dump_level cfg st = (if lg_dump_disabled cfg DISABLED_ then (st, None) else (fst (l_dump st), Some (snd (l_dump st)))) /\
  l_dump_level DISABLED_ st = (st, None) /\ (cfg <> DISABLED_ -> l_dump_level cfg st = (l0, Some (snd (l_dump st)))).
Proof. exact (fun cfg st => conj (frag_dump_disabled cfg st) (conj (dump_disabled_noop st) (dump_enabled cfg st))). Qed.
Print Assumptions C20_dump_level.

Theorem C20_truncate : forall m s,
  truncate m s = (if lg_truncates (Z.of_nat (List.length s)) (Z.of_nat m)
                  then firstn (Z.to_nat (lg_truncate_keep (Z.of_nat m))) s ++ dots else s) /\
  ((3 <= m)%nat -> (List.length (truncate m s) <= m)%nat) /\ ((List.length s <= m)%nat -> truncate m s = s).
Proof. exact (fun m s => conj (frag_truncate m s) (conj (truncate_length m s) (truncate_short m s))). Qed.
Print Assumptions C20_truncate.

Example C20_truncate_example :
  let T := fun s : string => list_ascii_of_string s in
  truncate 8 (T "rollout_ab"%string) = T "rollo..."%string /\ collide 8 (T "rollout_ab"%string) (T "rollout_cd"%string) = true
  /\ collide 8 (T "k0"%string) (T "k1"%string) = false.
Proof. repeat split. Qed.

(* ---- review items ---- *)
(* record_mean interleaved with record / record_mean on other keys and record_mean(None): still the arithmetic mean of
   the values given for k since the last dump (mean_defined: record_mean on a key that holds a string raises TypeError
   in the implementation; mean_safe excludes a dump or a record() on k in between) *)
Theorem C20_record_mean_interleaved : forall st k ops,
  count_of st k = 0%Z -> mean_defined st k = true -> forallb (mean_safe k) ops = true -> mean_values k ops <> [] ->
  (value_of (fst (l_run st ops)) k == lsum (mean_values k ops) / inject_Z (Z.of_nat (List.length (mean_values k ops))))%Q.
Proof. exact (fun st k ops Hc _ Hs Hne => record_mean_interleaved st k ops Hc Hs Hne). Qed.
Print Assumptions C20_record_mean_interleaved.

Theorem C20_mean_reaches_dump : forall st k q,
  get_kv k (l_val st) = Some (LNum q) -> In (k, LNum q) (d_pending (snd (l_dump st))).
Proof. exact mean_reaches_dump. Qed.
Print Assumptions C20_mean_reaches_dump.

Example C20_interleaved_example :
  let T := fun s : string => list_ascii_of_string s in
  let ops := [ORecordMean (T "a"%string) (Some 1%Q) []; ORecord (T "b"%string) (LStr (T "x"%string)) []; ORecordMean (T "a"%string) None [];
              ORecordMean (T "c"%string) (Some 9%Q) []; ORecordMean (T "a"%string) (Some 5%Q) []] in
  mean_values (T "a"%string) ops = [1%Q; 5%Q] /\ forallb (mean_safe (T "a"%string)) ops = true /\
  (value_of (fst (l_run l0 ops)) (T "a"%string) == 3)%Q.
Proof. repeat split. Qed.

(* with the library reader's blank-line skipping: the file reads back as the recorded table MINUS its blank rows; equal to
   the recorded table exactly when no row is blank (a dump without values while the file has a single column is) *)
Theorem C20_csv_roundtrip_skip_blank : forall kv0 extra0 rest,
  extra0 <> [] -> dumps_ok [] ((kv0, extra0) :: rest) ->
  let c := csv_run csv0 ((kv0, extra0) :: rest) in
  parse_csv_skip_blank (c_file c) = filter (fun r => negb (is_blank_row r)) (expected_table (c_keys c) ((kv0, extra0) :: rest)) /\
  (no_blank_rows (expected_table (c_keys c) ((kv0, extra0) :: rest)) = true ->
   parse_csv_skip_blank (c_file c) = expected_table (c_keys c) ((kv0, extra0) :: rest)).
Proof. exact csv_roundtrip_skip_blank. Qed.
Print Assumptions C20_csv_roundtrip_skip_blank.

Theorem C20_csv_blank_row_dropped_refuted :
  exists dumps,
    let c := csv_run csv0 dumps in
    table_eqb (parse_csv (c_file c)) (expected_table (c_keys c) dumps) = true /\
    parse_csv_skip_blank (c_file c) = [[FU (Refuted.C20_blank_row.T "a")]; [FU (Refuted.C20_blank_row.T "1")]; [FU (Refuted.C20_blank_row.T "2")]] /\
    List.length (expected_table (c_keys c) dumps) = 4%nat /\ no_blank_rows (expected_table (c_keys c) dumps) = false.
Proof. exact Refuted.C20_blank_row.C20_csv_blank_row_dropped_refuted. Qed.
Print Assumptions C20_csv_blank_row_dropped_refuted.

(* ---- build round 5: the whole HumanOutputFormat.write (Model/HumanFormat.v): sort, tags, truncation, refusal, layout, and a reader ---- *)
(* (a) a dump that is not refused prints a table that reads back as the writer's dict, row by row (cells right-padded to the column widths);
   the key cells of that dict are exactly what the visible keys contribute - one per key, in the sorted order, nothing dropped or invented;
   nothing at all is printed iff nothing is visible.  Side condition of the reader: no '|' inside a key. *)
Theorem C20_human_table_reads_back : forall m l d lines,
  Forall (fun e => no_bar (e_key e) = true) l -> key2str m l = Some d -> write_lines m l = Some lines ->
  parse_table lines = Some (map (fun c => (pad (key_width d) (c_key c), pad (val_width d) (c_val c))) d) /\
  key_cells d = cells_spec m l /\
  (d = [] <-> visible l = []) /\ (d = [] -> lines = []).
Proof. exact write_reads_back. Qed.
Print Assumptions C20_human_table_reads_back.

(* the order of the rows: the visible entries sorted by key (a permutation, ascending by code points), one key cell each *)
Theorem C20_human_rows_sorted : forall m l,
  Permutation.Permutation (visible l) (sort_e (visible l)) /\
  Sorted.LocallySorted (fun a b => text_leb (e_key a) (e_key b) = true) (sort_e (visible l)) /\
  List.length (cells_spec m l) = List.length (visible l).
Proof. exact write_order. Qed.
Print Assumptions C20_human_rows_sorted.

(* (b) the dump is refused (ValueError) exactly when two visible keys are shown with the same text under the same tag, or a key is shown with the
   text of its own tag header: a value is never overwritten silently *)
Theorem C20_human_refused_iff_collision : forall m l,
  let its := scan m [] (sort_e (visible l)) in
  key2str m l <> None <->
  NoDup (map (fun it => (it_tag it, it_key it)) its) /\
  Forall (fun it => ~ (it_tag it <> [] /\ it_key it = truncate m (it_tag it))) its.
Proof. exact write_refused_iff. Qed.
Print Assumptions C20_human_refused_iff_collision.

(* (c) every line has the same width, at most 2 * max_length + 7; no key or value cell is longer than max_length *)
Theorem C20_human_table_rectangular : forall m l d, (3 <= m)%nat -> key2str m l = Some d ->
  (Forall (fun s => List.length s = key_width d + val_width d + 7) (table_lines d) /\ key_width d + val_width d + 7 <= 2 * m + 7)%nat.
Proof. exact write_width. Qed.
Print Assumptions C20_human_table_rectangular.
Theorem C20_human_cells_short : forall m l d, (3 <= m)%nat -> key2str m l = Some d ->
  Forall (fun c => (List.length (c_key c) <= m /\ List.length (c_val c) <= m)%nat) d.
Proof. exact write_cells_short. Qed.
Print Assumptions C20_human_cells_short.

(* (d) keys that fit are printed verbatim: a tagged key tag/rest as three spaces + rest under its tag (tag ++ rest = key); a key without "/" as it is *)
Theorem C20_human_tagged_key_verbatim : forall m tag e i, find_slash (e_key e) = Some (S i) ->
  let it := item_of m tag e in
  let rest := skipn (S i + 1) (e_key e) in
  it_tag it ++ rest = e_key e /\ ((3 + List.length rest <= m)%nat -> it_key it = three ++ rest).
Proof. exact tagged_key_verbatim. Qed.
Print Assumptions C20_human_tagged_key_verbatim.
Theorem C20_human_plain_key_verbatim : forall m tag e, find_slash (e_key e) = None -> (tag = [] \/ find_slash tag <> None) ->
  (List.length (e_key e) <= m)%nat -> it_key (item_of m tag e) = e_key e /\ it_tag (item_of m tag e) = tag.
Proof. exact plain_key_verbatim. Qed.
Print Assumptions C20_human_plain_key_verbatim.

Example C20_human_example :
  let T := fun s : string => list_ascii_of_string s in
  let l := [mk_e (T "train/loss"%string) (T "0.5     "%string) false; mk_e (T "time"%string) (T "3"%string) false; mk_e (T "hidden"%string) (T "1"%string) true;
            mk_e (T "train/a_very_long_key_name"%string) (T "abcdefghijklmnop"%string) false] in
  option_map (map string_of_list_ascii) (write_lines 12 l) =
    Some ["-------------------------------"; "| time         | 3            |"; "| train/       |              |";
          "|    a_very... | abcdefghi... |"; "|    loss      | 0.5          |"; "-------------------------------"]%string /\
  key2str 12 (l ++ [mk_e (T "train/a_very_long_key_too"%string) (T "2"%string) false]) = None /\
  write_lines 12 [mk_e (T "hidden"%string) (T "1"%string) true] = Some [].
Proof. vm_compute. repeat split. Qed.

(* regenerated from HumanOutputFormat.write: the tag test `key.find("/") > 0` and the slice bound `key.find("/") + 1`; the indentation test
   `len(tag) > 0 and tag in key`; the empty-table test; the frame width `key_width + val_width + 7`; the paddings `width - len(cell)` *)
Theorem C20_human_tag_fragment : forall tag key,
  next_tag tag key = if lg_tag_found (find_pos key) then (firstn (Z.to_nat (lg_tag_end (find_pos key))) key, true) else (tag, false).
Proof. exact frag_next_tag. Qed.
Print Assumptions C20_human_tag_fragment.
Theorem C20_human_indent_fragment : forall tag key,
  display_key tag key = if lg_indent_test (Z.of_nat (List.length tag)) (is_substr tag key) then three ++ skipn (List.length tag) key else key.
Proof. exact frag_display_key. Qed.
Print Assumptions C20_human_indent_fragment.
Theorem C20_human_layout_fragment : forall kw vw c c0 r,
  row_line kw vw c = [bar; sp] ++ c_key c ++ repeat sp (Z.to_nat (lg_key_pad (Z.of_nat kw) (Z.of_nat (List.length (c_key c))))) ++ [sp; bar; sp]
                     ++ c_val c ++ repeat sp (Z.to_nat (lg_val_pad (Z.of_nat vw) (Z.of_nat (List.length (c_val c))))) ++ [sp; bar] /\
  (let d := c0 :: r in exists rows, table_lines d = repeat dash (Z.to_nat (lg_frame_width (Z.of_nat (key_width d)) (Z.of_nat (val_width d)))) :: rows) /\
  lg_empty_table (Z.of_nat (List.length (c0 :: r))) = false /\ lg_empty_table (Z.of_nat (List.length (@nil cell))) = true.
Proof. exact frag_layout. Qed.
Print Assumptions C20_human_layout_fragment.

(* witness (Refuted/C20_human_slash_key.v): a key that starts with "/" and contains the tag of an earlier key loses its first len(tag) characters:
   keys "-a/b", "/-a/c" (max_length 12): the table shows "/c" under "-a/" - the key cannot be read back although it fits *)
Theorem C20_human_slash_led_key_misprinted_refuted :
  exists m l,
    Forall (fun e => (List.length (e_key e) + 3 <= m)%nat) l /\
    option_map (map string_of_list_ascii) (write_lines m l) =
      Some ["-------------"; "| -a/   |   |"; "|    b  | 1 |"; "|    /c | 2 |"; "-------------"]%string /\
    map (fun e => string_of_list_ascii (e_key e)) l = ["-a/b"; "/-a/c"]%string.
Proof. exact Refuted.C20_human_slash_key.C20_human_slash_led_key_misprinted_refuted. Qed.
Print Assumptions C20_human_slash_led_key_misprinted_refuted.
