(* C05 - GAE advantages/returns match their definition; minibatches partition the rollout.
   Only statements: every proof is [exact <lemma>], followed by Print Assumptions. *)
From Coq Require Import List QArith Permutation.
From SB3V Require Import Gen.Frag_gae Model.Gae Model.Minibatch Proofs.GaeProofs Proofs.MinibatchProofs.
Import ListNotations.
Local Open Scope nat_scope.

(* The loop assembled from the fragments regenerated from buffers.py computes, for every
   horizon and every step t, A_t = sum_k (gamma*lambda)^k (prod_{j<k} nnt_{t+j}) delta_{t+k}. *)
Theorem C05_gae_is_definition : forall (g l : Q) (steps : list stp) (t : nat),
  (nth t (gae_gen g l steps) 0 == adv_def g l (skipn t steps))%Q.
Proof. exact gae_gen_is_def. Qed.
Print Assumptions C05_gae_is_definition.

Theorem C05_gae_model_is_definition : forall (g l : Q) (steps : list stp) (t : nat),
  (nth t (gae_code g l steps) 0 == adv_def g l (skipn t steps))%Q.
Proof. exact gae_code_is_def. Qed.
Print Assumptions C05_gae_model_is_definition.

(* episode boundary: when next_non_terminal = 0 the advantage is r - V and nothing later matters *)
Theorem C05_gae_cut_at_boundary : forall g l s rest rest',
  (s_nnt s == 0)%Q ->
  (hd 0 (gae_code g l (s :: rest)) == hd 0 (gae_code g l (s :: rest')))%Q /\
  (hd 0 (gae_code g l (s :: rest)) == s_r s - s_v s)%Q.
Proof. exact gae_cut_at_boundary. Qed.
Print Assumptions C05_gae_cut_at_boundary.

(* the last step bootstraps from last_values scaled by (1 - final done) *)
Theorem C05_gae_bootstrap_last : forall rs vs es lastv d,
  length rs = length vs -> length vs = length es -> rs <> [] ->
  exists s, nth_error (mk_col rs vs es lastv d) (length rs - 1) = Some s /\
            s_nv s = lastv /\ s_nnt s = (1 - d)%Q.
Proof. exact mk_col_last_nnt. Qed.
Print Assumptions C05_gae_bootstrap_last.

(* inner steps use values[t+1] and 1 - episode_starts[t+1] *)
Theorem C05_gae_inner_successor : forall rs vs es lastv d t r v v' e e',
  nth_error rs t = Some r -> nth_error vs t = Some v -> nth_error es t = Some e ->
  nth_error vs (S t) = Some v' -> nth_error es (S t) = Some e' ->
  nth_error (mk_col rs vs es lastv d) t
  = Some {| s_r := r; s_v := v; s_nv := v'; s_nnt := (1 - e')%Q |}.
Proof. exact mk_col_inner. Qed.
Print Assumptions C05_gae_inner_successor.

(* the column consumed by the loop carries, at every position, what the index-based branch
   `if step == buffer_size - 1` of the code selects *)
Theorem C05_column_matches_branch : forall rs vs es lastv d t,
  length rs = length vs -> length vs = length es -> t < length rs ->
  exists s, nth_error (mk_col rs vs es lastv d) t = Some s /\
    s_r s = nth t rs 0%Q /\ s_v s = nth t vs 0%Q /\
    (s_nnt s, s_nv s) = next_spec (Z.of_nat t) (Z.of_nat (length rs)) d lastv (nth (S t) es 0%Q) (nth (S t) vs 0%Q).
Proof. exact mk_col_matches_next_spec. Qed.
Print Assumptions C05_column_matches_branch.

Theorem C05_next_fragment : forall step bs d lv es vn,
  Qeq (fst (gae_next step bs d lv es vn)) (fst (next_spec step bs d lv es vn)) /\
  Qeq (snd (gae_next step bs d lv es vn)) (snd (next_spec step bs d lv es vn)).
Proof. exact frag_gae_next. Qed.
Print Assumptions C05_next_fragment.

Theorem C05_returns_def : forall advs vals t a v,
  nth_error advs t = Some a -> nth_error vals t = Some v ->
  nth_error (returns_of advs vals) t = Some (a + v)%Q.
Proof. exact returns_def. Qed.
Print Assumptions C05_returns_def.

Theorem C05_returns_fragment : forall a v, (gae_returns a v == a + v)%Q.
Proof. exact frag_gae_returns. Qed.
Print Assumptions C05_returns_fragment.

(* environments do not influence each other: column e of the vectorised computation
   is the scalar recursion run on column e alone *)
Theorem C05_gae_env_independent : forall g l n rows e ds,
  Forall (fun row => length row = n) rows -> e < n ->
  column e 0%Q (gae_rows g l n rows) = gae_code g l (column e ds rows).
Proof. exact gae_env_independent. Qed.
Print Assumptions C05_gae_env_independent.

(* one pass: the minibatches concatenated are the permutation drawn; so every flat index
   appears exactly once, for every batch size >= 1 (last batch may be short) *)
Theorem C05_minibatches_partition : forall b N (perm : list nat),
  1 <= b -> Permutation perm (seq 0 N) ->
  Permutation (concat (minibatches b perm)) (seq 0 N).
Proof. exact minibatches_partition. Qed.
Print Assumptions C05_minibatches_partition.

(* the same for the loop assembled from the regenerated guard `start_idx < buffer_size * n_envs` and
   advance `start_idx += batch_size` of get(): a changed guard or advance breaks this Qed *)
Theorem C05_get_loop_from_fragments_partitions : forall (b T n : nat) (idx : list nat),
  1 <= b -> length idx = T * n ->
  concat (get_loop_gen (T * n) 0%Z (Z.of_nat b) (Z.of_nat T) (Z.of_nat n) idx) = idx.
Proof. exact (@get_loop_gen_partition nat). Qed.
Print Assumptions C05_get_loop_from_fragments_partitions.

Theorem C05_minibatch_sizes : forall (b : nat) (idx : list nat),
  1 <= b -> Forall (fun mb => 1 <= length mb <= b) (minibatches b idx).
Proof. exact (@minibatch_sizes nat). Qed.
Print Assumptions C05_minibatch_sizes.

Theorem C05_get_guard_fragment : forall s T n : nat,
  rollout_get_guard (Z.of_nat s) (Z.of_nat T) (Z.of_nat n) = (s <? T * n) /\
  dictrollout_get_guard (Z.of_nat s) (Z.of_nat T) (Z.of_nat n) = (s <? T * n).
Proof. exact (fun s T n => conj (frag_get_guard s T n) (frag_dict_get_guard s T n)). Qed.
Print Assumptions C05_get_guard_fragment.

Theorem C05_get_advance_fragment : forall s b : nat,
  rollout_get_advance (Z.of_nat s) (Z.of_nat b) = Z.of_nat (s + b) /\
  dictrollout_get_advance (Z.of_nat s) (Z.of_nat b) = Z.of_nat (s + b).
Proof. exact (fun s b => conj (frag_get_advance s b) (frag_dict_get_advance s b)). Qed.
Print Assumptions C05_get_advance_fragment.

(* flat index e*T + t of swap_and_flatten holds cell (t, e); the map is a bijection *)
Theorem C05_flatten_index : forall (d : Q) n (rows : list (list Q)) e t,
  t < length rows -> e < n ->
  nth (e * length rows + t) (flatten d n rows) d = nth e (nth t rows []) d.
Proof. exact (@flatten_index Q). Qed.
Print Assumptions C05_flatten_index.

(* observation, action, value, log-probability, advantage and return of a sample all come from
   the same (step, env): every field goes through the same flatten + index *)
Theorem C05_fields_aligned : forall (d : Q) n T (fields : list (list (list Q))) e t,
  Forall (fun rows => length rows = T) fields -> t < T -> e < n ->
  map (fun rows => nth (e * T + t) (flatten d n rows) d) fields =
  map (fun rows => nth e (nth t rows []) d) fields.
Proof. exact (@fields_aligned Q). Qed.
Print Assumptions C05_fields_aligned.

Theorem C05_unflat_flat : forall T e t, t < T -> unflat T (e * T + t) = (t, e).
Proof. exact unflat_flat. Qed.
Print Assumptions C05_unflat_flat.

Theorem C05_unflat_injective : forall T n i j,
  0 < T -> i < n * T -> j < n * T -> unflat T i = unflat T j -> i = j.
Proof. exact unflat_injective. Qed.
Print Assumptions C05_unflat_injective.

(* non-vacuity: concrete instances of the hypotheses *)
Example C05_ex_partition :
  Permutation (concat (minibatches 4 [5; 2; 0; 3; 1; 4])) (seq 0 6) /\
  minibatches 4 [5; 2; 0; 3; 1; 4] = [[5; 2; 0; 3]; [1; 4]].
Proof.
  split; [apply C05_minibatches_partition; [repeat constructor|]|reflexivity].
  apply Permutation_sym.
  apply (perm_trans (l' := [0; 5; 2; 3; 1; 4])).
  2:{ change [5; 2; 0; 3; 1; 4] with ([5; 2] ++ 0 :: [3; 1; 4]). apply (Permutation_middle [5;2] [3;1;4] 0). }
  apply perm_skip.
  apply (perm_trans (l' := [1; 5; 2; 3; 4])).
  2:{ apply (Permutation_middle [5;2;3] [4] 1). }
  apply perm_skip.
  apply (perm_trans (l' := [2; 5; 3; 4])). 2:{ apply (Permutation_middle [5] [3;4] 2). }
  apply perm_skip.
  apply (perm_trans (l' := [3; 5; 4])). 2:{ apply (Permutation_middle [5] [4] 3). }
  apply perm_skip. apply perm_swap.
Qed.

Example C05_ex_gae :
  (nth 0 (gae_code (1#2) (1#2) (mk_col [1;2;3] [4;5;6] [1;0;1] 7 0)) 0 == -5#4)%Q.
Proof. vm_compute. reflexivity. Qed.
