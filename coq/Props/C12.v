(* C12 - learn() step, update and schedule accounting.
   Only statements: every proof is [exact <lemma>], followed by Print Assumptions.
   loop m n_envs total stop lens num = (train events (num_timesteps, gradient steps), final num_timesteps, stopped)
   for the rollouts of lengths `lens` (vectorised steps); stop n = the callback returns False at num_timesteps = n. *)
From Coq Require Import ZArith List Bool QArith Sorted.
From SB3V Require Import Gen.Frag_learnloop Model.LearnLoop Model.Minibatch Proofs.LearnLoopProofs.
Import ListNotations.
Local Open Scope Z_scope.

(* progress handed to the schedules, as regenerated from _update_current_progress_remaining (F4 repaired):
   in [0,1], never increases when num_timesteps grows, 1 - num/total until the target and 0 beyond *)
Theorem C12_progress_in_unit_interval : forall num total, 0 < total -> 0 <= num ->
  (0 <= progress_remaining num total <= 1)%Q.
Proof. exact frag_progress_range. Qed.
Print Assumptions C12_progress_in_unit_interval.

Theorem C12_progress_monotone : forall num num' total, 0 < total -> num <= num' ->
  (progress_remaining num' total <= progress_remaining num total)%Q.
Proof. exact frag_progress_monotone. Qed.
Print Assumptions C12_progress_monotone.

Theorem C12_progress_value : forall num total, 0 < total ->
  (num <= total -> (progress_remaining num total == 1 - inject_Z num / inject_Z total)%Q) /\
  (total <= num -> (progress_remaining num total == 0)%Q).
Proof. exact frag_progress_value. Qed.
Print Assumptions C12_progress_value.

(* along one learn(): the progress values at consecutive train() calls stay in [0,1] and never increase,
   for every mode, rollout lengths, callback behaviour *)
Theorem C12_progress_along_learn : forall m n_envs total stop lens num, 0 < n_envs -> 0 < total -> 0 <= num ->
  Forall (fun s => (1 <= s)%nat) lens ->
  let evs := fst (fst (loop m n_envs total stop lens num)) in
  Forall (fun e => (0 <= progress (fst e) total <= 1)%Q) evs /\
  StronglySorted (fun a b => (progress (fst b) total <= progress (fst a) total)%Q) evs.
Proof. exact progress_along_loop. Qed.
Print Assumptions C12_progress_along_learn.

(* the counter advances by n_envs per vectorised step; a rollout ends after its k steps or at the first
   step where the callback asks to stop - no further env step *)
Theorem C12_timesteps_advance : forall stop k n_envs num num' c, collect k n_envs num stop = (num', c) ->
  exists j, (j <= k)%nat /\ num' = num + Z.of_nat j * n_envs /\ (c = true -> j = k) /\ (c = false -> (1 <= j)%nat).
Proof. exact collect_advance. Qed.
Print Assumptions C12_timesteps_advance.

Theorem C12_callback_stop_is_immediate : forall stop k n_envs num m, (1 <= m <= k)%nat ->
  (forall j, (1 <= j < m)%nat -> stop (num + Z.of_nat j * n_envs) = false) ->
  stop (num + Z.of_nat m * n_envs) = true ->
  collect k n_envs num stop = (num + Z.of_nat m * n_envs, false).
Proof. exact collect_stop. Qed.
Print Assumptions C12_callback_stop_is_immediate.

Theorem C12_stopped_learn_ends_there : forall m n_envs total stop lens num,
  (snd (loop m n_envs total stop lens num) = true -> stop (snd (fst (loop m n_envs total stop lens num))) = true) /\
  ((forall n, stop n = false) -> snd (loop m n_envs total stop lens num) = false).
Proof. exact (fun m n_envs total stop lens num => conj (loop_stopped m n_envs total stop lens num) (fun H => loop_never_stopped m n_envs total stop H lens num)). Qed.
Print Assumptions C12_stopped_learn_ends_there.

(* a callback stop: every train() of the call happened strictly before the count at which learn() stopped - none at or after it;
   the loops of learn() break exactly when the rollout was stopped (regenerated tests) *)
Theorem C12_no_train_at_or_after_stop : forall m n_envs total stop, 0 < n_envs -> forall lens num,
  Forall (fun s => (1 <= s)%nat) lens ->
  let r := loop m n_envs total stop lens num in
  snd r = true -> Forall (fun e => fst e < snd (fst r)) (fst (fst r)).
Proof. exact no_train_at_or_after_stop. Qed.
Print Assumptions C12_no_train_at_or_after_stop.

Theorem C12_frag_breaks : forall c, on_break_after_stop c = negb c /\ off_break_after_stop c = negb c /\ ppo_epoch_break c = negb c.
Proof. exact frag_breaks. Qed.
Print Assumptions C12_frag_breaks.

(* equal rollouts of R timesteps, no stop: learn() ends at the FIRST rollout boundary at or after the
   target (total <= final < total + R, final - start a multiple of R); on-policy: one train() per rollout *)
Theorem C12_stop_at_first_boundary : forall m n_envs total stop s, (forall n, stop n = false) ->
  0 < Z.of_nat s * n_envs -> forall K num,
  total - num <= Z.of_nat K * (Z.of_nat s * n_envs) ->
  let R := Z.of_nat s * n_envs in
  let r := loop m n_envs total stop (repeat s K) num in
  let fin := snd (fst r) in
  (total <= num -> fin = num /\ fst (fst r) = []) /\
  (num < total -> total <= fin < total + R /\ (fin - num) mod R = 0 /\
                  (m = OnPolicy -> Z.of_nat (length (fst (fst r))) = (fin - num) / R)).
Proof. exact stop_at_first_boundary. Qed.
Print Assumptions C12_stop_at_first_boundary.

(* off-policy: every train() happens after learning_starts, with the configured number of gradient steps
   (or, for gradient_steps = -1, as many as timesteps collected in that rollout), never with 0 *)
Theorem C12_no_update_before_learning_starts : forall ls gs n_envs total stop lens num n g,
  In (n, g) (fst (fst (loop (OffPolicy ls gs) n_envs total stop lens num))) ->
  ls < n /\ 0 < n /\ 0 < g /\ (0 <= gs -> g = gs) /\
  (gs < 0 -> exists s, In s lens /\ g = Z.of_nat s * n_envs).
Proof. exact no_update_before_learning_starts. Qed.
Print Assumptions C12_no_update_before_learning_starts.

(* train() calls happen at strictly increasing counts, all after the start and not after the end *)
Theorem C12_train_times_increase : forall m n_envs total stop, 0 < n_envs -> forall lens num,
  Forall (fun s => (1 <= s)%nat) lens ->
  let r := loop m n_envs total stop lens num in
  num <= snd (fst r) /\ Forall (fun e => num < fst e <= snd (fst r)) (fst (fst r)) /\
  StronglySorted (fun a b => fst a < fst b) (fst (fst r)).
Proof. exact loop_increasing. Qed.
Print Assumptions C12_train_times_increase.

(* reset_num_timesteps, from the regenerated statements of _setup_learn *)
Theorem C12_reset_semantics : forall num ep total,
  setup_counters true num ep total = (0, 0, total) /\ setup_counters false num ep total = (num, ep, total + num).
Proof. exact (fun num ep total => conj (eq_trans (frag_setup true num ep total) (proj1 (reset_semantics num ep total)))
                                      (eq_trans (frag_setup false num ep total) (proj2 (reset_semantics num ep total)))). Qed.
Print Assumptions C12_reset_semantics.

(* ties of the loop model to the regenerated guards, increments, gate and gradient-step selection *)
Theorem C12_frag_loop : forall num total n_envs k s ls gs ts,
  (on_loop_guard num total = (num <? total) /\ off_loop_guard num total = (num <? total) /\
   on_step_count num n_envs = num + n_envs /\ off_step_count num n_envs = num + n_envs /\
   on_rollout_guard k s = (k <? s) /\ collect_more_step_unit k s = (k <? s) /\ collect_more_episode_unit k s = (k <? s)) /\
  train_event (OffPolicy ls gs) num ts =
    (if off_train_gate num ls && off_gradient_gate (off_gradient_steps gs ts) then [(num, off_gradient_steps gs ts)] else []) /\
  (0 < total -> (progress_remaining num total == progress num total)%Q).
Proof. exact (fun num total n_envs k s ls gs ts => conj (frag_guards num total n_envs k s) (conj (frag_train_event ls gs num ts) (frag_progress_eq num total))). Qed.
Print Assumptions C12_frag_loop.

Theorem C12_linear_schedule_ends : forall p s e f, (0 < f)%Q ->
  (linear_fn 1 s e f == s)%Q /\ ((f < 1 - p)%Q -> linear_fn p s e f = e).
Proof. exact linear_fn_ends. Qed.
Print Assumptions C12_linear_schedule_ends.

(* on-policy: a pass over a rollout of N samples in minibatches of b makes ceil(N/b) optimizer steps (the last one truncated) *)
Theorem C12_minibatch_count : forall (b : nat) (idx : list nat), (1 <= b)%nat ->
  length (minibatches b idx) = ((length idx + b - 1) / b)%nat.
Proof. exact (@minibatch_count nat). Qed.
Print Assumptions C12_minibatch_count.

(* PPO: rollout size n_envs * n_steps; the constructor's warning is issued exactly when N % batch <> 0; updates per train() =
   n_epochs * (N // batch + 1 if truncated else N // batch), from the regenerated expressions *)
Theorem C12_ppo_truncated_minibatch_law : forall n_envs n_steps batch n_epochs, 0 < batch -> 0 <= n_envs * n_steps ->
  let N := ppo_rollout_size n_envs n_steps in
  N = n_envs * n_steps /\
  (ppo_truncated_warning N batch = true <-> N mod batch <> 0) /\
  on_train_steps n_epochs N batch =
    n_epochs * (ppo_untruncated_batches N batch + (if ppo_truncated_warning N batch then 1 else 0)).
Proof. exact ppo_truncated_minibatch_law. Qed.
Print Assumptions C12_ppo_truncated_minibatch_law.

(* PPO.train's loops (model ppo_train: epochs x minibatches, early stop by target_kl = oracle kl): n_epochs * k optimizer steps and
   n_epochs increments of _n_updates without early stop, never more with it; the loop bounds, the early-stop test and the break are the
   regenerated ones; k = number of minibatches of get(batch_size) = ceil(N / batch) and n_epochs * k = on_train_steps *)
Theorem C12_ppo_train_steps : forall n_epochs k kl,
  ((forall e j, kl e j = false) -> ppo_train n_epochs k kl = ((n_epochs * k)%nat, n_epochs)) /\
  (fst (ppo_train n_epochs k kl) <= n_epochs * k)%nat /\ (snd (ppo_train n_epochs k kl) <= n_epochs)%nat.
Proof. exact ppo_train_steps. Qed.
Print Assumptions C12_ppo_train_steps.

Theorem C12_frag_ppo_train : forall n_epochs batch hk a t n,
  ppo_epoch_range n_epochs = n_epochs /\ ppo_epoch_iter = 1 /\ ppo_get_batch batch = batch /\ a2c_get_batch = 1 /\
  ppo_kl_stop hk a t = (hk && negb (Qle_bool a ((3 # 2) * t))) /\ ppo_kl_sets_continue = false /\ ppo_continue_init = true /\
  ppo_n_updates n = n + 1 /\ a2c_n_updates n = n + 1.
Proof. exact frag_ppo_train. Qed.
Print Assumptions C12_frag_ppo_train.

Theorem C12_ppo_train_is_on_train_steps : forall n_epochs N b, (1 <= b)%nat ->
  Z.of_nat (n_epochs * length (minibatches b (seq 0 N))) = on_train_steps (Z.of_nat n_epochs) (Z.of_nat N) (Z.of_nat b).
Proof. exact ppo_train_is_on_train_steps. Qed.
Print Assumptions C12_ppo_train_is_on_train_steps.

(* gradient_steps = -1: train() after a rollout of s vectorised steps gets s * n_envs gradient steps *)
Theorem C12_gradient_steps_minus_one : forall ls gs num' s n_envs, gs < 0 ->
  train_event (OffPolicy ls gs) num' (Z.of_nat s * n_envs) =
  if gate num' ls && (0 <? Z.of_nat s * n_envs) then [(num', Z.of_nat s * n_envs)] else [].
Proof. exact train_event_minus_one. Qed.
Print Assumptions C12_gradient_steps_minus_one.

(* one loop iteration (any rollout length s, e.g. the steps an episodic train_freq needs with one env): counter + s * n_envs,
   then the train() that train_event decides at that count *)
Theorem C12_loop_iteration : forall m n_envs total stop s rest num, (forall n, stop n = false) -> num < total ->
  let num' := num + Z.of_nat s * n_envs in
  fst (fst (loop m n_envs total stop (s :: rest) num)) =
    train_event m num' (Z.of_nat s * n_envs) ++ fst (fst (loop m n_envs total stop rest num')).
Proof. exact loop_iteration. Qed.
Print Assumptions C12_loop_iteration.

(* learning_starts is counted in timesteps across sub-environments, not in calls *)
Theorem C12_learning_starts_in_timesteps : forall ls gs k R, 0 < R -> 0 < k ->
  (train_event (OffPolicy ls gs) (k * R) R <> [] <-> ls < k * R /\ 0 < grad_steps gs R).
Proof. exact learning_starts_in_timesteps. Qed.
Print Assumptions C12_learning_starts_in_timesteps.

(* DQN's exploration schedule (regenerated get_linear_fn.func): within [final, initial] and never increasing as training progresses *)
Theorem C12_exploration_schedule : forall p p' s e f, (0 < f)%Q -> (0 <= p' <= p)%Q -> (p <= 1)%Q -> (e <= s)%Q ->
  (e <= linear_fn p s e f <= s)%Q /\ (linear_fn p' s e f <= linear_fn p s e f)%Q.
Proof. exact (fun p p' s e f Hf Hp Hp1 He => conj (linear_fn_range p s e f Hf (conj (Qle_trans _ _ _ (proj1 Hp) (proj2 Hp)) Hp1) He) (linear_fn_monotone p p' s e f Hf Hp Hp1 He)). Qed.
Print Assumptions C12_exploration_schedule.

(* ---- non-vacuity: total 20, rollouts of 8 timesteps (the input that gave progress -0.2 before the repair) ---- *)
Example C12_ex_on_policy :
  loop OnPolicy 1 20 (fun _ => false) (repeat 8%nat 5) 0 = ([(8, 0); (16, 0); (24, 0)], 24, false) /\
  (progress_remaining 8 20 == 3 # 5)%Q /\ (progress_remaining 16 20 == 1 # 5)%Q /\ (progress_remaining 24 20 == 0)%Q.
Proof. split; [reflexivity|]. repeat split; reflexivity. Qed.

Example C12_ex_off_policy :
  loop (OffPolicy 5 (-1)) 2 15 (fun n => n =? 14) (repeat 2%nat 9) 0 = ([(8, 4); (12, 4)], 14, true).
Proof. reflexivity. Qed.

Example C12_ex_minibatches : length (minibatches 4 (seq 0 10)) = 3%nat /\ on_train_steps 2 10 4 = 6 /\ ppo_truncated_warning 10 4 = true.
Proof. repeat split; reflexivity. Qed.

Example C12_ex_ppo_train :
  ppo_train 3 4 (fun _ _ => false) = (12%nat, 3%nat) /\ ppo_train 3 4 (fun e j => (e =? 1)%nat && (j =? 2)%nat) = (6%nat, 2%nat).
Proof. split; reflexivity. Qed.
Example C12_ex_linear_and_mid_rollout_stop :
  (linear_fn (19 # 20) 1 (1 # 20) (1 # 10) == 21 # 40)%Q /\
  loop OnPolicy 2 40 (fun n => n =? 14) (repeat 4%nat 9) 0 = ([(8, 0)], 14, true).
Proof. split; reflexivity. Qed.
