(* C08 - target networks change only by the Polyak rule, at the configured cadence.
   Only statements: every proof is [exact <lemma>], followed by Print Assumptions.
   Not a theorem (runtime monitor in harness/c08.py, labelled partial): "no optimizer ever
   touches a target parameter" - parameter identity is outside the model. *)
From Coq Require Import ZArith List Bool QArith.
From SB3V Require Import Gen.Frag_polyak Model.Polyak Model.Cadence Proofs.PolyakProofs Proofs.CadenceProofs.
From SB3V Require Import Model.LearnLoop Model.LearnCadence Proofs.LearnCadenceProofs.
Import ListNotations.

(* ---- the averaging rule, for all parameters and all tau ---- *)
Theorem C08_polyak_law : forall tau p t : Q,
  (let t1 := (t * polyak_scale tau)%Q in
   (polyak tau p t == polyak_add_a t1 p tau + polyak_alpha t1 p tau * polyak_add_b t1 p tau)%Q /\
   polyak_out t1 p tau = t1 /\
   (polyak_scale_op, polyak_add_op, polyak_zip, polyak_zip_first, polyak_zip_second) = (1, 1, 1, 1, 2)%Z) /\
  (polyak tau p t == (1 - tau) * t + tau * p)%Q.
Proof. exact (fun tau p t => conj (frag_polyak tau p t) (polyak_law tau p t)). Qed.
Print Assumptions C08_polyak_law.

Theorem C08_polyak_tau1_copy_tau0_id : forall p t : Q, (polyak 1 p t == p)%Q /\ (polyak 0 p t == t)%Q.
Proof. exact (fun p t => conj (polyak_tau1_copy p t) (polyak_tau0_id p t)). Qed.
Print Assumptions C08_polyak_tau1_copy_tau0_id.

Theorem C08_polyak_between : forall tau p t : Q, (0 <= tau <= 1)%Q ->
  ((p <= t)%Q -> (p <= polyak tau p t <= t)%Q) /\ ((t <= p)%Q -> (t <= polyak tau p t <= p)%Q).
Proof. exact polyak_between. Qed.
Print Assumptions C08_polyak_between.

(* every target parameter gets the polyak value of ITS online parameter; strict zip *)
Theorem C08_polyak_list_elementwise : forall tau ps ts r i p t,
  polyak_list tau ps ts = Some r -> nth_error ps i = Some p -> nth_error ts i = Some t ->
  exists x, nth_error r i = Some x /\ (x == polyak tau p t)%Q.
Proof. exact polyak_list_nth. Qed.
Print Assumptions C08_polyak_list_elementwise.

Theorem C08_polyak_list_strict : forall tau ps ts,
  (length ps <> length ts -> polyak_list tau ps ts = None) /\
  (length ps = length ts -> exists r, polyak_list tau ps ts = Some r /\ length r = length ts).
Proof.
  exact (fun tau ps ts => conj (polyak_list_mismatch tau ps ts)
    (fun H => match polyak_list_total tau ps ts H with
              | ex_intro _ r Hr => ex_intro _ r (conj Hr (proj2 (polyak_list_length tau ps ts r Hr))) end)).
Qed.
Print Assumptions C08_polyak_list_strict.

(* in a run made of optimizer steps and target updates: optimizer steps never change the target,
   an update never changes the online parameters and writes the polyak value *)
Theorem C08_targets_change_only_at_updates : forall es s,
  forallb is_opt es = true -> snd (pair_run s es) = snd s.
Proof. exact targets_change_only_at_updates. Qed.
Print Assumptions C08_targets_change_only_at_updates.

(* on a length mismatch (Python raises) the event model writes nothing: both lists stay as they are *)
Theorem C08_pair_update_mismatch_keeps : forall s tau, length (fst s) <> length (snd s) -> pair_step s (Update tau) = s.
Proof. exact pair_update_mismatch. Qed.
Print Assumptions C08_pair_update_mismatch_keeps.

Theorem C08_update_online_untouched : forall s tau i p t,
  fst (pair_step s (Update tau)) = fst s /\
  (length (fst s) = length (snd s) -> nth_error (fst s) i = Some p -> nth_error (snd s) i = Some t ->
   exists x, nth_error (snd (pair_step s (Update tau))) i = Some x /\ (x == polyak tau p t)%Q).
Proof. exact (fun s tau i p t => conj (update_keeps_online s tau) (update_writes_polyak s tau i p t)). Qed.
Print Assumptions C08_update_online_untouched.

(* ---- what happens AT an update instant and between two of them (unit = one vectorised env step for DQN, one gradient
        step otherwise; its flag is the cadence condition of the theorems below) ----
   flag set: every target parameter becomes polyak(configured tau) of its online parameter and every target running
   statistic becomes a COPY of the online one (the regenerated coefficient of the second polyak_update call is 1.0),
   for DQN, SAC and both TD3/DDPG pairs; flag not set: the targets are not written *)
Theorem C08_update_instant : forall tau s np ns i,
  let steps := [unit_step (dqn_pu0_tau tau) (dqn_pu1_tau tau); unit_step (sac_pu0_tau tau) (sac_pu1_tau tau);
                unit_step (td3_pu0_tau tau) (td3_pu2_tau tau); unit_step (td3_pu1_tau tau) (td3_pu3_tau tau)] in
  Forall (fun step =>
    (tg_params (step s (np, ns, false)) = tg_params s /\ tg_stats (step s (np, ns, false)) = tg_stats s) /\
    on_params (step s (np, ns, true)) = np /\ on_stats (step s (np, ns, true)) = ns /\
    (forall p t, length np = length (tg_params s) -> nth_error np i = Some p -> nth_error (tg_params s) i = Some t ->
       exists x, nth_error (tg_params (step s (np, ns, true))) i = Some x /\ (x == polyak tau p t)%Q) /\
    (forall p t, length ns = length (tg_stats s) -> nth_error ns i = Some p -> nth_error (tg_stats s) i = Some t ->
       exists x, nth_error (tg_stats (step s (np, ns, true))) i = Some x /\ (x == p)%Q)) steps.
Proof.
  exact (fun tau s np ns i =>
    let one := fun (pt st : Q) (Hs : (st == 1)%Q) =>
      match unit_update pt st s np ns i with
      | conj A (conj B (conj C D)) => conj (unit_no_update pt st s np ns) (conj A (conj B (conj C (fun p t => D p t Hs))))
      end in
    Forall_cons _ (one tau 1%Q (Qeq_refl 1)) (Forall_cons _ (one tau 1%Q (Qeq_refl 1))
      (Forall_cons _ (one tau 1%Q (Qeq_refl 1)) (Forall_cons _ (one tau 1%Q (Qeq_refl 1)) (Forall_nil _))))).
Qed.
Print Assumptions C08_update_instant.

(* which lists every polyak_update call pairs (ids 1/2 q_net, 3/4 batch_norm_stats, 5/6 critic, 7/8 actor, 9/10 critic stats,
   11/12 actor stats: source = online, target = its target) and with which coefficient *)
Theorem C08_polyak_calls : forall tau : Q,
  (dqn_pu0_src, dqn_pu0_dst, dqn_pu1_src, dqn_pu1_dst) = (1, 2, 3, 4)%Z /\ dqn_pu0_tau tau = tau /\ (dqn_pu1_tau tau == 1)%Q /\
  (sac_pu0_src, sac_pu0_dst, sac_pu1_src, sac_pu1_dst) = (5, 6, 3, 4)%Z /\ sac_pu0_tau tau = tau /\ (sac_pu1_tau tau == 1)%Q /\
  (td3_pu0_src, td3_pu0_dst, td3_pu1_src, td3_pu1_dst, td3_pu2_src, td3_pu2_dst, td3_pu3_src, td3_pu3_dst) = (5, 6, 7, 8, 9, 10, 11, 12)%Z /\
  td3_pu0_tau tau = tau /\ td3_pu1_tau tau = tau /\ (td3_pu2_tau tau == 1)%Q /\ (td3_pu3_tau tau == 1)%Q.
Proof. exact frag_polyak_calls. Qed.
Print Assumptions C08_polyak_calls.

(* a length mismatch between online and target lists is an error (None), as zip_strict raises; otherwise the update is target_update *)
Theorem C08_target_update_strict : forall ptau stau s,
  (length (on_params s) = length (tg_params s) /\ length (on_stats s) = length (tg_stats s) ->
   target_update_strict ptau stau s = Some (target_update ptau stau s)) /\
  (length (on_params s) <> length (tg_params s) \/ length (on_stats s) <> length (tg_stats s) -> target_update_strict ptau stau s = None).
Proof. exact target_update_strict_spec. Qed.
Print Assumptions C08_target_update_strict.

(* the ACTUAL cadence counters drive the units (flags = dqn_steps m c; DQN: m = period, c = _n_calls, units = vectorised env steps;
   TD3/DDPG: m = policy_delay, c = _n_updates, units = all gradient steps; SAC: m = interval, c = -1, units = one train() call):
   over a stretch u2 that contains no update instant the targets and their running statistics are not written *)
Theorem C08_cadence_no_write_between_updates : forall ptau stau s m c u1 u2,
  (forall t, (t < length u2)%nat -> (c + Z.of_nat (length u1) + Z.of_nat t + 1) mod m <> 0)%Z ->
  let run us := units_run ptau stau s (with_flags us (dqn_steps m c (length us))) in
  tg_params (run (u1 ++ u2)) = tg_params (run u1) /\ tg_stats (run (u1 ++ u2)) = tg_stats (run u1).
Proof. exact cadence_no_write_between_updates. Qed.
Print Assumptions C08_cadence_no_write_between_updates.

Theorem C08_cadence_flags_td3_sac : forall delay c gs tui g,
  td3_calls delay c gs = dqn_steps delay c (fold_right Nat.add 0%nat gs) /\ sac_train tui g = dqn_steps tui (-1) g.
Proof. exact cadence_flags_td3_sac. Qed.
Print Assumptions C08_cadence_flags_td3_sac.

Theorem C08_no_write_between_updates : forall ptau stau us s, forallb (fun u => negb (snd u)) us = true ->
  tg_params (units_run ptau stau s us) = tg_params s /\ tg_stats (units_run ptau stau s us) = tg_stats s.
Proof. exact units_no_update. Qed.
Print Assumptions C08_no_write_between_updates.

Local Open Scope Z_scope.

(* ---- cadence: DQN ---- *)
Theorem C08_dqn_update_times : forall tui n k,
  (forall i, (i < k)%nat -> nth i (dqn_steps (dqn_period tui n) 0 k) false = ((Z.of_nat i + 1) mod dqn_period tui n =? 0)) /\
  count_true (dqn_steps (dqn_period tui n) 0 k) = Z.of_nat k / dqn_period tui n.
Proof. exact dqn_update_times. Qed.
Print Assumptions C08_dqn_update_times.

Theorem C08_dqn_period_in_env_steps : forall tui n, 0 < n -> 0 < tui ->
  (tui mod n = 0 -> dqn_period tui n * n = tui) /\
  (let g := dqn_period tui n * n in (n <= tui -> g <= tui < g + n) /\ (tui < n -> g = n)).
Proof. exact (fun tui n Hn Ht => conj (dqn_period_env_steps tui n Hn Ht) (dqn_period_env_steps_general tui n Hn Ht)). Qed.
Print Assumptions C08_dqn_period_in_env_steps.

(* the rounded spacing lies in the admissible window for all n_envs, interval: gap in (tui - n_envs, tui] when n_envs <= tui, = n_envs otherwise *)
Theorem C08_dqn_spacing_window : forall tui n, 0 < n -> 0 < tui ->
  let g := dqn_period tui n * n in
  (n <= tui -> tui - n < g <= tui) /\ (tui <= n -> g = n).
Proof. exact dqn_spacing_window. Qed.
Print Assumptions C08_dqn_spacing_window.

(* ---- cadence: TD3 / DDPG: global counter, independent of the grouping into train() calls ---- *)
Theorem C08_td3_update_times : forall delay gs, 0 < delay ->
  let total := fold_right Nat.add 0%nat gs in
  (forall i, (i < total)%nat -> nth i (td3_calls delay 0 gs) false = ((Z.of_nat i + 1) mod delay =? 0)) /\
  count_true (td3_calls delay 0 gs) = Z.of_nat total / delay.
Proof. exact td3_update_times. Qed.
Print Assumptions C08_td3_update_times.

(* ---- cadence: SAC, inside one train() call ---- *)
Theorem C08_sac_update_times_per_call : forall tui g, 0 < tui ->
  (forall j, (j < g)%nat -> nth j (sac_train tui g) false = (Z.of_nat j mod tui =? 0)) /\
  count_true (sac_train tui g) = (Z.of_nat g - 1) / tui + 1.
Proof. exact sac_update_times_per_call. Qed.
Print Assumptions C08_sac_update_times_per_call.

(* ---- C08 x C12: target updates over a WHOLE learn() call (the learn-loop model of C12 driving the counters) ----
   an off-policy learn() with train_freq = f vectorised steps, n_envs, learning_starts ls, gradient_steps gs (-1 included),
   no callback stop, from num_timesteps = num >= 0; R = f * n_envs timesteps per rollout;
   NR = n_rollouts R total num = ceil((total - num) / R) rollouts; g = gs if gs >= 0 else R gradient steps per train();
   T = n_trains R ls num NR = NR - min(NR, max(0, floor((ls - num) / R))) train() calls (0 if g = 0) *)
Theorem C08_learn_call_shape : forall n_envs total ls gs num (f K : nat) stop,
  (forall n, stop n = false) -> 0 < Z.of_nat f * n_envs -> 0 <= num -> total - num <= Z.of_nat K * (Z.of_nat f * n_envs) ->
  let R := Z.of_nat f * n_envs in
  let r := loop (OffPolicy ls gs) n_envs total stop (repeat f K) num in
  let g := grad_steps gs R in
  let NR := n_rollouts R total num in
  let T := if 0 <? g then n_trains R ls num NR else 0%nat in
  train_sizes (fst (fst r)) = repeat (Z.to_nat g) T /\ snd (fst r) = num + Z.of_nat NR * R.
Proof. exact whole_call_sizes. Qed.
Print Assumptions C08_learn_call_shape.

(* DQN: floor((n_calls + NR*f) / period) - floor(n_calls / period) updates, period = max(tui // n_envs, 1): one per period
   vectorised steps, independent of learning_starts / gradient_steps *)
Theorem C08_learn_call_dqn : forall n_envs total ls gs num (f K : nat) stop,
  (forall n, stop n = false) -> 0 < Z.of_nat f * n_envs -> 0 <= num -> total - num <= Z.of_nat K * (Z.of_nat f * n_envs) ->
  forall tui n_calls, 0 < n_envs ->
  let R := Z.of_nat f * n_envs in
  let r := loop (OffPolicy ls gs) n_envs total stop (repeat f K) num in
  count_true (learn_flags_dqn tui n_envs n_calls num (snd (fst r))) = dqn_updates tui n_envs (Z.of_nat f) n_calls (n_rollouts R total num).
Proof. exact whole_call_dqn. Qed.
Print Assumptions C08_learn_call_dqn.

(* TD3 / DDPG: floor((n_updates + T*g) / policy_delay) - floor(n_updates / policy_delay) *)
Theorem C08_learn_call_td3 : forall n_envs total ls gs num (f K : nat) stop,
  (forall n, stop n = false) -> 0 < Z.of_nat f * n_envs -> 0 <= num -> total - num <= Z.of_nat K * (Z.of_nat f * n_envs) ->
  forall delay n_updates, 0 < delay ->
  let R := Z.of_nat f * n_envs in
  let r := loop (OffPolicy ls gs) n_envs total stop (repeat f K) num in
  let g := grad_steps gs R in
  let T := if 0 <? g then n_trains R ls num (n_rollouts R total num) else 0%nat in
  0 <= g -> count_true (learn_flags_td3 delay n_updates (fst (fst r))) = td3_updates delay n_updates g T.
Proof. exact whole_call_td3. Qed.
Print Assumptions C08_learn_call_td3.

(* SAC: T * ceil(g / target_update_interval): every train() call restarts the interval (finding F9, exactly) *)
Theorem C08_learn_call_sac : forall n_envs total ls gs num (f K : nat) stop,
  (forall n, stop n = false) -> 0 < Z.of_nat f * n_envs -> 0 <= num -> total - num <= Z.of_nat K * (Z.of_nat f * n_envs) ->
  forall tui, 0 < tui ->
  let R := Z.of_nat f * n_envs in
  let r := loop (OffPolicy ls gs) n_envs total stop (repeat f K) num in
  let g := grad_steps gs R in
  let T := if 0 <? g then n_trains R ls num (n_rollouts R total num) else 0%nat in
  0 <= g -> count_true (learn_flags_sac tui (fst (fst r))) = sac_updates tui g T.
Proof. exact whole_call_sac. Qed.
Print Assumptions C08_learn_call_sac.

(* ---- ties of the three counters to the regenerated conditions ---- *)
Theorem C08_frag_cadence : forall c tui n delay g,
  dqn_update_cond (dqn_count c) tui n = ((c + 1) mod dqn_period tui n =? 0) /\
  td3_update_cond (td3_count c) delay = ((c + 1) mod delay =? 0) /\
  sac_update_cond g tui = (g mod tui =? 0).
Proof. exact (fun c tui n delay g => conj (frag_dqn c tui n) (conj (frag_td3 c delay) (frag_sac g tui))). Qed.
Print Assumptions C08_frag_cadence.

(* ---- non-vacuity ---- *)
Example C08_ex_dqn : dqn_period 10 4 = 2 /\ dqn_steps (dqn_period 10 4) 0 5 = [false; true; false; true; false].
Proof. split; reflexivity. Qed.
Example C08_ex_td3 : td3_calls 2 0 [1; 3; 1]%nat = [false; true; false; true; false].
Proof. reflexivity. Qed.
Example C08_ex_sac : sac_calls 2 [3; 1]%nat = [true; false; true; true].
Proof. reflexivity. Qed.
Example C08_ex_polyak : polyak_list (1 # 4) [8; 0]%Q [0; 4]%Q = Some [2; 3]%Q.
Proof. reflexivity. Qed.

(* total 20, train_freq 3 x 2 envs (R = 6), learning_starts 7, gradient_steps -1: 4 rollouts to 24, train at 12, 18, 24 with 6 steps *)
Example C08_ex_learn_call :
  n_rollouts 6 20 0 = 4%nat /\ n_trains 6 7 0 4 = 3%nat /\
  fst (fst (loop (OffPolicy 7 (-1)) 2 20 (fun _ => false) (repeat 3%nat 6) 0)) = [(12, 6); (18, 6); (24, 6)] /\
  sac_updates 4 6 3 = 6 /\ td3_updates 2 0 6 3 = 9 /\ dqn_updates 5 2 3 0 4 = 6.
Proof. repeat split; reflexivity. Qed.

(* "every k gradient steps" over the whole run, as the refutation of F9 reads it: steps 0, k, 2k, ... *)
Example C08_ex_every_k_global : every_k_global 4 6 = [true; false; false; false; true; false] /\ every_k_global 1 3 = [true; true; true].
Proof. split; reflexivity. Qed.

Example C08_ex_pair_mismatch : pair_step ([1; 2]%Q, [5]%Q) (Update (1 # 2)) = ([1; 2]%Q, [5]%Q).
Proof. reflexivity. Qed.
