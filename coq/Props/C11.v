(* C11 - predict() returns a valid action of the right shape.
   Only statements: every proof is [exact <lemma>], followed by Print Assumptions.
   The bounds are proved over Q: float32 rounding of unscale_action is NOT modelled (that part is partial). *)
From Coq Require Import ZArith QArith Qminmax List Bool.
From SB3V Require Import Gen.Frag_shapes Model.Shapes Proofs.ShapesProofs.
Import ListNotations.
Local Open Scope Z_scope.

(* one observation in -> an action of the action space's shape, for every supported (non-Dict) space pair *)
(* [supported]: every space kind except a Box of rank 0, which passes the shape logic but makes the features extractor raise
   (finding box-rank0-observation-rejected; the model rejects it, see C11_rank0_box_rejected) *)
Theorem C11_predict_shape_single : forall sp ashape, supported sp = true -> predict_shape sp ashape (space_shape sp) = Some ashape.
Proof. exact predict_shape_single. Qed.
Print Assumptions C11_predict_shape_single.

(* a batch of n observations in (every n, n = 1 included) -> n actions *)
Theorem C11_predict_shape_batch : forall sp ashape n, supported sp = true -> predict_shape sp ashape (n :: space_shape sp) = Some (n :: ashape).
Proof. exact predict_shape_batch. Qed.
Print Assumptions C11_predict_shape_batch.

(* a leading batch dimension exactly when the input had one *)
Theorem C11_batch_dimension_iff : forall sp ashape o r, supported sp = true ->
  (o = space_shape sp \/ exists n, o = n :: space_shape sp) ->
  predict_shape sp ashape o = Some r ->
  (r = ashape <-> o = space_shape sp) /\ (forall n, o = n :: space_shape sp -> r = n :: ashape).
Proof. exact predict_batch_dim_iff. Qed.
Print Assumptions C11_batch_dimension_iff.

Theorem C11_vectorized_unambiguous : forall s o : shape, ~ (o = s /\ exists n, o = n :: s).
Proof. exact vectorized_unambiguous. Qed.
Print Assumptions C11_vectorized_unambiguous.

(* channel-last images are accepted by a channel-first image space, transposed, single and batched *)
Theorem C11_image_channel_last_accepted : forall c h w ashape n,
  predict_shape (SBox [c; h; w] true) ashape [h; w; c] = Some ashape /\
  predict_shape (SBox [c; h; w] true) ashape [n; h; w; c] = Some (n :: ashape).
Proof. exact predict_shape_image_channel_last. Qed.
Print Assumptions C11_image_channel_last_accepted.

(* Dict observations: all keys single -> action shape; all keys batched with the same n -> (n, *action shape) *)
Theorem C11_dict_single : forall sps ashape, sps <> [] -> Forall key_ok sps ->
  predict_shape_dict sps ashape (map space_shape sps) = Some ashape.
Proof. exact predict_shape_dict_single. Qed.
Print Assumptions C11_dict_single.

Theorem C11_dict_batch : forall sps ashape n, sps <> [] -> Forall key_ok sps ->
  predict_shape_dict sps ashape (map (fun sp => n :: space_shape sp) sps) = Some (n :: ashape).
Proof. exact predict_shape_dict_batch. Qed.
Print Assumptions C11_dict_batch.

(* a rank-0 Box observation is rejected (the network's Flatten(start_dim=1) raises), single and batched *)
Theorem C11_rank0_box_rejected : forall img ashape n,
  predict_shape (SBox [] img) ashape [] = None /\ predict_shape (SBox [] img) ashape [n] = None.
Proof. exact (fun img ashape n => conj eq_refl eq_refl). Qed.
Print Assumptions C11_rank0_box_rejected.

(* malformed Dict observations: `vectorized_env = vectorized_env or ...` short-circuits, so acceptance depends on the key order *)
Theorem C11_dict_short_circuit_order_dependent :
  predict_shape_dict [SBox [2] false; SBox [2] false] [] [[3; 2]; [3; 1; 2]] = Some [3] /\
  predict_shape_dict [SBox [2] false; SBox [2] false] [] [[3; 1; 2]; [3; 2]] = None.
Proof. exact dict_short_circuit_example. Qed.
Print Assumptions C11_dict_short_circuit_order_dependent.

(* DQN's exploration branch obeys the same shape law as the greedy branch *)
Theorem C11_dqn_epsilon_same_shape_law : forall sp n, supported sp = true ->
  dqn_eps_shape sp (space_shape sp) = predict_shape sp [] (space_shape sp) /\
  dqn_eps_shape sp (n :: space_shape sp) = predict_shape sp [] (n :: space_shape sp).
Proof. exact dqn_eps_same_shape_law. Qed.
Print Assumptions C11_dqn_epsilon_same_shape_law.

(* Box actions: clipped / unsquashed values are inside the bounds (over Q: partial w.r.t. float32 rounding) *)
Theorem C11_clip_in_bounds_partial : forall a lo hi, (lo <= hi -> lo <= qclip a lo hi <= hi)%Q.
Proof. exact clip_in_bounds. Qed.
Print Assumptions C11_clip_in_bounds_partial.

Theorem C11_unscale_in_bounds_partial : forall lo hi x, (lo <= hi -> -1 <= x <= 1 -> lo <= unscale lo hi x <= hi)%Q.
Proof. exact unscale_in_bounds. Qed.
Print Assumptions C11_unscale_in_bounds_partial.

(* Discrete observations are encoded by value *)
Theorem C11_one_hot_by_value : forall n v j, (j < n)%nat -> nth j (onehot n v) 0 = if Nat.eqb j v then 1 else 0.
Proof. exact one_hot_by_value. Qed.
Print Assumptions C11_one_hot_by_value.

Theorem C11_one_hot_single_one : forall n v, (v < n)%nat ->
  nth v (onehot n v) 0 = 1 /\ forall j, (j < n)%nat -> j <> v -> nth j (onehot n v) 0 = 0.
Proof. exact one_hot_has_one. Qed.
Print Assumptions C11_one_hot_single_one.

Theorem C11_one_hot_injective : forall n v w, (v < n)%nat -> (w < n)%nat -> onehot n v = onehot n w -> v = w.
Proof. exact one_hot_injective. Qed.
Print Assumptions C11_one_hot_injective.

(* MultiDiscrete observations: per-dimension one-hot blocks concatenated in dimension order, each by value *)
Theorem C11_onehot_concat_head : forall n ns v vs j, (j < n)%nat ->
  nth j (onehot_concat (n :: ns) (v :: vs)) 0 = if Nat.eqb j v then 1 else 0.
Proof. exact onehot_concat_head. Qed.
Print Assumptions C11_onehot_concat_head.

Theorem C11_onehot_concat_tail : forall n ns v vs j,
  nth (n + j) (onehot_concat (n :: ns) (v :: vs)) 0 = nth j (onehot_concat ns vs) 0.
Proof. exact onehot_concat_tail. Qed.
Print Assumptions C11_onehot_concat_tail.

Theorem C11_onehot_concat_length : forall nvec vals, length nvec = length vals ->
  length (onehot_concat nvec vals) = fold_right Nat.add 0%nat nvec.
Proof. exact onehot_concat_length. Qed.
Print Assumptions C11_onehot_concat_length.

(* a Box coordinate returned by predict(): unscale of the squashed low-level output (SAC / TD3 / DDPG actors, gSDE with
   squash_output) or clip of the unsquashed one (PPO / A2C); inside the bounds in both cases (over Q: partial w.r.t. float32) *)
Theorem C11_predict_value_in_bounds_partial : forall squash lo hi x,
  (lo <= hi -> (squash = true -> -1 <= x <= 1) -> lo <= predict_value squash lo hi x <= hi)%Q.
Proof. exact predict_value_in_bounds. Qed.
Print Assumptions C11_predict_value_in_bounds_partial.

Theorem C11_fragment_predict_value : forall squash lo hi x,
  (predict_value squash lo hi x == if predict_squash_guard squash then predict_unscale lo hi x else predict_clip x lo hi)%Q.
Proof. exact frag_predict_value. Qed.
Print Assumptions C11_fragment_predict_value.

(* torch_layers.create_mlp (actor / critic / q networks): the layer list ends with Tanh exactly when squash_output is set, for EVERY
   net_arch - the empty one included -, output size, bias flag and pre / post module lists; Tanh occurs nowhere else; one Linear per
   hidden size plus the output layer *)
Theorem C11_mlp_last_is_tanh_iff_squash : forall i o arch sq b npre npost,
  last (mlp_layers i o arch sq b npre npost) LAct = LTanh <-> sq = true.
Proof. exact mlp_last_is_tanh_iff. Qed.
Print Assumptions C11_mlp_last_is_tanh_iff_squash.

Theorem C11_mlp_tanh_only_last : forall i o arch sq b npre npost,
  mlp_layers i o arch sq b npre npost = mlp_body i o arch b npre npost ++ (if sq then [LTanh] else []) /\
  Forall not_tanh (mlp_body i o arch b npre npost).
Proof. exact mlp_tanh_only_last. Qed.
Print Assumptions C11_mlp_tanh_only_last.

Theorem C11_mlp_linear_count : forall i o arch sq b npre npost,
  length (filter is_linear (mlp_layers i o arch sq b npre npost)) = (length arch + (if (0 <? o)%Z then 1 else 0))%nat.
Proof. exact mlp_linear_count. Qed.
Print Assumptions C11_mlp_linear_count.

Theorem C11_fragments_mlp : forall arch input_dim output_dim sq,
  mlp_first_guard arch = (0 <? Z.of_nat (length arch)) /\
  mlp_loop_count arch = Z.of_nat (length arch) - 1 /\
  mlp_output_guard output_dim = (0 <? output_dim) /\
  mlp_last_dim arch input_dim = (if 0 <? Z.of_nat (length arch) then last arch 0 else input_dim) /\
  mlp_squash_guard sq = sq.
Proof. exact frag_mlp_guards. Qed.
Print Assumptions C11_fragments_mlp.

(* ---- the model's predicates are the functions regenerated from utils.py / preprocessing.py / policies.py ---- *)
Theorem C11_fragments_is_vectorized : forall o s img k,
  vec_box o s = is_vectorized (SBox s img) o /\
  vec_discrete false o = is_vectorized SDiscrete o /\ vec_discrete true o = Some false /\
  vec_multidiscrete o k = is_vectorized (SMultiDiscrete k) o /\
  vec_multibinary o s = is_vectorized (SMultiBinary s) o.
Proof.
  exact (fun o s img k => conj (frag_vec_box o s img) (conj (frag_vec_discrete o) (conj (frag_vec_discrete_int o)
           (conj (frag_vec_multidiscrete o k) (frag_vec_multibinary o s))))).
Qed.
Print Assumptions C11_fragments_is_vectorized.

Theorem C11_fragments_transpose : forall o s t,
  (transpose_needed o s = negb (accepted o s) /\ transpose_accepted t s = accepted t s) /\
  ((transpose_rank3 o = true -> exists h w c, o = [h; w; c] /\ transpose_shape o = Some [c; h; w]) /\
   (forall t', transpose_shape o = Some t' -> length t' = length o /\ (length o = 3 \/ length o = 4)%nat)).
Proof. exact (fun o s t => conj (frag_transpose o s t) (transpose_shape_rank o)). Qed.
Print Assumptions C11_fragments_transpose.

Theorem C11_fragments_predict : forall v sq a lo hi,
  (predict_squeeze_guard v = negb v /\ predict_squash_guard sq = sq) /\
  ((predict_clip a lo hi == qclip a lo hi)%Q /\ (predict_unscale lo hi a == unscale lo hi a)%Q).
Proof. exact (fun v sq a lo hi => conj (frag_predict_guards v sq) (frag_predict_values a lo hi)). Qed.
Print Assumptions C11_fragments_predict.

(* a vectorized observation always has a leading dimension, and it is the batch dimension of the tensor given to the network
   (so the `hd` default in Model.Shapes.obs_to_tensor is never used) *)
Theorem C11_vectorized_batch_is_leading_dim : forall sp o t,
  obs_to_tensor sp o = Some (true, t) ->
  exists n r, maybe_transpose sp o = Some (n :: r) /\ t = n :: space_shape sp.
Proof. exact obs_to_tensor_batch_is_leading_dim. Qed.
Print Assumptions C11_vectorized_batch_is_leading_dim.

(* Dict entries: reshape((-1, *space.shape)) yields a batch size exactly when the element count is a multiple of the positive
   per-observation element count, and then it is the quotient *)
Theorem C11_reshape_batch_spec : forall sp o b,
  reshape_batch sp o = Some b <-> 0 < prodZ (space_shape sp) /\ prodZ o = b * prodZ (space_shape sp).
Proof. exact reshape_batch_spec. Qed.
Print Assumptions C11_reshape_batch_spec.

(* create_mlp: the output layer (and its pre-linear modules) takes the last hidden width, or input_dim when net_arch is empty *)
Theorem C11_mlp_output_layer : forall i o arch b npre npost, 0 < o ->
  exists pre, mlp_body i o arch b npre npost = pre ++ repeat (LPre (last arch i)) npre ++ [LLinear (last arch i) o b].
Proof. exact mlp_output_layer. Qed.
Print Assumptions C11_mlp_output_layer.

(* ---- non-vacuity ---- *)
Example C11_ex :
  predict_shape (SBox [3; 36; 36] true) [2] [5; 36; 36; 3] = Some [5; 2] /\
  predict_shape (SMultiDiscrete 2) [] [1; 2] = Some [1] /\
  predict_shape (SMultiBinary [2; 3]) [4] [2; 3] = Some [4] /\
  predict_shape SDiscrete [2] [7] = Some [7; 2] /\
  predict_shape (SBox [4] false) [2] [3; 5] = None /\
  predict_shape_dict [SBox [1; 36; 36] true; SBox [2] false] [3] [[4; 36; 36; 1]; [4; 2]] = Some [4; 3] /\
  predict_shape_dict [SBox [2] false; SDiscrete] [3] [[4; 2]; [4]] = Some [4; 3] /\
  predict_shape_dict [SBox [2] false; SDiscrete] [3] [[4; 2]; []] = None /\
  onehot 4 2 = [0; 0; 1; 0].
Proof. vm_compute. repeat split; reflexivity. Qed.

Example C11_ex_mlp :
  show_mlp 5 2 [] true true 0 0 = [(2, 5, 2, true); (5, 0, 0, false)] /\
  show_mlp 5 2 [8; 4] false false 1 0 = [(1, 5, 0, false); (2, 5, 8, false); (4, 0, 0, false); (1, 8, 0, false); (2, 8, 4, false); (4, 0, 0, false);
                                          (1, 4, 0, false); (2, 4, 2, false)].
Proof. split; reflexivity. Qed.
