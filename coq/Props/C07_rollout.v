(* C07 x C05 (second statement file of C07) - the advantages and returns consumed by PPO.train / A2C.train
   are the GAE quantities of C05 at the minibatch's rollout cells.  Closed under the global context.
   Only statements: every proof is [exact <lemma>], followed by Print Assumptions. *)
From Coq Require Import QArith List.
From SB3V Require Model.Gae.
From SB3V Require Import Model.LossCommon Model.LossPPO Model.LossA2C Model.LossRollout Proofs.LossRolloutProofs.
Import ListNotations.
Local Open Scope Q_scope.

(* the policy-gradient term of the minibatch sample that is rollout cell (t, e) uses the GAE advantage
   of that cell: the discounted sum of TD errors of env e from step t on (definition proved in C05) *)
Theorem C07_minibatch_advantage_is_gae : forall g l cols cells,
  Forall2 (fun a te => a == Gae.adv_def g l (skipn (fst te) (nth (snd te) cols []))) (mb_advs g l cols cells) cells.
Proof. exact mb_advs_are_gae. Qed.
Print Assumptions C07_minibatch_advantage_is_gae.

(* optional normalisation is over the MINIBATCH; std is the (unbiased) standard deviation of the minibatch
   advantages (std^2 = adv_var_Q; the square root itself is an input checked by the harness) *)
Theorem C07_minibatch_normalisation : forall (norm : bool) std advs, std * std == adv_var_Q advs ->
  Forall2 (fun a' a => a' == (if norm then (a - qmean advs) / (std + (1 # 100000000)) else a)) (maybe_norm norm std advs) advs.
Proof. exact (fun norm std advs _ => maybe_norm_spec norm std advs). Qed.
Print Assumptions C07_minibatch_normalisation.

(* the value loss regresses on return = advantage + value of the same cell, which is C05's returns array *)
Theorem C07_minibatch_return_is_advantage_plus_value :
  (forall g l cols cells, Forall2 (fun r te => r == cell_adv g l cols te + cell_val cols te) (mb_rets g l cols cells) cells) /\
  (forall g l cols t e v, (t < length (nth e cols []))%nat ->
     nth_error (map Gae.s_v (nth e cols [])) t = Some v ->
     nth_error (Gae.returns_of (Gae.gae_code g l (nth e cols [])) (map Gae.s_v (nth e cols []))) t = Some (cell_adv g l cols (t, e) + v)).
Proof. exact (conj mb_rets_are_adv_plus_value cell_ret_is_C05_return). Qed.
Print Assumptions C07_minibatch_return_is_advantage_plus_value.

(* the executable minibatch twin used by the correspondence feeds the loss exactly these columns *)
Theorem C07_minibatch_twin :
  (forall c cv ec vc he norm std g l cols cells ratios vs ents,
     ppo_minibatch_Q c cv ec vc he norm std g l cols cells ratios vs ents =
     ppo_batch_Q c cv ec vc he (maybe_norm norm std (fst (mb_columns_exec g l cols cells))) ratios
       (fst (snd (mb_columns_exec g l cols cells))) (snd (snd (mb_columns_exec g l cols cells))) vs ents) /\
  (forall g l cols cells,
     Forall2 Qeq (fst (mb_columns_exec g l cols cells)) (mb_advs g l cols cells) /\
     Forall2 Qeq (fst (snd (mb_columns_exec g l cols cells))) (mb_rets g l cols cells) /\
     snd (snd (mb_columns_exec g l cols cells)) = mb_vals cols cells).
Proof. exact (conj ppo_minibatch_unfold mb_columns_exec_ok). Qed.
Print Assumptions C07_minibatch_twin.

Example C07_rollout_example :
  let s r v nv nnt := {| Gae.s_r := r; Gae.s_v := v; Gae.s_nv := nv; Gae.s_nnt := nnt |} in
  let cols := [[s 1 0 (1 # 2) 1; s 0 (1 # 2) 2 0]; [s 2 1 0 1]] in
  mb_columns_exec (1 # 2) 1 cols [(1, 0); (0, 1); (0, 0)]%nat = ([-(1 # 2); 1; 1], ([0; 2; 1], [1 # 2; 1; 0])).
Proof. vm_compute. reflexivity. Qed.

(* the A2C minibatch twin feeds a2c_batch_Q the same columns: GAE advantages (optionally normalised) and
   return = advantage + value of the rollout cells *)
Theorem C07_minibatch_twin_a2c : forall ec vc he norm std g l cols cells lps vs ents,
  a2c_minibatch_Q ec vc he norm std g l cols cells lps vs ents =
  a2c_batch_Q ec vc he (maybe_norm norm std (fst (mb_columns_exec g l cols cells))) lps
    (fst (snd (mb_columns_exec g l cols cells))) vs ents.
Proof. exact a2c_minibatch_unfold. Qed.
Print Assumptions C07_minibatch_twin_a2c.
