From SB3V Require Import Gen.Frag_offpolicy Model.OffPolicyCollect.
Theorem C04_stub : True. Proof. exact I. Qed.
Print Assumptions C04_stub.
