(* C04 - off-policy collection stores each real transition once, in order, with the true successor.
   Only statements: every proof is [exact <lemma>], followed by Print Assumptions. *)
From Coq Require Import ZArith QArith Qminmax List Bool.
From SB3V Require Import Model.Script Gen.Frag_offpolicy Model.OnPolicyCollect Proofs.OnPolicyCollectProofs
  Model.OffPolicyCollect Proofs.OffPolicyCollectProofs Model.Pipeline Proofs.PipelineProofs.
From SB3V Require Model.Replay Proofs.ReplayProofs.
From SB3V Require Refuted.C04_callback_stop.
From SB3V Require Refuted.C04_vecnorm.   (* the VecNormalize terminal-observation witness is rebuilt with every check *)
Import ListNotations.
Local Open Scope Z_scope.

(* For every script, action kind, oracle (unscaled actions, noise) and number of steps: the g-th replay-buffer add
   of an env column holds the observation the agent acted on (reset observation or what the previous step returned),
   as next observation the g-th step's own observation, the scaled / noised / clipped action, the raw reward,
   done and timeout as computed from the env's signals, and the env received the rescaled action. *)
Theorem C04_add_log : forall ak sc os st g o,
  nth_error os g = Some o ->
  nth_error (snd (off_collect ak sc st os)) g = Some (spec_trans ak sc st g o).
Proof. exact off_collect_trans. Qed.
Print Assumptions C04_add_log.

(* exactly once each: as many adds as env steps *)
Theorem C04_one_add_per_step : forall ak sc os st, length (snd (off_collect ak sc st os)) = length os.
Proof. exact off_collect_length. Qed.
Print Assumptions C04_one_add_per_step.

(* the successor stored is the step's own observation - the terminal observation when the episode ended, never
   the auto-reset observation - and the flags / reward are the environment's *)
Theorem C04_true_successor : forall sc c,
  stored_next (snd (vstep1 sc c)) = st_tag (snd (env_step sc c)).
Proof. exact stored_next_is_step_observation. Qed.
Print Assumptions C04_true_successor.

Theorem C04_flags_and_reward : forall sc c,
  let st := snd (env_step sc c) in
  let o := snd (vstep1 sc c) in
  vo_done o = (st_term st || st_trunc st)%bool /\ vo_tl o = (st_trunc st && negb (st_term st))%bool /\ vo_r4 o = st_r4 st.
Proof. exact stored_flags. Qed.
Print Assumptions C04_flags_and_reward.

(* collect_rollouts / learn (train_freq in steps or episodes, total_timesteps, counter reset or continuation, env reset)
   only decide how many steps are taken: the adds of a learn() are the log of a prefix of the oracle, the rest is untouched,
   and num_timesteps advanced by n_envs per add *)
Theorem C04_learn_log : forall ak sc ne tf c os nt s l,
  off_learn ak sc ne tf c os nt = (s, l) ->
  let os0 := if oc_env_reset c then os_reset sc os else os in
  exists k, (k <= length (oc_orcs c))%nat /\
    l = snd (off_collect ak sc os0 (firstn k (oc_orcs c))) /\
    l_os s = fst (off_collect ak sc os0 (firstn k (oc_orcs c))) /\
    l_orcs s = skipn k (oc_orcs c) /\
    l_nt s = (if oc_reset c then 0 else nt) + Z.of_nat k * ne.
Proof. exact off_learn_log. Qed.
Print Assumptions C04_learn_log.

(* consecutive collections continue one another (state carried across rollouts and learn() calls) *)
Theorem C04_collect_app : forall ak sc a b st,
  off_collect ak sc st (a ++ b) =
  (fst (off_collect ak sc (fst (off_collect ak sc st a)) b),
   snd (off_collect ak sc st a) ++ snd (off_collect ak sc (fst (off_collect ak sc st a)) b)).
Proof. exact off_collect_app. Qed.
Print Assumptions C04_collect_app.

(* callback stop requests: as long as no callback returns False the stop-aware log is the plain log (all theorems above apply);
   a stopped step moves the environment but neither the log nor the algorithm's last observation - the consequence for a continued
   learn() is the finding stated in Refuted/C04_callback_stop.v *)
Theorem C04_no_stop_log_is_plain_log : forall ak sc os st,
  off_collect_s ak sc st (map (fun o => (o, false)) os) = off_collect ak sc st os.
Proof. exact off_collect_s_no_stop. Qed.
Print Assumptions C04_no_stop_log_is_plain_log.

Theorem C04_stopped_step : forall sc st,
  os_obs (off_step_stopped sc st) = os_obs st /\ os_cur (off_step_stopped sc st) = fst (vstep1 sc (os_cur st)).
Proof. exact off_step_stopped_spec. Qed.
Print Assumptions C04_stopped_step.

(* ---- scaling algebra (over Q; float32 rounding is not modelled) ---- *)
Theorem C04_unscale_scale : forall lo hi a, (~ hi == lo -> unscale lo hi (scale lo hi a) == a)%Q.
Proof. exact unscale_scale. Qed.
Print Assumptions C04_unscale_scale.

Theorem C04_scale_unscale : forall lo hi x, (~ hi == lo -> scale lo hi (unscale lo hi x) == x)%Q.
Proof. exact scale_unscale. Qed.
Print Assumptions C04_scale_unscale.

Theorem C04_unscale_in_bounds : forall lo hi x, (lo <= hi -> -1 <= x <= 1 -> lo <= unscale lo hi x <= hi)%Q.
Proof. exact unscale_in_bounds. Qed.
Print Assumptions C04_unscale_in_bounds.

Theorem C04_scale_in_unit : forall lo hi a, (lo < hi -> lo <= a <= hi -> -1 <= scale lo hi a <= 1)%Q.
Proof. exact scale_in_unit. Qed.
Print Assumptions C04_scale_in_unit.

Theorem C04_buffer_action_in_unit_noise : forall lo hi u nz, Forall2 Qlt lo hi ->
  Forall in_unit (buffer_action (ABox lo hi) (mkO u (Some nz))).
Proof. exact buffer_action_in_unit_noise. Qed.
Print Assumptions C04_buffer_action_in_unit_noise.

Theorem C04_buffer_action_in_unit_plain : forall lo hi u,
  Forall3 (fun a l h => (l < h /\ l <= a <= h)%Q) u lo hi ->
  Forall in_unit (buffer_action (ABox lo hi) (mkO u None)).
Proof. exact buffer_action_in_unit_plain. Qed.
Print Assumptions C04_buffer_action_in_unit_plain.

Theorem C04_env_action_in_bounds : forall ba lo hi,
  Forall2 Qle lo hi -> length ba = length lo -> Forall in_unit ba ->
  Forall3 (fun x l h => (l <= x <= h)%Q) (off_env_action (ABox lo hi) ba) lo hi.
Proof. exact off_env_action_in_bounds. Qed.
Print Assumptions C04_env_action_in_bounds.

Theorem C04_env_action_roundtrip : forall lo hi u,
  Forall3 (fun a l h => ~ (h == l)%Q) u lo hi ->
  Forall2 Qeq (off_env_action (ABox lo hi) (buffer_action (ABox lo hi) (mkO u None))) u.
Proof. exact off_env_action_roundtrip. Qed.
Print Assumptions C04_env_action_roundtrip.

(* ---- the model's formulas are the statements regenerated from the source ---- *)
Theorem C04_fragments_scaling : forall lo hi a s z,
  (off_scale lo hi a == scale lo hi a)%Q /\ (off_unscale lo hi a == unscale lo hi a)%Q /\
  (off_noise_clip s z == clip1 (s + z))%Q.
Proof. exact (fun lo hi a s z => conj (frag_scale lo hi a) (conj (frag_off_unscale lo hi a) (frag_noise_clip s z))). Qed.
Print Assumptions C04_fragments_scaling.

Theorem C04_fragment_terminal_guard : forall o,
  stored_next o = if off_use_terminal (vo_done o) (has_term o) then match vo_term o with Some t => t | None => vo_obs o end else vo_obs o.
Proof. exact frag_use_terminal. Qed.
Print Assumptions C04_fragment_terminal_guard.

(* warm-up phase (which sampler provides the oracle action): num_timesteps < learning_starts and not (use_sde and use_sde_at_warmup) *)
Theorem C04_fragment_warmup : forall nt ls sde sdew, off_warmup nt ls sde sdew = ((nt <? ls) && negb (sde && sdew))%bool.
Proof. exact frag_off_warmup. Qed.
Print Assumptions C04_fragment_warmup.

Theorem C04_fragments_loops : forall nt ne steps eps total f,
  off_count nt ne steps = (nt + ne, steps + 1) /\ off_episode_inc eps = eps + 1 /\
  off_learn_guard nt total = (nt <? total) /\
  off_more_step steps f = off_more (TfStep f) steps eps /\ off_more_episode eps f = off_more (TfEpis f) steps eps.
Proof. exact frag_off_counters. Qed.
Print Assumptions C04_fragments_loops.

(* gSDE noise resampling inside collect_rollouts: same cadence law as on-policy (multiples of sde_sample_freq, counted from the
   start of each collect_rollouts call), from the regenerated guard; the per-env noise reset is guarded by `action_noise is not None` *)
Theorem C04_sde_resampling_cadence : forall u f k x,
  (In x (sde_calls u f k) <-> (u = true /\ x = 0) \/ (0 <= x < Z.of_nat k /\ sde_resample u f x = true)) /\
  (sde_resample u f x = true <-> u = true /\ 0 < f /\ exists q, x = q * f).
Proof. exact (fun u f k x => conj (sde_calls_spec u f k x) (sde_resample_iff u f x)). Qed.
Print Assumptions C04_sde_resampling_cadence.

Theorem C04_fragment_sde_noise : forall u f j hn,
  off_sde_guard u f j = sde_resample u f j /\ off_sde_start_guard u = u /\ off_noise_reset_guard hn = hn.
Proof. exact frag_off_sde. Qed.
Print Assumptions C04_fragment_sde_noise.

(* ---- composition with C03: collect_rollouts followed by ReplayBuffer.add / sample ---- *)

(* after G vector steps of collection into a buffer of any capacity: whatever (draw, env) the sampler may pick, the sample is
   transition number k of that env's scripted run, k among the last `capacity` steps: the observation acted on, the stored
   (encoded) action, as next observation the k-th step's own observation (true successor), done = terminated-or-truncated
   masked by the time-limit flag when handle_timeout_termination, and the raw reward *)
Theorem C04_pipeline_sample_is_real_transition : forall aenc ak (envs : list envcol) (G : nat) dict bs ht b0 d e ec,
  Replay.create dict bs (Z.of_nat (length envs)) false ht = Some b0 ->
  Forall (fun ec => length (ec_orcs ec) = G) envs ->
  nth_error envs e = Some ec ->
  let b := pipeline_buffer aenc ak envs G b0 in
  fst (Replay.sample_bounds b) <= d < snd (Replay.sample_bounds b) ->
  exists k : nat,
    Z.of_nat G - Replay.capacity bs (Z.of_nat (length envs)) <= Z.of_nat k < Z.of_nat G /\
    let t := true_trans ak ec k in
    let s := snd (env_step (ec_sc ec) (env_after (ec_sc ec) (os_cur (ec_st ec)) k)) in
    Replay.get b (Replay.idx_of_draw b d) e =
      (OffPolicyCollect.t_obs t, aenc (OffPolicyCollect.t_act t), st_tag s,
       Z.b2z ((st_term s || st_trunc s) && negb (ht && (st_trunc s && negb (st_term s)))), st_r4 s) /\
    OffPolicyCollect.t_obs t = obs_at (ec_sc ec) (to_c (ec_st ec)) k.
Proof. exact offpolicy_pipeline. Qed.
Print Assumptions C04_pipeline_sample_is_real_transition.

(* the exhaustion flag of the learn() model: running out of fuel is flagged, and with a train frequency >= 1 the fuel supplied by
   off_learn is never the reason - a set flag means that the oracle list was used up, a clear flag that the target was reached *)
Theorem C04_out_of_fuel_is_flagged : forall ak sc ne tf total s,
  l_nt s < total -> off_learn_loop 0 ak sc ne tf total s = (mkL (l_os s) (l_nt s) (l_orcs s) true, []).
Proof. exact off_learn_loop_no_fuel. Qed.
Print Assumptions C04_out_of_fuel_is_flagged.

Theorem C04_flag_means_oracle_used_up : forall ak sc ne tf c os nt s l,
  off_more tf 0 0 = true ->
  off_learn ak sc ne tf c os nt = (s, l) ->
  (l_exh s = true -> l_orcs s = []) /\
  (l_exh s = false -> (if oc_reset c then oc_total c else oc_total c + nt) <= l_nt s).
Proof. exact off_learn_flag. Qed.
Print Assumptions C04_flag_means_oracle_used_up.

(* how many steps one collect_rollouts call takes: exactly train_freq steps (unit "step"); with unit "episode" it ends exactly when the
   train_freq-th episode of this call ends - every stored done counts once and the last stored transition is a done *)
Theorem C04_rollout_length : forall ak sc ne tf orcs steps eps os nt s l,
  off_rollout ak sc ne tf orcs steps eps os nt = (s, l) -> l_exh s = false ->
  match tf with
  | TfStep f => steps <= f -> steps + Z.of_nat (length l) = f
  | TfEpis f => eps <= f -> eps + Z.of_nat (length (filter t_done l)) = f /\ (l <> [] -> forall d, t_done (last l d) = true)
  end.
Proof. exact off_rollout_counts. Qed.
Print Assumptions C04_rollout_length.

(* ---- non-vacuity ---- *)
Definition ex4_sc : script :=
  [mk_episode 10 0 [mk_sstep 11 4 false false 0; mk_sstep 12 (-8) false true 0];
   mk_episode 20 0 [mk_sstep 21 8 true true 0];
   mk_episode 30 0 [mk_sstep 31 0 true false 0]].

Example C04_ex :
  let os0 := os_reset ex4_sc ostate0 in
  let r := off_learn (ABox [-2] [6])%Q ex4_sc 1 (TfEpis 1)
             (mkOC 3 true true [mkO [2%Q] None; mkO [6%Q] (Some [5%Q]); mkO [0%Q] None; mkO [1%Q] None; mkO [1%Q] None]) ostate0 0 in
  map (fun t => (t_obs t, t_next t, t_r4 t, t_done t, t_timeout t, map Qred (t_act t), map Qred (t_envact t))) (snd r) =
  [(10, 11, 4, false, false, [0%Q], [2%Q]); (11, 12, -8, true, true, [1%Q], [6%Q]); (20, 21, 8, true, false, [(-1 # 2)%Q], [0%Q])] /\
  length (l_orcs (fst r)) = 2%nat /\ l_nt (fst r) = 3 /\ l_exh (fst r) = false.
Proof. vm_compute. repeat split; reflexivity. Qed.

(* capacity 2, three collected steps: the two drawable slots hold transitions 2 and 1 of the scripted run - successor = the step's own
   observation (21, 12: terminal observations, not the reset observations 30 / 20), done masked for the purely truncated one *)
Example C04_ex_pipeline :
  let envs := [mkEC ex4_sc (os_reset ex4_sc ostate0) [mkO [2%Q] None; mkO [6%Q] None; mkO [0%Q] None]] in
  match Replay.create false 2 1 false true with
  | Some b0 => let b := pipeline_buffer (fun _ => 7) ADisc envs 3 b0 in
               (Replay.sample_bounds b, map (fun d => Replay.get b (Replay.idx_of_draw b d) 0) [0; 1])
  | None => ((0, 0), [])
  end = ((0, 2), [(20, 7, 21, 1, 8); (11, 7, 12, 0, -8)]).
Proof. vm_compute. reflexivity. Qed.
