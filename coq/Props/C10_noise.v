(* C10 (second statement file) - action noise (stable_baselines3/common/noise.py): the noise a run adds to
   its actions is a function of the configuration VALUES and the recorded normal draws, and using a
   noise object never changes the caller's configuration arrays.  Closed under the global context.
   Only statements: every proof is [exact <lemma>], followed by Print Assumptions. *)
From Coq Require Import QArith List ZArith.
From SB3V Require Import Gen.Frag_noise Model.Noise Proofs.NoiseProofs Proofs.NoiseFragProofs.
Import ListNotations.
Local Open Scope Q_scope.

(* closed form of the noise-free Ornstein-Uhlenbeck mean recurrence, for every t *)
Theorem C10_ou_mean_closed_form : forall theta dt m x t,
  ou_mean_iter theta dt m x t == m + qpow (1 - theta * dt) t * (x - m).
Proof. exact ou_mean_closed. Qed.
Print Assumptions C10_ou_mean_closed_form.

Theorem C10_normal_noise_is_ou_special_case : forall m s x n, ou_step1 1 1 1 m s x n == m + s * n.
Proof. exact normal_as_ou. Qed.
Print Assumptions C10_normal_noise_is_ou_special_case.

(* __call__: the new state and the returned value are two fresh arrays; the returned one is not the
   stored state object *)
Theorem C10_ou_call_returns_fresh_arrays : forall h o n,
  let r := ou_call h o n in
  o_prev (snd (fst r)) = length h /\ snd r = S (length h) /\ snd r <> o_prev (snd (fst r)) /\
  fst (fst r) = h ++ [ou_step (o_cfg o) (hget h (o_prev o)) n; ou_step (o_cfg o) (hget h (o_prev o)) n].
Proof. exact ou_call_fresh. Qed.
Print Assumptions C10_ou_call_returns_fresh_arrays.

(* determinism given the recorded draws, for every history of calls and resets: no existing array is
   written (the heap only grows), the state and the returned arrays hold the values of the pure process
   started from initial_noise's VALUE, every returned array is fresh *)
Theorem C10_ou_history_is_function_of_values_and_draws : forall ops h o, inv h o ->
  let r := ou_run h o ops in
  let h' := fst (fst r) in let o' := snd (fst r) in let rets := snd r in
  (exists ext, h' = h ++ ext) /\ inv h' o' /\ o_init o' = o_init o /\ o_cfg o' = o_cfg o /\
  hget h' (o_prev o') = fst (ou_pure (o_cfg o) (ou_init_value h o) (hget h (o_prev o)) ops) /\
  map (hget h') rets = snd (ou_pure (o_cfg o) (ou_init_value h o) (hget h (o_prev o)) ops) /\
  Forall (fun a => (length h <= a)%nat) rets.
Proof. exact ou_run_sim. Qed.
Print Assumptions C10_ou_history_is_function_of_values_and_draws.

(* the clause the first C10 seed broke: initial_noise is unchanged by any history, and a later run that
   resets and replays sees the original initial value *)
Theorem C10_ou_initial_noise_unchanged : forall ops h o a, inv h o -> o_init o = Some a ->
  hget (fst (fst (ou_run h o ops))) a = hget h a.
Proof. exact ou_initial_noise_unchanged. Qed.
Print Assumptions C10_ou_initial_noise_unchanged.

Theorem C10_ou_second_run_same : forall ops1 ops2 h o a, inv h o -> o_init o = Some a ->
  let r1 := ou_run h o ops1 in
  let r2 := ou_run (fst (fst r1)) (snd (fst r1)) (OReset :: ops2) in
  map (hget (fst (fst r2))) (snd r2) = snd (ou_pure (o_cfg o) (hget h a) (hget h a) ops2).
Proof. exact ou_second_run_same. Qed.
Print Assumptions C10_ou_second_run_same.

Example C10_ou_example :
  let c := {| c_theta := 1 # 2; c_dt := 1 # 4; c_sqdt := 1 # 2; c_mu := [0; 1]; c_sigma := [1; 2] |} in
  let h := [[1 # 2; -(1)]] in          (* the caller's initial_noise array at address 0 *)
  let ho := ou_new h c (Some 0%nat) in
  inv (fst ho) (snd ho) /\
  let r := ou_run (fst ho) (snd ho) [OCall [1; 1]; OCall [0; -(1)]; OReset; OCall [1; 1]] in
  hget (fst (fst r)) 0 = [1 # 2; -(1)] /\ map (hget (fst (fst r))) (snd r) = [[15 # 16; 1 # 4]; [105 # 128; -(21 # 32)]; [15 # 16; 1 # 4]].
Proof. cbn zeta. split; [split; cbn; auto with arith | split; vm_compute; reflexivity]. Qed.

(* VectorizedActionNoise: reset(indices) resets exactly the listed sub-noises; no cross-talk between
   the per-env copies; n_envs validation *)
Theorem C10_vec_reset_exactly_indices : forall x0 st ix i, (i < length st)%nat ->
  length (vreset x0 st ix) = length st /\
  nth i (vreset x0 st ix) [] = match ix with None => x0 | Some l => if existsb (Nat.eqb i) l then x0 else nth i st [] end.
Proof. exact vreset_spec. Qed.
Print Assumptions C10_vec_reset_exactly_indices.

Theorem C10_vec_no_cross_talk : forall c x0 i ops st, vwf (length st) ops -> (i < length st)%nat ->
  length (fst (vrun c x0 st ops)) = length st /\
  nth i (fst (vrun c x0 st ops)) [] = fst (ou_pure c x0 (nth i st []) (project i ops)) /\
  map (fun row => nth i row []) (snd (vrun c x0 st ops)) = snd (ou_pure c x0 (nth i st []) (project i ops)).
Proof. exact vrun_project. Qed.
Print Assumptions C10_vec_no_cross_talk.

Example C10_vec_hyp_ok :
  let c := {| c_theta := 1 # 2; c_dt := 1; c_sqdt := 1; c_mu := [0]; c_sigma := [1] |} in
  let ops := [VCall [[1]; [2]; [-(1)]]; VReset (Some [1; 1]%nat); VCall [[0]; [0]; [0]]] in
  vwf (length [[1]; [1]; [1]]) ops /\ (1 < length [[1]; [1]; [1]])%nat /\
  fst (vrun c [1] [[1]; [1]; [1]] ops) = [[3 # 4]; [1 # 2]; [-(1 # 4)]] /\ project 1 ops = [OCall [2]; OReset; OCall [0]].
Proof. split; [repeat constructor | split; [auto with arith | split; vm_compute; reflexivity]]. Qed.

Theorem C10_vec_make_validates_n_envs : forall n x0,
  ((0 < n)%Z -> exists st, vec_make n x0 = Some st /\ length st = Z.to_nat n /\ forall i, (i < Z.to_nat n)%nat -> nth i st [] = x0) /\
  ((n <= 0)%Z -> vec_make n x0 = None).
Proof. exact vec_make_spec. Qed.
Print Assumptions C10_vec_make_validates_n_envs.

(* regenerated fragments of noise.py *)
Theorem C10_noise_fragments :
  (forall x theta mu dt sigma sqdt n, noise_ou_update x theta mu dt sigma sqdt n == ou_step1 theta dt sqdt mu sigma x n) /\
  (forall theta dt sqdt mu sigma x n,
     Forall2 Qeq (ou_stepv theta dt sqdt mu sigma x n)
       (map (fun p => noise_ou_new_state (noise_ou_update (snd (fst p)) theta (fst (fst (fst p))) dt (snd (fst (fst p))) sqdt (snd p)))
            (combine (combine (combine mu sigma) x) n))) /\
  (forall (b : bool) i z, noise_ou_reset b i z == (if b then i else z)).
Proof. exact (conj frag_ou_update (conj frag_ou_stepv frag_ou_reset)). Qed.
Print Assumptions C10_noise_fragments.

(* the noise-free step moves towards the mean without overshooting when 0 <= theta*dt <= 1; the next
   state is affine in the draw *)
Theorem C10_ou_step_shape :
  (forall theta dt m x, 0 <= theta * dt -> theta * dt <= 1 ->
     (x <= m -> x <= ou_step1 theta dt 0 m 0 x 0 /\ ou_step1 theta dt 0 m 0 x 0 <= m) /\
     (m <= x -> m <= ou_step1 theta dt 0 m 0 x 0 /\ ou_step1 theta dt 0 m 0 x 0 <= x)) /\
  (forall theta dt sqdt m s x n d, ou_step1 theta dt sqdt m s x (n + d) == ou_step1 theta dt sqdt m s x n + s * sqdt * d).
Proof. exact (conj ou_mean_step_between ou_next_affine). Qed.
Print Assumptions C10_ou_step_shape.

(* NormalActionNoise: every entry is mu + sigma * N *)
Theorem C10_normal_noise_entries : forall mu sigma n,
  Forall2 Qeq (normal_call mu sigma n) (map (fun p => fst (fst p) + snd (fst p) * snd p) (combine (combine mu sigma) n)).
Proof. exact normal_call_spec. Qed.
Print Assumptions C10_normal_noise_entries.

(* reset() without initial_noise restores a vector of zeros of the action dimension *)
Theorem C10_ou_reset_zeros : forall v, zeros_like v = map (fun _ => 0) v /\ length (zeros_like v) = length v.
Proof. exact zeros_like_spec. Qed.
Print Assumptions C10_ou_reset_zeros.
