(* C16 - hindsight relabelling is sound.
   Only statements: every proof is [exact <lemma>], followed by Print Assumptions.
   b = the buffer after ANY list of add(row) / truncate_last_trajectory() / pickle round trips
   (any episode lengths per env, incl. episodes wrapping the ring and longer than it);
   k = its env column e; x_ep / x_ix / x_last are ghost fields: number of the episode a stored
   transition belongs to, its index in that episode, whether it ended it. *)
From Coq Require Import ZArith List Bool QArith Qround.
From SB3V Require Import Gen.Frag_her Model.Replay Model.Her Proofs.HerProofs Proofs.HerReplayProofs.
Import ListNotations.
Local Open Scope Z_scope.

(* every sampleable slot (ep_length > 0) lies in a recorded segment st..st+ln-1 (mod cap) whose slots
   all hold consecutive transitions of ONE episode that is finished (E < running episode number),
   none overwritten since (the ghost fields are those of the present content), the last slot holding
   the transition that ended the episode; the slot itself is at position cur_ix < ln of it *)
Theorem C16_her_inv : forall bs n hto ops e i,
  let b := her_run (her_create bs n hto) ops in let k := h_cols b e in let c := capacity bs n in
  0 <= i < c -> valid k i = true ->
  cur_ix c k i < ln k i /\ 0 <= cur_ix c k i /\ goal_slot c k i (cur_ix c k i) = i /\
  exists E base, E < eid k /\ 0 <= base /\
    forall j, 0 <= j < ln k i ->
      let q := goal_slot c k i j in
      0 <= q < c /\ valid k q = true /\ ln k q = ln k i /\ st k q = st k i /\
      x_ep (sl k q) = E /\ x_ix (sl k q) = base + j /\ (j = ln k i - 1 -> x_last (sl k q) = true).
Proof. exact her_inv. Qed.
Print Assumptions C16_her_inv.

(* whatever in-episode position kk the sampler draws from the range the code passes to randint,
   the goal slot holds a transition of the same finished episode; future: at or after the sampled
   transition; final: the one that ended the episode *)
Theorem C16_goal_same_episode : forall bs n hto ops e g i kk,
  let b := her_run (her_create bs n hto) ops in let k := h_cols b e in let c := capacity bs n in
  0 <= i < c -> valid k i = true ->
  fst (goal_range g c k i) <= kk < snd (goal_range g c k i) ->
  let q := goal_slot c k i kk in
  0 <= q < c /\ valid k q = true /\
  x_ep (sl k q) = x_ep (sl k i) /\ x_ep (sl k i) < eid k /\
  x_ix (sl k q) - x_ix (sl k i) = kk - cur_ix c k i /\
  (g = Future -> x_ix (sl k i) <= x_ix (sl k q)) /\
  (g = Final -> x_last (sl k q) = true).
Proof. exact goal_same_episode. Qed.
Print Assumptions C16_goal_same_episode.

Theorem C16_goal_range_nonempty : forall bs n hto ops e g i,
  let b := her_run (her_create bs n hto) ops in let k := h_cols b e in let c := capacity bs n in
  0 <= i < c -> valid k i = true -> fst (goal_range g c k i) < snd (goal_range g c k i) /\ 0 <= fst (goal_range g c k i).
Proof. exact goal_range_nonempty. Qed.
Print Assumptions C16_goal_range_nonempty.

(* a relabelled sample keeps observation, achieved goal, action, next observation, next achieved goal
   and done of the stored transition, replaces the desired goal identically in obs and next obs by the
   next achieved goal stored at the goal slot, and its reward is compute_reward(next achieved, new goal) *)
Theorem C16_relabel_shape : forall c ci k i kk,
  let '(o, a, d, act, no, na, nd, dn, r) := virtual_sample c ci k i kk in
  let '(o', a', d', act', no', na', nd', dn', r') := real_sample k i in
  let g := x_nach (sl k (goal_slot c k i kk)) in
  o = o' /\ a = a' /\ act = act' /\ no = no' /\ na = na' /\ dn = dn' /\
  d = g /\ nd = g /\ r = reward_tag (if ci then x_info (sl k i) else 0) na g.
Proof. exact relabel_shape. Qed.
Print Assumptions C16_relabel_shape.

(* share: floor of the regenerated (1 - 1/(n+1)) * batch_size is floor(n * B / (n + 1)), within [0, B] *)
Theorem C16_virtual_share : forall n B, 0 <= n ->
  Qfloor (her_virtual_product (her_ratio n) B) = nb_virtual n B.
Proof. exact virtual_share. Qed.
Print Assumptions C16_virtual_share.

Theorem C16_virtual_share_bounds : forall n B, 0 <= n -> 0 <= B -> 0 <= nb_virtual n B <= B.
Proof. exact virtual_share_bounds. Qed.
Print Assumptions C16_virtual_share_bounds.

(* ---- C16 x C03: HerReplayBuffer is a DictReplayBuffer: the ring law of C03 holds for what it stores.  A real (non-relabelled)
        sample of a sampleable slot i, env e, returns the tags of column e of ONE add k among the last `capacity` adds, k mod capacity = i
        (h = the rows added, in order; done / timeout may have been set by truncate_last_trajectory and are covered by C16's own statements) ---- *)
Theorem C16_real_sample_is_C03_sound : forall bs n hto ops e i,
  let b := her_run (her_create bs n hto) ops in let h := her_rows ops in let c := capacity bs n in
  0 <= i < c -> valid (h_cols b e) i = true ->
  exists k, 0 <= k /\ hlen h - c <= k < hlen h /\ i = k mod c /\
    real_tags (h_cols b e) i = in_tags (hrow h k e) /\
    (forall r, real_sample (h_cols b e) i = r ->
       let '(o, a, d, act, no, na, nd, dn, rw) := r in (o, a, d, act, no, na, nd, rw) = in_tags (hrow h k e)).
Proof. exact her_real_sample_sound. Qed.
Print Assumptions C16_real_sample_is_C03_sound.

(* the candidates of np.random.choice are exactly the sampleable (slot, env) cells; ANY B draws from them are split (regenerated: np.split at
   [nb_virtual], first part to _get_virtual_samples, rest to _get_real_samples, batch = cat(real, virtual)) into nb_virtual relabelled and
   B - nb_virtual real cells: every cell of both parts is sampleable, none is dropped or duplicated *)
Theorem C16_batch_from_valid_cells : forall b f n B draws, 0 <= h_nenv b ->
  (In f (valid_flat b) <->
   exists i e, f = i * h_nenv b + Z.of_nat e /\ 0 <= i < h_cap b /\ (Z.of_nat e < h_nenv b) /\ valid (h_cols b e) i = true) /\
  (0 <= n -> 0 <= B -> Z.of_nat (length draws) = B -> Forall (fun f => In f (valid_flat b)) draws ->
   let '(vi, re) := her_split n B draws in
   Z.of_nat (length vi) = nb_virtual n B /\ Z.of_nat (length re) = B - nb_virtual n B /\ vi ++ re = draws /\
   Forall (fun f => In f (valid_flat b)) vi /\ Forall (fun f => In f (valid_flat b)) re /\
   her_batch_cells n B draws = map (fun f => (false, f)) re ++ map (fun f => (true, f)) vi /\
   (her_split_what, her_split_at, her_split_env_what, her_split_env_at, her_real_uses, her_virtual_uses, her_batch_order, her_candidates) = (1, 1, 1, 1, 1, 1, 1, 1) /\
   her_candidates_size B = B).
Proof. exact (fun b f n B draws Hn => conj (valid_flat_spec b f Hn) (her_split_spec b n B draws)). Qed.
Print Assumptions C16_batch_from_valid_cells.

(* ---- ties to the code regenerated from her_replay_buffer.py on every run ---- *)
Theorem C16_frag_bookkeeping : forall c hto p k,
  (let l := ln k (her_inval_reads_length p) in
   let e := her_inval_end (st k (her_inval_reads_start p)) l in
   invalidate c p k =
     (if her_inval_guard l then set_range (ln k) (her_inval_from p e) (her_inval_to p e) c her_inval_value else ln k) /\
   her_inval_which = 1) /\
  close_episode c p k =
    (let '(s, e) := her_close_bounds (cur k) p c in
     mkC (st k) (set_range (ln k) (her_close_from s e) (her_close_to s e) c (her_close_length s e)) (her_close_new_start p) (eid k + 1) 0 (sl k)) /\
  col_truncate c hto p k =
    (if her_trunc_guard (cur k) p
     then close_episode c p (mkC (st k) (ln k) (cur k) (eid k) (cnt k)
            (fupd (sl k) (her_trunc_slot p mod c) (mark_end hto (sl k (her_trunc_slot p mod c)))))
     else k).
Proof. exact (fun c hto p k => conj (frag_invalidate c p k) (conj (frag_close c p k) (frag_truncate c hto p k))). Qed.
Print Assumptions C16_frag_bookkeeping.

(* set_range writes exactly the slots np.arange(a, b) % buffer_size *)
Theorem C16_frag_arange : forall a b c q, 0 < c -> 0 <= q < c ->
  (in_arange a b c q = true <-> exists t, a <= t < b /\ her_inval_slot t c = q /\ her_close_slot t c = q).
Proof. exact in_arange_spec. Qed.
Print Assumptions C16_frag_arange.

Theorem C16_frag_goal : forall g c k i kk,
  valid k i = her_is_valid (ln k i) /\
  cur_ix c k i = her_goal_current i (st k i) c /\
  goal_slot c k i kk = her_goal_slot kk (st k i) c /\
  goal_range g c k i =
    (let cur := her_goal_current i (st k i) c in
     match g with
     | Final => (her_goal_final (ln k i), her_goal_final (ln k i) + 1)
     | Future => (her_goal_future_lo cur (ln k i), her_goal_future_hi cur (ln k i))
     | Episode => (her_goal_episode_lo cur (ln k i), her_goal_episode_hi cur (ln k i))
     end) /\
  her_goal_future_draw kk = kk /\ her_goal_episode_draw kk = kk /\
  (her_goal_branch0, her_goal_branch1, her_goal_branch2) = (1, 2, 3).
Proof. exact (fun g c k i kk => conj (frag_valid k i) (frag_goal g c k i kk)). Qed.
Print Assumptions C16_frag_goal.

(* what the model's add / truncate / virtual_sample assume about the remaining statements, picked from the source (codes): ep_start[pos] =
   _current_ep_start; column e is closed iff done[e]; the timeout mark of truncate goes to slot pos - 1 iff handle_timeout_termination; the new
   goal is next_observations["achieved_goal"][goal slot, env], written to obs["desired_goal"] and next_obs["desired_goal"];
   compute_reward(next_obs["achieved_goal"], obs["desired_goal"], infos).  C16_relabel_shape above is the MODEL's definition of a relabelled
   sample; its tie to _get_virtual_samples is this theorem plus the exhaustive correspondence of harness/c16.py *)
Theorem C16_frag_relabel_and_writes : forall p ti ev (d hto : bool),
  her_ep_start_slot p = p /\ her_ep_start_value = 1 /\ her_close_guard d = d /\ her_close_guard_arg = 1 /\
  her_trunc_to_slot p = p - 1 /\ her_trunc_slot p = p - 1 /\ her_trunc_to_guard hto = hto /\
  (her_goal_source, her_goal_source_slot ti ev, her_goal_source_env ti ev) = (1, ti, ev) /\
  (her_relabel_obs_key, her_relabel_next_key, her_relabel_next_value) = (1, 1, 1) /\
  (her_reward_arg0, her_reward_arg1, her_reward_arg2, her_reward_arg3) = (1, 2, 3, 4).
Proof. exact frag_her_picks. Qed.
Print Assumptions C16_frag_relabel_and_writes.

(* truncate_last_trajectory marks the newest slot of a running episode: dones = 1 and (with timeout handling) timeouts = 1, so the truncated
   transition is returned with done = 0 under handle_timeout_termination and done = 1 - stored timeout flag otherwise; ghosts unchanged *)
Theorem C16_truncate_marks : forall c hto p k,
  (cur k <> p -> sl (col_truncate c hto p k) ((p - 1) mod c) = mark_end hto (sl k ((p - 1) mod c))) /\
  (forall s, x_done (mark_end hto s) = 1 /\ x_to (mark_end hto s) = (if hto then 1 else x_to s) /\
             done_mask (x_done (mark_end hto s)) (x_to (mark_end hto s)) = (if hto then 0 else 1 - x_to s) /\
             x_last (mark_end hto s) = true /\ x_ep (mark_end hto s) = x_ep s /\ x_ix (mark_end hto s) = x_ix s).
Proof. exact (fun c hto p k => conj (truncate_marks_newest_slot c hto p k) (mark_end_flags hto)). Qed.
Print Assumptions C16_truncate_marks.

(* the reward of the scripted GoalEnv pairs (info tag, next achieved goal, new goal) injectively on the tag ranges used: the reward comparison of the
   correspondence therefore distinguishes every wrong argument of compute_reward *)
Theorem C16_reward_tag_injective : forall i a d i' a' d',
  0 <= a < 512 -> 0 <= d < 512 -> 0 <= a' < 512 -> 0 <= d' < 512 ->
  reward_tag i a d = reward_tag i' a' d' -> i = i' /\ a = a' /\ d = d'.
Proof. exact reward_tag_injective. Qed.
Print Assumptions C16_reward_tag_injective.

(* ---- non-vacuity: capacity 5, one env; episodes of 3 and 4 steps (the second wraps the ring and
        overwrites the first), then 1 step of an unfinished third episode ---- *)
Definition ex_in (t : Z) (d : bool) : hin := mkIn t (100 + t) 7 (t + 1) (101 + t) 7 t t d false 0.
Definition ex_ops : list hop :=
  map (fun td => HAdd [ex_in (fst td) (snd td)])
      [(0, false); (1, false); (2, true); (3, false); (4, false); (5, false); (6, true); (7, false)].

Example C16_ex :
  let b := her_run (her_create 5 1 true) ex_ops in let k := h_cols b 0%nat in
  h_pos b = 3 /\ map (valid k) [0; 1; 2; 3; 4] = [true; true; false; true; true] /\
  (* slot 0 holds step 2 of episode 1 (positions 0..3 at slots 3,4,0,1); future goals: positions 2..3 *)
  st k 0 = 3 /\ ln k 0 = 4 /\ cur_ix 5 k 0 = 2 /\ goal_range Future 5 k 0 = (2, 4) /\
  goal_slot 5 k 0 3 = 1 /\ x_ep (sl k 1) = 1 /\ x_ix (sl k 1) = 3 /\ x_last (sl k 1) = true /\
  virtual_sample 5 false k 0 3 = (5, 105, 107, 5, 6, 106, 107, 0, reward_tag 0 106 107).
Proof. vm_compute. repeat split; reflexivity. Qed.

Example C16_ex_share : nb_virtual 4 7 = 5 /\ Qfloor (her_virtual_product (her_ratio 4) 7) = 5.
Proof. split; reflexivity. Qed.

(* a fresh buffer: np.zeros storage, nothing sampleable, ghost episode -1 = never written *)
Example C16_ex_fresh : real_sample col0 3 = (0, 0, 0, 0, 0, 0, 0, 0, 0) /\ sl col0 3 = mkS 0 0 0 0 0 0 0 0 0 0 0 (-1) 0 false /\ valid col0 3 = false.
Proof. repeat split; reflexivity. Qed.

Example C16_ex_reward_tag : reward_tag 3 5 7 = 788999 /\ reward_tag 0 1 0 = 512 /\ reward_tag 1 0 0 = 262144.
Proof. repeat split; reflexivity. Qed.
(* a row shorter than n_envs is padded with the all-zero, not-done default column input (rows always have n_envs entries in the campaign) *)
Example C16_ex_short_row :
  let b := her_add (her_create 4 2 true) [mkIn 1 2 3 4 5 6 7 8 false false 9] in
  real_sample (h_cols b 1%nat) 0 = (0, 0, 0, 0, 0, 0, 0, 0, 0) /\ cnt (h_cols b 1%nat) = 1 /\ cur (h_cols b 1%nat) = 0 /\ x_to (sl (h_cols b 1%nat) 0) = 0.
Proof. repeat split; reflexivity. Qed.
