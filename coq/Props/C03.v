(* C03 - replay buffers return only real, still-stored transitions with correct dones.
   Only statements: every proof is [exact <lemma>], followed by Print Assumptions.
   b0 = a freshly constructed buffer, ops = any list of add(row)/reset() calls,
   recent ops = the rows added since the last reset (ghost), k = number of an add in it. *)
From Coq Require Import ZArith List Bool.
From SB3V Require Import Gen.Frag_replay Model.Replay Proofs.ReplayProofs Model.Minibatch Model.Rollout Proofs.RolloutProofs.
Import ListNotations.
Local Open Scope Z_scope.

(* size() = min(adds since reset, capacity); the cursor stays inside the ring; capacity >= 1 *)
Theorem C03_size : forall dict bs n mo ht b0 ops, create dict bs n mo ht = Some b0 ->
  size (run b0 ops) = Z.min (len (recent ops)) (capacity bs n) /\
  0 <= pos (run b0 ops) < capacity bs n /\ 1 <= capacity bs n.
Proof. exact reach_size. Qed.
Print Assumptions C03_size.

(* array and Dict variants: whatever index sample() draws and whatever env column e, all five
   returned fields are those of column e of ONE add k, k among the last `capacity` adds, and
   done = ended /\ ~(handle_timeout /\ truncated) *)
Theorem C03_sample_sound : forall dict bs n ht b0 ops d e, create dict bs n false ht = Some b0 ->
  let b := run b0 ops in let h := recent ops in
  fst (sample_bounds b) <= d < snd (sample_bounds b) ->
  exists k, 0 <= k /\ len h - capacity bs n <= k < len h /\
    let t := col e (rowZ h k) in
    get b (idx_of_draw b d) e = (t_obs t, t_act t, t_next t, done_flag ht t, t_rew t).
Proof. exact reach_sample_sound. Qed.
Print Assumptions C03_sample_sound.

(* memory-optimised variant: obs, action, reward, done of one add k among the last capacity-1;
   next_obs = observations[(i+1) % cap] = the following add's obs, or the stored next_obs for the
   newest add; equal to the add's own next_obs when the column's observations chain and the
   transition did not end an episode (for an ENDING transition it is not: Refuted/C03_memopt_done_next) *)
Theorem C03_sample_sound_memopt : forall bs n b0 ops d e, create false bs n true false = Some b0 ->
  let b := run b0 ops in let h := recent ops in
  fst (sample_bounds b) <= d < snd (sample_bounds b) ->
  exists k, 0 <= k /\ len h - capacity bs n < k < len h /\
    let t := col e (rowZ h k) in
    get b (idx_of_draw b d) e = (t_obs t, t_act t, memopt_next h k e, Z.b2z (t_done t), t_rew t) /\
    (chained h e -> t_done t = false \/ len h <= k + 1 -> memopt_next h k e = t_next t).
Proof. exact reach_sample_sound_memopt. Qed.
Print Assumptions C03_sample_sound_memopt.

(* every still-stored valid transition can be drawn (the memory-optimised variant excludes
   exactly the oldest one, whose successor slot has been overwritten) *)
Theorem C03_sample_complete : forall dict bs n mo ht b0 ops k, create dict bs n mo ht = Some b0 ->
  let b := run b0 ops in let h := recent ops in
  0 <= k -> (if mo then len h - capacity bs n < k else len h - capacity bs n <= k) -> k < len h ->
  exists d, fst (sample_bounds b) <= d < snd (sample_bounds b) /\ idx_of_draw b d = k mod capacity bs n.
Proof. exact reach_sample_complete. Qed.
Print Assumptions C03_sample_complete.

(* the memory-optimised variant never returns the slot at the write cursor *)
Theorem C03_memopt_skips_overwritten : forall bs n b0 ops d, create false bs n true false = Some b0 ->
  let b := run b0 ops in
  full b = true -> fst (sample_bounds b) <= d < snd (sample_bounds b) -> idx_of_draw b d <> pos b.
Proof. exact reach_memopt_skips. Qed.
Print Assumptions C03_memopt_skips_overwritten.

(* adds of the window occupy distinct slots: the sampled slot determines the add *)
Theorem C03_window_slots_distinct : forall c n k k', 0 < c ->
  n - c <= k < n -> n - c <= k' < n -> k mod c = k' mod c -> k = k'.
Proof. exact window_slots_distinct. Qed.
Print Assumptions C03_window_slots_distinct.

(* refused configurations *)
Theorem C03_create_refuses : forall dict bs n mo ht,
  create dict bs n mo ht = None <-> (mo = true /\ (ht = true \/ dict = true)).
Proof. exact create_refuses. Qed.
Print Assumptions C03_create_refuses.

(* ---- ties to the code regenerated from buffers.py on every run ---- *)
Theorem C03_frag_cursor : forall p c f,
  rb_add_cursor p c f = add_cursor p c f /\ dictrb_add_cursor p c f = add_cursor p c f.
Proof. exact (fun p c f => conj (frag_add_cursor p c f) (frag_dict_add_cursor p c f)). Qed.
Print Assumptions C03_frag_cursor.

Theorem C03_frag_add : forall b r,
  (pos (add b r), full (add b r)) = rb_add_cursor (pos b) (cap b) (full b) /\
  a_obs (add b r) =
    (let o1 := upd (a_obs b) (pos b) (fun e => t_obs (col e r)) in
     if rb_add_memopt_branch (memopt b)
     then upd o1 (rb_memopt_write_index (pos b) (cap b)) (fun e => t_next (col e r)) else o1) /\
  a_to (add b r) =
    (if rb_add_timeout_branch (hto b) then upd (a_to b) (pos b) (fun e => Z.b2z (t_to (col e r))) else a_to b) /\
  a_to (add b r) =
    (if dictrb_add_timeout_branch (hto b) then upd (a_to b) (pos b) (fun e => Z.b2z (t_to (col e r))) else a_to b).
Proof. exact (fun b r => conj (frag_add_pos_full b r) (conj (frag_add_obs b r) (conj (frag_add_to b r) (frag_dict_add_to b r)))). Qed.
Print Assumptions C03_frag_add.

Theorem C03_frag_size_capacity : forall b bs n,
  rb_size (full b) (cap b) (pos b) = size b /\
  rb_capacity bs n = capacity bs n /\ dictrb_capacity bs n = capacity bs n.
Proof. exact (fun b bs n => conj (frag_size b) (conj (frag_capacity bs n) (frag_dict_capacity bs n))). Qed.
Print Assumptions C03_frag_size_capacity.

Theorem C03_frag_sample : forall b d,
  (let ub := rb_upper_bound (full b) (cap b) (pos b) in
   sample_bounds b =
   if rb_sample_not_memopt (memopt b)
   then (rb_base_lo (full b) (cap b) (pos b) (nenv b) ub, rb_base_hi (full b) (cap b) (pos b) (nenv b) ub)
   else if full b
        then (rb_memopt_full_lo (full b) (cap b) (pos b) (nenv b) ub, rb_memopt_full_hi (full b) (cap b) (pos b) (nenv b) ub)
        else (rb_memopt_notfull_lo (full b) (cap b) (pos b) (nenv b) ub, rb_memopt_notfull_hi (full b) (cap b) (pos b) (nenv b) ub)) /\
  idx_of_draw b d =
    (if rb_sample_not_memopt (memopt b) then rb_base_index d else rb_memopt_index (full b) d (pos b) (cap b)) /\
  (forall ub, env_bounds b = (rb_env_lo (full b) (cap b) (pos b) (nenv b) ub, rb_env_hi (full b) (cap b) (pos b) (nenv b) ub) /\
              env_bounds b = (dictrb_env_lo (full b) (cap b) (pos b) (nenv b) ub, dictrb_env_hi (full b) (cap b) (pos b) (nenv b) ub)).
Proof. exact (fun b d => conj (frag_sample_bounds b) (conj (frag_idx_of_draw b d) (frag_env_bounds b))). Qed.
Print Assumptions C03_frag_sample.

Theorem C03_frag_get : forall b i e,
  snd (fst (fst (get b i e))) =
    (if rb_memopt_next_branch (memopt b) then a_obs b (rb_memopt_next_index i (Z.of_nat e) (cap b)) e else a_next b i e) /\
  snd (fst (get b i e)) = rb_done_mask (a_done b i e) (a_to b i e) /\
  rb_done_mask (a_done b i e) (a_to b i e) = dictrb_done_mask (a_done b i e) (a_to b i e).
Proof.
  exact (fun b i e => conj (frag_get_next b i e) (conj (frag_get_done b i e)
           (eq_trans (proj1 (frag_done_mask _ _)) (eq_sym (proj2 (frag_done_mask _ _)))))).
Qed.
Print Assumptions C03_frag_get.

(* every array of _get_samples is gathered at the drawn (slot, env) pair; every field of add() is written at slot pos from
   the argument of the same name (codes 1 obs, 2 next_obs, 3 action, 4 reward, 5 done) *)
Theorem C03_frag_gather_and_writes : forall i ev p c,
  (Forall (fun f => f i ev c = i)
     [rb_gather_obs_slot; rb_gather_act_slot; rb_gather_done_slot; rb_gather_to_slot; rb_gather_rew_slot; rb_gather_next_slot;
      dictrb_gather_act_slot; dictrb_gather_done_slot; dictrb_gather_to_slot; dictrb_gather_rew_slot; dictrb_gather_obs_slot; dictrb_gather_next_slot] /\
   Forall (fun f => f i ev c = ev)
     [rb_gather_obs_env; rb_gather_act_env; rb_gather_done_env; rb_gather_to_env; rb_gather_rew_env; rb_gather_next_env; rb_memopt_next_env;
      dictrb_gather_act_env; dictrb_gather_done_env; dictrb_gather_to_env; dictrb_gather_rew_env; dictrb_gather_obs_env; dictrb_gather_next_env] /\
   rb_memopt_next_index i ev c = (i + 1) mod c /\ dictrb_gather_obs_source = 1 /\ dictrb_gather_next_source = 2) /\
  (Forall (fun f => f p c = p)
     [rb_add_obs_slot; rb_add_next_slot; rb_add_act_slot; rb_add_rew_slot; rb_add_done_slot; rb_add_to_slot;
      dictrb_add_obs_slot; dictrb_add_next_slot; dictrb_add_act_slot; dictrb_add_rew_slot; dictrb_add_done_slot; dictrb_add_to_slot] /\
   rb_memopt_write_index p c = (p + 1) mod c /\
   (rb_add_obs_src, rb_memopt_write_src, rb_add_next_src, rb_add_act_src, rb_add_rew_src, rb_add_done_src) = (1, 2, 2, 3, 4, 5) /\
   (dictrb_add_act_src, dictrb_add_rew_src, dictrb_add_done_src) = (3, 4, 5)).
Proof. exact (fun i ev p c => conj (frag_gather i ev c) (frag_add_fields p c)). Qed.
Print Assumptions C03_frag_gather_and_writes.

(* storage dtypes (codes picked from the constructors): observations / next observations keep the observation space's dtype - what is
   sampled is bit-for-bit what was added, for every dtype; actions go through _maybe_cast_dtype (float64 -> float32, documented); rest float32 *)
Theorem C03_frag_alloc_dtypes :
  (rb_alloc_obs_dtype, rb_alloc_next_dtype, rb_alloc_act_dtype, rb_alloc_rew_dtype, rb_alloc_done_dtype, rb_alloc_to_dtype) = (1, 1, 2, 3, 3, 3) /\
  (dictrb_alloc_obs_dtype, dictrb_alloc_next_dtype, dictrb_alloc_act_dtype) = (1, 1, 2).
Proof. exact frag_alloc_dtypes. Qed.
Print Assumptions C03_frag_alloc_dtypes.

(* completeness over (index, env) pairs: every stored add and every env column can be drawn *)
Theorem C03_sample_complete_pairs : forall dict bs n mo ht b0 ops k ev, create dict bs n mo ht = Some b0 ->
  let b := run b0 ops in let h := recent ops in
  0 <= k -> (if mo then len h - capacity bs n < k else len h - capacity bs n <= k) -> k < len h -> 0 <= ev < n ->
  exists d ee, fst (sample_bounds b) <= d < snd (sample_bounds b) /\ fst (env_bounds b) <= ee < snd (env_bounds b) /\
               idx_of_draw b d = k mod capacity bs n /\ ee = ev.
Proof. exact reach_sample_complete_pairs. Qed.
Print Assumptions C03_sample_complete_pairs.

(* with a VecNormalize passed to sample(): every element is normalize_obs / normalize_reward (fo / fr) of the
   STORED raw values of that one add; action and done untouched *)
Theorem C03_sample_normalized : forall fo fr dict bs n ht b0 ops d e, create dict bs n false ht = Some b0 ->
  let b := run b0 ops in let h := recent ops in
  fst (sample_bounds b) <= d < snd (sample_bounds b) ->
  exists k, 0 <= k /\ len h - capacity bs n <= k < len h /\
    let t := col e (rowZ h k) in
    get_norm fo fr b (idx_of_draw b d) e = (fo (t_obs t), t_act t, fo (t_next t), done_flag ht t, fr (t_rew t)).
Proof. exact reach_sample_normalized. Qed.
Print Assumptions C03_sample_normalized.

(* reset() empties the replay buffer (regenerated BaseBuffer.reset): nothing can be drawn any more *)
Theorem C03_reset_empties : forall b,
  (pos (reset b), full (reset b)) = base_reset /\
  size (reset b) = 0 /\ pos (reset b) = 0 /\ full (reset b) = false /\ sample_bounds (reset b) = (0, 0).
Proof. exact (fun b => conj (frag_base_reset b) (reset_empties b)). Qed.
Print Assumptions C03_reset_empties.

(* ---- RolloutBuffer / DictRolloutBuffer: b = the buffer after ANY list of add / reset / get calls (calls that
        raise leave it unchanged), h = the rows added since the last reset ---- *)
Theorem C03_rollout_cursor : forall T n ops, (0 < T)%nat ->
  let b := fst (rrun (rcreate T n) ops) in let h := rrecent (rcreate T n) [] ops in
  r_pos b = length h /\ (length h <= T)%nat /\ r_full b = (length h =? T)%nat.
Proof. exact rollout_cursor. Qed.
Print Assumptions C03_rollout_cursor.

(* add() raises exactly when buffer_size rows are stored; get() raises exactly when they are not *)
Theorem C03_rollout_calls_raise : forall T n ops, (0 < T)%nat -> forall row,
  let b := fst (rrun (rcreate T n) ops) in let h := rrecent (rcreate T n) [] ops in
  (rstep b (RAdd row) = None <-> length h = T) /\ (rstep b RGet = None <-> length h <> T).
Proof. exact rollout_calls_raise. Qed.
Print Assumptions C03_rollout_calls_raise.

(* after the first get() of a fill and for any number of further passes, the arrays are the swap_and_flatten of the
   stored rows, flattened exactly once: flat index e*T + t holds row t, column e *)
Theorem C03_rollout_flat_once : forall T n ops, (0 < T)%nat ->
  let b := fst (rrun (rcreate T n) ops) in let h := rrecent (rcreate T n) [] ops in
  r_ready b = true ->
  length h = T /\ r_flat b = Some (flatten 0 n h) /\
  (forall e t, (t < T)%nat -> (e < n)%nat -> nth (e * T + t) (flatten 0 n h) 0 = nth e (nth t h []) 0) /\
  rstep b RGet = Some b.
Proof.
  exact (fun T n ops HT Hr => match rollout_flat_is_flatten_of_rows T n ops HT Hr with
         | conj A (conj B C) => conj A (conj B (conj C (rollout_get_idempotent T n ops HT Hr))) end).
Qed.
Print Assumptions C03_rollout_flat_once.

Theorem C03_rollout_reset_empties : forall b,
  exists b', rstep b RReset = Some b' /\ r_pos b' = 0%nat /\ r_full b' = false /\ r_ready b' = false /\ r_rows b' = [] /\ r_flat b' = None /\
             rstep b' RGet = None.
Proof. exact rollout_reset_empties. Qed.
Print Assumptions C03_rollout_reset_empties.

Theorem C03_frag_rollout : forall b pos T full,
  (rollout_add_cursor (Z.of_nat pos) (Z.of_nat T) full = (Z.of_nat (fst (radd_cursor pos T full)), snd (radd_cursor pos T full)) /\
   dictrollout_add_cursor (Z.of_nat pos) (Z.of_nat T) full = (Z.of_nat (fst (radd_cursor pos T full)), snd (radd_cursor pos T full))) /\
  rstep b RGet =
    (if rollout_get_requires (r_full b) then
       if rollout_get_flatten_guard (r_ready b)
       then Some (mkR (r_T b) (r_n b) (r_pos b) (r_full b) rollout_get_sets_ready (r_rows b) (Some (flatten 0 (r_n b) (arr b))))
       else Some b
     else None) /\
  (rstep b RReset = Some (mkR (r_T b) (r_n b) (Z.to_nat (fst base_reset)) (snd base_reset) rollout_reset_ready [] None) /\
   rollout_reset_ready = dictrollout_reset_ready /\ rollout_get_sets_ready = dictrollout_get_sets_ready /\
   (forall f, rollout_get_requires f = dictrollout_get_requires f) /\ (forall r, rollout_get_flatten_guard r = dictrollout_get_flatten_guard r)).
Proof. exact (fun b pos T full => conj (frag_radd_cursor pos T full) (conj (frag_rstep_get b) (frag_rstep_reset b))). Qed.
Print Assumptions C03_frag_rollout.

(* ---- non-vacuity: a capacity-3 ring with 2 envs (buffer_size 7), 5 adds (wraps), timeouts on ---- *)
Definition ex_row (k : Z) : row :=
  [mkT (10 * k) (10 * k + 1) (10 * k + 2) (10 * k + 3) (k =? 2) (k =? 2);
   mkT (10 * k + 5) (10 * k + 6) (10 * k + 7) (10 * k + 8) (k =? 3) false].
Definition ex_ops : list op := map (fun k => Add (ex_row k)) [0; 1; 2; 3; 4].

Example C03_ex_sound :
  exists b0, create false 7 2 false true = Some b0 /\
    capacity 7 2 = 3 /\ size (run b0 ex_ops) = 3 /\ pos (run b0 ex_ops) = 2 /\
    sample_bounds (run b0 ex_ops) = (0, 3) /\
    (* slot 0 holds add 3: env 1 ended (done 1); slot 2 holds add 2: env 0 was truncated (done masked to 0) *)
    get (run b0 ex_ops) 0 1 = (35, 37, 36, 1, 38) /\
    get (run b0 ex_ops) 2 0 = (20, 22, 21, 0, 23).
Proof. eexists. split; [reflexivity|]. vm_compute. repeat split; reflexivity. Qed.

Example C03_ex_memopt :
  exists b0, create false 4 1 true false = Some b0 /\
    let ops := map (fun k => Add [mkT k (k + 1) (100 + k) (200 + k) false false]) [0; 1; 2; 3; 4; 5] in
    sample_bounds (run b0 ops) = (1, 4) /\ pos (run b0 ops) = 2 /\
    map (idx_of_draw (run b0 ops)) [1; 2; 3] = [3; 0; 1] /\
    get (run b0 ops) 1 0 = (5, 105, 6, 0, 205).
Proof. eexists. split; [reflexivity|]. vm_compute. repeat split; reflexivity. Qed.

Example C03_ex_rollout :
  let ops := [RAdd [1; 2]; RGet; RAdd [3; 4]; RAdd [5; 6]; RAdd [7; 8]; RGet; RGet; RReset; RGet; RAdd [9; 10]] in
  snd (rrun (rcreate 3 2) ops) = [false; true; false; false; true; false; false; false; true; false] /\
  map (fun o => snd o) (firstn 7 (robserve (rcreate 3 2) ops)) =
    [None; None; None; None; None; Some [1; 3; 5; 2; 4; 6]; Some [1; 3; 5; 2; 4; 6]].
Proof. split; reflexivity. Qed.

(* a fresh buffer is all zeros (np.zeros allocation); unwritten rollout rows are zero rows; robserve (used by the harness only) flags the calls that raise *)
Example C03_ex_fresh :
  (exists b0, create false 4 1 false true = Some b0 /\ get b0 2 0 = (0, 0, 0, 0, 0) /\ a_next b0 1 0%nat = 0 /\ a_done b0 1 0%nat = 0 /\ a_to b0 3 0%nat = 0) /\
  arr (rcreate 2 2) = [[0; 0]; [0; 0]] /\
  map (fun o => fst (fst (fst (fst o)))) (robserve (rcreate 1 1) [RGet; RAdd [5]; RAdd [6]; RGet]) = [true; false; true; false].
Proof. split; [eexists; repeat split; reflexivity|split; reflexivity]. Qed.
