(* C13 - callback event protocol.
   Only statements: every proof is [exact <lemma>], followed by Print Assumptions. *)
From SB3V Require Import Lib.Tactics Gen.Frag_callbacks Model.Callbacks Proofs.CallbacksProofs.
From SB3V Require Refuted.C13_everyN.   (* the F8 witness is rebuilt with every check *)
Local Open Scope Z_scope.

(* The events learn() delivers to the root callback, for every callback tree, rollout kind (on-policy n_steps,
   off-policy train_freq in steps or episodes), n_envs, loop fuel, dones oracle and start state, are
     TS  (RS (UL Step)^k RE)*  (RS (UL Step)^j with the last Step returning false)?  TE
   where UL is update_locals right after one env.step (the step counter grows by one per Step event, so there is
   exactly one step event per vectorised environment step and its locals are those of that very step) and
   num_timesteps grows by n_envs per Step. *)
Theorem C13_trace_grammar : forall fuel rf ne k total reset dones s s' tr,
  learn fuel rf ne k total reset dones s = (s', tr) ->
  exists evs stopped,
    tr = (TS (fst (setup reset (d_nt s) total)), true) :: evs ++ [(TE, true)] /\
    body ne (fst (setup reset (d_nt s) total)) (d_stamp s) evs stopped (d_nt s') (d_stamp s').
Proof. exact learn_grammar. Qed.
Print Assumptions C13_trace_grammar.

(* fuel: the loops of the model carry fuel, so the theorems above also hold for runs cut by the fuel (flagged by d_exh).  With
   rollouts of n >= 1 steps (on-policy, or off-policy with train_freq in steps), n_envs >= 1, rollout fuel >= n and loop fuel >=
   total - num_timesteps the run is NOT cut: d_exh is untouched, a rollout that is not stopped has exactly n steps, and unless some
   Step returned False learn() continues until num_timesteps >= total (the harness runs the model with fuel 400 and checks d_exh) *)
Theorem C13_rollout_has_n_steps : forall ne n (onp : bool) fuel steps eps s s' cont tr,
  0 <= steps <= n -> (Z.to_nat (n - steps) <= fuel)%nat ->
  rollout fuel ne (if onp then OnPol n else OffStep n) steps eps s = (s', cont, tr) ->
  d_exh s' = d_exh s /\
  (cont = true -> d_stamp s' = d_stamp s + (n - steps) /\ d_nt s' = d_nt s + (n - steps) * ne).
Proof. exact rollout_enough_fuel. Qed.
Print Assumptions C13_rollout_has_n_steps.

Theorem C13_learn_runs_until_total : forall fuel rf ne n (onp : bool) total reset dones s s' tr,
  1 <= n -> 1 <= ne -> (Z.to_nat n <= rf)%nat ->
  (Z.to_nat (snd (setup reset (d_nt s) total) - fst (setup reset (d_nt s) total)) <= fuel)%nat ->
  learn fuel rf ne (if onp then OnPol n else OffStep n) total reset dones s = (s', tr) ->
  d_exh s' = d_exh s /\
  ((forall e, ~ In (e, false) tr) -> snd (setup reset (d_nt s) total) <= d_nt s').
Proof. exact learn_enough_fuel. Qed.
Print Assumptions C13_learn_runs_until_total.

(* a step event returning False stops training before any further environment step *)
Theorem C13_stop_halts : forall fuel rf ne k total reset dones s s' tr pre e post,
  learn fuel rf ne k total reset dones s = (s', tr) ->
  tr = pre ++ (e, false) :: post -> post = [(TE, true)].
Proof. exact stop_halts. Qed.
Print Assumptions C13_stop_halts.

(* the unfinished rollout occurs iff a Step returned false *)
Theorem C13_unfinished_rollout_iff_stop : forall ne nt st evs stopped nt' st',
  body ne nt st evs stopped nt' st' -> (stopped = true <-> exists e, In (e, false) evs).
Proof. exact stopped_iff_false_step. Qed.
Print Assumptions C13_unfinished_rollout_iff_stop.

(* the callback tree is delivered exactly the events of the trace, in order *)
Theorem C13_tree_receives_trace : forall fuel rf ne k total reset dones s s' tr,
  learn fuel rf ne k total reset dones s = (s', tr) -> d_cb s' = run (map fst tr) (d_cb s).
Proof. exact learn_is_run. Qed.
Print Assumptions C13_tree_receives_trace.

(* every child of a CallbackList - through any nesting of lists - is delivered every event the root is
   delivered, for every history, also after a sibling returned false *)
Theorem C13_list_forwards_all : forall evs p c x,
  sub p c = Some x -> sub p (run evs c) = Some (run evs x).
Proof. exact list_child_sees_all. Qed.
Print Assumptions C13_list_forwards_all.

Theorem C13_list_step_and_return : forall e b l,
  dispatch e (CList b l) =
  (CList (base_ev e b) (map (fun c => fst (dispatch e c)) l),
   if is_step e then forallb (fun c => snd (dispatch e c)) l else true).
Proof. exact dispatch_clist. Qed.
Print Assumptions C13_list_step_and_return.

(* a recorder below lists logs one entry per root event, with its own n_calls / num_timesteps / locals *)
Theorem C13_list_recorder_log : forall evs p c b stop log,
  sub p c = Some (Rec b stop log) ->
  sub p (run evs c) = Some (Rec (base_after b evs) stop (log ++ rec_entries b evs)).
Proof. exact list_recorder_log. Qed.
Print Assumptions C13_list_recorder_log.

(* ... and within a rollout these entries are numbered: n_calls + i, num_timesteps + i*n_envs, locals of env step stamp + i *)
Theorem C13_step_entries_numbered : forall ne nt st steps nt' st',
  good_steps ne nt st steps nt' st' ->
  forall b, exists k,
    rec_entries b (map fst steps) = step_entries ne k (b_calls b) nt st /\
    b_calls (base_after b (map fst steps)) = b_calls b + Z.of_nat k /\
    nt' = nt + Z.of_nat k * ne /\ st' = st + Z.of_nat k.
Proof. exact good_steps_entries. Qed.
Print Assumptions C13_step_entries_numbered.

(* locals: update_locals is forwarded to every node except the subtree below callback_on_new_best (lists to every child,
   EveryNTimesteps / EvalCallback.callback_after_eval to their child); a recorder that is delivered update_locals of env step s and then
   the step event logs the locals stamp s *)
Theorem C13_update_locals_forwarded : forall pb s d,
  (forall b stop log, dispatchp pb (UL s d) (Rec b stop log) = (Rec (base_ul s d b) stop log, true)) /\
  (forall b l, fst (dispatchp pb (UL s d) (CList b l)) = CList (base_ul s d b) (map (fun c => fst (dispatchp pb (UL s d) c)) l)) /\
  (forall b n last fired ch, fst (dispatchp pb (UL s d) (EveryN b n last fired ch)) = EveryN (base_ul s d b) n last fired (fst (dispatchp pb (UL s d) ch))) /\
  (forall b f best evals dn ob af,
     fst (dispatchp pb (UL s d) (EvalC b f best evals dn ob af)) = EvalC (base_ul s d b) f best evals dn ob (fst (dispatchp pb (UL s d) af))).
Proof. exact ul_forwarding. Qed.
Print Assumptions C13_update_locals_forwarded.

Theorem C13_step_after_update_locals_sees_that_step : forall pb s d nt b stop log,
  let r := fst (dispatchp pb (Step nt) (fst (dispatchp pb (UL s d) (Rec b stop log)))) in
  exists b', r = Rec b' stop (log ++ [mkE 2 (b_calls b + 1) nt s]).
Proof. exact step_after_ul_sees_that_step. Qed.
Print Assumptions C13_step_after_update_locals_sees_that_step.

(* CheckpointCallback saves exactly at the on_step calls whose number is a multiple of save_freq,
   counted over the whole life of the callback (any number of learn() calls, any other events in between) *)
Theorem C13_checkpoint_cadence : forall evs b f sv,
  run evs (Checkpoint b f sv) =
  Checkpoint (base_after b evs) f
    (sv ++ filter (fun p => checkpoint_fires (fst p) f) (numbered (b_calls b) (steps_of evs))).
Proof. exact checkpoint_cadence. Qed.
Print Assumptions C13_checkpoint_cadence.

Theorem C13_checkpoint_multiples : forall c f, 0 < f -> (checkpoint_fires c f = true <-> exists q, c = q * f).
Proof. exact checkpoint_fires_iff. Qed.
Print Assumptions C13_checkpoint_multiples.

(* EvalCallback evaluates exactly at the calls with eval_freq > 0 and n_calls mod eval_freq = 0, whatever its children do *)
Theorem C13_eval_cadence : forall evs b f best evals d ob af,
  eval_done (run evs (EvalC b f best evals d ob af)) =
  d ++ filter (fun p => eval_fires (fst p) f) (numbered (b_calls b) (steps_of evs)).
Proof. exact eval_cadence. Qed.
Print Assumptions C13_eval_cadence.

(* its children: on_new_best is stepped iff an evaluation improved the best mean (strictly); after_eval iff an evaluation
   took place and on_new_best did not return false; nothing otherwise.  The children read parent.best_mean_reward as
   updated by this very evaluation: [dispatchp (Some mean)] / [dispatchp best]. *)
Theorem C13_eval_children_on_trigger_only : forall pb nt b f best evals d ob af,
  let c' := b_calls b + 1 in
  let m := hd 0 evals in
  let r := dispatchp pb (Step nt) (EvalC b f best evals d ob af) in
  (eval_fires c' f = false ->
     r = (EvalC (base_step nt b) f best evals d ob af, true)) /\
  (eval_fires c' f = true -> better m best = false ->
     r = (EvalC (base_step nt b) f best (tl evals) (d ++ [(c', nt)]) ob (fst (dispatchp best (Step nt) af)),
          snd (dispatchp best (Step nt) af))) /\
  (eval_fires c' f = true -> better m best = true ->
     r = (EvalC (base_step nt b) f (Some m) (tl evals) (d ++ [(c', nt)])
            (fst (dispatchp (Some m) (Step nt) ob))
            (if snd (dispatchp (Some m) (Step nt) ob) then fst (dispatchp (Some m) (Step nt) af) else af),
          if snd (dispatchp (Some m) (Step nt) ob) then snd (dispatchp (Some m) (Step nt) af) else false)).
Proof. exact eval_children_on_trigger_only. Qed.
Print Assumptions C13_eval_children_on_trigger_only.

(* best_mean_reward: replaced only by a strictly larger evaluation mean (rule `>`), never decreases *)
Theorem C13_eval_best_update : forall pb e b f best evals d ob af,
  eval_best (fst (dispatchp pb e (EvalC b f best evals d ob af))) =
  match e with
  | Step nt => if eval_fires (b_calls b + 1) f && better (hd 0 evals) best then Some (hd 0 evals) else best
  | _ => best
  end.
Proof. exact eval_best_update. Qed.
Print Assumptions C13_eval_best_update.

Theorem C13_eval_best_never_decreases : forall pb e b f best evals d ob af v,
  best = Some v ->
  exists v', eval_best (fst (dispatchp pb e (EvalC b f best evals d ob af))) = Some v' /\ v <= v'.
Proof. exact eval_best_never_decreases. Qed.
Print Assumptions C13_eval_best_never_decreases.

(* StopTrainingOnRewardThreshold stops iff the parent's best mean has reached the threshold; as callback_on_new_best it
   stops training exactly at the evaluation whose (new best) mean is >= threshold *)
Theorem C13_reward_threshold_stops_iff : forall pb nt b thr,
  snd (dispatchp pb (Step nt) (Thresh b thr)) = false <-> exists v, pb = Some v /\ thr <= v.
Proof. exact thresh_stops_iff. Qed.
Print Assumptions C13_reward_threshold_stops_iff.

Theorem C13_eval_threshold_stops : forall pb nt b f best evals d thr bt af,
  eval_fires (b_calls b + 1) f = true -> better (hd 0 evals) best = true ->
  (snd (dispatchp pb (Step nt) (EvalC b f best evals d (Thresh bt thr) af)) = false <->
   thr <= hd 0 evals \/ snd (dispatchp (Some (hd 0 evals)) (Step nt) af) = false).
Proof. exact eval_threshold_stops. Qed.
Print Assumptions C13_eval_threshold_stops.

(* StopTrainingOnNoModelImprovement: after min_evals calls it counts consecutive calls without a larger parent best and
   stops when the count exceeds max_no_improvement_evals *)
Theorem C13_no_improvement_stops_iff : forall pb nt b mx me lb ni,
  snd (dispatchp pb (Step nt) (NoImp b mx me lb ni)) = false <->
  me < b_calls b + 1 /\ gt_opt pb lb = false /\ mx < ni + 1.
Proof. exact noimp_stops_iff. Qed.
Print Assumptions C13_no_improvement_stops_iff.

Theorem C13_no_improvement_step : forall pb nt b mx me lb ni,
  dispatchp pb (Step nt) (NoImp b mx me lb ni) =
  let c' := b_calls b + 1 in
  if me <? c' then
    if gt_opt pb lb then (NoImp (base_step nt b) mx me pb 0, true)
    else (NoImp (base_step nt b) mx me pb (ni + 1), negb (mx <? ni + 1))
  else (NoImp (base_step nt b) mx me pb ni, true).
Proof. exact noimp_step. Qed.
Print Assumptions C13_no_improvement_step.

(* ConvertCallback(function): the function is called once per step event delivered, with that step's counters and locals *)
Theorem C13_function_callback_log : forall evs b stop log,
  run evs (Conv b stop log) =
  Conv (base_after b evs) stop (log ++ filter (fun x => e_kind x =? 2) (rec_entries b evs)).
Proof. exact conv_run. Qed.
Print Assumptions C13_function_callback_log.

Theorem C13_function_callback_stops_iff : forall pb nt b stop log,
  snd (dispatchp pb (Step nt) (Conv b stop log)) = false <-> b_calls b + 1 = stop.
Proof. exact conv_stops_iff. Qed.
Print Assumptions C13_function_callback_stops_iff.

(* EveryNTimesteps fires iff num_timesteps - last_time_trigger >= n, for every history and child *)
Theorem C13_everyN_cadence : forall evs b n last fired ch,
  everyn_state (run evs (EveryN b n last fired ch)) =
  (trig_last n last (steps_of evs), fired ++ trig n last (steps_of evs)).
Proof. exact everyN_cadence. Qed.
Print Assumptions C13_everyN_cadence.

Theorem C13_event_child_on_trigger_only : forall nt b n last fired ch,
  (everyn_fires nt last n = false ->
     dispatch (Step nt) (EveryN b n last fired ch) = (EveryN (base_step nt b) n last fired ch, true)) /\
  (everyn_fires nt last n = true ->
     dispatch (Step nt) (EveryN b n last fired ch) =
     (EveryN (base_step nt b) n nt (fired ++ [nt]) (fst (dispatch (Step nt) ch)), snd (dispatch (Step nt) ch))) /\
  (forall e, e = RS \/ e = RE \/ e = TE -> dispatch e (EveryN b n last fired ch) = (EveryN b n last fired ch, true)).
Proof. exact event_child_on_trigger_only. Qed.
Print Assumptions C13_event_child_on_trigger_only.

(* documented cadence "every n timesteps": as long as the kept trigger time is not in the future of the counter
   (fresh callback; learn() continued without counter reset), consecutive triggers are n .. n+n_envs-1 apart
   and a trigger occurs as soon as n timesteps have passed.  The hypothesis [last <= nt] is exactly what the
   counter reset of a second learn() breaks: see Refuted/C13_everyN.v (finding F8). *)
Theorem C13_everyN_gaps : forall n ne, 1 <= n -> 1 <= ne -> forall k nt last,
  last <= nt -> nt - last < n -> gaps_ok n ne last (trig n last (prog nt ne k)).
Proof. exact everyN_gaps. Qed.
Print Assumptions C13_everyN_gaps.

Theorem C13_everyN_fires_within_n : forall n ne, 1 <= n -> 1 <= ne -> forall k nt last,
  last <= nt -> nt - last < n -> n <= nt + Z.of_nat k * ne - last -> trig n last (prog nt ne k) <> [].
Proof. exact everyN_fires_within_n. Qed.
Print Assumptions C13_everyN_fires_within_n.

(* StopTrainingOnMaxEpisodes: counts the dones of the step its locals describe; stops iff the count reaches the total *)
Theorem C13_maxep_counts : forall evs b total neps,
  run evs (MaxEp b total neps) = MaxEp (base_after b evs) total (neps + dones_seen b evs).
Proof. exact maxep_counts. Qed.
Print Assumptions C13_maxep_counts.

Theorem C13_maxep_stops_iff : forall nt b total neps,
  snd (dispatch (Step nt) (MaxEp b total neps)) = false <-> total <= neps + ndones_of b.
Proof. exact maxep_stops_iff. Qed.
Print Assumptions C13_maxep_stops_iff.

(* ---- the model's predicates and loop guards are the statements regenerated from the source ---- *)
Theorem C13_fragments_callbacks : forall b nt c f m bst r acc last n,
  cb_on_step_counters (b_calls b) nt = (b_calls (base_step nt b), b_nt (base_step nt b)) /\
  cb_training_start_nt nt = b_nt (base_ts nt b) /\
  cblist_combine r acc = (r && acc)%bool /\
  checkpoint_cond c f = checkpoint_fires c f /\
  eval_cond c f = eval_fires c f /\
  eval_better m bst = better m (Some bst) /\
  eval_after_combine acc r = (if acc then r else false) /\
  everyn_cond nt last n = everyn_fires nt last n /\
  everyn_update nt = nt /\ everyn_init_last = 0.
Proof.
  exact (fun b nt c f m bst r acc last n =>
    conj (frag_on_step_counters b nt) (conj (frag_training_start_nt b nt) (conj (frag_cblist_combine r acc)
    (conj (frag_checkpoint_cond c f) (conj (frag_eval_cond c f) (conj (frag_eval_better m bst)
    (conj (frag_eval_after_combine acc r) (conj (frag_everyn_cond nt last n) (conj (frag_everyn_update nt) frag_everyn_init))))))))).
Qed.
Print Assumptions C13_fragments_callbacks.

Theorem C13_fragments_thresholds : forall nt b mx me v lbv ni thr,
  rthresh_continue v thr = lt_thr (Some v) thr /\
  (let '(cont, ni', lb') := noimp_block true (b_calls b + 1) me v lbv ni mx in
   dispatchp (Some v) (Step nt) (NoImp b mx me (Some lbv) ni) = (NoImp (base_step nt b) mx me (Some lb') ni', cont)).
Proof. exact (fun nt b mx me v lbv ni thr => conj (frag_rthresh v thr) (frag_noimp nt b mx me v lbv ni)). Qed.
Print Assumptions C13_fragments_thresholds.

Theorem C13_fragments_maxep : forall m ne neps nd,
  maxep_total m ne = m * ne /\ maxep_count neps nd = neps + nd /\ maxep_continue neps (m * ne) = (neps <? m * ne).
Proof. exact frag_maxep. Qed.
Print Assumptions C13_fragments_maxep.

Theorem C13_fragments_loops : forall steps eps n nt ne total reset ep,
  (onpol_rollout_guard steps n = more (OnPol n) steps eps /\
   cb_collect_more_step steps n = more (OffStep n) steps eps /\
   cb_collect_more_episode eps n = more (OffEpis n) steps eps) /\
  (onpol_count nt ne = nt + ne /\ onpol_nsteps_inc steps = steps + 1 /\
   offpol_count nt ne steps = (nt + ne, steps + 1) /\ offpol_episode_inc eps = eps + 1) /\
  (onpol_learn_guard nt total = (nt <? total) /\ offpol_learn_guard nt total = (nt <? total)) /\
  (let '(nt', _, total') := setup_learn_counters reset nt ep total in (nt', total') = setup reset nt total).
Proof.
  exact (fun steps eps n nt ne total reset ep =>
    conj (frag_rollout_guards steps eps n) (conj (frag_counts nt ne steps eps) (conj (frag_learn_guards nt total) (frag_setup reset nt ep total)))).
Qed.
Print Assumptions C13_fragments_loops.

(* ---- non-vacuity ---- *)
Definition ex_tree : cb := clist [rec_ 0; everyn 3 (rec_ 2); checkpoint 2; eval_ 2 [5; 1; 7] (rec_ 0) (clist [rec_ 0; maxep 1 2])].

(* a run with two learn() calls on 2 envs that is stopped by the recorder below EveryNTimesteps at its second call *)
(* two learn() calls on 2 envs; StopTrainingOnMaxEpisodes below EvalCallback.after below a list stops both *)
Example C13_ex_run :
  let r := learns 50 50 2 (OnPol 3) [mkCall 8 true [0; 1; 0; 2]; mkCall 20 false [1; 1; 1; 1; 1; 1]] (init_dst ex_tree) in
  map (fun tr => length tr) (snd r) = [13; 7]%nat /\
  (exists pre, nth 1 (snd r) [] = pre ++ [(Step 12, false); (TE, true)]) /\
  d_nt (fst r) = 12 /\ d_stamp (fst r) = 6.
Proof.
  vm_compute. split; [reflexivity|]. split; [|split; reflexivity].
  exists [(TS 8, true); (RS, true); (UL 5 1, true); (Step 10, true); (UL 6 1, true)]. reflexivity.
Qed.

Example C13_ex_sub : exists b, sub [3%nat; 0%nat] ex_tree = None /\ sub [0%nat] ex_tree = Some (Rec b 0 []).
Proof. eexists. split; reflexivity. Qed.

Example C13_ex_gaps : trig 4 0 (prog 0 3 6) = [6; 12; 18] /\ gaps_ok 4 3 0 [6; 12; 18].
Proof. split; [reflexivity|]. cbn. lia. Qed.

Example C13_ex_good_steps : good_steps 2 0 0 [(UL 1 0, true); (Step 2, true); (UL 2 1, true); (Step 4, true)] 4 2.
Proof. apply (gs_cons 2 0 0 0). apply (gs_cons 2 2 1 1). apply gs_nil. Qed.

(* EvalCallback(eval_freq=1) with StopTrainingOnRewardThreshold(4) as callback_on_new_best and a no-improvement stopper after it:
   means 1, 4: the second evaluation finds a new best 4 >= 4 and stops training at the second step *)
Example C13_ex_threshold :
  let t := clist [rec_ 0; eval_ 1 [1; 4; 9] (thresh 4) (noimp 1 0)] in
  let r := learns 50 50 1 (OnPol 3) [mkCall 9 true []] (init_dst t) in
  (exists pre, nth 0 (snd r) [] = pre ++ [(Step 2, false); (TE, true)]) /\ d_nt (fst r) = 2.
Proof.
  vm_compute. split; [|reflexivity].
  exists [(TS 0, true); (RS, true); (UL 1 0, true); (Step 1, true); (UL 2 0, true)]. reflexivity.
Qed.

(* fuel: too little fuel is flagged, enough fuel reaches the target *)
Example C13_ex_fuel :
  d_exh (fst (learn 0 0 1 (OnPol 5) 100 true [] (init_dst Nop))) = true /\
  (let r := learn 20 5 2 (OnPol 5) 25 true [] (init_dst Nop) in d_exh (fst r) = false /\ d_nt (fst r) = 30 /\ length (snd r) = 38%nat).
Proof. vm_compute. repeat split; reflexivity. Qed.
