From Coq Require Import ZArith List.
From SB3V Require Import Model.Callbacks.
Theorem C13_stub : True. Proof. exact I. Qed.
Print Assumptions C13_stub.
