(* C15 - VecNormalize statistics and transforms.
   Only statements: every proof is [exact <lemma>], followed by Print Assumptions.
   sqrt(var + epsilon) is symbolic (a positive s); statistics are over Q. The epsilon prior of
   RunningMeanStd (weight 1e-4, mean 0, variance 1) is part of the statements. *)
From Coq Require Import List QArith Qminmax Bool.
From SB3V Require Import Gen.Frag_runningmoments Model.RunningMoments Model.VecNorm
  Proofs.RunningMomentsProofs Proofs.VecNormProofs.
From SB3V Require Import Gen.Frag_vecnormkeyed Model.VecNormKeyed Proofs.VecNormKeyedProofs.
Import ListNotations.
Local Open Scope Q_scope.

(* the statements regenerated from running_mean_std.py compute the model's merge *)
Theorem C15_update_from_moments_fragment : forall s bm bv bc,
  ~ r_count s + bc == 0 ->
  let '(m, v, c) := rms_update_from_moments (r_mean s) (r_var s) (r_count s) bm bv bc in
  let '(m', v', c') := rms_store m v c in
  rms_eq (mk_rms m' v' c') (update_from_moments s bm bv bc).
Proof. exact frag_update_from_moments. Qed.
Print Assumptions C15_update_from_moments_fragment.

(* key identity: the merge adds the batch's raw moments (n, n*mean, n*(var+mean^2)) exactly *)
Theorem C15_merge_raw_moments : forall s bm bv bc,
  ~ r_count s + bc == 0 ->
  S0 (update_from_moments s bm bv bc) == S0 s + bc /\
  S1 (update_from_moments s bm bv bc) == S1 s + bc * bm /\
  S2 (update_from_moments s bm bv bc) == S2 s + bc * (bv + bm * bm).
Proof. exact merge_raw_moments. Qed.
Print Assumptions C15_merge_raw_moments.

(* however the stream is batched, the statistics are the same *)
Theorem C15_batching_invariance : forall s bs bs',
  0 < r_count s -> Forall (fun b => b <> []) bs -> Forall (fun b => b <> []) bs' ->
  concat bs = concat bs' -> rms_eq (updates s bs) (updates s bs').
Proof. exact batching_invariance. Qed.
Print Assumptions C15_batching_invariance.

Example C15_batching_example :
  rms_eq (updates (rms_init eps_default) [[1; 2]; [3]; [4; 5; 6]]) (updates (rms_init eps_default) [[1; 2; 3; 4; 5; 6]])
  /\ Forall (fun b : list Q => b <> []) [[1; 2]; [3]; [4; 5; 6]].
Proof. split; [repeat split | repeat constructor; discriminate]. Qed.

(* ... and equal the two-pass moments of the stream merged with the prior (eps, 0, 1) *)
Theorem C15_stats_are_stream_moments : forall eps bs,
  0 < eps -> Forall (fun b => b <> []) bs ->
  let xs := concat bs in
  let u := updates (rms_init eps) bs in
  r_count u == eps + qlen xs /\
  r_mean u == qsuml xs / (eps + qlen xs) /\
  r_var u == (eps + sumsq xs) / (eps + qlen xs) - r_mean u * r_mean u.
Proof. exact stats_with_prior. Qed.
Print Assumptions C15_stats_are_stream_moments.

Theorem C15_combine_adds_raw_moments : forall s o,
  ~ r_count s + r_count o == 0 ->
  S0 (rms_combine s o) == S0 s + S0 o /\ S1 (rms_combine s o) == S1 s + S1 o /\ S2 (rms_combine s o) == S2 s + S2 o.
Proof. exact combine_raw_moments. Qed.
Print Assumptions C15_combine_adds_raw_moments.

(* the reduced-fraction variant evaluated by the correspondence computes the same statistics *)
Theorem C15_executable_variant : forall bs a b, rms_eq a b -> rms_eq (fold_left update_red bs a) (updates b bs).
Proof. exact updates_red_eq. Qed.
Print Assumptions C15_executable_variant.

(* ---- VecNormalize: any history of reset / step / flag toggles ---- *)
(* statistics of a normalised channel = updates with exactly the observation batches returned by reset/step
   while training and norm_obs were set; channels of keys that are not normalised are never touched *)
Theorem C15_obs_stats_stream : forall upd red p h st ch d,
  length (p_chans p) = length (v_obs_rms st) -> (ch < length (v_obs_rms st))%nat ->
  nth ch (v_obs_rms (vn_run upd red p st h)) d =
  if nth ch (p_chans p) false
  then fold_left upd (obs_batches ch (v_training st) (v_norm_obs st) h) (nth ch (v_obs_rms st) d)
  else nth ch (v_obs_rms st) d.
Proof. exact vn_obs_stats_stream. Qed.
Print Assumptions C15_obs_stats_stream.

Theorem C15_obs_stats_are_stream_moments : forall red p h n_envs t no nr ch,
  (ch < length (p_chans p))%nat -> nth ch (p_chans p) false = true ->
  Forall (fun b => b <> []) (obs_batches ch t no h) ->
  let u := nth ch (v_obs_rms (vn_run update red p (vn_init p n_envs t no nr) h)) (rms_init eps_default) in
  let xs := concat (obs_batches ch t no h) in
  r_count u == eps_default + qlen xs /\
  r_mean u == qsuml xs / (eps_default + qlen xs) /\
  r_var u == (eps_default + sumsq xs) / (eps_default + qlen xs) - r_mean u * r_mean u.
Proof. exact vn_obs_stats_are_stream_moments. Qed.
Print Assumptions C15_obs_stats_are_stream_moments.

Example C15_obs_stream_example :
  (* 2 envs, one normalised channel: reset, step, frozen step (training off), step *)
  let p := mk_vnp 10 10 (1 # 2) (1 # 100000000) [true] in
  let h := [OReset [[1]; [2]]; OStep [[3]; [4]] [1; 1] [false; true]; OSet false true true;
            OStep [[100]; [100]] [1; 1] [false; false]; OSet true true true; OStep [[5]; [6]] [1; 1] [false; false]] in
  obs_batches 0 true true h = [[1; 2]; [3; 4]; [5; 6]].
Proof. reflexivity. Qed.

Theorem C15_obs_frozen : forall upd red p st o,
  obs_guard (v_training st) (v_norm_obs st) = false ->
  (forall t no nr, o <> OSet t no nr) -> v_obs_rms (vn_op upd red p st o) = v_obs_rms st.
Proof. exact vn_obs_frozen. Qed.
Print Assumptions C15_obs_frozen.

Theorem C15_ret_frozen : forall upd red p st o,
  v_training st = false -> v_ret_rms (vn_op upd red p st o) = v_ret_rms st.
Proof. exact vn_ret_frozen. Qed.
Print Assumptions C15_ret_frozen.

(* discounted return accumulator: restarts at episode ends and at reset *)
Theorem C15_returns_closed_form : forall upd p h st i acc,
  v_training st = true -> Forall (fun o => wf_op (length (v_returns st)) o /\ forall t no nr, o <> OSet t no nr) h ->
  (i < length (v_returns st))%nat ->
  nth i (v_returns st) 0 = disc (p_gamma p) acc ->
  nth i (v_returns (vn_run upd idq p st h)) 0 = disc (p_gamma p) (rewards_since i acc h).
Proof. exact vn_returns_closed_form. Qed.
Print Assumptions C15_returns_closed_form.

Example C15_returns_example :
  let p := mk_vnp 10 10 (1 # 2) (1 # 100000000) [true] in
  let h := [OStep [[0]; [0]] [4; 1] [false; false]; OStep [[0]; [0]] [2; 1] [false; true]; OStep [[0]; [0]] [1; 8] [false; false]] in
  rewards_since 0 [] h = [4; 2; 1] /\ rewards_since 1 [] h = [8] /\
  v_returns (vn_run update idq p (vn_init p 2 true true true) h) = [((0 * (1 # 2) + 4) * (1 # 2) + 2) * (1 # 2) + 1; 0 * (1 # 2) + 8].
Proof. repeat split. Qed.

Theorem C15_ret_stats_stream : forall upd p h st,
  v_ret_rms (vn_run upd idq p st h)
  = fold_left upd (ret_batches (p_gamma p) (v_training st) (v_returns st) h) (v_ret_rms st).
Proof. exact vn_ret_stats_stream. Qed.
Print Assumptions C15_ret_stats_stream.

Theorem C15_original_is_raw_latest : forall upd red p st obs rews dones,
  v_old_obs (vn_op upd red p st (OStep obs rews dones)) = obs /\
  v_old_rew (vn_op upd red p st (OStep obs rews dones)) = rews /\
  v_old_obs (vn_op upd red p st (OReset obs)) = obs.
Proof. exact vn_original_is_raw_latest. Qed.
Print Assumptions C15_original_is_raw_latest.

(* transforms (regenerated expressions): clipped standardised value; inverse inside the clip range *)
Theorem C15_transform_fragments : forall x m s c,
  vn_normalize_obs x m s c = normalize_s x m s c /\ vn_unnormalize_obs x m s == unnormalize_s x m s /\
  vn_normalize_reward x s c = normalize_reward_s x s c /\ vn_unnormalize_reward x s == unnormalize_reward_s x s.
Proof. exact (fun x m s c => conj (frag_vn_normalize_obs x m s c) (conj (frag_vn_unnormalize_obs x m s)
         (conj (frag_vn_normalize_reward x s c) (frag_vn_unnormalize_reward x s)))). Qed.
Print Assumptions C15_transform_fragments.

Theorem C15_guard_fragments : forall t no,
  vn_step_obs_guard t no = obs_guard t no /\ vn_reset_obs_guard t no = obs_guard t no /\ vn_step_ret_guard t = t.
Proof. exact frag_vn_guards. Qed.
Print Assumptions C15_guard_fragments.

Theorem C15_returns_fragment : forall ret g r, vn_returns_acc ret g r == ret * g + r.
Proof. exact frag_vn_returns_acc. Qed.
Print Assumptions C15_returns_fragment.

Theorem C15_unnormalize_normalize : forall x mean s c,
  0 < s -> - c <= (x - mean) / s -> (x - mean) / s <= c ->
  vn_unnormalize_obs (vn_normalize_obs x mean s c) mean s == x.
Proof.
  exact (fun x mean s c Hs H1 H2 =>
    Qeq_trans _ _ _ (frag_vn_unnormalize_obs _ mean s) (unnormalize_normalize x mean s c Hs H1 H2)).
Qed.
Print Assumptions C15_unnormalize_normalize.

Example C15_unnormalize_example : vn_unnormalize_obs (vn_normalize_obs 7 3 2 10) 3 2 == 7 /\ 0 < 2 /\ - (10) <= (7 - 3) / 2 <= 10.
Proof. repeat split; discriminate. Qed.

Theorem C15_unnormalize_normalize_reward : forall r s c,
  0 < s -> - c <= r / s -> r / s <= c -> unnormalize_reward_s (normalize_reward_s r s c) s == r.
Proof. exact unnormalize_normalize_reward. Qed.
Print Assumptions C15_unnormalize_normalize_reward.

Theorem C15_normalize_clipped : forall x mean s c,
  0 <= c -> - c <= normalize_s x mean s c /\ normalize_s x mean s c <= c.
Proof. exact normalize_clipped. Qed.
Print Assumptions C15_normalize_clipped.

Theorem C15_pickle_preserves_stats : forall st n,
  v_obs_rms (unpickle_pickle st n) = v_obs_rms st /\ v_ret_rms (unpickle_pickle st n) = v_ret_rms st /\
  v_training (unpickle_pickle st n) = v_training st /\ v_norm_obs (unpickle_pickle st n) = v_norm_obs st /\
  v_norm_reward (unpickle_pickle st n) = v_norm_reward st /\ v_returns (unpickle_pickle st n) = repeat 0 n.
Proof. exact pickle_preserves_stats. Qed.
Print Assumptions C15_pickle_preserves_stats.

Theorem C15_sync_copies_all : forall src dst,
  v_obs_rms (sync src dst) = v_obs_rms src /\ v_ret_rms (sync src dst) = v_ret_rms src /\
  v_returns (sync src dst) = v_returns dst /\ v_training (sync src dst) = v_training dst.
Proof. exact sync_copies_all. Qed.
Print Assumptions C15_sync_copies_all.

(* ---- extension: what step_wait returns; terminal observations ---- *)
Theorem C15_terminal_fragments : forall done has,
  vn_term_skip done = negb done /\ vn_term_present has = has /\ forall b, vn_norm_obs_guard b = b.
Proof. exact frag_vn_terminal. Qed.
Print Assumptions C15_terminal_fragments.

Theorem C15_terminal_obs_same_transform : forall p st obs rews dones terms ss sr i x,
  nth_error dones i = Some true -> nth_error terms i = Some (Some x) ->
  let '(st', out) := step_outputs p st obs rews dones terms ss sr in
  nth_error (o_term out) i = Some (Some (normalize_obs_model p st' ss x)) /\
  (forall j o, nth_error obs j = Some o -> nth_error (o_obs out) j = Some (normalize_obs_model p st' ss o)) /\
  v_obs_rms st' = upd_obs_rms update p st obs.
Proof. exact terminal_obs_same_transform. Qed.
Print Assumptions C15_terminal_obs_same_transform.

Theorem C15_terminal_obs_untouched_when_not_done : forall p st ss t, term_out p st ss false t = t.
Proof. exact terminal_obs_untouched_when_not_done. Qed.
Print Assumptions C15_terminal_obs_untouched_when_not_done.

Theorem C15_unnormalised_passthrough : forall p chans ms ss x,
  length ms = length chans -> length ss = length chans -> length x = length chans ->
  norm_vec p false chans ms ss x = x.
Proof. exact norm_vec_passthrough. Qed.
Print Assumptions C15_unnormalised_passthrough.

Example C15_terminal_example :
  let p := mk_vnp 1 10 (1 # 2) 0 [true] in
  let st := vn_init p 2 false true true in   (* not training: statistics stay (0, 1, eps), s = 1 *)
  let '(st', out) := step_outputs p st [[3]; [1 # 2]] [1; 1] [true; false] [Some [5]; None] [1] 1 in
  o_obs out = [[normalize_s 3 0 1 1]; [normalize_s (1 # 2) 0 1 1]] /\
  o_term out = [Some [normalize_s 5 0 1 1]; None] /\ (normalize_s 5 0 1 1 == 1)%Q /\ (normalize_s (1 # 2) 0 1 1 == 1 # 2)%Q.
Proof. cbn. repeat split; reflexivity. Qed.

(* ---- review items ---- *)
(* per key, with norm_obs ON: channels of keys that are not normalised pass through; the others get the clipped
   standardised value computed with their own statistics and hint *)
Theorem C15_per_key_passthrough : forall p chans ms ss x ch,
  length ms = length chans -> length ss = length chans -> length x = length chans ->
  nth ch chans true = false -> nth ch (norm_vec p true chans ms ss x) 0 = nth ch x 0.
Proof. exact per_key_passthrough. Qed.
Print Assumptions C15_per_key_passthrough.

Theorem C15_per_key_normalised : forall p chans ms ss x ch,
  length ms = length chans -> length ss = length chans -> length x = length chans -> (ch < length chans)%nat ->
  nth ch chans false = true ->
  nth ch (norm_vec p true chans ms ss x) 0
  = normalize_s (nth ch x 0) (r_mean (nth ch ms (rms_init eps_default))) (nth ch ss 0) (p_clip_obs p).
Proof. exact per_key_normalised. Qed.
Print Assumptions C15_per_key_normalised.

(* the run that the correspondence executes (update_red, Qred) has the same return accumulators, up to == *)
Theorem C15_returns_closed_form_executable : forall p h st i acc,
  v_training st = true -> Forall (fun o => wf_op (length (v_returns st)) o /\ forall t no nr, o <> OSet t no nr) h ->
  (i < length (v_returns st))%nat ->
  nth i (v_returns st) 0 == disc (p_gamma p) acc ->
  nth i (v_returns (vn_run update_red Qred p st h)) 0 == disc (p_gamma p) (rewards_since i acc h).
Proof. exact vn_returns_closed_form_executable. Qed.
Print Assumptions C15_returns_closed_form_executable.

(* ---- model mutation score: unnormalize_obs per key ---- *)
Theorem C15_unnormalize_per_key : forall p chans ms ss y ch,
  length ms = length chans -> length ss = length chans -> length y = length chans -> (ch < length chans)%nat ->
  nth ch (norm_unvec p true chans ms ss y) 0
  = if nth ch chans false then unnormalize_s (nth ch y 0) (r_mean (nth ch ms (rms_init eps_default))) (nth ch ss 0) else nth ch y 0.
Proof. exact norm_unvec_per_key. Qed.
Print Assumptions C15_unnormalize_per_key.

Theorem C15_unnormalize_off_is_identity : forall p chans ms ss y,
  length ms = length chans -> length ss = length chans -> length y = length chans -> norm_unvec p false chans ms ss y = y.
Proof. exact norm_unvec_off. Qed.
Print Assumptions C15_unnormalize_off_is_identity.

(* the prior the statements are relative to is the documented one: RunningMeanStd(epsilon=1e-4) = (mean 0, variance 1, weight 1e-4) *)
Theorem C15_prior_is_documented : eps_default = 1 # 10000 /\ rms_init eps_default = mk_rms 0 1 (1 # 10000).
Proof. exact prior_is_documented. Qed.
Print Assumptions C15_prior_is_documented.

(* ================= build round 5: Dict observations with norm_obs_keys (Model/VecNormKeyed.v) ================= *)
(* (c) one key of the keyed model IS the single-array model with all of its channels selected: every operation, hence every history,
   commutes with the projection onto a key - all single-array theorems above hold for each selected key *)
Theorem C15_keyed_single_key_instance : forall upd red p h st k,
  proj k (kvn_run upd red p st h)
  = vn_run upd red (projp p (length (kget k (k_rms st) []))) (proj k st) (map (proj_op k) h).
Proof. exact proj_run_sim. Qed.
Print Assumptions C15_keyed_single_key_instance.

Theorem C15_keyed_entry_is_single_array : forall p st hints k x,
  kmem k (k_keys st) = true ->
  length (kget k (k_rms st) []) = length x -> length (kget k hints []) = length x ->
  knorm_entry p st hints k x = normalize_obs_model (projp p (length x)) (proj k st) (kget k hints []) x.
Proof. exact keyed_entry_is_single_array. Qed.
Print Assumptions C15_keyed_entry_is_single_array.

(* (a) keys outside norm_obs_keys: returned observation, unnormalised observation, terminal observation unchanged; the original
   observation is the raw Dict; no statistics ever exist for them; the returned Dict has the same keys in the same order *)
Theorem C15_keyed_unselected_passthrough : forall p st hints o j d,
  kmem j (k_keys st) = false ->
  kget j (knormalize p st hints o) d = kget j o d /\ kget j (kunnormalize p st hints o) d = kget j o d.
Proof. exact keyed_unselected_passthrough. Qed.
Print Assumptions C15_keyed_unselected_passthrough.

Theorem C15_keyed_terminal_passthrough : forall p st hints done x y j d,
  kmem j (k_keys st) = false -> kterm_out p st hints done (Some x) = Some y -> kget j y d = kget j x d.
Proof. exact keyed_terminal_passthrough. Qed.
Print Assumptions C15_keyed_terminal_passthrough.

Theorem C15_keyed_original_is_raw : forall upd red p st obs rews dones,
  k_old_obs (kvn_op upd red p st (KStep obs rews dones)) = obs /\ k_old_obs (kvn_op upd red p st (KReset obs)) = obs /\
  v_old_rew (k_base (kvn_op upd red p st (KStep obs rews dones))) = rews.
Proof. exact keyed_original_is_raw. Qed.
Print Assumptions C15_keyed_original_is_raw.

Theorem C15_keyed_unselected_no_stats : forall upd red p ks keys n t no nr h j,
  ~ In j keys -> ~ In j (map fst (k_rms (kvn_run upd red p (kvn_init ks keys n t no nr) h))).
Proof. exact keyed_unselected_no_stats. Qed.
Print Assumptions C15_keyed_unselected_no_stats.

Theorem C15_keyed_output_keeps_keys : forall p st hints o,
  map fst (knormalize p st hints o) = map fst o /\ map fst (kunnormalize p st hints o) = map fst o.
Proof. exact knormalize_keys. Qed.
Print Assumptions C15_keyed_output_keeps_keys.

(* (b) a selected key's statistics = updates with exactly that key's batches (while training and norm_obs) = the moments of that
   key's stream merged with the documented prior *)
Theorem C15_keyed_stats_stream : forall upd red p h st k ch d, (ch < length (kget k (k_rms st) []))%nat ->
  nth ch (kget k (k_rms (kvn_run upd red p st h)) []) d
  = fold_left upd (kobs_batches k ch (v_training (k_base st)) (v_norm_obs (k_base st)) h) (nth ch (kget k (k_rms st) []) d).
Proof. exact keyed_stats_stream. Qed.
Print Assumptions C15_keyed_stats_stream.

Theorem C15_keyed_stats_are_stream_moments : forall red p ks keys n t nr h k ch,
  In k keys -> (ch < kwidth ks k)%nat ->
  Forall (fun b => b <> []) (kobs_batches k ch t true h) ->
  let u := nth ch (kget k (k_rms (kvn_run update red p (kvn_init ks keys n t true nr) h)) []) (rms_init eps_default) in
  let xs := concat (kobs_batches k ch t true h) in
  r_count u == eps_default + qlen xs /\
  r_mean u == qsuml xs / (eps_default + qlen xs) /\
  r_var u == (eps_default + sumsq xs) / (eps_default + qlen xs) - r_mean u * r_mean u.
Proof. exact keyed_stats_are_stream_moments. Qed.
Print Assumptions C15_keyed_stats_are_stream_moments.

(* (b) independence: histories that show key j the same stream (other keys arbitrary) give key j the same statistics, the same
   returned / unnormalised values and the same original observation *)
Theorem C15_keyed_independence : forall upd red p st h h' j hints o,
  map (proj_op j) h = map (proj_op j) h' ->
  let a := kvn_run upd red p st h in let b := kvn_run upd red p st h' in
  kget j (k_rms a) [] = kget j (k_rms b) [] /\
  kget j (knormalize p a hints o) [] = kget j (knormalize p b hints o) [] /\
  kget j (kunnormalize p a hints o) [] = kget j (kunnormalize p b hints o) [] /\
  kcol j (k_old_obs a) = kcol j (k_old_obs b).
Proof. exact keyed_outputs_independent. Qed.
Print Assumptions C15_keyed_independence.

Example C15_keyed_example :
  (* Dict {0: Box(1), 1: Box(1), 2: Discrete}, norm_obs_keys = [1]; two histories that differ only on keys 0 and 2 *)
  let ks := [(0, Some 1); (1, Some 1); (2, None)]%nat in
  let p := mk_vnp 10 10 (1 # 2) 0 [] in
  let st := kvn_init ks [1%nat] 2 true true true in
  let h  := [KReset [[(0%nat, [5]); (1%nat, [1]); (2%nat, [3])]; [(0%nat, [6]); (1%nat, [2]); (2%nat, [4])]]] in
  let h' := [KReset [[(0%nat, [7]); (1%nat, [1]); (2%nat, [0])]; [(0%nat, [8]); (1%nat, [2]); (2%nat, [1])]]] in
  map (proj_op 1) h = map (proj_op 1) h' /\ h <> h' /\ kobs_batches 1 0 true true h = [[1; 2]] /\
  map fst (k_rms (kvn_run update idq_ p st h)) = [1%nat] /\ kmem 2 (k_keys st) = false /\ In 1%nat [1%nat] /\ (0 < kwidth ks 1)%nat /\
  knormalize p st [(1%nat, [1])] [(0%nat, [5]); (1%nat, [1]); (2%nat, [3])] = [(0%nat, [5]); (1%nat, [normalize_s 1 0 1 10]); (2%nat, [3])].
Proof. cbn. repeat split; try discriminate; auto. Qed.

(* ---- constructor: _sanity_checks as a decision function ---- *)
Theorem C15_sanity_accepts_iff : forall s keys,
  ctor_accepts true s keys = true <->
  (exists ks, s = SDict ks /\ forall k, In k (effective_keys s keys) -> exists w, kget k ks None = Some w) \/
  (exists w, s = SBox w /\ keys = None).
Proof. exact sanity_accepts_iff. Qed.
Print Assumptions C15_sanity_accepts_iff.

Theorem C15_sanity_off_accepts_all : forall s keys, ctor_accepts false s keys = true.
Proof. exact ctor_norm_obs_off. Qed.
Print Assumptions C15_sanity_off_accepts_all.

(* the decision structure regenerated from __init__ / _sanity_checks computes the model's decision *)
Theorem C15_sanity_fragments : forall s keys norm_obs,
  sanity_frag s keys = sanity_accepts s keys /\
  (if vnk_ctor_checks_guard norm_obs then sanity_frag s keys else true) = ctor_accepts norm_obs s keys.
Proof. exact frag_sanity. Qed.
Print Assumptions C15_sanity_fragments.

Example C15_sanity_example :
  let ks := [(0, Some 2); (1, None); (2, Some 3)]%nat in
  ctor_accepts true (SDict ks) (Some [0; 2]%nat) = true /\ ctor_accepts true (SDict ks) None = false /\
  ctor_accepts true (SDict ks) (Some [1%nat]) = false /\ ctor_accepts true (SDict ks) (Some [7%nat]) = false /\
  ctor_accepts true (SBox 2) (Some [0%nat]) = false /\ ctor_accepts true (SBox 2) None = true /\ ctor_accepts true SOther None = false /\
  ctor_accepts false SOther (Some [0%nat]) = true.
Proof. repeat split. Qed.

(* the key loops of step_wait / reset / normalize_obs / unnormalize_obs: loop source, updated / replaced / read entry, all the same key *)
Theorem C15_key_loop_fragments : forall a b,
  vnk_step_dict_guard a b = a && b /\ vnk_reset_dict_guard a b = a && b /\
  (vnk_step_loop_source, vnk_step_update_stat_key, vnk_step_update_obs_key) = (1, 1, 1)%Z /\
  (vnk_reset_loop_source, vnk_reset_update_stat_key, vnk_reset_update_obs_key) = (1, 1, 1)%Z /\
  vnk_norm_dict_guard a b = a && b /\ vnk_unnorm_dict_guard a b = a && b /\ vnk_unnorm_guard a = a /\
  (vnk_norm_loop_source, vnk_norm_target_key, vnk_norm_source_key, vnk_norm_stat_key) = (1, 1, 1, 1)%Z /\
  (vnk_unnorm_loop_source, vnk_unnorm_target_key, vnk_unnorm_source_key, vnk_unnorm_stat_key) = (1, 1, 1, 1)%Z.
Proof. exact frag_key_loops. Qed.
Print Assumptions C15_key_loop_fragments.

(* ---- pickle round trip + set_venv on the keyed model: statistics of every key, the key selection, flags, ret_rms preserved;
   returns = zeros of the NEW n_envs; a wrapper that already has a venv refuses; a legacy pickle gets all keys of its Dict space;
   the loaded wrapper goes on, key by key, like the single-array model started from the loaded state ---- *)
Theorem C15_keyed_pickle_preserves : forall st n,
  k_rms (kunpickle_pickle st n) = k_rms st /\ k_keys (kunpickle_pickle st n) = k_keys st /\
  k_old_obs (kunpickle_pickle st n) = k_old_obs st /\
  v_ret_rms (k_base (kunpickle_pickle st n)) = v_ret_rms (k_base st) /\
  v_training (k_base (kunpickle_pickle st n)) = v_training (k_base st) /\
  v_norm_obs (k_base (kunpickle_pickle st n)) = v_norm_obs (k_base st) /\
  v_norm_reward (k_base (kunpickle_pickle st n)) = v_norm_reward (k_base st) /\
  v_returns (k_base (kunpickle_pickle st n)) = repeat 0 n /\
  (forall k, v_obs_rms (proj k (kunpickle_pickle st n)) = v_obs_rms (proj k st)).
Proof. exact keyed_pickle_preserves. Qed.
Print Assumptions C15_keyed_pickle_preserves.

Theorem C15_keyed_set_venv : forall has st n,
  kset_venv has st n = if vnk_set_venv_refuse_guard (negb has) true then None else Some (kunpickle_pickle st n).
Proof. exact keyed_set_venv. Qed.
Print Assumptions C15_keyed_set_venv.

Theorem C15_setstate_fragments : forall missing is_dict s keys,
  vnk_setstate_legacy_guard missing is_dict = missing && is_dict /\
  (vnk_setstate_legacy_source, vnk_set_venv_num_envs_source, vnk_set_venv_returns_len) = (1, 1, 1)%Z /\
  ksetstate_keys s (Some keys) = keys /\ (forall ks, ksetstate_keys (SDict ks) None = map fst ks).
Proof. exact frag_setstate. Qed.
Print Assumptions C15_setstate_fragments.

Theorem C15_keyed_loaded_continues : forall upd red p st n h k,
  proj k (kvn_run upd red p (kunpickle_pickle st n) h)
  = vn_run upd red (projp p (length (kget k (k_rms st) []))) (unpickle_pickle (proj k st) n) (map (proj_op k) h).
Proof. exact keyed_loaded_continues. Qed.
Print Assumptions C15_keyed_loaded_continues.
