(* C18 - episode statistics from Monitor, VecMonitor and evaluate_policy are exact.
   Only statements: every proof is [exact <lemma>], followed by Print Assumptions. *)
From Coq Require Import ZArith List Bool.
From SB3V Require Import Gen.Frag_monitor Model.Script Model.Monitor Model.Evaluate Proofs.MonitorProofs Proofs.EvaluateProofs.
Import ListNotations.
Local Open Scope Z_scope.

(* ---- Monitor: any history of steps and resets (refused ones included), then one more step ---- *)
Theorem C18_monitor_episode_info : forall allow pre r te tr,
  let '(s, outs) := mon_run allow m0 pre in
  let rs := since_reset [] (accepted pre outs) ++ [r] in
  snd (mon_op allow s (MStep r te tr)) =
  if m_needs_reset s then MErrStep
  else MInfo (if te || tr then Some (zsum rs, zlen rs) else None).
Proof. exact monitor_episode_info. Qed.
Print Assumptions C18_monitor_episode_info.

Example C18_monitor_example :
  (* reset, two steps, an early reset (abandons 1+2), three steps ending the episode: info = (4+5+6, 3);
     a further step is refused *)
  snd (mon_run true m0 [MReset; MStep 1 false false; MStep 2 false false; MReset;
                        MStep 4 false false; MStep 5 false false; MStep 6 false true; MStep 7 false false])
  = [MResetOk; MInfo None; MInfo None; MResetOk; MInfo None; MInfo None; MInfo (Some (15, 3)); MErrStep].
Proof. reflexivity. Qed.

Theorem C18_monitor_needs_reset_after_end : forall allow s r te tr,
  m_needs_reset s = false -> te || tr = true ->
  m_needs_reset (fst (mon_op allow s (MStep r te tr))) = true.
Proof. exact monitor_needs_reset_after_end. Qed.
Print Assumptions C18_monitor_needs_reset_after_end.

Theorem C18_monitor_reset_allowed : forall allow s,
  snd (mon_op allow s MReset) = if negb allow && negb (m_needs_reset s) then MErrReset else MResetOk.
Proof. exact monitor_reset_allowed. Qed.
Print Assumptions C18_monitor_reset_allowed.

(* PARTIAL: the rows handed to the results writer are exactly the reported episodes, in order.  The CSV text, pandas'
   reader, the sort by t and the merge of several files in load_results are NOT modelled (load_rows is the list of rows
   itself); they are exercised by the correspondence under a strictly increasing fake clock only *)
Theorem C18_file_rows_are_episodes_in_order_partial : forall allow ops,
  load_rows (fst (mon_run allow m0 ops)) = infos_of (snd (mon_run allow m0 ops)).
Proof. exact file_rows_are_episodes_in_order_partial. Qed.
Print Assumptions C18_file_rows_are_episodes_in_order_partial.

(* the executable wrapper-around-a-scripted-env that the correspondence validates is mon_run on the operations the
   wrapper lets through *)
Theorem C18_mon_env_run_is_mon_run : forall allow sc ops c s,
  mon_env_run allow sc c s ops = mon_run allow s (mops_of allow sc c s ops).
Proof. exact mon_env_run_is_mon_run. Qed.
Print Assumptions C18_mon_env_run_is_mon_run.

(* the model's step is the one assembled from the statements regenerated from monitor.py *)
Theorem C18_monitor_fragments : forall allow s r te tr,
  m_needs_reset s = false -> mon_ends te tr = true ->
  let rs := m_rewards s ++ [r] in
  let '(nr, ep_rew, ep_len) := mon_end_state (zsum rs) (zlen rs) in
  mon_op allow s (MStep r te tr)
  = (mk_m rs nr (m_rows s ++ [(ep_rew, ep_len)]) (mon_total_steps (m_total s)), MInfo (Some (ep_rew, ep_len))).
Proof. exact frag_mon_end_state. Qed.
Print Assumptions C18_monitor_fragments.

Theorem C18_monitor_guard_fragments : forall a n te tr,
  mon_reset_refused a n = reset_refused a n /\ mon_step_refused n = step_refused n /\ mon_ends te tr = ends te tr
  /\ mon_reset_state = false.
Proof. exact frag_mon_guards. Qed.
Print Assumptions C18_monitor_guard_fragments.

(* ---- VecMonitor: any column history (steps, episode ends, vector resets), then one more step ---- *)
Theorem C18_vecmonitor_episode_info : forall pre r d,
  let a := fst (vm_env_run v0 pre) in
  let rs := since_boundary [] pre ++ [r] in
  snd (vm_env_step a r d) = if d then Some (zsum rs, zlen rs) else None.
Proof. exact vecmonitor_episode_info. Qed.
Print Assumptions C18_vecmonitor_episode_info.

Example C18_vecmonitor_example :
  snd (vm_env_run v0 [Some (1, false); Some (2, true); Some (3, false); None; Some (4, false); Some (5, true)])
  = [None; Some (3, 2); None; None; None; Some (9, 2)].
Proof. reflexivity. Qed.

Theorem C18_vecmonitor_env_independent : forall accs cells i a c,
  nth_error accs i = Some a -> nth_error cells i = Some c ->
  nth_error (fst (vm_vec_step accs cells)) i = Some (fst (vm_env_step a (fst c) (snd c))) /\
  nth_error (snd (vm_vec_step accs cells)) i = Some (snd (vm_env_step a (fst c) (snd c))).
Proof. exact vm_vec_step_proj. Qed.
Print Assumptions C18_vecmonitor_env_independent.

Theorem C18_vecmonitor_file_rows : forall ops st,
  snd (fst (vm_vec_run st ops)) = snd st ++ flat_map somes (snd (vm_vec_run st ops)).
Proof. exact vm_rows_inv. Qed.
Print Assumptions C18_vecmonitor_file_rows.

Theorem C18_vecmonitor_fragments : forall a r d,
  vm_env_step a r d =
  let '(ret, len) := vm_acc (v_ret a) (v_len a) r in
  if vm_done d
  then (let '(z1, z2) := vm_restart in mk_v z1 z2, Some (vm_report ret len))
  else (mk_v ret len, None).
Proof. exact frag_vm_step. Qed.
Print Assumptions C18_vecmonitor_fragments.

(* ---- evaluate_policy ---- *)
(* quotas, as regenerated from evaluation.py: sum to n, differ by at most one *)
Theorem C18_targets_sum : forall n k, 0 <= n -> (0 < k)%nat ->
  zsum (map (fun i => ev_quota n (Z.of_nat i) (Z.of_nat k)) (seq 0 k)) = n.
Proof. exact targets_sum_gen. Qed.
Print Assumptions C18_targets_sum.

Theorem C18_targets_balanced : forall n k i j, (i < k)%nat -> (j < k)%nat ->
  nth i (targets n k) 0 - nth j (targets n k) 0 <= 1.
Proof. exact targets_balanced. Qed.
Print Assumptions C18_targets_balanced.

Example C18_targets_example : targets 5 3 = [1; 2; 2] /\ targets 2 4 = [0; 0; 1; 1] /\ targets 0 2 = [0; 0].
Proof. repeat split. Qed.

Theorem C18_evaluate_step_fragments : forall mon target s c,
  ev_env_step mon target s c =
  let '(r, l) := ev_acc (e_r s) (e_l s) (c_r c) in
  if ev_under_quota (e_count s) target then
    if ev_done (c_done c) then
      let '(z1, z2) := ev_restart in
      if mon then match c_ep c with
                  | Some ep => (mk_e (e_count s + 1) z1 z2, [ep])
                  | None => (mk_e (e_count s) z1 z2, [])
                  end
      else (mk_e (e_count s + 1) z1 z2, [(r, l)])
    else (mk_e (e_count s) r l, [])
  else (mk_e (e_count s) r l, []).
Proof. exact frag_ev_env_step. Qed.
Print Assumptions C18_evaluate_step_fragments.

(* whenever the loop stops: exactly n results; the results attributed to sub-environment i are its first
   quota_i completed episodes of the whole stream (any cells: unequal lengths, fewer episodes than envs,
   episodes completed past the quota are not counted), and it did complete that many *)
Theorem C18_evaluate_returns_exactly_n : forall mon n k steps sts out,
  0 <= n -> (0 < k)%nat ->
  evaluate mon n k steps = (sts, out, true) ->
  zlen out = n /\
  forall i, (i < k)%nat ->
    proj i out = take (quota n (Z.of_nat i) (Z.of_nat k)) (episodes_from mon 0 0 (column i steps)) /\
    quota n (Z.of_nat i) (Z.of_nat k) <= zlen (episodes_from mon 0 0 (column i steps)).
Proof. exact evaluate_returns_exactly_n. Qed.
Print Assumptions C18_evaluate_returns_exactly_n.

(* "true return and length": without a monitor the episodes are (sum, count) of the rewards between ends *)
Theorem C18_episodes_are_sums : forall col cur,
  episodes_from false (zsum cur) (zlen cur) col = map ep_of (split_done cur col).
Proof. exact episodes_nomon_are_sums. Qed.
Print Assumptions C18_episodes_are_sums.

Example C18_evaluate_example :
  (* two sub-environments of unequal episode length, n = 3: quotas [1; 2]; env 0 finishes two episodes
     but only its first is taken *)
  let c r d := mk_cell r d None in
  evaluate false 3 2 [[c 1 true; c 1 false]; [c 2 true; c 1 false]; [c 3 false; c 1 true]; [c 4 true; c 2 false];
                      [c 9 true; c 2 true]; [c 9 true; c 9 true]]
  = ([mk_e 1 18 4; mk_e 2 0 0], [(0%nat, (1, 1)); (1%nat, (3, 3)); (1%nat, (4, 2))], true).
Proof. reflexivity. Qed.

(* ---- review items: the monitor-aware branch of evaluate_policy (lost lives), Monitor o evaluate ---- *)
Theorem C18_evaluate_monitor_branch_fragments : forall target s c,
  ev_env_step true target s c =
  let '(r, l) := ev_acc (e_r s) (e_l s) (c_r c) in
  if ev_under_quota (e_count s) target then
    if ev_done (c_done c) then
      let '(z1, z2) := ev_restart in
      if ev_monitor_branch true then
        (if ev_has_episode (match c_ep c with Some _ => true | None => false end) (match c_ep c with Some _ => false | None => true end)
         then match c_ep c with Some ep => (mk_e (ev_count_mon (e_count s)) z1 z2, [ep]) | None => (mk_e (e_count s) z1 z2, []) end
         else (mk_e (e_count s) z1 z2, []))
      else (mk_e (ev_count_nomon (e_count s)) z1 z2, [(r, l)])
    else (mk_e (e_count s) r l, [])
  else (mk_e (e_count s) r l, []).
Proof. exact frag_ev_env_step_monitor. Qed.
Print Assumptions C18_evaluate_monitor_branch_fragments.

Theorem C18_life_loss_not_counted : forall target s c, c_done c = true -> c_ep c = None ->
  snd (ev_env_step true target s c) = [] /\ e_count (fst (ev_env_step true target s c)) = e_count s.
Proof. exact life_loss_not_counted. Qed.
Print Assumptions C18_life_loss_not_counted.

Theorem C18_episodes_monitor_are_true : forall col a cr cl,
  mon_consistent a col = true ->
  episodes_from true cr cl (map fst col) = true_episodes (v_ret a) (v_len a) col.
Proof. exact episodes_monitor_are_true. Qed.
Print Assumptions C18_episodes_monitor_are_true.

Example C18_life_loss_example :
  let c r d e := mk_cell r d e in
  evaluate true 1 1 [[c 1 true None]; [c 2 true (Some (3, 2))]] = ([mk_e 1 0 0], [(0%nat, (3, 2))], true) /\
  mon_consistent v0 [(c 1 true None, false); (c 2 true (Some (3, 2)), true)] = true.
Proof. split; reflexivity. Qed.

(* ---- load_results over several monitor files (seeded change C18_4): each file's rows are shifted by ITS OWN t_start ---- *)
Theorem C18_load_results_merge : forall (A : Type) (files : list (@mfile A)),
  Permutation.Permutation (sort_by_t (flat_map absolute_rows files)) (flat_map absolute_rows files) /\
  Sorted.StronglySorted le_t (sort_by_t (flat_map absolute_rows files)).
Proof. exact (fun A files => load_results_merge files). Qed.
Print Assumptions C18_load_results_merge.

Theorem C18_load_results_chronological : forall (A : Type) (l : list (Z * A)),
  Sorted.StronglySorted (fun a b => fst a < fst b) l -> sort_by_t l = l.
Proof. exact (fun A l => sort_sorted_id l). Qed.
Print Assumptions C18_load_results_chronological.

From Coq Require Import String.
Example C18_load_results_example :
  (* file 1 starts at 1000 with episodes at +5 and +30; file 2 starts at 1020 with episodes at +2 and +4: chronological = a, c, d, b.
     (sorting by the relative times, as the seeded change does, would give c, d, a, b) *)
  load_results_model [(1000, [(5, "a"%string); (30, "b"%string)]); (1020, [(2, "c"%string); (4, "d"%string)])]
  = ["a"%string; "c"%string; "d"%string; "b"%string].
Proof. reflexivity. Qed.
