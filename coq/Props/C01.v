(* C01 - VecEnv episode-boundary contract (auto-reset, terminal_observation, truncation, seeds/options).
   Only statements: every proof is [exact <lemma>], followed by Print Assumptions.
   All theorems are generic in the sub-environment (state E, observations O, actions A, infos I,
   options Opt) and in the number of sub-environments (arbitrary lists), and quantify over arbitrary
   op lists. *)
From Coq Require Import List ZArith Bool.
From SB3V Require Import Gen.Frag_vecenv Gen.Frag_seed Model.Script Model.VecEnv Model.OnPolicyCollect Model.VecAttr Proofs.VecEnvProofs Proofs.VecEnvTieProofs Proofs.VecAttrProofs Model.EnvUtil Proofs.EnvUtilProofs.
Import ListNotations.
Local Open Scope nat_scope.

(* --- the per-env loop body of the model is the one assembled from the regenerated formulas --- *)
Theorem C01_dummy_loop_body_is_regenerated : forall E O A I Opt
  (e_step : E -> A -> E * (O * Z * bool * bool * I)) (e_reset : E -> option Z -> option Opt -> E * (O * I)) e ri a,
  sub_step_with e_step e_reset dummy_done dummy_timelimit dummy_autoreset_guard e ri a = sub_step e_step e_reset e ri a.
Proof. exact (@sub_step_dummy_fragments). Qed.
Print Assumptions C01_dummy_loop_body_is_regenerated.

Theorem C01_worker_loop_body_is_regenerated : forall E O A I Opt
  (e_step : E -> A -> E * (O * Z * bool * bool * I)) (e_reset : E -> option Z -> option Opt -> E * (O * I)) e ri a,
  sub_step_with e_step e_reset worker_done worker_timelimit worker_autoreset_guard e ri a = sub_step e_step e_reset e ri a.
Proof. exact (@sub_step_worker_fragments). Qed.
Print Assumptions C01_worker_loop_body_is_regenerated.

(* --- own observation / reward / done, no cross-talk: the vector run projected on i is the run of
       sub-environment i alone on the i-th projection of the ops --- *)
Theorem C01_vec_projection : forall E O A I Opt
  (e_step : E -> A -> E * (O * Z * bool * bool * I)) (e_reset : E -> option Z -> option Opt -> E * (O * I))
  (i : nat) (ops : list (vop A Opt)) (vs : vstate E I Opt) (ss : sstate E I Opt) (sops : list (sop A Opt)),
  proj_state i vs = Some ss -> proj_ops i ops = Some sops ->
  map (proj_out i) (vrun e_step e_reset vs ops) = map Some (srun e_step e_reset ss sops).
Proof. exact (@vec_projection). Qed.
Print Assumptions C01_vec_projection.

Theorem C01_vec_projection_from_construction : forall E O A I Opt
  (e_step : E -> A -> E * (O * Z * bool * bool * I)) (e_reset : E -> option Z -> option Opt -> E * (O * I))
  (envs : list E) (ops : list (vop A Opt)) (i : nat) (e : E),
  nth_error envs i = Some e -> Forall (wf_vop (length envs)) ops ->
  exists sops, proj_ops i ops = Some sops /\
    map (proj_out i) (vrun e_step e_reset (vinit envs) ops) = map Some (srun e_step e_reset (sinit e) sops).
Proof. exact (@vec_projection_init). Qed.
Print Assumptions C01_vec_projection_from_construction.

(* --- auto-reset contract of one step, any sub-environment --- *)
Theorem C01_autoreset_contract : forall E O A I Opt
  (e_step : E -> A -> E * (O * Z * bool * bool * I)) (e_reset : E -> option Z -> option Opt -> E * (O * I))
  e ri a e1 obs r term trunc info e' ri' o c,
  e_step e a = (e1, (obs, r, term, trunc, info)) ->
  sub_step e_step e_reset e ri a = (e', ri', o, c) ->
  so_rew o = r /\ so_info o = info /\ so_done o = (term || trunc) /\ so_tl o = (trunc && negb term) /\
  ((term || trunc) = true ->
     exists obs2 ri2, e_reset e1 None None = (e', (obs2, ri2)) /\ so_obs o = obs2 /\
       so_term o = Some obs /\ ri' = Some ri2 /\ c = [CStep a; CReset None None]) /\
  ((term || trunc) = false ->
     e' = e1 /\ so_obs o = obs /\ so_term o = None /\ ri' = ri /\ c = [CStep a]).
Proof. exact (@sub_step_contract). Qed.
Print Assumptions C01_autoreset_contract.

(* --- the same contract in terms of the episode script: last observation of the finished episode,
       first observation of the next one, reset_infos of that reset --- *)
Theorem C01_autoreset_contract_scripted : forall sc c ri a e' ri' o calls,
  wf_script sc = true -> good sc c ->
  sub_step sc_step sc_reset (sc, c) ri a = (e', ri', o, calls) ->
  let ep := cur_episode sc c in
  let st := nth (c_pos c) (ep_steps ep) dummy_step in
  let nx := next_episode sc c in
  so_rew o = st_r4 st /\ so_info o = st_info st /\
  so_done o = (st_term st || st_trunc st) /\ so_tl o = (st_trunc st && negb (st_term st)) /\
  (if S (c_pos c) =? length (ep_steps ep)
   then
     so_done o = true /\ st = last (ep_steps ep) dummy_step /\ so_term o = Some (st_tag st) /\
     so_obs o = ep_reset_tag nx /\ ri' = Some (ep_reset_info nx) /\
     e' = (sc, mk_cursor (S (c_resets c)) 0) /\ calls = [CStep a; CReset None None]
   else
     so_done o = false /\ so_term o = None /\ so_obs o = st_tag st /\ ri' = ri /\
     e' = (sc, mk_cursor (c_resets c) (S (c_pos c))) /\ calls = [CStep a]) /\
  good sc (snd e').
Proof. exact scripted_autoreset_contract. Qed.
Print Assumptions C01_autoreset_contract_scripted.

Theorem C01_reset_scripted : forall sc c seed opt e' ri' obs calls,
  wf_script sc = true ->
  sub_reset (A:=Z) sc_reset (sc, c) seed opt = (e', ri', obs, calls) ->
  obs = ep_reset_tag (next_episode sc c) /\ ri' = Some (ep_reset_info (next_episode sc c)) /\
  e' = (sc, mk_cursor (S (c_resets c)) 0) /\ calls = [CReset seed opt] /\ good sc (snd e').
Proof. exact scripted_reset. Qed.
Print Assumptions C01_reset_scripted.

(* the hypothesis [good] of the scripted contract holds after the first reset and then along every
   history (any interleaving of reset / step / seed / set_options) *)
Theorem C01_contract_holds_along_every_history : forall ops ss,
  wf_script (fst (s_env ss)) = true ->
  sgood (sfinal sc_step sc_reset (fst (sapply sc_step sc_reset ss SReset)) ops).
Proof. exact sgood_history. Qed.
Print Assumptions C01_contract_holds_along_every_history.

(* --- seeds and options --- *)
Theorem C01_reset_receives_pending : forall E O A I Opt
  (e_step : E -> A -> E * (O * Z * bool * bool * I)) (e_reset : E -> option Z -> option Opt -> E * (O * I))
  (pre post : list (sop A Opt)) (st : sstate E I Opt),
  exists obs ri,
    nth_error (srun e_step e_reset st (pre ++ SReset :: post)) (length pre)
    = Some (SOReset obs ri [CReset (pending_seed (s_seed st) pre) (pending_opt (s_opt st) pre)]).
Proof. exact (@reset_delivery). Qed.
Print Assumptions C01_reset_receives_pending.

Theorem C01_seed_reaches_next_reset : forall E O A I Opt
  (e_step : E -> A -> E * (O * Z * bool * bool * I)) (e_reset : E -> option Z -> option Opt -> E * (O * I))
  (st : sstate E I Opt) (pre : list (sop A Opt)) s mid post,
  forallb not_seed mid = true -> forallb not_reset mid = true ->
  exists obs ri o,
    nth_error (srun e_step e_reset st ((pre ++ SSeed s :: mid) ++ SReset :: post)) (length (pre ++ SSeed s :: mid))
    = Some (SOReset obs ri [CReset (Some s) o]).
Proof. exact (@seed_reaches_next_reset). Qed.
Print Assumptions C01_seed_reaches_next_reset.

Theorem C01_options_reach_next_reset : forall E O A I Opt
  (e_step : E -> A -> E * (O * Z * bool * bool * I)) (e_reset : E -> option Z -> option Opt -> E * (O * I))
  (st : sstate E I Opt) (pre : list (sop A Opt)) o mid post,
  forallb not_opt mid = true -> forallb not_reset mid = true ->
  exists obs ri s,
    nth_error (srun e_step e_reset st ((pre ++ SSetOpt o :: mid) ++ SReset :: post)) (length (pre ++ SSetOpt o :: mid))
    = Some (SOReset obs ri [CReset s o]).
Proof. exact (@options_reach_next_reset). Qed.
Print Assumptions C01_options_reach_next_reset.

Theorem C01_seed_used_once : forall E O A I Opt
  (e_step : E -> A -> E * (O * Z * bool * bool * I)) (e_reset : E -> option Z -> option Opt -> E * (O * I))
  (st : sstate E I Opt) (pre mid post : list (sop A Opt)),
  forallb not_seed mid = true ->
  exists obs ri o,
    nth_error (srun e_step e_reset st ((pre ++ SReset :: mid) ++ SReset :: post)) (length (pre ++ SReset :: mid))
    = Some (SOReset obs ri [CReset None o]).
Proof. exact (@seed_used_once). Qed.
Print Assumptions C01_seed_used_once.

Theorem C01_options_used_once : forall E O A I Opt
  (e_step : E -> A -> E * (O * Z * bool * bool * I)) (e_reset : E -> option Z -> option Opt -> E * (O * I))
  (st : sstate E I Opt) (pre mid post : list (sop A Opt)),
  forallb not_opt mid = true ->
  exists obs ri s,
    nth_error (srun e_step e_reset st ((pre ++ SReset :: mid) ++ SReset :: post)) (length (pre ++ SReset :: mid))
    = Some (SOReset obs ri [CReset s None]).
Proof. exact (@options_used_once). Qed.
Print Assumptions C01_options_used_once.

(* a step hands over the env's own action; automatic resets carry neither seed nor options *)
Theorem C01_step_calls : forall E O A I Opt
  (e_step : E -> A -> E * (O * Z * bool * bool * I)) (e_reset : E -> option Z -> option Opt -> E * (O * I))
  (st : sstate E I Opt) a,
  calls_of (snd (sapply e_step e_reset st (SStep a))) = [CStep a] \/
  calls_of (snd (sapply e_step e_reset st (SStep a))) = [CStep a; CReset None None].
Proof. exact (@step_calls). Qed.
Print Assumptions C01_step_calls.

(* vector level: seed(s) ... reset() delivers exactly seed_vecenv_elt s i - the element expression `seed + idx` regenerated from
   VecEnv.seed (fragment group seed) - to sub-environment i *)
Theorem C01_vec_seed_delivery : forall E O A I Opt
  (e_step : E -> A -> E * (O * Z * bool * bool * I)) (e_reset : E -> option Z -> option Opt -> E * (O * I))
  (envs : list E) i e (pre : list (vop A Opt)) s mid post,
  nth_error envs i = Some e ->
  Forall (wf_vop (length envs)) ((pre ++ VSeed s :: mid) ++ VReset :: post) ->
  forallb vquiet mid = true ->
  exists out obs ri o,
    nth_error (vrun e_step e_reset (vinit envs) ((pre ++ VSeed s :: mid) ++ VReset :: post)) (length (pre ++ VSeed s :: mid)) = Some out /\
    proj_out i out = Some (SOReset obs ri [CReset (Some (seed_vecenv_elt s (Z.of_nat i))) o]).
Proof. exact (@vec_seed_delivery_regenerated). Qed.
Print Assumptions C01_vec_seed_delivery.

Theorem C01_seed_list_is_regenerated : forall E O A I Opt
  (e_step : E -> A -> E * (O * Z * bool * bool * I)) (e_reset : E -> option Z -> option Opt -> E * (O * I)) (vs : vstate E I Opt) s,
  v_seeds (fst (vapply e_step e_reset vs (VSeed s))) = map (fun idx => Some (seed_vecenv_elt s (Z.of_nat idx))) (seq 0 (num_envs vs)).
Proof. exact (@vseed_is_regenerated). Qed.
Print Assumptions C01_seed_list_is_regenerated.

(* --- the per-env auto-reset step duplicated in Model/OnPolicyCollect.v (vstep1, used by C04/C06) is the
       projection of sub_step on the scripted sub-environment --- *)
Theorem C01_onpolicy_vstep1_is_sub_step : forall (sc : script) (c : cursor) (ri : option Z) (a : Z),
  let r := sub_step sc_step sc_reset (sc, c) ri a in
  let o := snd (fst r) in
  let v := snd (vstep1 sc c) in
  fst (fst (fst r)) = (sc, fst (vstep1 sc c)) /\
  so_obs o = vo_obs v /\ so_rew o = vo_r4 v /\ so_done o = vo_done v /\
  so_term o = vo_term v /\ so_tl o = vo_tl v /\
  vo_done v = (vo_terminated v || vo_truncated v) /\ vo_tl v = (vo_truncated v && negb (vo_terminated v)).
Proof. exact vstep1_is_sub_step. Qed.
Print Assumptions C01_onpolicy_vstep1_is_sub_step.

(* --- VecEnvWrapper base: attribute lookup through any chain of wrappers --- *)
Theorem C01_wrapper_getattr_spec : forall name layers base,
  wrapper_getattr name layers base =
  match holders name 0 layers base with
  | [] => NoAttribute
  | [(_, v)] => Value v
  | _ :: (d2, _) :: _ => Ambiguous d2
  end.
Proof. exact wrapper_getattr_spec. Qed.
Print Assumptions C01_wrapper_getattr_spec.

Theorem C01_py_getattr_spec : forall name l inner base,
  py_getattr name (l :: inner) base =
  match find name l with
  | Some v => Value v
  | None => match holders name 1 inner base with
            | [] => NoAttribute
            | [(_, v)] => Value v
            | _ :: (d2, _) :: _ => Ambiguous d2
            end
  end.
Proof. exact py_getattr_spec. Qed.
Print Assumptions C01_py_getattr_spec.

Theorem C01_holders_outermost_first : forall name layers base d,
  Sorted.StronglySorted (fun a b => fst a < fst b) (holders name d layers base) /\
  Forall (fun a => d <= fst a <= d + length layers) (holders name d layers base).
Proof. exact holders_sorted. Qed.
Print Assumptions C01_holders_outermost_first.

(* --- env_util.py: unwrap_wrapper / is_wrapped (also vec_env.unwrap_vec_wrapper / is_vecenv_wrapped: the same loop
       over .venv) and make_vec_env --- *)
Theorem C01_unwrap_outermost : forall (L : Type) (is_inst : L -> bool) chain l,
  unwrap is_inst chain = Some l <->
  exists pre post, chain = pre ++ l :: post /\ is_inst l = true /\ forallb (fun x => negb (is_inst x)) pre = true.
Proof. exact (@unwrap_outermost). Qed.
Print Assumptions C01_unwrap_outermost.

Theorem C01_unwrap_none_and_is_wrapped : forall (L : Type) (is_inst : L -> bool) chain,
  (unwrap is_inst chain = None <-> forallb (fun x => negb (is_inst x)) chain = true) /\
  is_wrapped is_inst chain = existsb is_inst chain.
Proof. exact (fun L is_inst chain => conj (unwrap_none is_inst chain) (is_wrapped_spec is_inst chain)). Qed.
Print Assumptions C01_unwrap_none_and_is_wrapped.

Theorem C01_make_vec_env_envs : forall n seed drawn start dir wc i,
  i < n ->
  let d := nth i (fst (make_vec_env n seed drawn start dir wc)) (mk_desc 0 None []) in
  length (fst (make_vec_env n seed drawn start dir wc)) = n /\
  d_rank d = i + start /\
  d_action_seed d = match seed with Some s => Some (s + Z.of_nat (i + start))%Z | None => None end /\
  unwrap is_monitor (d_layers d) = Some (GMonitor (match dir with Some x => Some (x, i + start) | None => None end)) /\
  d_layers d = (match wc with Some c => [GWrapper c] | None => [] end)
               ++ [GMonitor (match dir with Some x => Some (x, i + start) | None => None end)].
Proof. exact make_vec_env_envs. Qed.
Print Assumptions C01_make_vec_env_envs.

Theorem C01_make_vec_env_monitor_files_distinct : forall n seed drawn start dir wc i j,
  i < n -> j < n -> i <> j ->
  d_rank (nth i (fst (make_vec_env n seed drawn start dir wc)) (mk_desc 0 None []))
  <> d_rank (nth j (fst (make_vec_env n seed drawn start dir wc)) (mk_desc 0 None [])).
Proof. exact make_vec_env_monitor_files_distinct. Qed.
Print Assumptions C01_make_vec_env_monitor_files_distinct.

(* make_vec_env ends with vec_env.seed(seed): through C01_vec_seed_delivery the first reset() gives seed + i to env i *)
Theorem C01_make_vec_env_first_reset_seeds : forall E O A I Opt
  (e_step : E -> A -> E * (O * Z * bool * bool * I)) (e_reset : E -> option Z -> option Opt -> E * (O * I))
  (envs : list E) seed drawn start dir wc i e (mid post : list (vop A Opt)),
  nth_error envs i = Some e ->
  let s := snd (make_vec_env (length envs) seed drawn start dir wc) in
  Forall (wf_vop (length envs)) (([] ++ VSeed s :: mid) ++ VReset :: post) ->
  forallb vquiet mid = true ->
  exists out obs ri o,
    nth_error (vrun e_step e_reset (vinit envs) (([] ++ VSeed s :: mid) ++ VReset :: post)) (length ([] ++ VSeed s :: mid)) = Some out /\
    proj_out i out = Some (SOReset obs ri [CReset (Some (match seed with Some x => x | None => drawn end + Z.of_nat i)%Z) o]).
Proof. exact (@make_vec_env_first_reset_seeds). Qed.
Print Assumptions C01_make_vec_env_first_reset_seeds.

(* ---------- non-vacuity: the hypotheses are satisfiable on concrete, non-trivial data ---------- *)
Definition ex_sc1 : script :=
  [mk_episode 10 1 [mk_sstep 11 (-3) false false 5; mk_sstep 12 4 true true 6]; mk_episode 20 2 [mk_sstep 21 1 false true 7]].
Definition ex_sc2 : script := [mk_episode 30 3 [mk_sstep 31 0 true false 8]].
Definition ex_ops : list (vop Z Z) :=
  [VSeed 5; VSetOptionsAll (Some 9%Z); VReset; VStep [100; 101]%Z; VStep [102; 103]%Z; VReset;
   VSetOptions [None; Some 4%Z]; VReset].

Example ex_wf : wf_script ex_sc1 = true /\ wf_script ex_sc2 = true.
Proof. split; reflexivity. Qed.

Example ex_ops_wf : Forall (wf_vop 2) ex_ops.
Proof. repeat constructor. Qed.

(* env 1 (script 2, one-step episodes): both steps end an episode: obs 30 is the next episode's first
   observation, terminal observation 31, not a time-limit truncation; seed 5+1 arrives once *)
Example ex_projection :
  map (proj_out 1) (vrun sc_step sc_reset (vinit [(ex_sc1, cursor0); (ex_sc2, cursor0)]) ex_ops)
  = map Some
      [SOSeed (Some 6%Z); SONone; SOReset 30%Z (Some 3%Z) [CReset (Some 6%Z) (Some 9%Z)];
       SOStep (mk_sout 30%Z 0%Z true 8%Z false (Some 31%Z)) (Some 3%Z) [CStep 101%Z; CReset None None];
       SOStep (mk_sout 30%Z 0%Z true 8%Z false (Some 31%Z)) (Some 3%Z) [CStep 103%Z; CReset None None];
       SOReset 30%Z (Some 3%Z) [CReset None None]; SONone;
       SOReset 30%Z (Some 3%Z) [CReset None (Some 4%Z)]].
Proof. vm_compute. reflexivity. Qed.

(* env 0: terminated and truncated together at its second step: TimeLimit.truncated = false *)
Example ex_both_flags :
  nth_error (map (proj_out 0) (vrun sc_step sc_reset (vinit [(ex_sc1, cursor0); (ex_sc2, cursor0)]) ex_ops)) 4
  = Some (Some (SOStep (mk_sout 20%Z 4%Z true 6%Z false (Some 12%Z)) (Some 2%Z) [CStep 102%Z; CReset None None])).
Proof. vm_compute. reflexivity. Qed.

Example ex_good : good ex_sc1 (mk_cursor 1 1) /\ good ex_sc1 (mk_cursor 2 0).
Proof. split; split; cbn; auto. Qed.

Example ex_quiet : forallb (@vquiet Z Z) [VSetOptionsAll (Some 9%Z)] = true /\
                   forallb (@not_seed Z Z) [SStep 1%Z; SSetOpt None] = true.
Proof. split; reflexivity. Qed.

(* attribute 7 lives in wrapper 1 and in the base VecEnv: lookup from the outermost wrapper (0) is refused and
   names the base (index 3) as the hidden one; attribute 8 has one holder; attribute 9 none *)
Example ex_getattr :
  py_getattr 7%Z [[(5, 50)]; [(7, 70)]; []]%Z [(7, 71); (8, 80)]%Z = Ambiguous 3 /\
  py_getattr 8%Z [[(5, 50)]; [(7, 70)]; []]%Z [(7, 71); (8, 80)]%Z = Value 80%Z /\
  py_getattr 9%Z [[(5, 50)]; [(7, 70)]; []]%Z [(7, 71); (8, 80)]%Z = NoAttribute /\
  py_getattr 7%Z [[(7, 70)]; [(7, 72)]]%Z [(7, 71)]%Z = Value 70%Z.
Proof. repeat split; reflexivity. Qed.

Example ex_make_vec_env :
  make_vec_env 2 (Some 10%Z) 0%Z 3 (Some 77%Z) (Some 5%Z)
  = ([mk_desc 3 (Some 13%Z) [GWrapper 5%Z; GMonitor (Some (77%Z, 3))]; mk_desc 4 (Some 14%Z) [GWrapper 5%Z; GMonitor (Some (77%Z, 4))]], 10%Z) /\
  unwrap (fun l => match l with GWrapper c => Z.eqb c 5 | _ => false end) [GWrapper 4%Z; GWrapper 5%Z; GMonitor None; GWrapper 5%Z] = Some (GWrapper 5%Z).
Proof. split; reflexivity. Qed.

(* ===================== build round 5: observation plumbing (Model/ObsBuf.v) and index dispatch ===================== *)
From SB3V Require Import Gen.Frag_obsbuf Model.ObsBuf Proofs.ObsBufProofs.

(* (a) _save_obs(i, o): row i of every key of the space holds o's component for that key, every other row is unchanged -
       for every leaf type, space (plain / any Dict key list / any Tuple arity), n_envs and any buffer reached before *)
Theorem C01_save_obs_writes_only_row_i : forall (V : Type) (dV : V) sp n (b : buf V) i o key j,
  wf_buf sp n b -> i < n -> In key (obs_space_info sp) ->
  nth j (buf_get (save_obs dV (obs_space_info sp) b i o) key) dV =
  if Nat.eqb j i then save_value dV key o else nth j (buf_get b key) dV.
Proof. exact save_obs_rows. Qed.
Print Assumptions C01_save_obs_writes_only_row_i.

(* (b) after ANY write history, saving the observations l of all envs and reading the buffer returns, per key, the stack of the
       per-env components in env order, in the container of the space kind - exactly what SubprocVecEnv's _stack_obs builds *)
Theorem C01_obs_from_buf_is_stack_of_own_observations : forall (V : Type) (dV : V) sp n (h : list (wop V)) (l : list (obs V)),
  wf_space sp -> length l = n ->
  let b := fst (wrun_init dV sp n h) in
  obs_from_buf sp (save_all dV (obs_space_info sp) b 0 l) = stack_obs dV sp l /\
  batch_kind (obs_from_buf sp (save_all dV (obs_space_info sp) b 0 l)) = kind_of sp.
Proof. exact dummy_stack_agrees_with_subproc. Qed.
Print Assumptions C01_obs_from_buf_is_stack_of_own_observations.

(* (c) value semantics with explicit buffer versions: the batch returned by a read inside any history is the value of the buffer
       version at that moment; the writes h2 that follow do not change it (nor any batch returned before) *)
Theorem C01_returned_batch_is_a_copy : forall (V : Type) (dV : V) sp (b : buf V) h1 h2,
  snd (wrun dV sp b (h1 ++ WSnap :: h2)) =
  snd (wrun dV sp b h1) ++ obs_from_buf sp (fst (wrun dV sp b h1)) :: snd (wrun dV sp (fst (wrun dV sp b h1)) h2).
Proof. exact snapshot_is_a_copy. Qed.
Print Assumptions C01_returned_batch_is_a_copy.

Theorem C01_earlier_batches_do_not_depend_on_later_writes : forall (V : Type) (dV : V) sp (b : buf V) h1 h2,
  firstn (length (snd (wrun dV sp b h1))) (snd (wrun dV sp b (h1 ++ h2))) = snd (wrun dV sp b h1).
Proof. exact snapshots_prefix. Qed.
Print Assumptions C01_earlier_batches_do_not_depend_on_later_writes.

(* the key dispatch of the model is the regenerated one *)
Theorem C01_save_obs_dispatch_is_regenerated : forall (V : Type) (dV : V) key (o : obs V),
  save_value_with dV (fun k => save_guard k true) key o = save_value dV key o.
Proof. exact frag_save_value. Qed.
Print Assumptions C01_save_obs_dispatch_is_regenerated.

Theorem C01_save_obs_loop_and_subscripts_are_regenerated :
  save_loop_source = 1%Z /\ save_plain_bufkey = 1%Z /\ save_plain_row = 1%Z /\ save_plain_value = 1%Z /\
  save_item_bufkey = 1%Z /\ save_item_row = 1%Z /\ save_item_value = 2%Z /\ ofb_return = 1%Z.
Proof. exact frag_save_codes. Qed.
Print Assumptions C01_save_obs_loop_and_subscripts_are_regenerated.

Theorem C01_dict_to_obs_dispatch_is_regenerated : forall (V : Type) sp (b : buf V),
  dict_to_obs_code (dto_code (is_dict sp) (is_tuple sp)) sp b = dict_to_obs sp b.
Proof. exact frag_dict_to_obs. Qed.
Print Assumptions C01_dict_to_obs_dispatch_is_regenerated.

Theorem C01_obs_space_info_dispatch_is_regenerated : forall sp,
  obs_space_info_code (osi_code (is_dict sp) (is_tuple sp)) sp = obs_space_info sp /\
  osi_loop_source = 1%Z /\ osi_appended = 1%Z /\ osi_return = 1%Z.
Proof. exact frag_obs_space_info. Qed.
Print Assumptions C01_obs_space_info_dispatch_is_regenerated.

Theorem C01_stack_obs_dispatch_is_regenerated : forall (V : Type) (dV : V) sp (l : list (obs V)),
  stack_obs_code dV (stk_code (is_dict sp) (is_tuple sp)) sp l = stack_obs dV sp l /\ stk_tuple_len = 1%Z.
Proof. exact frag_stack_obs. Qed.
Print Assumptions C01_stack_obs_dispatch_is_regenerated.

(* VecEnv._get_indices: None -> range(num_envs), int -> [i], anything else kept *)
Theorem C01_get_indices_is_regenerated : forall n ix,
  indices_of_code (gi_code ix) n ix = get_indices n ix /\ gi_return = 1%Z.
Proof. exact frag_get_indices. Qed.
Print Assumptions C01_get_indices_is_regenerated.

Theorem C01_indexed_methods_use_get_indices :
  gte_indices = 1%Z /\ gte_return = 1%Z /\ get_attr_targets = 1%Z /\ get_attr_return = 1%Z /\ set_attr_targets = 1%Z /\
  set_attr_loop_source = 1%Z /\ set_attr_receiver = 1%Z /\ env_method_targets = 1%Z /\ env_method_return = 1%Z /\
  is_wrapped_targets = 1%Z /\ is_wrapped_return = 1%Z.
Proof. exact frag_indexed_methods. Qed.
Print Assumptions C01_indexed_methods_use_get_indices.

(* get_attr / set_attr / env_method / env_is_wrapped with indices ix (any per-env handler f): the sub-environments touched are
   exactly the positions of _get_indices(ix), in that order, repetitions included; an untouched sub-environment keeps its state;
   sub-environment j sees as many calls as j occurs among the targets, each on the state its previous call left *)
Theorem C01_indexed_call_touches_get_indices : forall (W R : Type) (f : W -> W * R) sts ix ts,
  target_envs (length sts) ix = Some ts ->
  indexed_call f sts ix = Some (call_loop f sts ts) /\
  map fst (snd (call_loop f sts ts)) = ts /\
  length (fst (call_loop f sts ts)) = length sts /\
  (forall j, ~ In j ts -> nth_error (fst (call_loop f sts ts)) j = nth_error sts j) /\
  (forall j s, nth_error sts j = Some s ->
     nth_error (fst (call_loop f sts ts)) j = Some (fst (iter_calls f s (count_occ Nat.eq_dec ts j))) /\
     map snd (filter (fun p => Nat.eqb (fst p) j) (snd (call_loop f sts ts))) = snd (iter_calls f s (count_occ Nat.eq_dec ts j))).
Proof. exact indexed_call_touches_get_indices. Qed.
Print Assumptions C01_indexed_call_touches_get_indices.

(* what the code does with negative / out-of-range indices: self.envs[i] is Python list indexing *)
Theorem C01_target_positions : forall n,
  target_envs n INone = Some (seq 0 n) /\
  (forall i, (0 <= i < Z.of_nat n)%Z -> target_envs n (IInt i) = Some [Z.to_nat i]) /\
  (forall i, (- Z.of_nat n <= i < 0)%Z -> target_envs n (IInt i) = Some [n - Z.to_nat (- i)]) /\
  (forall i, (i < - Z.of_nat n \/ Z.of_nat n <= i)%Z -> target_envs n (IInt i) = None) /\
  (forall ix ts, target_envs n ix = Some ts -> Forall (fun t => t < n) ts).
Proof. exact target_positions. Qed.
Print Assumptions C01_target_positions.

(* non-vacuity: a Dict buffer with 3 envs after a history, a negative and a repeated index *)
Example C01_obsbuf_example :
  let sp := SDict [7; 3]%Z in
  let o (t : Z) := ODict [(3, t); (7, t + 100)]%Z in
  wf_space sp /\ wf_buf sp 3 (buf_init 0%Z (obs_space_info sp) 3) /\
  snd (wrun_init 0%Z sp 3 [WSave 1 (o 5%Z); WSnap; WSave 0 (o 6%Z); WSave 1 (o 8%Z); WSnap]) =
    [BDict [(7, [0; 105; 0]); (3, [0; 5; 0])]; BDict [(7, [106; 108; 0]); (3, [6; 8; 0])]]%Z /\
  stack_obs 0%Z (STuple 2) [OTup [1; 2]; OTup [3; 4]]%Z = BTup [[1; 3]; [2; 4]]%Z.
Proof. repeat split; try (repeat constructor; simpl; intuition congruence). Qed.
Example C01_target_envs_example :
  target_envs 3 (IList [-1; 0; 0]%Z) = Some [2; 0; 0] /\ target_envs 3 (IList [3]%Z) = None /\ target_envs 3 (IInt (-3)) = Some [0] /\
  snd (call_loop (fun s : Z => ((s + 1)%Z, s)) [10; 20; 30]%Z [2; 0; 0]) = [(2, 30%Z); (0, 10%Z); (0, 11%Z)].
Proof. repeat split. Qed.
