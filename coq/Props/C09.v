(* C09 - saving then loading reproduces the model.
   Only statements: every proof is [exact <lemma>], followed by Print Assumptions.
   cloudpickle / th.save / zipfile are modelled as the identity on opaque blobs (tied by correspondence). *)
From Coq Require Import List ZArith Bool String.
From SB3V Require Import Gen.Frag_saveload Gen.Frag_loadflow Model.JsonCodec Model.SaveLoad Model.LoadFlow Model.SetParams
  Proofs.JsonCodecProofs Proofs.SaveLoadProofs Proofs.LoadFlowProofs Proofs.SetParamsProofs
  Refuted.C09_prefix_rule Refuted.C09_load_env.
Import ListNotations.

(* the decision between plain JSON and cloudpickle, as regenerated from save_util.py *)
Theorem C09_decision_fragments : forall v,
  roundtrippable v = sl_roundtrippable (dumps_ok v) (sl_same_scalar (same_vt v (jnorm v)) (negb (same_vt v (jnorm v)))) /\
  is_plain (store_item v) = sl_keep_plain (dumps_ok v) (roundtrippable v).
Proof. exact (fun v => conj (frag_roundtrippable v) (frag_keep_plain v)). Qed.
Print Assumptions C09_decision_fragments.

Theorem C09_same_value_tests_fragments : forall eq ty isstr k,
  (sl_same_scalar eq (negb eq) = eq /\ sl_type_differs ty (negb ty) = negb ty /\ sl_key_plain isstr (negb isstr) = isstr) /\
  key_eqb k (KS (key_text k)) = sl_key_plain (key_is_str k) (negb (key_is_str k)).
Proof. exact (fun eq ty isstr k => conj (frag_same_tests eq ty isstr) (key_kept_iff_plain_str k)). Qed.
Print Assumptions C09_same_value_tests_fragments.

(* _same_value_and_type accepts only identical trees (values and types, nested) *)
Theorem C09_same_value_and_type_sound : forall a b, same_vt a b = true -> a = b.
Proof. exact same_vt_sound. Qed.
Print Assumptions C09_same_value_and_type_sound.

(* MAIN: json_to_data (data_to_json d) = d for ALL attribute dictionaries: tuples, nested dicts with non-string
   keys, float/int/str subclass scalars and keys, NaN, and everything json.dumps rejects travel as pickled blobs.
   NOTE on strength: this follows from "store plainly only after checking the round trip" (C09_same_value_and_type_sound)
   for whatever jnorm / dumps_ok are; what ties jnorm and dumps_ok to json is C09_kept_iff_faithful plus the plain-vs-pickled
   correspondence.  The in-band marker of the archive format (a dict attribute that itself has the key ":serialized:",
   known finding dict-attribute-with-reserved-serialized-key-not-restored) is NOT in this model: Plain/Pickled are
   distinct constructors here. *)
Theorem C09_roundtrip_all : forall d, json_to_data (data_to_json d) = d.
Proof. exact roundtrip_all. Qed.
Print Assumptions C09_roundtrip_all.

Example C09_roundtrip_example :
  let d := [("a"%string, JTuple [JInt 4; JList [JTuple []; JNull]]);
            ("b"%string, JDict [(KI 1, JStr "x"); (KNone, JDict [(KB true, JFloat 3 false)])]);
            ("c"%string, JList [JFloat 1 false; JStr "s"; JDict [(KS "k", JList [JInt 2])]]);
            ("d"%string, JSub 2 (JInt 5)); ("e"%string, JOpaque 9); ("f"%string, JFloat 0 true);
            ("g"%string, JDict [(KSub 4 "pi", JList [JInt 8])])] in
  map (fun kv => is_plain (snd kv)) (data_to_json d) = [false; false; true; false; false; false; false]
  /\ json_to_data (data_to_json d) = d.
Proof. split; reflexivity. Qed.

(* what is kept as plain (human-readable) JSON: exactly the values JSON holds without change *)
Theorem C09_kept_iff_faithful : forall v, is_plain (store_item v) = true <-> faithful v = true.
Proof. exact kept_iff_faithful. Qed.
Print Assumptions C09_kept_iff_faithful.

(* regression witnesses: the rule before the fix altered these *)
Theorem C09_old_rule_alters_values_refuted :
  json_to_data (data_to_json_old ex_tuple) = [("net_arch"%string, JList [JInt 4; JInt 4])] /\
  json_to_data (data_to_json_old ex_intkey) <> ex_intkey /\
  json_to_data (data_to_json_old ex_nested) <> ex_nested /\
  json_to_data (data_to_json_old ex_npfloat) = [("g"%string, JFloat 7 false)].
Proof. exact Refuted.C09_prefix_rule.C09_old_rule_alters_values_refuted. Qed.
Print Assumptions C09_old_rule_alters_values_refuted.

(* ---- save / load: attribute partition, for all exclude / include sets ---- *)
Theorem C09_save_load_data : forall fresh setup created,
  (forall o n, ~ In n created -> lookup n (setup o) = lookup n o) ->
  forall o dflt excl incl sdn varn n v,
  lookup n o = Some (AData v) ->
  excluded dflt excl incl (sdn ++ varn) n = false -> ~ In n created ->
  lookup n (load fresh setup (save o dflt excl incl sdn varn)) = Some (AData v).
Proof. exact save_load_data. Qed.
Print Assumptions C09_save_load_data.

Theorem C09_save_load_excluded : forall fresh setup created,
  (forall o n, ~ In n created -> lookup n (setup o) = lookup n o) ->
  forall o dflt excl incl sdn varn n,
  excluded dflt excl incl (sdn ++ varn) n = true -> ~ In n sdn -> ~ In n varn -> ~ In n created ->
  lookup n (load fresh setup (save o dflt excl incl sdn varn)) = lookup n fresh.
Proof. exact save_load_excluded. Qed.
Print Assumptions C09_save_load_excluded.

Theorem C09_save_load_module : forall fresh setup o dflt excl incl sdn varn n sd,
  In n sdn -> ~ In n varn -> lookup n o = Some (AModule sd) ->
  lookup n (load fresh setup (save o dflt excl incl sdn varn)) = Some (AModule sd).
Proof. exact save_load_module. Qed.
Print Assumptions C09_save_load_module.

Theorem C09_save_load_var : forall fresh setup o dflt excl incl sdn varn n t,
  In n varn -> lookup n o = Some (AVar t) ->
  lookup n (load fresh setup (save o dflt excl incl sdn varn)) = Some (AVar t).
Proof. exact save_load_var. Qed.
Print Assumptions C09_save_load_var.

Example C09_save_load_example :
  let o := [("gamma"%string, AData (JFloat 1 false)); ("net_arch"%string, AData (JTuple [JInt 4; JInt 4]));
            ("policy"%string, AModule 11); ("log_ent_coef"%string, AVar 5); ("env"%string, AData (JOpaque 3))] in
  let fresh := [("env"%string, AData JNull)] in
  let loaded := load fresh (fun o => ("policy"%string, AModule 0) :: o) (save o ["env"%string] [] [] ["policy"%string] ["log_ent_coef"%string]) in
  lookup "net_arch" loaded = Some (AData (JTuple [JInt 4; JInt 4])) /\ lookup "policy" loaded = Some (AModule 11) /\
  lookup "log_ent_coef" loaded = Some (AVar 5) /\ lookup "env" loaded = Some (AData JNull).
Proof. repeat split. Qed.

Theorem C09_set_get_parameters_id : forall o sdn n, lookup n (set_parameters o (get_parameters o sdn)) = lookup n o.
Proof. exact set_get_parameters_id. Qed.
Print Assumptions C09_set_get_parameters_id.

(* ---- extension: custom_objects and partial parameter dictionaries ---- *)
Theorem C09_custom_objects_spec : forall d custom,
  json_to_data_custom (data_to_json d) custom
  = map (fun kv => (fst kv, match lookup_custom (fst kv) custom with Some v => v | None => snd kv end)) d.
Proof. exact custom_objects_spec. Qed.
Print Assumptions C09_custom_objects_spec.

Theorem C09_custom_objects_none : forall d, json_to_data_custom (data_to_json d) [] = d.
Proof. exact custom_objects_none. Qed.
Print Assumptions C09_custom_objects_none.

(* set_parameters(exact_match=False): exactly the given objects get the given state, everything else is unchanged *)
Theorem C09_set_parameters_partial : forall o p n,
  lookup n (set_parameters o p) = match lookup_param n p with Some sd => Some (AModule sd) | None => lookup n o end.
Proof. exact set_parameters_partial. Qed.
Print Assumptions C09_set_parameters_partial.

Example C09_custom_objects_example :
  json_to_data_custom (data_to_json [("gamma"%string, JFloat 1 false); ("net_arch"%string, JTuple [JInt 4])]) [("gamma"%string, JFloat 9 false)]
  = [("gamma"%string, JFloat 9 false); ("net_arch"%string, JTuple [JInt 4])].
Proof. reflexivity. Qed.

(* ================= build round 5: load() as a state transformer, set_parameters in full, load_replay_buffer ================= *)
Local Open Scope string_scope.

(* the guards and branch tests of load / set_parameters / load_replay_buffer, as regenerated from the source *)
Theorem C09_load_guard_fragments : forall i d o a t l f,
  pk_raises i d = ld_pk_raises i (negb i) d (negb d) /\ spaces_missing o a = ld_spaces_missing o (negb o) a (negb a) /\ legacy_net_arch t l f = ld_legacy_net_arch t l f.
Proof. exact (fun i d o a t l f => conj (frag_pk_raises i d) (conj (frag_spaces_missing o a) (frag_legacy_net_arch t l f))). Qed.
Print Assumptions C09_load_guard_fragments.

Theorem C09_load_flow_fragments : forall g f e u,
  ld_env_given (negb g) g = g /\ ld_force_reset f true false = f /\ ld_n_envs_updated true false = true /\ ld_use_stored_env e (negb e) = e /\ ld_reset_noise u = u.
Proof. exact frag_flow_tests. Qed.
Print Assumptions C09_load_flow_fragments.

Theorem C09_set_parameters_fragments : forall e d o,
  names_raise e d = sp_names_raise e d (negb d) /\ strict_arg e = sp_strict_arg e /\ sp_is_optimizer o (negb o) = o.
Proof. exact frag_set_parameters_tests. Qed.
Print Assumptions C09_set_parameters_fragments.

(* (a)+(b) frame condition + custom_objects, for every archive / env / force_reset / custom_objects / kwargs: a stored attribute
   that _setup_model does not re-create (`created`), that is no state dict / torch variable, is not named in kwargs and is not
   n_envs / _last_obs / policy_kwargs has after load the custom object if custom_objects names it, else its saved value *)
Theorem C09_load_frame : forall ctor setup created needing,
  (forall o n, ~ In n created -> lookup n (setup o) = lookup n o) ->
  forall a args o nz n s,
  load_model ctor setup needing a args = Loaded o nz ->
  sget n (a_data a) = Some s ->
  ~ In n created -> ~ In n (map fst (a_params a)) -> ~ In n (map fst (a_vars a)) -> lookup n (la_kwargs args) = None ->
  n <> "n_envs" -> n <> "_last_obs" -> n <> "policy_kwargs" ->
  lookup n o = Some (AData (match lookup_custom n (la_custom args) with Some c => c | None => load_item s end)).
Proof. exact load_frame. Qed.
Print Assumptions C09_load_frame.

Theorem C09_load_kwargs_win : forall ctor setup created needing,
  (forall o n, ~ In n created -> lookup n (setup o) = lookup n o) ->
  forall a args o nz n x,
  load_model ctor setup needing a args = Loaded o nz ->
  ~ In n created -> ~ In n (map fst (a_params a)) -> ~ In n (map fst (a_vars a)) -> lookup n (la_kwargs args) = Some x ->
  lookup n o = Some x.
Proof. exact load_kwargs_win. Qed.
Print Assumptions C09_load_kwargs_win.

(* policy_kwargs comes back as convert_pk(stored): `device` deleted, net_arch = [dict] rewritten (known finding F19) *)
Theorem C09_load_policy_kwargs : forall ctor setup created needing,
  (forall o n, ~ In n created -> lookup n (setup o) = lookup n o) ->
  forall a args o nz s,
  load_model ctor setup needing a args = Loaded o nz ->
  sget "policy_kwargs" (a_data a) = Some s ->
  ~ In "policy_kwargs" created -> ~ In "policy_kwargs" (map fst (a_params a)) -> ~ In "policy_kwargs" (map fst (a_vars a)) ->
  lookup "policy_kwargs" (la_kwargs args) = None ->
  lookup "policy_kwargs" o = Some (AData (convert_pk (match lookup_custom "policy_kwargs" (la_custom args) with Some c => c | None => load_item s end))).
Proof. exact load_policy_kwargs. Qed.
Print Assumptions C09_load_policy_kwargs.

(* (c) env bookkeeping: n_envs is the given env's; _last_obs is None iff force_reset, else the stored one; without env both are restored *)
Theorem C09_load_env_n_envs : forall ctor setup created needing,
  (forall o n, ~ In n created -> lookup n (setup o) = lookup n o) ->
  forall a args o nz e,
  load_model ctor setup needing a args = Loaded o nz -> la_env args = Some e ->
  ~ In "n_envs" created -> ~ In "n_envs" (map fst (a_params a)) -> ~ In "n_envs" (map fst (a_vars a)) -> lookup "n_envs" (la_kwargs args) = None ->
  lookup "n_envs" o = Some (AData (JInt (e_num_envs e))).
Proof. exact load_env_n_envs. Qed.
Print Assumptions C09_load_env_n_envs.

Theorem C09_load_env_last_obs : forall ctor setup created needing,
  (forall o n, ~ In n created -> lookup n (setup o) = lookup n o) ->
  forall a args o nz e s,
  load_model ctor setup needing a args = Loaded o nz -> la_env args = Some e ->
  sget "_last_obs" (a_data a) = Some s ->
  ~ In "_last_obs" created -> ~ In "_last_obs" (map fst (a_params a)) -> ~ In "_last_obs" (map fst (a_vars a)) -> lookup "_last_obs" (la_kwargs args) = None ->
  lookup "_last_obs" o = Some (AData (if la_force_reset args then JNull
                                      else match lookup_custom "_last_obs" (la_custom args) with Some c => c | None => load_item s end)).
Proof. exact load_env_last_obs. Qed.
Print Assumptions C09_load_env_last_obs.

Theorem C09_load_noenv_bookkeeping : forall ctor setup created needing,
  (forall o n, ~ In n created -> lookup n (setup o) = lookup n o) ->
  forall a args o nz n s,
  load_model ctor setup needing a args = Loaded o nz -> la_env args = None ->
  sget n (a_data a) = Some s -> n <> "policy_kwargs" ->
  ~ In n created -> ~ In n (map fst (a_params a)) -> ~ In n (map fst (a_vars a)) -> lookup n (la_kwargs args) = None ->
  lookup n o = Some (AData (match lookup_custom n (la_custom args) with Some c => c | None => load_item s end)).
Proof. exact load_noenv_bookkeeping. Qed.
Print Assumptions C09_load_noenv_bookkeeping.

(* the env attribute is the given env PROVIDED the archive stores none; otherwise see C09_load_given_env_wins_refuted *)
Theorem C09_load_env_attribute : forall ctor setup created needing,
  (forall o n, ~ In n created -> lookup n (setup o) = lookup n o) ->
  forall a args o nz e,
  load_model ctor setup needing a args = Loaded o nz -> la_env args = Some e -> sget "env" (a_data a) = None ->
  ~ In "env" created -> ~ In "env" (map fst (a_params a)) -> ~ In "env" (map fst (a_vars a)) -> lookup "env" (la_kwargs args) = None ->
  lookup "env" o = lookup "env" (ctor (Some (JOpaque (e_id e)))).
Proof. exact load_env_attribute. Qed.
Print Assumptions C09_load_env_attribute.

Theorem C09_load_given_env_wins_refuted :
  exists ctor setup needing a args e o nz,
    la_env args = Some e /\ lookup "env" (la_kwargs args) = None /\
    (forall x n, lookup n (setup x) = lookup n x) /\
    load_model ctor setup needing a args = Loaded o nz /\
    lookup "env" (ctor (Some (JOpaque (e_id e)))) = Some (AData (JOpaque (e_id e))) /\
    lookup "env" o = Some (AData (JOpaque 7)) /\ JOpaque 7 <> JOpaque (e_id e) /\
    lookup "n_envs" o = Some (AData (JInt (e_num_envs e))) /\ e_num_envs e <> 1%Z.
Proof. exact Refuted.C09_load_env.C09_load_given_env_wins_refuted. Qed.
Print Assumptions C09_load_given_env_wins_refuted.

(* state dicts come from the archive whatever _setup_model / kwargs did *)
Theorem C09_load_params : forall ctor setup needing a args o nz n sd,
  load_model ctor setup needing a args = Loaded o nz -> lookup_param n (a_params a) = Some sd -> ~ In n (map fst (a_vars a)) ->
  lookup n o = Some (AModule sd).
Proof. exact load_params. Qed.
Print Assumptions C09_load_params.

(* (d) load raises iff a modelled guard fails - policy_kwargs differ (or cannot be compared), a space is missing in the archive,
   check_for_correct_spaces rejects the given env, the archive's state-dict names are not the class's - with the FIRST failing
   guard's error; otherwise it returns a model: it never continues silently past a failed guard *)
Theorem C09_load_raises_spec : forall ctor setup needing a args,
  match load_model ctor setup needing a args with
  | Loaded _ _ => load_raises needing a args = None
  | LoadRaises e => load_raises needing a args = Some e
  end.
Proof. exact load_raises_spec. Qed.
Print Assumptions C09_load_raises_spec.

Theorem C09_load_raises_iff : forall needing a args,
  load_raises needing a args <> None <->
  let d1 := step_pk (json_to_data_custom (a_data a) (la_custom args)) in
  guard_pk (la_kwargs args) d1 = true \/ dhas "observation_space" d1 = false \/ dhas "action_space" d1 = false \/
  (exists e, la_env args = Some e /\ e_spaces_ok e = false) \/ set_eqb (map fst (a_params a)) needing = false.
Proof. exact load_raises_iff. Qed.
Print Assumptions C09_load_raises_iff.

Example C09_load_flow_example :
  let a := mk_arch (data_to_json [("observation_space", JOpaque 1); ("action_space", JOpaque 2); ("gamma", JFloat 7 false); ("n_envs", JInt 1);
                                  ("_last_obs", JOpaque 3); ("policy_kwargs", JDict [(KS "net_arch", JTuple [JInt 4])]); ("use_sde", JBool true)])
                   [("policy", 5%Z)] [("log_ent_coef", 6%Z)] in
  let ctor := fun env => [("env", AData (match env with Some e => e | None => JNull end)); ("gamma", AData (JFloat 0 false))] in
  let setup := fun o => ("policy", AModule 0) :: ("lr_schedule", AData (JOpaque 8)) :: o in
  (match load_model ctor setup ["policy"] a (mk_args (Some (mk_env 9 2 true)) false [("gamma", JFloat 1 false)] [("seed", AData (JInt 3))]) with
   | Loaded o nz => lookup "gamma" o = Some (AData (JFloat 1 false)) /\ lookup "n_envs" o = Some (AData (JInt 2)) /\
                    lookup "_last_obs" o = Some (AData (JOpaque 3)) /\ lookup "seed" o = Some (AData (JInt 3)) /\
                    lookup "policy" o = Some (AModule 5) /\ lookup "env" o = Some (AData (JOpaque 9)) /\ nz = true
   | LoadRaises _ => False end) /\
  load_model ctor setup ["policy"] a (mk_args (Some (mk_env 9 2 false)) true [] []) = LoadRaises ESpacesMismatch /\
  load_model ctor setup ["policy"] a (mk_args None true [] [("policy_kwargs", AData (JDict [(KS "net_arch", JTuple [JInt 3])]))]) = LoadRaises EPolicyKwargs /\
  load_model ctor setup ["policy"; "policy.optimizer"] a (mk_args None true [] []) = LoadRaises ESetParameters.
Proof. vm_compute. repeat split. Qed.

(* ---- set_parameters(load_path_or_dict, exact_match): the full decision ---- *)
(* exact_match=True NEVER installs silently in part: if it returns, every object needing an update was given and holds exactly
   the given state (modules: same keys, the given tensors; optimizers: the given state) *)
Theorem C09_set_parameters_exact_installs : forall needing params m,
  NoDup (map fst params) -> forall m',
  set_parameters_full true needing params m = (m', None) ->
  forall n, In n needing ->
  exists g, In (n, g) params /\
    match tlookup n m with
    | Some (TModule _) => exists sd', tlookup n m' = Some (TModule sd') /\ forall k, sd_get k sd' = sd_get k g
    | Some (TOptim _) => tlookup n m' = Some (TOptim g)
    | None => False
    end.
Proof. exact set_parameters_exact_installs. Qed.
Print Assumptions C09_set_parameters_exact_installs.

(* objects not named in the dictionary never change, raise or not *)
Theorem C09_set_parameters_frame : forall needing params m exact n, ~ In n (map fst params) ->
  tlookup n (fst (set_parameters_full exact needing params m)) = tlookup n m.
Proof. exact set_parameters_frame. Qed.
Print Assumptions C09_set_parameters_frame.

(* exact_match=False: only an invalid object name raises; otherwise every given object is loaded (modules key by key) *)
Theorem C09_set_parameters_inexact : forall needing params m,
  NoDup (map fst params) -> forall m' e,
  set_parameters_full false needing params m = (m', e) ->
  (e = None /\ forall n g, In (n, g) params -> installed false m m' n g) \/ (exists n, e = Some (SPInvalidName n)).
Proof. exact set_parameters_inexact. Qed.
Print Assumptions C09_set_parameters_inexact.

(* HONEST: the code updates object by object and compares the names afterwards - when exact_match=True raises "Names of parameters
   do not match", every given object has ALREADY been loaded; on an invalid name / a strict failure in the middle the objects
   before it are loaded (and the failing module has its matching keys copied), the ones after it are untouched *)
Theorem C09_set_parameters_names_error_after_install : forall needing params m,
  NoDup (map fst params) -> forall exact m',
  set_parameters_full exact needing params m = (m', Some SPNames) ->
  exact = true /\ set_eqb (map fst params) needing = false /\ forall n g, In (n, g) params -> installed exact m m' n g.
Proof. exact set_parameters_names_error_after_install. Qed.
Print Assumptions C09_set_parameters_names_error_after_install.

Theorem C09_set_parameters_raise_in_the_middle : forall pre n g post m upd m1 u1,
  (forall exact, sp_loop exact pre m upd = (m1, u1, None) -> tlookup n m1 = None ->
     sp_loop exact (pre ++ (n, g) :: post) m upd = (m1, u1, Some (SPInvalidName n))) /\
  (forall own, sp_loop true pre m upd = (m1, u1, None) -> tlookup n m1 = Some (TModule own) -> strict_ok own g = false ->
     sp_loop true (pre ++ (n, g) :: post) m upd = (tset n (TModule (merge own g)) m1, u1, Some (SPStrict n))).
Proof. exact (fun pre n g post m upd m1 u1 => conj (fun exact => sp_raise_invalid_name exact pre n g post m upd m1 u1)
                                                   (fun own => sp_raise_strict pre n g post m upd m1 u1 own)). Qed.
Print Assumptions C09_set_parameters_raise_in_the_middle.

(* completeness: valid names + (exact_match) complete state dicts + (exact_match) the right set of names => no raise *)
Theorem C09_set_parameters_no_raise : forall needing params m,
  NoDup (map fst params) -> forall exact,
  (forall n g, In (n, g) params -> match tlookup n m with Some (TModule own) => exact = true -> strict_ok own g = true | Some (TOptim _) => True | None => False end) ->
  (exact = true -> set_eqb (map fst params) needing = true) ->
  snd (set_parameters_full exact needing params m) = None.
Proof. exact set_parameters_no_raise. Qed.
Print Assumptions C09_set_parameters_no_raise.

Example C09_set_parameters_example :
  let m := [("policy", TModule [(1, 10); (2, 20)]); ("policy.optimizer", TOptim [(0, 5)])]%Z in
  set_parameters_full true ["policy"; "policy.optimizer"] [("policy", [(1, 11); (2, 21)]); ("policy.optimizer", [(0, 6); (9, 9)])]%Z m
    = ([("policy", TModule [(1, 11); (2, 21)]); ("policy.optimizer", TOptim [(0, 6); (9, 9)])]%Z, None) /\
  (* names mismatch under exact_match: raised, but the policy has been replaced *)
  set_parameters_full true ["policy"; "policy.optimizer"] [("policy", [(1, 11); (2, 21)])]%Z m
    = ([("policy", TModule [(1, 11); (2, 21)]); ("policy.optimizer", TOptim [(0, 5)])]%Z, Some SPNames) /\
  (* missing key under exact_match: raised at the module, key 1 already copied *)
  set_parameters_full true ["policy"; "policy.optimizer"] [("policy", [(1, 11)]); ("policy.optimizer", [(0, 6)])]%Z m
    = ([("policy", TModule [(1, 11); (2, 20)]); ("policy.optimizer", TOptim [(0, 5)])]%Z, Some (SPStrict "policy")) /\
  set_parameters_full false ["policy"; "policy.optimizer"] [("policy", [(1, 11); (7, 7)])]%Z m
    = ([("policy", TModule [(1, 11); (2, 20)]); ("policy.optimizer", TOptim [(0, 5)])]%Z, None) /\
  snd (set_parameters_full false [] [("nope", [])]%Z m) = Some (SPInvalidName "nope").
Proof. vm_compute. repeat split. Qed.

(* ---- load_replay_buffer(path, truncate_last_traj): decision function = the regenerated tests ---- *)
Theorem C09_load_replay_buffer_decision : forall i,
  ri_buffer i = true -> (ri_her i = true -> ri_model_env i = true) ->
  load_replay_buffer i = RbOk (rb_legacy (ri_timeout_attr i)) (rb_is_her (ri_her i) (negb (ri_her i)))
                              (rb_is_her (ri_her i) (negb (ri_her i)) && rb_truncate (ri_truncate i)) true.
Proof. exact frag_load_replay_buffer. Qed.
Print Assumptions C09_load_replay_buffer_decision.
