(* C09 - saving then loading reproduces the model.
   Only statements: every proof is [exact <lemma>], followed by Print Assumptions.
   cloudpickle / th.save / zipfile are modelled as the identity on opaque blobs (tied by correspondence). *)
From Coq Require Import List ZArith Bool String.
From SB3V Require Import Gen.Frag_saveload Model.JsonCodec Model.SaveLoad Proofs.JsonCodecProofs Proofs.SaveLoadProofs
  Refuted.C09_prefix_rule.
Import ListNotations.

(* the decision between plain JSON and cloudpickle, as regenerated from save_util.py *)
Theorem C09_decision_fragments : forall v,
  roundtrippable v = sl_roundtrippable (dumps_ok v) (sl_same_scalar (same_vt v (jnorm v)) (negb (same_vt v (jnorm v)))) /\
  is_plain (store_item v) = sl_keep_plain (dumps_ok v) (roundtrippable v).
Proof. exact (fun v => conj (frag_roundtrippable v) (frag_keep_plain v)). Qed.
Print Assumptions C09_decision_fragments.

Theorem C09_same_value_tests_fragments : forall eq ty isstr k,
  (sl_same_scalar eq (negb eq) = eq /\ sl_type_differs ty (negb ty) = negb ty /\ sl_key_plain isstr (negb isstr) = isstr) /\
  key_eqb k (KS (key_text k)) = sl_key_plain (key_is_str k) (negb (key_is_str k)).
Proof. exact (fun eq ty isstr k => conj (frag_same_tests eq ty isstr) (key_kept_iff_plain_str k)). Qed.
Print Assumptions C09_same_value_tests_fragments.

(* _same_value_and_type accepts only identical trees (values and types, nested) *)
Theorem C09_same_value_and_type_sound : forall a b, same_vt a b = true -> a = b.
Proof. exact same_vt_sound. Qed.
Print Assumptions C09_same_value_and_type_sound.

(* MAIN: json_to_data (data_to_json d) = d for ALL attribute dictionaries: tuples, nested dicts with non-string
   keys, float/int/str subclass scalars and keys, NaN, and everything json.dumps rejects travel as pickled blobs.
   NOTE on strength: this follows from "store plainly only after checking the round trip" (C09_same_value_and_type_sound)
   for whatever jnorm / dumps_ok are; what ties jnorm and dumps_ok to json is C09_kept_iff_faithful plus the plain-vs-pickled
   correspondence.  The in-band marker of the archive format (a dict attribute that itself has the key ":serialized:",
   known finding dict-attribute-with-reserved-serialized-key-not-restored) is NOT in this model: Plain/Pickled are
   distinct constructors here. *)
Theorem C09_roundtrip_all : forall d, json_to_data (data_to_json d) = d.
Proof. exact roundtrip_all. Qed.
Print Assumptions C09_roundtrip_all.

Example C09_roundtrip_example :
  let d := [("a"%string, JTuple [JInt 4; JList [JTuple []; JNull]]);
            ("b"%string, JDict [(KI 1, JStr "x"); (KNone, JDict [(KB true, JFloat 3 false)])]);
            ("c"%string, JList [JFloat 1 false; JStr "s"; JDict [(KS "k", JList [JInt 2])]]);
            ("d"%string, JSub 2 (JInt 5)); ("e"%string, JOpaque 9); ("f"%string, JFloat 0 true);
            ("g"%string, JDict [(KSub 4 "pi", JList [JInt 8])])] in
  map (fun kv => is_plain (snd kv)) (data_to_json d) = [false; false; true; false; false; false; false]
  /\ json_to_data (data_to_json d) = d.
Proof. split; reflexivity. Qed.

(* what is kept as plain (human-readable) JSON: exactly the values JSON holds without change *)
Theorem C09_kept_iff_faithful : forall v, is_plain (store_item v) = true <-> faithful v = true.
Proof. exact kept_iff_faithful. Qed.
Print Assumptions C09_kept_iff_faithful.

(* regression witnesses: the rule before the fix altered these *)
Theorem C09_old_rule_alters_values_refuted :
  json_to_data (data_to_json_old ex_tuple) = [("net_arch"%string, JList [JInt 4; JInt 4])] /\
  json_to_data (data_to_json_old ex_intkey) <> ex_intkey /\
  json_to_data (data_to_json_old ex_nested) <> ex_nested /\
  json_to_data (data_to_json_old ex_npfloat) = [("g"%string, JFloat 7 false)].
Proof. exact Refuted.C09_prefix_rule.C09_old_rule_alters_values_refuted. Qed.
Print Assumptions C09_old_rule_alters_values_refuted.

(* ---- save / load: attribute partition, for all exclude / include sets ---- *)
Theorem C09_save_load_data : forall fresh setup created,
  (forall o n, ~ In n created -> lookup n (setup o) = lookup n o) ->
  forall o dflt excl incl sdn varn n v,
  lookup n o = Some (AData v) ->
  excluded dflt excl incl (sdn ++ varn) n = false -> ~ In n created ->
  lookup n (load fresh setup (save o dflt excl incl sdn varn)) = Some (AData v).
Proof. exact save_load_data. Qed.
Print Assumptions C09_save_load_data.

Theorem C09_save_load_excluded : forall fresh setup created,
  (forall o n, ~ In n created -> lookup n (setup o) = lookup n o) ->
  forall o dflt excl incl sdn varn n,
  excluded dflt excl incl (sdn ++ varn) n = true -> ~ In n sdn -> ~ In n varn -> ~ In n created ->
  lookup n (load fresh setup (save o dflt excl incl sdn varn)) = lookup n fresh.
Proof. exact save_load_excluded. Qed.
Print Assumptions C09_save_load_excluded.

Theorem C09_save_load_module : forall fresh setup o dflt excl incl sdn varn n sd,
  In n sdn -> ~ In n varn -> lookup n o = Some (AModule sd) ->
  lookup n (load fresh setup (save o dflt excl incl sdn varn)) = Some (AModule sd).
Proof. exact save_load_module. Qed.
Print Assumptions C09_save_load_module.

Theorem C09_save_load_var : forall fresh setup o dflt excl incl sdn varn n t,
  In n varn -> lookup n o = Some (AVar t) ->
  lookup n (load fresh setup (save o dflt excl incl sdn varn)) = Some (AVar t).
Proof. exact save_load_var. Qed.
Print Assumptions C09_save_load_var.

Example C09_save_load_example :
  let o := [("gamma"%string, AData (JFloat 1 false)); ("net_arch"%string, AData (JTuple [JInt 4; JInt 4]));
            ("policy"%string, AModule 11); ("log_ent_coef"%string, AVar 5); ("env"%string, AData (JOpaque 3))] in
  let fresh := [("env"%string, AData JNull)] in
  let loaded := load fresh (fun o => ("policy"%string, AModule 0) :: o) (save o ["env"%string] [] [] ["policy"%string] ["log_ent_coef"%string]) in
  lookup "net_arch" loaded = Some (AData (JTuple [JInt 4; JInt 4])) /\ lookup "policy" loaded = Some (AModule 11) /\
  lookup "log_ent_coef" loaded = Some (AVar 5) /\ lookup "env" loaded = Some (AData JNull).
Proof. repeat split. Qed.

Theorem C09_set_get_parameters_id : forall o sdn n, lookup n (set_parameters o (get_parameters o sdn)) = lookup n o.
Proof. exact set_get_parameters_id. Qed.
Print Assumptions C09_set_get_parameters_id.

(* ---- extension: custom_objects and partial parameter dictionaries ---- *)
Theorem C09_custom_objects_spec : forall d custom,
  json_to_data_custom (data_to_json d) custom
  = map (fun kv => (fst kv, match lookup_custom (fst kv) custom with Some v => v | None => snd kv end)) d.
Proof. exact custom_objects_spec. Qed.
Print Assumptions C09_custom_objects_spec.

Theorem C09_custom_objects_none : forall d, json_to_data_custom (data_to_json d) [] = d.
Proof. exact custom_objects_none. Qed.
Print Assumptions C09_custom_objects_none.

(* set_parameters(exact_match=False): exactly the given objects get the given state, everything else is unchanged *)
Theorem C09_set_parameters_partial : forall o p n,
  lookup n (set_parameters o p) = match lookup_param n p with Some sd => Some (AModule sd) | None => lookup n o end.
Proof. exact set_parameters_partial. Qed.
Print Assumptions C09_set_parameters_partial.

Example C09_custom_objects_example :
  json_to_data_custom (data_to_json [("gamma"%string, JFloat 1 false); ("net_arch"%string, JTuple [JInt 4])]) [("gamma"%string, JFloat 9 false)]
  = [("gamma"%string, JFloat 9 false); ("net_arch"%string, JTuple [JInt 4])].
Proof. reflexivity. Qed.
