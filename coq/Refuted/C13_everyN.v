(* Finding F8: EveryNTimesteps keeps last_time_trigger across learn() calls; when the second learn() resets
   num_timesteps to 0 the kept trigger time lies in the future and the callback does not fire until the counter
   has passed it.  So the documented cadence "every n timesteps" (Props/C13.v C13_everyN_fires_within_n, which needs
   last <= num_timesteps) does not hold for the faithful model of two learn() calls with reset_num_timesteps=True.
   The same input is replayed on the implementation by harness/c13.py (corpus/C13.jsonl). *)
From SB3V Require Import Lib.Tactics Model.Callbacks Proofs.CallbacksProofs.
Local Open Scope Z_scope.

Definition f8_tree : cb := clist [rec_ 0; everyn 4 (rec_ 0)].
Definition f8_calls : list call := [mkCall 16 true []; mkCall 8 true []].

(* PPO/A2C with n_steps = 4 on one env: the second learn() delivers step events with num_timesteps 1..8 to the
   EveryNTimesteps(4) node (a CallbackList child), which never fires: its trigger log stays [4;8;12;16] and
   last_time_trigger stays 16 *)
Theorem C13_everyN_fires_every_n_timesteps_refuted :
  exists ne k calls tree,
    let r := learns 400 400 ne k calls (init_dst tree) in
    steps_of (map fst (nth 1 (snd r) [])) = [1; 2; 3; 4; 5; 6; 7; 8] /\
    (exists x, sub [1%nat] (d_cb (fst r)) = Some x /\ everyn_state x = (16, [4; 8; 12; 16])) /\
    (* the hypothesis of C13_everyN_fires_within_n that fails: the kept trigger time is ahead of the counter *)
    (exists x, sub [1%nat] (d_cb (fst (learns 400 400 ne k (firstn 1 calls) (init_dst tree)))) = Some x /\
               fst (everyn_state x) = 16 /\ fst (setup true 16 8) = 0).
Proof.
  exists 1, (OnPol 4), f8_calls, f8_tree. vm_compute.
  split; [reflexivity|]. split; eexists; (split; [reflexivity|]); auto.
Qed.
Print Assumptions C13_everyN_fires_every_n_timesteps_refuted.
