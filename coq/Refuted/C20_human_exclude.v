(* C20 / F6: record(key, value, exclude="stdout") also hides the key from the "log" file (and vice versa):
   the faithful model of HumanOutputFormat.write uses one test for both formats. *)
From Coq Require Import List Ascii String Bool QArith.
From SB3V Require Import Model.Csv Model.Logger.
Import ListNotations.

Definition T (s : string) : text := list_ascii_of_string s.

Theorem C20_human_exclude_stdout_hides_log_refuted :
  exists st k v e,
    st = l_record l0 k v e /\
    (* the property: excluded from stdout only, so it must reach the log file ... *)
    visible_spec t_log e = true /\ visible_spec t_stdout e = false /\
    (* ... but the log writer does not receive it *)
    d_log (snd (l_dump st)) = [] /\ In (k, v) (d_pending (snd (l_dump st))).
Proof.
  exists (l_record l0 (T "k") (LNum 1) [T "stdout"]), (T "k"), (LNum 1), [T "stdout"].
  vm_compute. repeat split. now left.
Qed.

Theorem C20_human_exclude_log_hides_stdout_refuted :
  exists st k v e,
    st = l_record l0 k v e /\ visible_spec t_stdout e = true /\ visible_spec t_log e = false /\
    d_stdout (snd (l_dump st)) = [] /\ In (k, v) (d_pending (snd (l_dump st))).
Proof.
  exists (l_record l0 (T "k") (LNum 1) [T "log"]), (T "k"), (LNum 1), [T "log"].
  vm_compute. repeat split. now left.
Qed.
