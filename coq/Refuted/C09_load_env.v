(* C09 (build round 5): "the env given to load() has priority over any saved environment" (docstring of BaseAlgorithm.load) is
   FALSE in the faithful model when the archive holds an `env` (save(include=["env"])): model.__dict__.update(data) runs after
   the constructor and puts the STORED env back, while n_envs has been taken from the GIVEN env.  Replayed on the
   implementation by harness/c09.py (corpus id corpus-load-env-vs-stored-env). *)
From Coq Require Import List ZArith Bool String.
From SB3V Require Import Model.JsonCodec Model.SaveLoad Model.LoadFlow.
Import ListNotations.
Local Open Scope string_scope.

Definition ex_ctor (env : option jv) : obj :=
  [("env", AData (match env with Some e => e | None => JNull end)); ("n_envs", AData (JInt 1))].
Definition ex_env_archive : archive :=
  mk_arch (data_to_json [("observation_space", JOpaque 1); ("action_space", JOpaque 2); ("env", JOpaque 7); ("n_envs", JInt 1)])
          [("policy", 5%Z)] [].
Definition ex_env_args : load_args := mk_args (Some (mk_env 9 2 true)) true [] [].

Theorem C09_load_given_env_wins_refuted :
  exists ctor setup needing a args e o nz,
    la_env args = Some e /\ lookup "env" (la_kwargs args) = None /\
    (forall x n, lookup n (setup x) = lookup n x) /\
    load_model ctor setup needing a args = Loaded o nz /\
    lookup "env" (ctor (Some (JOpaque (e_id e)))) = Some (AData (JOpaque (e_id e))) /\
    lookup "env" o = Some (AData (JOpaque 7)) /\ JOpaque 7 <> JOpaque (e_id e) /\
    lookup "n_envs" o = Some (AData (JInt (e_num_envs e))) /\ e_num_envs e <> 1%Z.
Proof.
  exists ex_ctor, (fun x => x), ["policy"], ex_env_archive, ex_env_args, (mk_env 9 2 true).
  eexists. eexists. repeat split; try (vm_compute; reflexivity); try discriminate.
Qed.
