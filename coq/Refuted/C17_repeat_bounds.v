(* Finding (C17, round 5, B): StackedObservations declares low/high = np.repeat(base low/high, n_stack, axis=repeat_axis): every bound n_stack times
   IN A ROW ([l0,l0,l1,l1]), while the observation is the CONCATENATION of n_stack frames ([f0,f1,f0',f1']).  When the bounds vary
   along the stacking axis the declared bounds are misaligned and an ordinary stacked observation made of two in-space frames, no
   padding involved, is not a member of the declared space.  Base Box(low=[-1,-5], high=[1,12]) (every element's bounds
   contain 0), n_stack = 2: after reset [-1,12] and step [1,-5] the wrapper returns [-1,12,1,-5]; declared low [-1,-1,-5,-5], high
   [1,1,12,12].  The tiled bounds ([-1,-5,-1,-5], [1,12,1,12]) admit it (Props/C17.v C17_window_within_tiled_bounds).  Replayed on the implementation by harness/c17.py (corpus). *)
From Coq Require Import ZArith List Bool.
From SB3V Require Import Model.Wrappers Model.WrapperBounds.
Import ListNotations.
Local Open Scope nat_scope.

Definition fb_lo : tensor := mk_tensor [2] [-1; -5]%Z.
Definition fb_hi : tensor := mk_tensor [2] [1; 12]%Z.
Definition fb_evs : list (fevent tensor) := [FReset (mk_tensor [2] [-1; 12]%Z); FStep (mk_tensor [2] [1; -5]%Z) false None].

Theorem C17_repeated_bounds_misaligned_refuted :
  exists (n : nat) (cf : bool) (lo hi : tensor) (evs : list (fevent tensor)),
    1 <= n /\ length evs = n /\
    Forall (fevent_ok (fun t => twithin lo hi t = true)) evs /\
    tcat cf (fs_run (tzeros_like lo) n evs) = mk_tensor [4] [-1; 12; 1; -5]%Z /\
    trepeat cf n lo = mk_tensor [4] [-1; -1; -5; -5]%Z /\ trepeat cf n hi = mk_tensor [4] [1; 1; 12; 12]%Z /\
    twithin (trepeat cf n lo) (trepeat cf n hi) (tcat cf (fs_run (tzeros_like lo) n evs)) = false /\
    twithin (ttile cf n lo) (ttile cf n hi) (tcat cf (fs_run (tzeros_like lo) n evs)) = true.
Proof.
  exists 2, false, fb_lo, fb_hi, fb_evs. vm_compute.
  split; [auto|]. split; [reflexivity|]. split; [repeat constructor|]. repeat split; reflexivity.
Qed.
Print Assumptions C17_repeated_bounds_misaligned_refuted.
