(* C03, finding F3: with optimize_memory_usage=True the next observation returned for an
   episode-ENDING transition is the first observation of the following episode, not the stored
   terminal observation - even though the column's observations chain as real collection makes
   them.  Witness: capacity 4, one env, add (obs 10, next 11, done) then (obs 20, next 21). *)
From Coq Require Import ZArith List Bool.
From SB3V Require Import Lib.Tactics Model.Replay Proofs.ReplayProofs.
Import ListNotations.
Local Open Scope Z_scope.

Definition f3_ops : list op :=
  [Add [mkT 10 11 1 1 true false]; Add [mkT 20 21 2 2 false false]].

Theorem C03_memopt_done_next_refuted :
  exists b0 d k, create false 4 1 true false = Some b0 /\
    let b := run b0 f3_ops in let h := recent f3_ops in
    chained h 0%nat /\
    fst (sample_bounds b) <= d < snd (sample_bounds b) /\
    idx_of_draw b d = k mod cap b /\ 0 <= k < len h /\
    t_done (col 0 (rowZ h k)) = true /\
    snd (fst (fst (get b (idx_of_draw b d) 0%nat))) = 20 /\
    t_next (col 0 (rowZ h k)) = 11.
Proof.
  eexists. exists 0, 0. split; [reflexivity|]. cbn zeta.
  split.
  - intros k Hk0 Hk Hd. unfold len in Hk. simpl in Hk.
    assert (k = 0) by lia. subst k. vm_compute in Hd. discriminate.
  - vm_compute. repeat split; congruence.
Qed.
Print Assumptions C03_memopt_done_next_refuted.
