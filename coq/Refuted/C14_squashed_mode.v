(* C14 - the property text says "mode is the maximiser" for every policy distribution.  For the
   tanh-squashed Gaussian (and gSDE with squash_output) mode() returns tanh(mean); the faithful
   model shows that this is NOT the maximiser of the action-space density that log_prob computes:
   with mean = 0, log_std = 1 the action tanh(2) has a strictly larger density than mode() = 0
   (the squashed density even has a local minimum at tanh(mean) there).  Proved by hand from
   1 + x <= exp x (no Interval), so Props/C14.v stays within the standard library's real axioms.
   The same defect is reproduced on the implementation by harness/c14.py (corpus/C14.jsonl). *)
From Coq Require Import Reals List Lra.
From SB3V Require Import Model.Distributions Proofs.DistributionsProofs.
Import ListNotations.
Local Open Scope R_scope.

Lemma one_minus_tanh2 u : 1 - (tanh u) ^ 2 = / (cosh u) ^ 2.
Proof.
  unfold tanh. pose proof (cosh_pos u) as Hc.
  assert (E : (cosh u) ^ 2 - (sinh u) ^ 2 = 1).
  { unfold cosh, sinh. assert (exp u * exp (- u) = 1) by (rewrite <- exp_plus, Rplus_opp_r; apply exp_0). nra. }
  replace (1 - (sinh u / cosh u) ^ 2) with (((cosh u) ^ 2 - (sinh u) ^ 2) / (cosh u) ^ 2) by (field; lra).
  rewrite E. unfold Rdiv. ring.
Qed.

Lemma exp1_ge_2 : 2 <= exp 1.
Proof. pose proof (exp_ineq1_le 1). lra. Qed.

Lemma cosh2_ge_2 : 2 <= cosh 2.
Proof.
  unfold cosh. pose proof (exp_pos (Ropp 2)).
  assert (4 <= exp 2).
  { replace 2 with (1 + 1) by lra. rewrite exp_plus. pose proof exp1_ge_2. nra. }
  lra.
Qed.

Theorem C14_squashed_mode_not_maximiser_refuted :
  exists (mu ls a : R), -1 < a < 1 /\
    squashed_pdf mu (exp ls) (nth 0 (squashed_mode [(mu, ls)]) 0) < squashed_pdf mu (exp ls) a.
Proof.
  exists 0, 1, (tanh 2). split; [apply tanh_range|].
  unfold squashed_mode, gauss_mode. cbn [map fst nth].
  unfold squashed_pdf, normal_pdf. rewrite !artanh_tanh.
  rewrite !one_minus_tanh2.
  assert (C0 : cosh 0 = 1) by apply cosh_0. rewrite C0.
  unfold normal_logpdf.
  set (K := - ln (exp 1) - ln (sqrt (2 * PI))).
  pose proof (exp_pos 1) as He1.
  assert (S4 : 4 <= exp 1 ^ 2) by (pose proof exp1_ge_2; nra).
  replace (- (0 - 0) ^ 2 / (2 * exp 1 ^ 2) - ln (exp 1) - ln (sqrt (2 * PI))) with K by (unfold K; field; lra).
  replace (- (2 - 0) ^ 2 / (2 * exp 1 ^ 2) - ln (exp 1) - ln (sqrt (2 * PI))) with (- 2 / exp 1 ^ 2 + K) by (unfold K; field; lra).
  rewrite exp_plus. pose proof (exp_pos K) as HK.
  assert (E1 : 1 / 2 <= exp (- 2 / exp 1 ^ 2)).
  { pose proof (exp_ineq1_le (- 2 / exp 1 ^ 2)) as H.
    assert (- 2 / exp 1 ^ 2 >= - (1 / 2)).
    { unfold Rdiv. assert (/ exp 1 ^ 2 <= / 4) by (apply Rinv_le_contravar; lra).
      assert (0 < / exp 1 ^ 2) by (apply Rinv_0_lt_compat; lra). lra. }
    lra. }
  assert (C2 : 4 <= cosh 2 ^ 2) by (pose proof cosh2_ge_2; nra).
  replace (/ 1 ^ 2) with 1 by (field).
  unfold Rdiv. rewrite Rinv_inv. rewrite Rinv_1, Rmult_1_r.
  assert (exp K * 1 < exp (-2 * / exp 1 ^ 2) * exp K * cosh 2 ^ 2); [|lra].
  unfold Rdiv in E1.
  set (X := exp (-2 * / exp 1 ^ 2)) in *. set (C := cosh 2 ^ 2) in *.
  assert (2 <= X * C) by nra.
  replace (X * exp K * C) with (exp K * (X * C)) by ring. nra.
Qed.
