(* C14 - the property text says "mode is the maximiser" for every policy distribution.  For the
   tanh-squashed Gaussian (and gSDE with squash_output) mode() returns tanh(mean); the faithful
   model shows that this is NOT the maximiser of the action-space density that log_prob computes:
   with mean = 1, log_std = 0 the action tanh(2) has a strictly larger density (and a strictly
   larger log_prob under the code's formula with epsilon = 1e-6). *)
From Coq Require Import Reals List.
From Interval Require Import Tactic.
From SB3V Require Import Model.Distributions Proofs.DistributionsProofs.
Import ListNotations.
Local Open Scope R_scope.

Theorem C14_squashed_mode_not_maximiser_refuted :
  exists (mu ls a : R), -1 < a < 1 /\
    (* exact action-space density *)
    squashed_pdf mu (exp ls) (nth 0 (squashed_mode [(mu, ls)]) 0) < squashed_pdf mu (exp ls) a /\
    (* the code's log_prob formula, epsilon = 1e-6, cached pre-squash value for the mode *)
    squashed_logprob_g 1e-6 [(mu, ls)] (squashed_mode [(mu, ls)]) (gauss_mode [(mu, ls)])
    < squashed_logprob_g 1e-6 [(mu, ls)] [a] [artanh a].
Proof.
  exists 1, 0, (tanh 2). split; [apply tanh_range|].
  unfold squashed_mode, gauss_mode, squashed_logprob_g, gauss_logprob, gauss_logpdfs, squashed_pdf, normal_pdf,
    normal_logpdf, squash_correction, sumR.
  cbn [map map2 fst snd nth fold_right].
  rewrite !artanh_tanh. split; interval.
Qed.
