(* Finding (C04): when callback.on_step() returns False, collect_rollouts returns after env.step but before _store_transition:
   the transition is lost, _last_obs stays at the observation BEFORE that step while the environment has moved on, and the next
   learn(reset_num_timesteps=False) acts on the stale observation and stores a transition that never happened.
   The faithful model (off_collect_s) reproduces it: with one episode 100 -> 101 -> 102 -> ... and a stop request at the third step,
   the stored pairs are (100,101), (101,102), (102,104), (104,105); (102,104) is not a transition of the environment.
   Replayed on the implementation by harness/c04.py (corpus/C04.jsonl, signature callback-stop-loses-transition-then-stale-last-obs). *)
From Coq Require Import ZArith QArith List Bool.
From SB3V Require Import Model.Script Model.OnPolicyCollect Model.OffPolicyCollect.
Import ListNotations.
Local Open Scope Z_scope.

Definition stop_sc : script :=
  [mk_episode 100 0 [mk_sstep 101 4 false false 0; mk_sstep 102 4 false false 0; mk_sstep 103 4 false false 0; mk_sstep 104 4 false false 0;
                     mk_sstep 105 4 false false 0; mk_sstep 106 4 false false 0; mk_sstep 107 4 true false 0]].
Definition o0 : orc := mkO [0%Q] None.
Definition pairs (l : list trans) : list (Z * Z) := map (fun t => (t_obs t, t_next t)) l.

Theorem C04_every_add_is_a_real_transition_refuted :
  exists (sc : script) (os : list (orc * bool)),
    let st := os_reset sc ostate0 in
    (* what is stored, with a stop request at the third step followed by a continued learn() *)
    let stored := pairs (snd (off_collect_s ADisc sc st os)) in
    (* what the environment really did over the same five steps *)
    let real := pairs (snd (off_collect ADisc sc st (map fst os))) in
    stored = [(100, 101); (101, 102); (102, 104); (104, 105)] /\
    real = [(100, 101); (101, 102); (102, 103); (103, 104); (104, 105)] /\
    In (102, 104) stored /\ ~ In (102, 104) real.
Proof.
  exists stop_sc, [(o0, false); (o0, false); (o0, true); (o0, false); (o0, false)].
  vm_compute. repeat split; auto.
  intros H. repeat (destruct H as [H|H]; [discriminate H|]). exact H.
Qed.
Print Assumptions C04_every_add_is_a_real_transition_refuted.
