(* C19 - the pinned (pre-fix) programs of VecFrameStack and DictReplayBuffer.add violate the
   property: concrete histories on which a later call changes an object the caller holds (F1),
   resp. a call modifies an object it was handed (F2).  These are the defects repaired by the
   `fix:` commits 730f7ea and b0c7be5 in /repo; kept as regression witnesses. *)
From Coq Require Import List ZArith Bool Lia.
From SB3V Require Import Model.Alias.
Import ListNotations.
Local Open Scope nat_scope.

Definition F1 : nat -> list (list Z) -> list Z := fun f cs => Z.of_nat f :: concat cs.

Theorem C19_framestack_pinned_refuted :
  disciplined 1 1 framestack_step_pinned = false /\
  exists w es, Inv 1 w /\ ~ frame_holds F1 w es.
Proof.
  split; [vm_compute; reflexivity|].
  exists (mk_world [[0%Z]] [0] [] []).
  exists [EAlloc [5%Z]; ECall framestack_step_pinned [1]; ECall framestack_reset_pinned []].
  split.
  - unfold Inv; simpl. split; [reflexivity|]. split; [intros l [<-|[]]; auto | intros l []].
  - intros H. destruct H as [_ H]. destruct H as [_ H]. destruct H as [H _].
    (* the observation returned by step() is location 6; reset() then rewrites it in place *)
    specialize (H 6). vm_compute in H.
    pose proof (H (or_intror (or_introl eq_refl))) as Hc. discriminate Hc.
Qed.
Print Assumptions C19_framestack_pinned_refuted.

Theorem C19_dictreplay_add_pinned_refuted :
  disciplined 5 5 dictbuffer_add_pinned = false /\
  exists w es, Inv 5 w /\ ~ frame_holds F1 w es.
Proof.
  split; [vm_compute; reflexivity|].
  exists (mk_world [[0%Z]; [0%Z]; [0%Z]; [0%Z]; [0%Z]; [1%Z]; [2%Z]; [3%Z]; [4%Z]; [5%Z]] [0; 1; 2; 3; 4] [] [5; 6; 7; 8; 9]).
  exists [ECall dictbuffer_add_pinned [5; 6; 7; 8; 9]].
  split.
  - unfold Inv; simpl. split; [reflexivity|]. split.
    + intros l H. repeat (destruct H as [<-|H]; [lia|]). destruct H.
    + intros l H. repeat (destruct H as [<-|H]; [split; [lia|]; intros Hc; repeat (destruct Hc as [Hc|Hc]; [discriminate|]); destruct Hc|]). destruct H.
  - intros H. destruct H as [H _].
    specialize (H 5). vm_compute in H.
    pose proof (H (or_introl eq_refl)) as Hc. discriminate Hc.
Qed.
Print Assumptions C19_dictreplay_add_pinned_refuted.

(* HerReplayBuffer.add keeping the caller's info dicts (pinned, before fix 6f36409) or only a one-level copy of them
   (`[info.copy() for info in infos]`): a later caller write to the mutable value inside its own info dict (location 13)
   changes what sample() returns.  The world: 7 live slots (locations 0..6), 7 caller objects (7..13). *)
Definition her_w : world :=
  mk_world (map (fun n => [Z.of_nat n]) (seq 0 14)) (seq 0 7) [] (seq 7 7).
Definition her_pes (add : prog) : list pevent :=
  [ Both (ECall add (seq 7 7)); Extra 13 [77%Z]; Both (ECall her_sample []) ].

Lemma her_w_inv : Inv 7 her_w.
Proof.
  unfold Inv, her_w. cbn [w_slots w_heap w_known]. split; [reflexivity|]. split.
  - intros l H. rewrite map_length, seq_length. apply in_seq in H. lia.
  - intros l H. rewrite map_length, seq_length. apply in_seq in H. split; [lia|].
    intros Hc. apply in_seq in Hc. lia.
Qed.

Theorem C19_her_shallow_copy_refuted :
  disciplined 7 7 her_add_shallow = false /\
  Inv 7 her_w /\ clean [] (her_pes her_add_shallow) = true /\
  run_hist F1 her_w (left_run (her_pes her_add_shallow)) <> run_hist F1 her_w (right_run (her_pes her_add_shallow)).
Proof.
  split; [vm_compute; reflexivity|]. split; [exact her_w_inv|]. split; [vm_compute; reflexivity|].
  vm_compute. intros H. discriminate H.
Qed.
Print Assumptions C19_her_shallow_copy_refuted.

Theorem C19_her_add_pinned_refuted :
  disciplined 7 7 her_add_pinned = false /\
  Inv 7 her_w /\ clean [] (her_pes her_add_pinned) = true /\
  run_hist F1 her_w (left_run (her_pes her_add_pinned)) <> run_hist F1 her_w (right_run (her_pes her_add_pinned)).
Proof.
  split; [vm_compute; reflexivity|]. split; [exact her_w_inv|]. split; [vm_compute; reflexivity|].
  vm_compute. intros H. discriminate H.
Qed.
Print Assumptions C19_her_add_pinned_refuted.

(* predict() on a Dict observation WITHOUT the deep copy (seeded changes C11_4 / C19_4): the reshape / transposition is
   applied to the caller's own dict - the call modifies an object it was handed *)
Theorem C19_predict_dict_nocopy_refuted :
  disciplined 1 1 predict_dict_nocopy = false /\
  exists w es, Inv 1 w /\ ~ frame_holds F1 w es.
Proof.
  split; [vm_compute; reflexivity|].
  exists (mk_world [[0%Z]; [5%Z]] [0] [] [1]).
  exists [ECall predict_dict_nocopy [1]].
  split.
  - unfold Inv; cbn [w_slots w_heap w_known length]. split; [reflexivity|]. split.
    + intros l [<-|[]]. lia.
    + intros l [<-|[]]. split; [lia|]. intros [Hc|[]]. discriminate Hc.
  - intros H. destruct H as [H _].
    specialize (H 1). vm_compute in H.
    pose proof (H (or_introl eq_refl)) as Hc. discriminate Hc.
Qed.
Print Assumptions C19_predict_dict_nocopy_refuted.
