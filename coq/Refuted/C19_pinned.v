(* C19 - the pinned (pre-fix) programs of VecFrameStack and DictReplayBuffer.add violate the
   property: concrete histories on which a later call changes an object the caller holds (F1),
   resp. a call modifies an object it was handed (F2).  These are the defects repaired by the
   `fix:` commits 730f7ea and b0c7be5 in /repo; kept as regression witnesses. *)
From Coq Require Import List ZArith Bool Lia.
From SB3V Require Import Model.Alias.
Import ListNotations.
Local Open Scope nat_scope.

Definition F1 : nat -> list (list Z) -> list Z := fun f cs => Z.of_nat f :: concat cs.

Theorem C19_framestack_pinned_refuted :
  disciplined 1 1 framestack_step_pinned = false /\
  exists w es, Inv 1 w /\ ~ frame_holds F1 w es.
Proof.
  split; [vm_compute; reflexivity|].
  exists (mk_world [[0%Z]] [0] [] []).
  exists [EAlloc [5%Z]; ECall framestack_step_pinned [1]; ECall framestack_reset_pinned []].
  split.
  - unfold Inv; simpl. split; [reflexivity|]. split; [intros l [<-|[]]; auto | intros l []].
  - intros H. destruct H as [_ H]. destruct H as [_ H]. destruct H as [H _].
    (* the observation returned by step() is location 6; reset() then rewrites it in place *)
    specialize (H 6). vm_compute in H.
    pose proof (H (or_intror (or_introl eq_refl))) as Hc. discriminate Hc.
Qed.
Print Assumptions C19_framestack_pinned_refuted.

Theorem C19_dictreplay_add_pinned_refuted :
  disciplined 5 5 dictbuffer_add_pinned = false /\
  exists w es, Inv 5 w /\ ~ frame_holds F1 w es.
Proof.
  split; [vm_compute; reflexivity|].
  exists (mk_world [[0%Z]; [0%Z]; [0%Z]; [0%Z]; [0%Z]; [1%Z]; [2%Z]; [3%Z]; [4%Z]; [5%Z]] [0; 1; 2; 3; 4] [] [5; 6; 7; 8; 9]).
  exists [ECall dictbuffer_add_pinned [5; 6; 7; 8; 9]].
  split.
  - unfold Inv; simpl. split; [reflexivity|]. split.
    + intros l H. repeat (destruct H as [<-|H]; [lia|]). destruct H.
    + intros l H. repeat (destruct H as [<-|H]; [split; [lia|]; intros Hc; repeat (destruct Hc as [Hc|Hc]; [discriminate|]); destruct Hc|]). destruct H.
  - intros H. destruct H as [H _].
    specialize (H 5). vm_compute in H.
    pose proof (H (or_introl eq_refl)) as Hc. discriminate Hc.
Qed.
Print Assumptions C19_dictreplay_add_pinned_refuted.
