(* C08, finding F9: SAC's `gradient_step % target_update_interval` restarts in every train() call.
   The property says "every target_update_interval gradient steps".  With gradient_steps = 1 the
   target is updated at EVERY gradient step for any interval: 12 calls, interval 4 -> 12 updates
   where a global count gives 3. *)
From Coq Require Import ZArith List Bool.
From SB3V Require Import Lib.Tactics Model.Cadence Proofs.CadenceProofs.
Import ListNotations.
Local Open Scope Z_scope.

Theorem C08_sac_every_k_global_refuted :
  exists tui gs,
    0 < tui /\
    sac_calls tui gs <> every_k_global tui (fold_right Nat.add 0%nat gs) /\
    count_true (sac_calls tui gs) = 12 /\ count_true (every_k_global tui (fold_right Nat.add 0%nat gs)) = 3.
Proof. exists 4, (repeat 1%nat 12). split; [lia|]. split; [vm_compute; discriminate|]. split; reflexivity. Qed.
Print Assumptions C08_sac_every_k_global_refuted.

(* and it is general: one-step calls always update *)
Theorem C08_sac_one_step_calls_always_update : forall tui n, 0 < tui -> sac_calls tui (repeat 1%nat n) = repeat true n.
Proof. exact sac_one_step_calls_always_update. Qed.
Print Assumptions C08_sac_one_step_calls_always_update.
