(* C20 / known finding csv-dump-without-values-misaligns-rows (a): inside the domain of C20_csv_roundtrip (first dump brings
   a column, no line breaks) a dump that carries no value while the file has a single column writes a blank line; the
   library's reader (pandas, skip_blank_lines) drops it, so rows no longer correspond to dumps. *)
From Coq Require Import List Ascii String Bool.
From SB3V Require Import Model.Csv.
Import ListNotations.

Definition T (s : string) : text := list_ascii_of_string s.
Definition blank_dumps : list (list (text * field) * list text) :=
  [ ([(T "a", FU (T "1"))], [T "a"]); ([], []); ([(T "a", FU (T "2"))], []) ].

Theorem C20_csv_blank_row_dropped_refuted :
  exists dumps,
    let c := csv_run csv0 dumps in
    (* the RFC reader gives the table of what was recorded (3 rows) ... *)
    table_eqb (parse_csv (c_file c)) (expected_table (c_keys c) dumps) = true /\
    (* ... the blank-line-skipping reader returns one row less: header, 1, 2 *)
    parse_csv_skip_blank (c_file c) = [[FU (T "a")]; [FU (T "1")]; [FU (T "2")]] /\
    List.length (expected_table (c_keys c) dumps) = 4 /\ no_blank_rows (expected_table (c_keys c) dumps) = false.
Proof. exists blank_dumps. vm_compute. repeat split. Qed.
