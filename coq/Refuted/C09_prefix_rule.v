(* C09 / F7 (repaired in /repo by d2e3a0f): with the rule BEFORE the fix - every value json.dumps accepts is kept as
   plain JSON - the codec is not the identity.  Kept as regression witnesses; the harness replays the same values
   on the implementation (corpus/C09.jsonl). *)
From Coq Require Import List ZArith Bool String.
From SB3V Require Import Model.JsonCodec.
Import ListNotations.
Local Open Scope Z_scope.
Local Open Scope string_scope.

Definition ex_tuple : list (string * jv) := [("net_arch", JTuple [JInt 4; JInt 4])].
Definition ex_intkey : list (string * jv) := [("m", JDict [(KI 1, JStr "a")])].
Definition ex_nested : list (string * jv) := [("kw", JDict [(KS "net_arch", JDict [(KS "pi", JTuple [JInt 8])])])].
Definition ex_npfloat : list (string * jv) := [("g", JSub 1 (JFloat 7 false))].

Theorem C09_old_rule_alters_values_refuted :
  json_to_data (data_to_json_old ex_tuple) = [("net_arch", JList [JInt 4; JInt 4])] /\
  json_to_data (data_to_json_old ex_intkey) <> ex_intkey /\
  json_to_data (data_to_json_old ex_nested) <> ex_nested /\
  json_to_data (data_to_json_old ex_npfloat) = [("g", JFloat 7 false)].
Proof. repeat split; try reflexivity; intros H; vm_compute in H; discriminate H. Qed.

(* the repaired rule pickles exactly these *)
Example C09_new_rule_on_witnesses :
  map (fun kv => is_plain (snd kv)) (data_to_json (ex_tuple ++ ex_intkey ++ ex_nested ++ ex_npfloat)%list) = [false; false; false; false] /\
  json_to_data (data_to_json (ex_tuple ++ ex_intkey ++ ex_nested ++ ex_npfloat)%list) = (ex_tuple ++ ex_intkey ++ ex_nested ++ ex_npfloat)%list.
Proof. split; reflexivity. Qed.
