(* C20 / F5: the faithful character-level model of CSVOutputFormat.write violates the read-back statement
   when a string value contains a line break and a later dump adds a column. *)
From Coq Require Import List Ascii String Bool.
From SB3V Require Import Model.Csv.
Import ListNotations.

Definition T (s : string) : text := list_ascii_of_string s.

(* dump 1 records a = "x<LF>y"; dump 2 records a = 1 and the new key b = 2 *)
Definition f5_dumps : list (list (text * field) * list text) :=
  [ ([(T "a", FQ (T "x" ++ [nl] ++ T "y"))], [T "a"]);
    ([(T "a", FU (T "1")); (T "b", FU (T "2"))], [T "b"]) ].

Theorem C20_csv_multiline_header_rewrite_refuted :
  exists dumps,
    let c := csv_run csv0 dumps in
    (* the file is not the table of what was recorded ... *)
    table_eqb (parse_csv (c_file c)) (expected_table (c_keys c) dumps) = false /\
    (* ... the value recorded as x<LF>y reads back as x,<LF>y *)
    nth 0 (nth 1 (parse_csv (c_file c)) []) (FU []) = FQ (T "x," ++ [nl] ++ T "y") /\
    nth 0 (nth 1 (expected_table (c_keys c) dumps) []) (FU []) = FQ (T "x" ++ [nl] ++ T "y").
Proof. exists f5_dumps. vm_compute. repeat split. Qed.

(* without the later new column the same value reads back unchanged *)
Example f5_no_new_column :
  let dumps := [ ([(T "a", FQ (T "x" ++ [nl] ++ T "y"))], [T "a"]); ([(T "a", FU (T "1"))], []) ] in
  let c := csv_run csv0 dumps in
  table_eqb (parse_csv (c_file c)) (expected_table (c_keys c) dumps) = true.
Proof. vm_compute. reflexivity. Qed.
