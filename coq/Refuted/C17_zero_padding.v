(* Finding (C17, round 5, A): VecFrameStack pads the window with zeros after a reset / an episode end, but declares the stacked space with the base
   space's bounds (np.repeat(low/high, n_stack)): when some element's bounds exclude 0 the returned observation (and the stacked
   terminal observation of an episode shorter than the stack depth) is NOT a member of the declared observation space.
   The clause "return observations that belong to the wrapper's declared observation space" fails on the faithful model for
   Box(low=1, high=2, shape=(2,)), n_stack = 3: reset returns [0,0,0,0,1,2] while the declared space is Box(1, 2, (6,)).
   The same input is replayed on the implementation by harness/c17.py (corpus/C17.jsonl, stream "bounds"). *)
From Coq Require Import ZArith List Bool.
From SB3V Require Import Model.Wrappers Model.WrapperBounds.
Import ListNotations.
Local Open Scope nat_scope.

Definition fa_lo : tensor := tfull [2] 1%Z.
Definition fa_hi : tensor := tfull [2] 2%Z.
Definition fa_frame : tensor := mk_tensor [2] [1; 2]%Z.
Definition fa_short : list (fevent tensor) :=
  [FReset fa_frame; FStep fa_frame true (Some (mk_tensor [2] [2; 2]%Z))].

Theorem C17_zero_padding_outside_space_refuted :
  exists (n : nat) (cf : bool) (lo hi : tensor) (evs : list (fevent tensor)),
    1 <= n /\
    (* every observation and terminal observation of the wrapped env lies within the base space *)
    Forall (fevent_ok (fun t => twithin lo hi t = true)) evs /\
    (* the observation returned by reset(): zeros then the frame, outside the declared bounds *)
    tcat cf (fs_run (tzeros_like lo) n (firstn 1 evs)) = mk_tensor [6] [0; 0; 0; 0; 1; 2]%Z /\
    trepeat cf n lo = tfull [6] 1%Z /\ trepeat cf n hi = tfull [6] 2%Z /\
    map bv_obs (snd (bounds_run cf n lo hi evs)) = [false; false] /\
    (* the stacked terminal observation of the one-step episode: [0,0,1,2,2,2], outside as well *)
    map bv_term (snd (bounds_run cf n lo hi evs)) = [None; Some false].
Proof.
  exists 3, false, fa_lo, fa_hi, fa_short. vm_compute.
  split; [auto|]. split; [repeat constructor|]. repeat split; reflexivity.
Qed.
Print Assumptions C17_zero_padding_outside_space_refuted.
