(* Finding (C04, VecNormalize): the terminal observation reaches _store_transition only in NORMALISED and CLIPPED form
   (VecNormalize.step_wait overwrites infos["terminal_observation"] with normalize_obs of it); _store_transition stores
   unnormalize_obs of that.  unnormalize (clip (normalize x)) is not x once |x - mean| > clip_obs * std, so the "raw" next
   observation of an episode-ending transition is wrong for outlying terminal observations.
   Stated with the scalar normalisation functions of the C15 model (Model/VecNorm.v: normalize_s / unnormalize_s, the standard
   deviation given as a positive number).  The same effect is replayed on the implementation by harness/c04.py
   (corpus/C04.jsonl, signature vecnormalize-terminal-obs-clipped). *)
From Coq Require Import QArith Qminmax.
From SB3V Require Import Model.VecNorm.
Local Open Scope Q_scope.

Theorem C04_vecnormalize_terminal_obs_is_raw_refuted :
  exists mean std clip x, 0 < std /\ 0 < clip /\
    ~ (unnormalize_s (normalize_s x mean std clip) mean std == x).
Proof.
  exists 100, (1 # 2), 10, 5000. split; [reflexivity|]. split; [reflexivity|].
  vm_compute. discriminate.
Qed.
Print Assumptions C04_vecnormalize_terminal_obs_is_raw_refuted.
