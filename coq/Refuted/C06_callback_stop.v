(* Finding (C06): when callback.on_step() returns False, collect_rollouts returns after env.step but before rollout_buffer.add:
   _last_obs / _last_episode_starts stay where they were while the environment has moved on; the next
   learn(reset_num_timesteps=False) evaluates the policy on the stale observation and pairs it with the reward of a later step.
   The faithful model (collect_s) reproduces it: stop request at the third step of 100 -> 101 -> ...; the slot written next holds
   observation 102 although the environment showed 103 before that step.
   Replayed on the implementation by harness/c06.py (corpus/C06.jsonl, signature callback-stop-loses-transition-then-stale-last-obs). *)
From Coq Require Import ZArith QArith List Bool.
From SB3V Require Import Model.Script Model.OnPolicyCollect.
Import ListNotations.
Local Open Scope Z_scope.

Definition stop_sc : script :=
  [mk_episode 100 0 [mk_sstep 101 4 false false 0; mk_sstep 102 8 false false 0; mk_sstep 103 12 false false 0; mk_sstep 104 16 false false 0;
                     mk_sstep 105 20 false false 0; mk_sstep 106 24 true false 0]].
Definition p0 (i : Z) : pol := mkP i [] 0 0 0.

Theorem C06_slot_holds_the_observation_the_env_showed_refuted :
  exists (sc : script) (ps : list (pol * bool)),
    let st := col_reset sc cstate0 in
    let stored := map (fun s => (s_obs s, Qred (s_rew s))) (snd (collect_s ActId 1 sc st ps)) in
    let real := map (fun s => (s_obs s, Qred (s_rew s))) (snd (collect ActId 1 sc st (map fst ps))) in
    (* (observation in the slot, reward in the slot) *)
    stored = [(100, 1%Q); (101, 2%Q); (102, 4%Q); (104, 5%Q)] /\
    real = [(100, 1%Q); (101, 2%Q); (102, 3%Q); (103, 4%Q); (104, 5%Q)] /\
    In (102, 4%Q) stored /\ ~ In (102, 4%Q) real.
Proof.
  exists stop_sc, [(p0 0, false); (p0 1, false); (p0 2, true); (p0 3, false); (p0 4, false)].
  vm_compute. repeat split; auto.
  intros H. repeat (destruct H as [H|H]; [discriminate H|]). exact H.
Qed.
Print Assumptions C06_slot_holds_the_observation_the_env_showed_refuted.
