(* C08, finding candidate: the property says DQN updates its target "every target_update_interval environment steps counted
   across sub-environments".  The code updates every max(tui // n_envs, 1) vectorised steps, i.e. every (tui // n_envs) * n_envs
   environment steps: when n_envs does not divide tui the interval is rounded DOWN to a multiple of n_envs.
   tui = 10, n_envs = 4: an update every 8 environment steps - 5 updates in 40 environment steps instead of 4. *)
From Coq Require Import ZArith List Bool.
From SB3V Require Import Lib.Tactics Model.Cadence Proofs.CadenceProofs.
Import ListNotations.
Local Open Scope Z_scope.

Theorem C08_dqn_interval_rounded_refuted :
  exists tui n k, 0 < n /\ n <= tui /\
    dqn_period tui n * n < tui /\
    count_true (dqn_steps (dqn_period tui n) 0 k) = 5 /\ Z.of_nat k * n / tui = 4.
Proof. exists 10, 4, 10%nat. repeat split; try lia; reflexivity. Qed.
Print Assumptions C08_dqn_interval_rounded_refuted.

(* and it is general: whenever n_envs <= tui does not divide tui, the effective interval in environment steps is strictly smaller *)
Theorem C08_dqn_interval_rounded_general : forall tui n, 0 < n -> n <= tui -> tui mod n <> 0 -> dqn_period tui n * n < tui.
Proof.
  intros tui n Hn Hle Hd. unfold dqn_period. pose proof (Z.div_mod tui n ltac:(lia)). pose proof (Z.mod_pos_bound tui n Hn).
  assert (1 <= tui / n) by nia. nia.
Qed.
Print Assumptions C08_dqn_interval_rounded_general.
