(* C20 (build round 5) - clause "a key that fits is printed verbatim / the table is re-readable by key" is violated by the faithful model of
   HumanOutputFormat.write: the indentation test is `tag in key` (a SUBSTRING test) and the cut is `key[len(tag):]`, so a key that starts
   with "/" (it sets no tag of its own) and contains the tag left by an earlier key is printed with its first len(tag) characters removed. *)
From Coq Require Import List Ascii String Bool Arith.
From SB3V Require Import Model.Csv Model.Logger Model.HumanFormat.
Import ListNotations.
Local Open Scope nat_scope.

Definition T (s : string) : text := list_ascii_of_string s.

Theorem C20_human_slash_led_key_misprinted_refuted :
  exists m l,
    Forall (fun e => List.length (e_key e) + 3 <= m) l /\
    option_map (map string_of_list_ascii) (write_lines m l) =
      Some ["-------------"; "| -a/   |   |"; "|    b  | 1 |"; "|    /c | 2 |"; "-------------"]%string /\
    (* the second key is "/-a/c": neither it nor "-a/" ++ "-a/c" can be read off the table, which shows "/c" under "-a/" *)
    map (fun e => string_of_list_ascii (e_key e)) l = ["-a/b"; "/-a/c"]%string.
Proof.
  exists 12, [mk_e (T "-a/b") (T "1") false; mk_e (T "/-a/c") (T "2") false].
  split; [repeat constructor|]. vm_compute. split; reflexivity.
Qed.
