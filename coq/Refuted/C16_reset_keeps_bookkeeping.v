(* OBSERVATION OUTSIDE THE PROPERTY'S QUANTIFIER (not a finding, not reported by ./check C16; nothing depends on this file):
   the histories C16 quantifies over do not contain reset(), and the library never calls reset() on a replay buffer.
   HerReplayBuffer inherits BaseBuffer.reset(), which rewinds the cursor but keeps
   ep_start / ep_length / _current_ep_start.  Capacity 10, one env: a 3-step episode, reset(), a 2-step episode:
   the second episode is recorded from the stale _current_ep_start 3 with length 9, so slots 3..9 - never written -
   become sampleable (ghost episode -1 = never written), while size() is 2. *)
From Coq Require Import ZArith List Bool.
From SB3V Require Import Model.Replay Model.Her.
Import ListNotations.
Local Open Scope Z_scope.

Definition rin (t : Z) (d : bool) : hin := mkIn t t 99 (t + 1) (t + 1) 99 t t d false 0.

Theorem C16_reset_keeps_bookkeeping_refuted :
  let b1 := her_run (her_create 10 1 true) [HAdd [rin 1 false]; HAdd [rin 2 false]; HAdd [rin 3 true]] in
  let b2 := her_run (her_reset b1) [HAdd [rin 11 false]; HAdd [rin 12 true]] in
  let k := h_cols b2 0%nat in
  h_pos b2 = 2 /\ h_full b2 = false /\
  valid k 5 = true /\ x_ep (sl k 5) = -1 /\ x_act (sl k 5) = 0 /\
  st k 5 = 0 /\ ln k 5 = 9.
Proof. vm_compute. repeat split; reflexivity. Qed.
Print Assumptions C16_reset_keeps_bookkeeping_refuted.
