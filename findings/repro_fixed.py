"""Reproductions of the four defects repaired by `fix:` commits (F1, F2, F4, F7 of DESIGN.md section 6).
Each function returns None when the behaviour is correct and a description when the defect is present."""
import io, sys, os
sys.path.insert(0, os.environ.get("VERIF_REPO", "/repo"))
import numpy as np
import gymnasium as gym
from gymnasium import spaces


class _CountEnv(gym.Env):
    observation_space = spaces.Box(0, 255, (2,), dtype=np.float32)
    action_space = spaces.Discrete(2)
    def __init__(self): self.t = 0
    def reset(self, *, seed=None, options=None):
        self.t = 0
        return np.full(2, 1, dtype=np.float32), {}
    def step(self, a):
        self.t += 1
        return np.full(2, 1 + self.t, dtype=np.float32), 0.0, self.t >= 3, False, {}


def f1_framestack_alias():
    from stable_baselines3.common.vec_env import DummyVecEnv, VecFrameStack
    v = VecFrameStack(DummyVecEnv([_CountEnv]), n_stack=3)
    v.reset()
    o1, *_ = v.step(np.array([0]))
    snap = o1.copy()
    v.reset()
    if not np.array_equal(o1, snap):
        return f"observation returned by step() changed after a later reset(): {snap.tolist()} -> {o1.tolist()}"
    o2, *_ = v.step(np.array([0]))
    o2[...] = 77
    o3, *_ = v.step(np.array([0]))
    if 77 in o3:
        return f"writing into a returned observation changed the next observation: {o3.tolist()}"


def f2_dictreplay_rebinds():
    from stable_baselines3.common.buffers import DictReplayBuffer
    sp = spaces.Dict({"d": spaces.Discrete(5), "v": spaces.Box(-1, 1, (2,), dtype=np.float32)})
    buf = DictReplayBuffer(4, sp, spaces.Discrete(2), device="cpu", n_envs=2)
    obs = {"d": np.array([1, 2]), "v": np.zeros((2, 2), dtype=np.float32)}
    nxt = {"d": np.array([3, 4]), "v": np.ones((2, 2), dtype=np.float32)}
    d0, n0 = obs["d"], nxt["d"]
    buf.add(obs, nxt, np.array([0, 1]), np.zeros(2), np.zeros(2), [{}, {}])
    if obs["d"] is not d0 or nxt["d"] is not n0 or obs["d"].shape != (2,):
        return f"DictReplayBuffer.add rebinds the caller's dict entries: obs['d'].shape {d0.shape} -> {obs['d'].shape}"


def f4_progress_negative():
    from stable_baselines3 import PPO
    seen = []
    def lr(p):
        seen.append(p)
        return 1e-3
    m = PPO("MlpPolicy", "CartPole-v1", n_steps=8, batch_size=8, n_epochs=1, learning_rate=lr, device="cpu")
    m.learn(20)
    bad = [p for p in seen if p < 0 or p > 1]
    if bad:
        return f"schedule called with progress outside [0,1]: {bad[:3]} (total_timesteps=20, rollout=8)"


def f7_json_roundtrip():
    from stable_baselines3.common.save_util import data_to_json, json_to_data
    d = {"net_arch": (4, 4), "table": {1: "a", 2: "b"}, "nested": {"k": [(1, 2)]}, "f64": np.float64(1.5)}
    r = json_to_data(data_to_json(d))
    def same(a, b):
        if type(a) is not type(b): return False
        if isinstance(a, dict): return len(a) == len(b) and all(k in b and same(v, b[k]) for k, v in a.items())
        if isinstance(a, (list, tuple)): return len(a) == len(b) and all(same(x, y) for x, y in zip(a, b))
        return a == b
    bad = [k for k in d if not same(d[k], r.get(k))]
    if bad:
        return "attributes changed by save/load: " + ", ".join(f"{k}: {d[k]!r} -> {r.get(k)!r}" for k in bad)


if __name__ == "__main__":
    rc = 0
    for f in (f1_framestack_alias, f2_dictreplay_rebinds, f4_progress_negative, f7_json_roundtrip):
        res = f()
        print(f.__name__, "->", "ok" if res is None else "DEFECT: " + res)
        rc |= res is not None
    sys.exit(rc)
