import sys, os
sys.path.insert(0, os.environ.get("VERIF_REPO", "/repo"))
import numpy as np, gymnasium as gym
from gymnasium import spaces
from stable_baselines3.common.vec_env import DummyVecEnv
from stable_baselines3.her.her_replay_buffer import HerReplayBuffer

class G(gym.Env):
    observation_space = spaces.Dict({k: spaces.Box(-10, 10, (1,), dtype=np.float32) for k in ("observation", "achieved_goal", "desired_goal")})
    action_space = spaces.Box(-1, 1, (1,), dtype=np.float32)
    def reset(self, *, seed=None, options=None):
        return {k: np.zeros(1, dtype=np.float32) for k in self.observation_space.spaces}, {}
    def step(self, a):
        return {k: np.zeros(1, dtype=np.float32) for k in self.observation_space.spaces}, 0.0, False, False, {}
    def compute_reward(self, ag, dg, info):
        return np.array([i.get("bonus", 0.0) for i in info], dtype=np.float32)

def f14_her_infos_by_reference():
    env = DummyVecEnv([G])
    buf = HerReplayBuffer(10, env.observation_space, env.action_space, env, device="cpu", n_envs=1, copy_info_dict=True, n_sampled_goal=4)
    o = {k: np.zeros((1, 1), dtype=np.float32) for k in env.observation_space.spaces}
    infos_kept = []
    for t in range(4):
        info = [{"bonus": 1.0}]
        infos_kept.append(info)
        buf.add(o, o, np.zeros((1, 1), dtype=np.float32), np.zeros(1), np.array([t == 3]), info)
    np.random.seed(0)
    r1 = buf.sample(8).rewards.numpy().copy()
    for info in infos_kept:           # the caller changes the dicts it passed in earlier
        info[0]["bonus"] = 5.0
    np.random.seed(0)
    r2 = buf.sample(8).rewards.numpy()
    if not np.array_equal(r1, r2):
        return f"HerReplayBuffer(copy_info_dict=True) keeps the caller's info dicts by reference: rewards of the same draw changed from {sorted(set(r1.ravel().tolist()))} to {sorted(set(r2.ravel().tolist()))} after the caller modified the dicts"

if __name__ == "__main__":
    print(f14_her_infos_by_reference() or "ok")
