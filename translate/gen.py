"""Regenerate coq/Gen/Frag_<group>.v from /repo's working tree.

Every group lives in translate/specs/<group>.py as a module with
  FILE  = path relative to the repo root (or per-spec "file")
  SPECS = list of fragment specs (see py2coq.translate_fragment)
Result for each group: status "generated" | "fallback:<reason>" (then the
committed coq/Pinned/Frag_<group>.v is copied instead and the caller must
rely on the correspondence check for that fragment).
"""
from __future__ import annotations

import importlib
import json
import os
import pkgutil
import sys

HERE = os.path.dirname(os.path.abspath(__file__))
VERIF = os.path.dirname(HERE)
sys.path.insert(0, VERIF)

from translate import py2coq  # noqa: E402

REPO = os.environ.get("VERIF_REPO", "/repo")
GEN = os.path.join(VERIF, "coq", "Gen")
PINNED = os.path.join(VERIF, "coq", "Pinned")


def groups():
    import translate.specs as sp

    return sorted(m.name for m in pkgutil.iter_modules(sp.__path__))


def render(group: str) -> str:
    mod = importlib.import_module(f"translate.specs.{group}")
    out = [py2coq.HEADER]
    cache = {}
    for spec in mod.SPECS:
        f = spec.get("file", getattr(mod, "FILE", None))
        if f not in cache:
            with open(os.path.join(REPO, f)) as fh:
                cache[f] = fh.read()
        out.append(f"(* {f} :: {spec['qual']} *)")
        out.append(py2coq.translate_fragment(cache[f], spec))
    return "\n".join(out)


def write_if_changed(path: str, text: str) -> bool:
    try:
        with open(path) as fh:
            if fh.read() == text:
                return False
    except FileNotFoundError:
        pass
    with open(path, "w") as fh:
        fh.write(text)
    return True


def regenerate(only=None, pin=False) -> dict:
    os.makedirs(GEN, exist_ok=True)
    status = {}
    for g in groups():
        if only and g not in only:
            continue
        target = os.path.join(GEN, f"Frag_{g}.v")
        pinned = os.path.join(PINNED, f"Frag_{g}.v")
        try:
            text = render(g)
            st = "generated"
        except (py2coq.TranslateError, SyntaxError, OSError) as e:  # fail closed
            st = f"fallback:{type(e).__name__}: {e}"
            with open(pinned) as fh:
                text = fh.read()
        changed = write_if_changed(target, text)
        drift = None
        if st == "generated":
            if pin:
                write_if_changed(pinned, text)
            try:
                with open(pinned) as fh:
                    drift = fh.read() != text
            except FileNotFoundError:
                drift = True
        status[g] = {"status": st, "rewritten": changed, "differs_from_pinned": drift}
    # additive hook (C02): communication skeleton of SubprocVecEnv -> Gen/Frag_Subproc.v (translate/skeleton.py)
    if not only or "Subproc" in only:
        try:
            from translate import skeleton
        except ImportError:
            skeleton = None
        if skeleton is not None:
            status["Subproc"] = skeleton.regenerate(pin=pin)
    return status


if __name__ == "__main__":
    pin = "--pin" in sys.argv
    only = [a for a in sys.argv[1:] if not a.startswith("--")] or None
    print(json.dumps(regenerate(only, pin), indent=1))
