"""Communication skeleton of SubprocVecEnv (C02): Python ast -> coq/Gen/Frag_Subproc.v.

For every parent-side method the sequence of communication *phases* is extracted:
    SendEach all? kind   - a loop over self.remotes (all) or target_remotes doing exactly remote.send((kind, ...))
    RecvEach all?        - a loop / list comprehension over the same doing exactly remote.recv(), in iteration order
Anything else that touches a pipe (send and recv in one loop body, connection.wait / poll, a conditional
receive, iteration over a reordered container, ...) is emitted as the phase `Unrecognised`, which no interface
lemma of Proofs/SubprocProofs.v accepts: the proof breaks (fail closed).
For the worker loop: exactly one recv per iteration and the number of replies sent by every command branch.
"""
from __future__ import annotations

import ast
import os
import sys

HERE = os.path.dirname(os.path.abspath(__file__))
VERIF = os.path.dirname(HERE)
REPO = os.environ.get("VERIF_REPO", "/repo")
GEN = os.path.join(VERIF, "coq", "Gen")
PINNED = os.path.join(VERIF, "coq", "Pinned")
SRC = "stable_baselines3/common/vec_env/subproc_vec_env.py"
BASE = "stable_baselines3/common/vec_env/base_vec_env.py"

KINDS = {"step": "KStep", "reset": "KReset", "render": "KRender", "close": "KClose", "get_spaces": "KGetSpaces",
         "env_method": "KEnvMethod", "get_attr": "KGetAttr", "has_attr": "KHasAttr", "set_attr": "KSetAttr", "is_wrapped": "KIsWrapped"}
METHODS = ["step_async", "step_wait", "reset", "get_attr", "set_attr", "env_method", "env_is_wrapped", "has_attr", "get_images"]


class SkeletonError(Exception):
    pass


def _comm_calls(node):
    """all pipe operations below node: (kind, call)"""
    out = []
    for n in ast.walk(node):
        if isinstance(n, ast.Call):
            f = n.func
            name = f.attr if isinstance(f, ast.Attribute) else (f.id if isinstance(f, ast.Name) else None)
            if name in ("send", "recv", "wait", "poll", "send_bytes", "recv_bytes"):
                out.append((name, n))
    return out


def _iter_scope(it, loop_target):
    """(all?, name of the variable bound to the remote) for the supported iteration forms"""
    src = ast.unparse(it)
    tgt = loop_target
    if src == "self.remotes" and isinstance(tgt, ast.Name):
        return True, tgt.id
    if src == "target_remotes" and isinstance(tgt, ast.Name):
        return False, tgt.id
    if isinstance(it, ast.Call) and isinstance(it.func, ast.Name) and it.func.id == "zip" and it.args and ast.unparse(it.args[0]) == "self.remotes":
        if isinstance(tgt, ast.Tuple) and isinstance(tgt.elts[0], ast.Name):
            return True, tgt.elts[0].id
    if isinstance(it, ast.Call) and isinstance(it.func, ast.Name) and it.func.id == "enumerate" and len(it.args) == 1 and ast.unparse(it.args[0]) == "self.remotes":
        if isinstance(tgt, ast.Tuple) and len(tgt.elts) == 2 and isinstance(tgt.elts[1], ast.Name):
            return True, tgt.elts[1].id
    raise SkeletonError(f"unsupported iteration over {src}")


def _send_kind(call, var):
    f = call.func
    if not (isinstance(f, ast.Attribute) and f.attr == "send" and isinstance(f.value, ast.Name) and f.value.id == var):
        raise SkeletonError("send on something other than the loop's remote")
    if len(call.args) != 1 or not isinstance(call.args[0], ast.Tuple) or not isinstance(call.args[0].elts[0], ast.Constant):
        raise SkeletonError("send payload is not (literal command, data)")
    k = call.args[0].elts[0].value
    if k not in KINDS:
        raise SkeletonError(f"unknown command {k!r}")
    return KINDS[k]


def _is_recv_on(call, var):
    f = call.func
    return isinstance(f, ast.Attribute) and f.attr == "recv" and isinstance(f.value, ast.Name) and f.value.id == var and not call.args


def _phases_of_stmt(s):
    comm = _comm_calls(s)
    if not comm:
        return []
    # for <remote> in <scope>: remote.send((kind, ...))   |   for ...: remote.recv()
    if isinstance(s, ast.For) and not s.orelse and len(s.body) == 1 and isinstance(s.body[0], ast.Expr) and isinstance(s.body[0].value, ast.Call):
        if len(comm) != 1:
            raise SkeletonError("loop with more than one pipe operation")
        allp, var = _iter_scope(s.iter, s.target)
        call = s.body[0].value
        if comm[0][0] == "send":
            return [f"SendEach {str(allp).lower()} {_send_kind(call, var)}"]
        if comm[0][0] == "recv" and _is_recv_on(call, var):
            return [f"RecvEach {str(allp).lower()}"]
        raise SkeletonError("unsupported loop body")
    # x = [remote.recv() for remote in <scope>]  |  return [...]  |  return all([...])
    val = s.value if isinstance(s, (ast.Assign, ast.Return, ast.Expr, ast.AnnAssign)) else None
    if isinstance(val, ast.Call) and isinstance(val.func, ast.Name) and val.func.id in ("all", "list", "tuple") and len(val.args) == 1:
        val = val.args[0]
    if isinstance(val, ast.ListComp) and len(val.generators) == 1 and not val.generators[0].ifs and isinstance(val.elt, ast.Call):
        if len(comm) != 1:
            raise SkeletonError("comprehension with more than one pipe operation")
        g = val.generators[0]
        allp, var = _iter_scope(g.iter, g.target)
        if _is_recv_on(val.elt, var):
            return [f"RecvEach {str(allp).lower()}"]
    raise SkeletonError(f"unsupported communication statement: {ast.unparse(s).splitlines()[0]}")


def method_skeleton(func):
    phases = []
    for s in func.body:
        try:
            phases += _phases_of_stmt(s)
        except SkeletonError:
            phases.append("Unrecognised")
    return phases


def _find(tree, qual):
    node = tree
    for p in qual.split("."):
        node = next((c for c in node.body if isinstance(c, (ast.FunctionDef, ast.ClassDef)) and c.name == p), None)
        if node is None:
            raise SkeletonError(f"cannot find {qual}")
    return node


def worker_skeleton(func):
    """(recvs per loop iteration, [(kind, number of sends in that branch)])"""
    loop = next((s for s in func.body if isinstance(s, ast.While)), None)
    if loop is None or ast.unparse(loop.test) != "True" or len(loop.body) != 1 or not isinstance(loop.body[0], ast.Try):
        raise SkeletonError("worker loop shape")
    body = loop.body[0].body
    first = body[0]
    if not (isinstance(first, ast.Assign) and ast.unparse(first) == "cmd, data = remote.recv()"):
        raise SkeletonError("worker does not start with cmd, data = remote.recv()")
    if len(body) != 2 or not isinstance(body[1], ast.If):
        raise SkeletonError("worker dispatch shape")
    replies = []
    node = body[1]
    recvs = 1
    while True:
        t = node.test
        if not (isinstance(t, ast.Compare) and ast.unparse(t.left) == "cmd" and len(t.ops) == 1 and isinstance(t.ops[0], ast.Eq) and isinstance(t.comparators[0], ast.Constant)):
            raise SkeletonError("worker dispatch test")
        k = t.comparators[0].value
        if k not in KINDS:
            raise SkeletonError(f"unknown worker command {k!r}")
        comm = [c for st in node.body for c in _comm_calls(st)]
        recvs += sum(1 for c in comm if c[0] != "send")
        # sends inside try/except alternatives (has_attr) count once per alternative: take the max over paths
        replies.append((KINDS[k], _max_sends(node.body)))
        if len(node.orelse) == 1 and isinstance(node.orelse[0], ast.If):
            node = node.orelse[0]
        else:
            if any(_comm_calls(s) for s in node.orelse):
                raise SkeletonError("communication in the default branch")
            break
    return recvs, replies


def _max_sends(stmts):
    """number of remote.send calls on the longest path; try/except and if/else count as alternatives.
    A branch where two alternatives send a different number of replies makes this return -1."""
    total = 0
    for s in stmts:
        if isinstance(s, ast.Try):
            alts = [_max_sends(s.body)] + [_max_sends(h.body) for h in s.handlers]
            if len(set(alts)) != 1:
                return -1
            total += alts[0]
        elif isinstance(s, ast.If):
            alts = [_max_sends(s.body), _max_sends(s.orelse)]
            if len(set(alts)) != 1:
                return -1
            total += alts[0]
        elif isinstance(s, (ast.For, ast.While)):
            if any(c[0] == "send" for c in _comm_calls(s)):
                return -1
        else:
            total += sum(1 for c in _comm_calls(s) if c[0] == "send")
    return total


def render() -> tuple[str, list]:
    with open(os.path.join(REPO, SRC)) as fh:
        tree = ast.parse(fh.read())
    with open(os.path.join(REPO, BASE)) as fh:
        base = ast.parse(fh.read())
    out = ["(* GENERATED by /verif/translate/skeleton.py from /repo's working tree - do not edit *)",
           "From Coq Require Import List.", "From SB3V Require Import Model.Subproc.", "Import ListNotations.", ""]
    bad = []
    for m in METHODS:
        try:
            ph = method_skeleton(_find(tree, f"SubprocVecEnv.{m}"))
        except SkeletonError as e:
            ph = ["Unrecognised"]
            bad.append(f"{m}: {e}")
        if "Unrecognised" in ph:
            bad.append(m)
        out.append(f"(* {SRC} :: SubprocVecEnv.{m} *)")
        out.append(f"Definition skel_{m} : list phase := [{'; '.join(ph)}].")
    # _get_target_remotes keeps index order; _get_indices(None) = range(num_envs)
    try:
        f = _find(tree, "SubprocVecEnv._get_target_remotes")
        body = [s for s in f.body if not (isinstance(s, ast.Expr) and isinstance(s.value, ast.Constant))]
        ok = (len(body) == 2 and ast.unparse(body[0]) == "indices = self._get_indices(indices)"
              and ast.unparse(body[1]) == "return [self.remotes[i] for i in indices]")
    except SkeletonError:
        ok = False
    out.append(f"Definition skel_targets_in_index_order : bool := {str(ok).lower()}.")
    try:
        f = _find(base, "VecEnv._get_indices")
        body = [s for s in f.body if not (isinstance(s, ast.Expr) and isinstance(s.value, ast.Constant))]
        ok2 = (len(body) == 2 and ast.unparse(body[0]).replace("\n", " ").split() ==
               "if indices is None: indices = range(self.num_envs) elif isinstance(indices, int): indices = [indices]".split()
               and ast.unparse(body[1]) == "return indices")
    except SkeletonError:
        ok2 = False
    out.append(f"Definition skel_indices_none_is_range : bool := {str(ok2).lower()}.")
    try:
        recvs, replies = worker_skeleton(_find(tree, "_worker"))
    except SkeletonError as e:
        recvs, replies = 0, []
        bad.append(f"_worker: {e}")
    out.append(f"(* {SRC} :: _worker *)")
    out.append(f"Definition worker_recvs_per_iteration : nat := {recvs}.")
    out.append("Definition worker_replies : list (cmdkind * nat) := [" + "; ".join(f"({k}, {max(n, 0) if n >= 0 else 99})" for k, n in replies) + "].")
    return "\n".join(out) + "\n", bad


def regenerate(pin=False) -> dict:
    os.makedirs(GEN, exist_ok=True)
    target = os.path.join(GEN, "Frag_Subproc.v")
    pinned = os.path.join(PINNED, "Frag_Subproc.v")
    try:
        text, bad = render()
        st = "generated"
    except (SkeletonError, SyntaxError, OSError) as e:
        st = f"fallback:{type(e).__name__}: {e}"
        bad = [str(e)]
        with open(pinned) as fh:
            text = fh.read()
    changed = True
    try:
        with open(target) as fh:
            changed = fh.read() != text
    except FileNotFoundError:
        pass
    if changed:
        with open(target, "w") as fh:
            fh.write(text)
    drift = None
    if st == "generated":
        if pin:
            with open(pinned, "w") as fh:
                fh.write(text)
        try:
            with open(pinned) as fh:
                drift = fh.read() != text
        except FileNotFoundError:
            drift = True
    return {"status": st, "rewritten": changed, "differs_from_pinned": drift, "unrecognised": bad}


if __name__ == "__main__":
    import json

    print(json.dumps(regenerate(pin="--pin" in sys.argv), indent=1))
