"""Communication skeleton of SubprocVecEnv (C02): Python ast -> coq/Gen/Frag_Subproc.v.

For every parent-side method the sequence of communication *phases* is extracted:
    SendEach all? kind   - a loop over self.remotes (all) or target_remotes doing exactly remote.send((kind, ...))
    RecvEach all?        - a loop / list comprehension over the same doing exactly remote.recv(), in iteration order
Anything else that touches a pipe (send and recv in one loop body, connection.wait / poll, a conditional
receive, iteration over a reordered container, ...) is emitted as the phase `Unrecognised`, which no interface
lemma of Proofs/SubprocProofs.v accepts: the proof breaks (fail closed).
For the worker loop: exactly one recv per iteration and the number of replies sent by every command branch.
"""
from __future__ import annotations

import ast
import os
import sys

HERE = os.path.dirname(os.path.abspath(__file__))
VERIF = os.path.dirname(HERE)
REPO = os.environ.get("VERIF_REPO", "/repo")
GEN = os.path.join(VERIF, "coq", "Gen")
PINNED = os.path.join(VERIF, "coq", "Pinned")
SRC = "stable_baselines3/common/vec_env/subproc_vec_env.py"
BASE = "stable_baselines3/common/vec_env/base_vec_env.py"

KINDS = {"step": "KStep", "reset": "KReset", "render": "KRender", "close": "KClose", "get_spaces": "KGetSpaces",
         "env_method": "KEnvMethod", "get_attr": "KGetAttr", "has_attr": "KHasAttr", "set_attr": "KSetAttr", "is_wrapped": "KIsWrapped"}
METHODS = ["step_async", "step_wait", "reset", "get_attr", "set_attr", "env_method", "env_is_wrapped", "has_attr", "get_images"]


class SkeletonError(Exception):
    pass


def _comm_calls(node):
    """all pipe operations below node: (kind, call)"""
    out = []
    for n in ast.walk(node):
        if isinstance(n, ast.Call):
            f = n.func
            name = f.attr if isinstance(f, ast.Attribute) else (f.id if isinstance(f, ast.Name) else None)
            if name in ("send", "recv", "wait", "poll", "send_bytes", "recv_bytes"):
                out.append((name, n))
    return out


def _iter_scope(it, loop_target):
    """(all?, name of the variable bound to the remote) for the supported iteration forms"""
    src = ast.unparse(it)
    tgt = loop_target
    if src == "self.remotes" and isinstance(tgt, ast.Name):
        return True, tgt.id
    if src == "target_remotes" and isinstance(tgt, ast.Name):
        return False, tgt.id
    if isinstance(it, ast.Call) and isinstance(it.func, ast.Name) and it.func.id == "zip" and it.args and ast.unparse(it.args[0]) == "self.remotes":
        if isinstance(tgt, ast.Tuple) and isinstance(tgt.elts[0], ast.Name):
            return True, tgt.elts[0].id
    if isinstance(it, ast.Call) and isinstance(it.func, ast.Name) and it.func.id == "enumerate" and len(it.args) == 1 and ast.unparse(it.args[0]) == "self.remotes":
        if isinstance(tgt, ast.Tuple) and len(tgt.elts) == 2 and isinstance(tgt.elts[1], ast.Name):
            return True, tgt.elts[1].id
    raise SkeletonError(f"unsupported iteration over {src}")


def _send_kind(call, var):
    f = call.func
    if not (isinstance(f, ast.Attribute) and f.attr == "send" and isinstance(f.value, ast.Name) and f.value.id == var):
        raise SkeletonError("send on something other than the loop's remote")
    if len(call.args) != 1 or not isinstance(call.args[0], ast.Tuple) or not isinstance(call.args[0].elts[0], ast.Constant):
        raise SkeletonError("send payload is not (literal command, data)")
    k = call.args[0].elts[0].value
    if k not in KINDS:
        raise SkeletonError(f"unknown command {k!r}")
    return KINDS[k]


def _is_recv_on(call, var):
    f = call.func
    return isinstance(f, ast.Attribute) and f.attr == "recv" and isinstance(f.value, ast.Name) and f.value.id == var and not call.args


def _phases_of_stmt(s):
    comm = _comm_calls(s)
    if not comm:
        return []
    # for <remote> in <scope>: remote.send((kind, ...))   |   for ...: remote.recv()
    if isinstance(s, ast.For) and not s.orelse and len(s.body) == 1 and isinstance(s.body[0], ast.Expr) and isinstance(s.body[0].value, ast.Call):
        if len(comm) != 1:
            raise SkeletonError("loop with more than one pipe operation")
        allp, var = _iter_scope(s.iter, s.target)
        call = s.body[0].value
        if comm[0][0] == "send":
            return [f"SendEach {str(allp).lower()} {_send_kind(call, var)}"]
        if comm[0][0] == "recv" and _is_recv_on(call, var):
            return [f"RecvEach {str(allp).lower()}"]
        raise SkeletonError("unsupported loop body")
    # x = [remote.recv() for remote in <scope>]  |  return [...]  |  return all([...])
    val = s.value if isinstance(s, (ast.Assign, ast.Return, ast.Expr, ast.AnnAssign)) else None
    if isinstance(val, ast.Call) and isinstance(val.func, ast.Name) and val.func.id in ("all", "list", "tuple") and len(val.args) == 1:
        val = val.args[0]
    if isinstance(val, ast.ListComp) and len(val.generators) == 1 and not val.generators[0].ifs and isinstance(val.elt, ast.Call):
        if len(comm) != 1:
            raise SkeletonError("comprehension with more than one pipe operation")
        g = val.generators[0]
        allp, var = _iter_scope(g.iter, g.target)
        if _is_recv_on(val.elt, var):
            return [f"RecvEach {str(allp).lower()}"]
    raise SkeletonError(f"unsupported communication statement: {ast.unparse(s).splitlines()[0]}")


TARGET_STMTS = ("target_remotes = self._get_target_remotes(indices)", "target_remotes = self._get_target_remotes(indices=None)")


def _is_doc(s):
    return isinstance(s, ast.Expr) and isinstance(s.value, ast.Constant) and isinstance(s.value.value, str)


def _assigned_names(func):
    """names / attribute paths assigned anywhere in the function body (parameters rebound, self._seeds overwritten, ...)"""
    out = set()
    for n in ast.walk(func):
        tgts = []
        if isinstance(n, ast.Assign):
            tgts = n.targets
        elif isinstance(n, (ast.AugAssign, ast.AnnAssign)):
            tgts = [n.target]
        elif isinstance(n, (ast.For, ast.comprehension)):
            tgts = [n.target]
        for t in tgts:
            for m in ast.walk(t):
                if isinstance(m, (ast.Name, ast.Attribute)) and isinstance(getattr(m, "ctx", None), ast.Store):
                    out.add(ast.unparse(m))
    return out


def _payload(func, stmt):
    """which data a SendEach loop sends to worker i"""
    call = stmt.body[0].value
    kind = call.args[0].elts[0].value
    data = call.args[0].elts[1] if len(call.args[0].elts) == 2 else None
    if data is None:
        return "PayOther"
    params = {a.arg for a in func.args.args + func.args.kwonlyargs} - {"self"}
    if func.args.vararg:
        params.add(func.args.vararg.arg)
    if func.args.kwarg:
        params.add(func.args.kwarg.arg)
    assigned = _assigned_names(func)
    it, tgt = stmt.iter, stmt.target
    if kind == "step":
        ok = (isinstance(it, ast.Call) and ast.unparse(it) == "zip(self.remotes, actions)" and isinstance(tgt, ast.Tuple) and len(tgt.elts) == 2
              and isinstance(tgt.elts[1], ast.Name) and isinstance(data, ast.Name) and data.id == tgt.elts[1].id
              and "actions" in params and "actions" not in assigned)
        return "PayOwnAction" if ok else "PayOther"
    if kind == "reset":
        ok = (isinstance(it, ast.Call) and ast.unparse(it) == "enumerate(self.remotes)" and isinstance(tgt, ast.Tuple) and isinstance(tgt.elts[0], ast.Name)
              and ast.unparse(data) == f"(self._seeds[{tgt.elts[0].id}], self._options[{tgt.elts[0].id}])"
              and "self._seeds" not in assigned and "self._options" not in assigned)
        return "PayOwnSeedOption" if ok else "PayOther"
    loopvars = {m.id for m in ast.walk(tgt) if isinstance(m, ast.Name)}
    names = {m.id for m in ast.walk(data) if isinstance(m, ast.Name)}
    if names <= params and not (names & loopvars) and not (names & assigned) and not any(isinstance(m, (ast.Attribute, ast.Call, ast.Subscript)) for m in ast.walk(data)):
        return "PayCallArgs"
    return "PayOther"


def _results_ordered(func, stmts_after, recv_stmt):
    """the list received in worker order must reach the return value without being re-ordered: it may only be unpacked with
    zip(*results), and the unpacked columns only be stacked (_stack_obs / np.stack), stored or returned as they are"""
    ordered = set()
    if isinstance(recv_stmt, ast.Assign):
        if len(recv_stmt.targets) != 1 or not isinstance(recv_stmt.targets[0], ast.Name):
            return False
        ordered.add(recv_stmt.targets[0].id)
    parents = {}
    for st in stmts_after:
        for n in ast.walk(st):
            for ch in ast.iter_child_nodes(n):
                parents[ch] = n
    for st in stmts_after:
        # results, columns rebound
        for n in ast.walk(st):
            if isinstance(n, ast.Name) and isinstance(n.ctx, ast.Store) and n.id in ordered:
                return False
        if isinstance(st, ast.Assign) and isinstance(st.value, ast.Call) and ast.unparse(st.value.func) == "zip" and len(st.value.args) == 1 \
                and isinstance(st.value.args[0], ast.Starred) and isinstance(st.value.args[0].value, ast.Name) and st.value.args[0].value.id in ordered \
                and len(st.targets) == 1 and isinstance(st.targets[0], ast.Tuple):
            for e in st.targets[0].elts:
                if isinstance(e, ast.Name):
                    ordered.add(e.id)
                elif ast.unparse(e) != "self.reset_infos":
                    return False
            continue
        for n in ast.walk(st):
            if isinstance(n, ast.Name) and isinstance(n.ctx, ast.Load) and n.id in ordered:
                par = parents.get(n)
                ok = (isinstance(par, ast.Return)
                      or (isinstance(par, ast.Tuple) and isinstance(parents.get(par), ast.Return))
                      or (isinstance(par, ast.Call) and ast.unparse(par.func) in ("_stack_obs", "np.stack") and par.args and par.args[0] is n))
                if not ok:
                    return False
    return True


def method_skeleton(func):
    """(phases, targets_stmt_ok, payloads, results_ordered)"""
    body = [s for s in func.body if not _is_doc(s)]
    comm_idx = [i for i, s in enumerate(body) if _comm_calls(s)]
    phases, payloads = [], []
    targets_ok, ordered_ok = True, True
    uses_targets = False
    for i, s in enumerate(body):
        if i in comm_idx:
            try:
                ph = _phases_of_stmt(s)
            except SkeletonError:
                ph = ["Unrecognised"]
            phases += ph
            if ph and ph[0].startswith("SendEach"):
                payloads.append(_payload(func, s))
                uses_targets = uses_targets or ph[0].startswith("SendEach false")
            if ph and ph[0].startswith("RecvEach") and i == comm_idx[-1]:
                ordered_ok = _results_ordered(func, body[i + 1:], s)
            continue
        if comm_idx and comm_idx[0] < i < comm_idx[-1]:
            # between two communication phases nothing may happen except the bookkeeping flag
            if not (isinstance(s, ast.Assign) and ast.unparse(s) in ("self.waiting = True", "self.waiting = False")):
                phases.append("Unrecognised")
            continue
        if not comm_idx or i < comm_idx[0]:
            # before the first phase: the target list must come from exactly _get_target_remotes(indices)
            if any(isinstance(n, ast.Name) and n.id == "target_remotes" and isinstance(n.ctx, ast.Store) for n in ast.walk(s)):
                if ast.unparse(s) not in TARGET_STMTS:
                    targets_ok = False
    if uses_targets:
        has_indices = any(a.arg == "indices" for a in func.args.args + func.args.kwonlyargs)
        allowed = TARGET_STMTS[:1] if has_indices else TARGET_STMTS[1:]      # a method with an `indices` parameter must pass it on
        defs = [ast.unparse(s) for s in body[: comm_idx[0]] if ast.unparse(s) in allowed] if comm_idx else []
        targets_ok = targets_ok and len(defs) == 1 and "indices" not in (_assigned_names(func) - {"target_remotes"})
    return phases, targets_ok, payloads, ordered_ok


def has_attr_answer_is_all(func):
    """round 5: SubprocVecEnv.has_attr is stateless and returns the conjunction of what the workers answer NOW: its body is exactly
    target list ; send loop ; `return all([<remote>.recv() for <remote> in target_remotes])` (no remembered answers, no early exit)"""
    body = [s for s in func.body if not _is_doc(s)]
    if len(body) != 3 or ast.unparse(body[0]) not in TARGET_STMTS or not isinstance(body[1], ast.For) or not isinstance(body[2], ast.Return):
        return False
    v = body[2].value
    if not (isinstance(v, ast.Call) and isinstance(v.func, ast.Name) and v.func.id == "all" and len(v.args) == 1 and not v.keywords):
        return False
    lc = v.args[0]
    if not (isinstance(lc, (ast.ListComp, ast.GeneratorExp)) and len(lc.generators) == 1 and not lc.generators[0].ifs):
        return False
    g = lc.generators[0]
    return ast.unparse(g.iter) == "target_remotes" and isinstance(g.target, ast.Name) and isinstance(lc.elt, ast.Call) and _is_recv_on(lc.elt, g.target.id)


HAS_ATTR_BRANCH = "try:\n    env.get_wrapper_attr(data)\n    remote.send(True)\nexcept AttributeError:\n    remote.send(False)"


def worker_has_attr_ok(func):
    """round 5: the worker's has_attr branch looks the attribute up in the environment at the time the command is handled"""
    for n in ast.walk(func):
        if isinstance(n, ast.If) and ast.unparse(n.test) in ("cmd == 'has_attr'", 'cmd == "has_attr"'):
            return len(n.body) == 1 and ast.unparse(n.body[0]) == HAS_ATTR_BRANCH
    return False


def _find(tree, qual):
    node = tree
    for p in qual.split("."):
        node = next((c for c in node.body if isinstance(c, (ast.FunctionDef, ast.ClassDef)) and c.name == p), None)
        if node is None:
            raise SkeletonError(f"cannot find {qual}")
    return node


def worker_skeleton(func):
    """(recvs per loop iteration, [(kind, number of sends in that branch)])"""
    loop = next((s for s in func.body if isinstance(s, ast.While)), None)
    if loop is None or ast.unparse(loop.test) != "True" or len(loop.body) != 1 or not isinstance(loop.body[0], ast.Try):
        raise SkeletonError("worker loop shape")
    body = loop.body[0].body
    first = body[0]
    if not (isinstance(first, ast.Assign) and ast.unparse(first) == "cmd, data = remote.recv()"):
        raise SkeletonError("worker does not start with cmd, data = remote.recv()")
    if len(body) != 2 or not isinstance(body[1], ast.If):
        raise SkeletonError("worker dispatch shape")
    replies = []
    shapes = {}
    node = body[1]
    recvs = 1
    while True:
        t = node.test
        if not (isinstance(t, ast.Compare) and ast.unparse(t.left) == "cmd" and len(t.ops) == 1 and isinstance(t.ops[0], ast.Eq) and isinstance(t.comparators[0], ast.Constant)):
            raise SkeletonError("worker dispatch test")
        k = t.comparators[0].value
        if k not in KINDS:
            raise SkeletonError(f"unknown worker command {k!r}")
        comm = [c for st in node.body for c in _comm_calls(st)]
        recvs += sum(1 for c in comm if c[0] != "send")
        if k in REPLY_SHAPES:
            sends = [c[1] for c in comm if c[0] == "send"]
            shapes[k] = len(sends) == 1 and len(sends[0].args) == 1 and ast.unparse(sends[0].args[0]) == REPLY_SHAPES[k] \
                and _reset_binding_ok(node.body, k)
        # sends inside try/except alternatives (has_attr) count once per alternative: take the max over paths
        replies.append((KINDS[k], _max_sends(node.body)))
        if len(node.orelse) == 1 and isinstance(node.orelse[0], ast.If):
            node = node.orelse[0]
        else:
            if any(_comm_calls(s) for s in node.orelse):
                raise SkeletonError("communication in the default branch")
            break
    return recvs, replies, shapes


REPLY_SHAPES = {"step": "(observation, reward, done, info, reset_info)", "reset": "(observation, reset_info)"}


def _reset_binding_ok(stmts, kind):
    """the reply's reset_info is the one returned by env.reset in this branch (step: by the automatic reset, else the kept one)"""
    binds = [ast.unparse(n.targets[0]) for st in stmts for n in ast.walk(st)
             if isinstance(n, ast.Assign) and isinstance(n.value, ast.Call) and ast.unparse(n.value.func) == "env.reset"]
    others = [n for st in stmts for n in ast.walk(st) if isinstance(n, ast.Name) and isinstance(n.ctx, ast.Store) and n.id == "reset_info"]
    return binds == ["(observation, reset_info)"] and len(others) == 1


def _max_sends(stmts):
    """number of remote.send calls on the longest path; try/except and if/else count as alternatives.
    A branch where two alternatives send a different number of replies makes this return -1."""
    total = 0
    for s in stmts:
        if isinstance(s, ast.Try):
            alts = [_max_sends(s.body)] + [_max_sends(h.body) for h in s.handlers]
            if len(set(alts)) != 1:
                return -1
            total += alts[0]
        elif isinstance(s, ast.If):
            alts = [_max_sends(s.body), _max_sends(s.orelse)]
            if len(set(alts)) != 1:
                return -1
            total += alts[0]
        elif isinstance(s, (ast.For, ast.While)):
            if any(c[0] == "send" for c in _comm_calls(s)):
                return -1
        else:
            total += sum(1 for c in _comm_calls(s) if c[0] == "send")
    return total


def render() -> tuple[str, list]:
    with open(os.path.join(REPO, SRC)) as fh:
        tree = ast.parse(fh.read())
    with open(os.path.join(REPO, BASE)) as fh:
        base = ast.parse(fh.read())
    out = ["(* GENERATED by /verif/translate/skeleton.py from /repo's working tree - do not edit *)",
           "From Coq Require Import List.", "From SB3V Require Import Model.Subproc.", "Import ListNotations.", ""]
    bad = []
    for m in METHODS:
        try:
            ph, tok, pays, ordered = method_skeleton(_find(tree, f"SubprocVecEnv.{m}"))
        except SkeletonError as e:
            ph, tok, pays, ordered = ["Unrecognised"], False, [], False
            bad.append(f"{m}: {e}")
        if "Unrecognised" in ph:
            bad.append(m)
        out.append(f"(* {SRC} :: SubprocVecEnv.{m} *)")
        out.append(f"Definition skel_{m} : list phase := [{'; '.join(ph)}].")
        # which data worker i is sent, where the target list comes from, whether the replies reach the caller in worker order
        out.append(f"Definition skel_{m}_payload : list payload := [{'; '.join(pays)}].")
        out.append(f"Definition skel_{m}_targets_ok : bool := {str(bool(tok)).lower()}.")
        out.append(f"Definition skel_{m}_results_ordered : bool := {str(bool(ordered)).lower()}.")
    # _get_target_remotes keeps index order; _get_indices(None) = range(num_envs)
    try:
        f = _find(tree, "SubprocVecEnv._get_target_remotes")
        body = [s for s in f.body if not (isinstance(s, ast.Expr) and isinstance(s.value, ast.Constant))]
        ok = (len(body) == 2 and ast.unparse(body[0]) == "indices = self._get_indices(indices)"
              and ast.unparse(body[1]) == "return [self.remotes[i] for i in indices]")
    except SkeletonError:
        ok = False
    out.append(f"Definition skel_targets_in_index_order : bool := {str(ok).lower()}.")
    try:
        f = _find(base, "VecEnv._get_indices")
        body = [s for s in f.body if not (isinstance(s, ast.Expr) and isinstance(s.value, ast.Constant))]
        ok2 = (len(body) == 2 and ast.unparse(body[0]).replace("\n", " ").split() ==
               "if indices is None: indices = range(self.num_envs) elif isinstance(indices, int): indices = [indices]".split()
               and ast.unparse(body[1]) == "return indices")
    except SkeletonError:
        ok2 = False
    out.append(f"Definition skel_indices_none_is_range : bool := {str(ok2).lower()}.")
    try:
        recvs, replies, shapes = worker_skeleton(_find(tree, "_worker"))
    except SkeletonError as e:
        recvs, replies, shapes = 0, [], {}
        bad.append(f"_worker: {e}")
    out.append(f"(* {SRC} :: _worker *)")
    out.append(f"Definition worker_recvs_per_iteration : nat := {recvs}.")
    out.append(f"Definition worker_step_reply_ok : bool := {str(bool(shapes.get('step'))).lower()}.")
    out.append(f"Definition worker_reset_reply_ok : bool := {str(bool(shapes.get('reset'))).lower()}.")
    out.append("Definition worker_replies : list (cmdkind * nat) := [" + "; ".join(f"({k}, {max(n, 0) if n >= 0 else 99})" for k, n in replies) + "].")
    try:
        ok3 = has_attr_answer_is_all(_find(tree, "SubprocVecEnv.has_attr"))
        ok4 = worker_has_attr_ok(_find(tree, "_worker"))
    except SkeletonError:
        ok3 = ok4 = False
    out.append(f"(* {SRC} :: SubprocVecEnv.has_attr / _worker has_attr branch (round 5) *)")
    out.append(f"Definition skel_has_attr_answer_is_all : bool := {str(bool(ok3)).lower()}.")
    out.append(f"Definition worker_has_attr_reply_ok : bool := {str(bool(ok4)).lower()}.")
    return "\n".join(out) + "\n", bad


def regenerate(pin=False) -> dict:
    os.makedirs(GEN, exist_ok=True)
    target = os.path.join(GEN, "Frag_Subproc.v")
    pinned = os.path.join(PINNED, "Frag_Subproc.v")
    try:
        text, bad = render()
        st = "generated"
    except (SkeletonError, SyntaxError, OSError) as e:
        st = f"fallback:{type(e).__name__}: {e}"
        bad = [str(e)]
        with open(pinned) as fh:
            text = fh.read()
    changed = True
    try:
        with open(target) as fh:
            changed = fh.read() != text
    except FileNotFoundError:
        pass
    if changed:
        with open(target, "w") as fh:
            fh.write(text)
    drift = None
    if st == "generated":
        if pin:
            with open(pinned, "w") as fh:
                fh.write(text)
        try:
            with open(pinned) as fh:
                drift = fh.read() != text
        except FileNotFoundError:
            drift = True
    return {"status": st, "rewritten": changed, "differs_from_pinned": drift, "unrecognised": bad}


if __name__ == "__main__":
    import json

    print(json.dumps(regenerate(pin="--pin" in sys.argv), indent=1))
