"""C12 fragments: progress, counters of _setup_learn, loop guards, train gating, gradient-step selection,
timestep increments, train_freq conditions, linear schedule.  start patterns anchor on stable text only."""
_BASE = "stable_baselines3/common/base_class.py"
_ON = "stable_baselines3/common/on_policy_algorithm.py"
_OFF = "stable_baselines3/common/off_policy_algorithm.py"
_UT = "stable_baselines3/common/utils.py"
_NT = {"self.num_timesteps": "num_timesteps"}

SPECS = [
    dict(name="progress_remaining", file=_BASE, qual="BaseAlgorithm._update_current_progress_remaining",
         start=r"^self\._current_progress_remaining = ", end=None, kind="expr", ret="Q",
         inputs=[("num_timesteps", "Z"), ("total_timesteps", "Z")]),
    dict(name="setup_counters", file=_BASE, qual="BaseAlgorithm._setup_learn", start=r"^if (not )?reset_num_timesteps:", end=None,
         inputs=[("reset_num_timesteps", "bool"), ("num_timesteps", "Z"), ("episode_num", "Z"), ("total_timesteps", "Z")],
         subst={"self.num_timesteps": "num_timesteps", "self._episode_num": "episode_num"},
         outputs=[("num_timesteps", "Z"), ("episode_num", "Z"), ("total_timesteps", "Z")]),
    dict(name="on_loop_guard", file=_ON, qual="OnPolicyAlgorithm.learn", start=r"^while (not )?\(?self\.num_timesteps\b", end=None, kind="test",
         inputs=[("num_timesteps", "Z"), ("total_timesteps", "Z")], subst=_NT),
    dict(name="off_loop_guard", file=_OFF, qual="OffPolicyAlgorithm.learn", start=r"^while (not )?\(?self\.num_timesteps\b", end=None, kind="test",
         inputs=[("num_timesteps", "Z"), ("total_timesteps", "Z")], subst=_NT),
    dict(name="on_rollout_guard", file=_ON, qual="OnPolicyAlgorithm.collect_rollouts", start=r"^while (not )?\(?n_steps\b", end=None, kind="test",
         inputs=[("n_steps", "Z"), ("n_rollout_steps", "Z")]),
    dict(name="on_step_count", file=_ON, qual="OnPolicyAlgorithm.collect_rollouts", start=r"^self\.num_timesteps \+= ", end=None,
         inputs=[("num_timesteps", "Z"), ("n_envs", "Z")], subst={**_NT, "env.num_envs": "n_envs"}, outputs=[("num_timesteps", "Z")]),
    dict(name="off_step_count", file=_OFF, qual="OffPolicyAlgorithm.collect_rollouts", start=r"^self\.num_timesteps \+= ", end=None,
         inputs=[("num_timesteps", "Z"), ("n_envs", "Z")], subst={**_NT, "env.num_envs": "n_envs"}, outputs=[("num_timesteps", "Z")]),
    dict(name="off_train_gate", file=_OFF, qual="OffPolicyAlgorithm.learn", start=r"^if (not )?\(?self\.num_timesteps\b", end=None, kind="test",
         inputs=[("num_timesteps", "Z"), ("learning_starts", "Z")], subst={**_NT, "self.learning_starts": "learning_starts"}),
    dict(name="off_gradient_steps", file=_OFF, qual="OffPolicyAlgorithm.learn", start=r"^gradient_steps = ", end=None, kind="expr", ret="Z",
         inputs=[("gradient_steps", "Z"), ("episode_timesteps", "Z")],
         subst={"self.gradient_steps": "gradient_steps", "rollout.episode_timesteps": "episode_timesteps"}),
    dict(name="off_gradient_gate", file=_OFF, qual="OffPolicyAlgorithm.learn", start=r"^if (not )?\(?gradient_steps\b", end=None, kind="test",
         inputs=[("gradient_steps", "Z")]),
    dict(name="collect_more_step_unit", file=_UT, qual="should_collect_more_steps", start=r"^return num_collected_steps\b", end=None, kind="expr", ret="bool",
         inputs=[("num_collected_steps", "Z"), ("frequency", "Z")], subst={"train_freq.frequency": "frequency"}),
    dict(name="collect_more_episode_unit", file=_UT, qual="should_collect_more_steps", start=r"^return num_collected_episodes\b", end=None, kind="expr", ret="bool",
         inputs=[("num_collected_episodes", "Z"), ("frequency", "Z")], subst={"train_freq.frequency": "frequency"}),
    dict(name="linear_fn", file=_UT, qual="get_linear_fn.func", start=None, end=None, ret="Q",
         inputs=[("progress_remaining", "Q"), ("start_v", "Q"), ("end_v", "Q"), ("end_fraction", "Q")],
         subst={"start": "start_v", "end": "end_v"}),     # `end` is a Coq keyword
    # PPO.__init__: rollout size, number of untruncated minibatches, when the truncated-minibatch warning is issued
    dict(name="ppo_rollout_size", file="stable_baselines3/ppo/ppo.py", qual="PPO.__init__", start=r"^buffer_size = ", end=None, kind="expr", ret="Z",
         inputs=[("n_envs", "Z"), ("n_steps", "Z")], subst={"self.env.num_envs": "n_envs", "self.n_steps": "n_steps"}),
    dict(name="ppo_untruncated_batches", file="stable_baselines3/ppo/ppo.py", qual="PPO.__init__", start=r"^untruncated_batches = ", end=None, kind="expr", ret="Z",
         inputs=[("buffer_size", "Z"), ("batch_size", "Z")]),
    dict(name="ppo_truncated_warning", file="stable_baselines3/ppo/ppo.py", qual="PPO.__init__", start=r"^if (not )?\(?buffer_size\b", end=None, kind="test",
         inputs=[("buffer_size", "Z"), ("batch_size", "Z")]),
]
