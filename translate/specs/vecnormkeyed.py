"""C15 (build round 5) fragments: key-selection loops and guards of VecNormalize (Dict observations with norm_obs_keys),
the decision structure of _sanity_checks / __init__, __setstate__ / set_venv.
Classes, loop sources and subscript keys are turned into integer codes (`names`): an edit that makes the code loop over
another collection, index another key or test another class changes the code (unknown text -> 0) and breaks a Qed.
`x is None` is translated with None as an input token (`none_v`): identity with None = Bool.eqb x none_v."""
_VN = "stable_baselines3/common/vec_env/vec_normalize.py"

_CLS = {"spaces.Dict": 1, "spaces.Box": 2, "dict": 3}
_NONE = {"None": "none_v"}
_DICT_GUARD = dict(kind="test", inputs=[("obs_is_dict", "bool"), ("rms_is_dict", "bool")],
                   subst={"isinstance(obs, dict)": "obs_is_dict", "isinstance(self.obs_rms, dict)": "rms_is_dict"})

SPECS = [
    # ---- __init__ / _sanity_checks ----
    dict(name="vnk_ctor_checks_guard", file=_VN, qual="VecNormalize.__init__", start=r"^if self\.norm_obs\b", end=None, kind="test",
         inputs=[("norm_obs", "bool")], subst={"self.norm_obs": "norm_obs"}),
    dict(name="vnk_sanity_first_class", file=_VN, qual="VecNormalize._sanity_checks", start=r"^if isinstance\(self\.observation_space,", nth=0, of=2,
         end=None, kind="callarg", scope="test", call="isinstance", arg=1, names=_CLS, inputs=[]),
    dict(name="vnk_sanity_second_class", file=_VN, qual="VecNormalize._sanity_checks", start=r"^if isinstance\(self\.observation_space,", nth=1, of=2,
         end=None, kind="callarg", scope="test", call="isinstance", arg=1, names=_CLS, inputs=[]),
    dict(name="vnk_sanity_default_guard", file=_VN, qual="VecNormalize._sanity_checks", start=r"^if self\.norm_obs_keys is\b", nth=0, of=2, end=None, kind="test",
         inputs=[("keys_v", "bool"), ("none_v", "bool")], subst={"self.norm_obs_keys": "keys_v", **_NONE}),
    dict(name="vnk_sanity_default_source", file=_VN, qual="VecNormalize._sanity_checks", start=r"^self\.norm_obs_keys = ", end=None, kind="subexpr", scope="value",
         pick=r".*", names={"list(self.observation_space.spaces.keys())": 1}, inputs=[]),
    dict(name="vnk_sanity_loop_source", file=_VN, qual="VecNormalize._sanity_checks", start=r"^for obs_key\b", end=None, kind="subexpr", scope="iter",
         pick=r".*", names={"self.norm_obs_keys": 1}, inputs=[]),
    dict(name="vnk_sanity_key_guard", file=_VN, qual="VecNormalize._sanity_checks", start=r"^if .*isinstance\(self\.observation_space\.spaces\[", end=None, kind="test",
         inputs=[("key_is_box", "bool")], subst_calls={"isinstance": "key_is_box"}),
    dict(name="vnk_sanity_key_class", file=_VN, qual="VecNormalize._sanity_checks", start=r"^if .*isinstance\(self\.observation_space\.spaces\[", end=None,
         kind="callarg", scope="test", call="isinstance", arg=1, names=_CLS, inputs=[]),
    dict(name="vnk_sanity_key_index", file=_VN, qual="VecNormalize._sanity_checks", start=r"^if .*isinstance\(self\.observation_space\.spaces\[", end=None,
         kind="subscript_index", scope="test", array=r"self\.observation_space\.spaces", axis=0, names={"obs_key": 1}, inputs=[]),
    dict(name="vnk_sanity_box_guard", file=_VN, qual="VecNormalize._sanity_checks", start=r"^if self\.norm_obs_keys is\b", nth=1, of=2, end=None, kind="test",
         inputs=[("keys_v", "bool"), ("none_v", "bool")], subst={"self.norm_obs_keys": "keys_v", **_NONE}),
    # ---- step_wait / reset: which statistics are updated with which batch ----
    dict(name="vnk_step_dict_guard", file=_VN, qual="VecNormalize.step_wait", start=r"^if isinstance\b", end=None, **_DICT_GUARD),
    dict(name="vnk_step_loop_source", file=_VN, qual="VecNormalize.step_wait", start=r"^for key\b", end=None, kind="subexpr", scope="iter",
         pick=r".*", names={"self.obs_rms.keys()": 1}, inputs=[]),
    dict(name="vnk_step_update_stat_key", file=_VN, qual="VecNormalize.step_wait", start=r"^self\.obs_rms\[", end=None,
         kind="subscript_index", array=r"self\.obs_rms", axis=0, names={"key": 1}, inputs=[]),
    dict(name="vnk_step_update_obs_key", file=_VN, qual="VecNormalize.step_wait", start=r"^self\.obs_rms\[", end=None,
         kind="subscript_index", array=r"obs", axis=0, names={"key": 1}, inputs=[]),
    dict(name="vnk_reset_dict_guard", file=_VN, qual="VecNormalize.reset", start=r"^if isinstance\b", end=None, **_DICT_GUARD),
    dict(name="vnk_reset_loop_source", file=_VN, qual="VecNormalize.reset", start=r"^for key\b", end=None, kind="subexpr", scope="iter",
         pick=r".*", names={"self.obs_rms.keys()": 1}, inputs=[]),
    dict(name="vnk_reset_update_stat_key", file=_VN, qual="VecNormalize.reset", start=r"^self\.obs_rms\[", end=None,
         kind="subscript_index", array=r"self\.obs_rms", axis=0, names={"key": 1}, inputs=[]),
    dict(name="vnk_reset_update_obs_key", file=_VN, qual="VecNormalize.reset", start=r"^self\.obs_rms\[", end=None,
         kind="subscript_index", array=r"obs", axis=0, names={"key": 1}, inputs=[]),
    # ---- normalize_obs / unnormalize_obs: which entries are replaced, from which entry, with which statistics ----
    dict(name="vnk_norm_dict_guard", file=_VN, qual="VecNormalize.normalize_obs", start=r"^if isinstance\b", end=None, **_DICT_GUARD),
    dict(name="vnk_norm_loop_source", file=_VN, qual="VecNormalize.normalize_obs", start=r"^for key\b", end=None, kind="subexpr", scope="iter",
         pick=r".*", names={"self.norm_obs_keys": 1}, inputs=[]),
    dict(name="vnk_norm_target_key", file=_VN, qual="VecNormalize.normalize_obs", start=r"^obs_\[", end=None,
         kind="subscript_index", array=r"obs_", axis=0, names={"key": 1}, inputs=[]),
    dict(name="vnk_norm_source_key", file=_VN, qual="VecNormalize.normalize_obs", start=r"^obs_\[", end=None,
         kind="subscript_index", array=r"obs", axis=0, names={"key": 1}, inputs=[]),
    dict(name="vnk_norm_stat_key", file=_VN, qual="VecNormalize.normalize_obs", start=r"^obs_\[", end=None,
         kind="subscript_index", array=r"self\.obs_rms", axis=0, names={"key": 1}, inputs=[]),
    dict(name="vnk_unnorm_guard", file=_VN, qual="VecNormalize.unnormalize_obs", start=r"^if self\.norm_obs\b", end=None, kind="test",
         inputs=[("norm_obs", "bool")], subst={"self.norm_obs": "norm_obs"}),
    dict(name="vnk_unnorm_dict_guard", file=_VN, qual="VecNormalize.unnormalize_obs", start=r"^if isinstance\b", end=None, **_DICT_GUARD),
    dict(name="vnk_unnorm_loop_source", file=_VN, qual="VecNormalize.unnormalize_obs", start=r"^for key\b", end=None, kind="subexpr", scope="iter",
         pick=r".*", names={"self.norm_obs_keys": 1}, inputs=[]),
    dict(name="vnk_unnorm_target_key", file=_VN, qual="VecNormalize.unnormalize_obs", start=r"^obs_\[", end=None,
         kind="subscript_index", array=r"obs_", axis=0, names={"key": 1}, inputs=[]),
    dict(name="vnk_unnorm_source_key", file=_VN, qual="VecNormalize.unnormalize_obs", start=r"^obs_\[", end=None,
         kind="subscript_index", array=r"obs", axis=0, names={"key": 1}, inputs=[]),
    dict(name="vnk_unnorm_stat_key", file=_VN, qual="VecNormalize.unnormalize_obs", start=r"^obs_\[", end=None,
         kind="subscript_index", array=r"self\.obs_rms", axis=0, names={"key": 1}, inputs=[]),
    # ---- __setstate__ (legacy pickles) / set_venv ----
    dict(name="vnk_setstate_legacy_guard", file=_VN, qual="VecNormalize.__setstate__", start=r"^if .*norm_obs_keys", end=None, kind="test",
         inputs=[("keys_missing", "bool"), ("space_is_dict", "bool")],
         subst={"'norm_obs_keys' not in state": "keys_missing", "isinstance(state['observation_space'], spaces.Dict)": "space_is_dict"}),
    dict(name="vnk_setstate_legacy_source", file=_VN, qual="VecNormalize.__setstate__", start=r"^state\['norm_obs_keys'\] = ", end=None, kind="subexpr", scope="value",
         pick=r".*", names={"list(state['observation_space'].spaces.keys())": 1}, inputs=[]),
    dict(name="vnk_set_venv_refuse_guard", file=_VN, qual="VecNormalize.set_venv", start=r"^if self\.venv is\b", end=None, kind="test",
         inputs=[("venv_v", "bool"), ("none_v", "bool")], subst={"self.venv": "venv_v", **_NONE}),
    dict(name="vnk_set_venv_num_envs_source", file=_VN, qual="VecNormalize.set_venv", start=r"^self\.num_envs = ", end=None, kind="subexpr", scope="value",
         pick=r".*", names={"venv.num_envs": 1}, inputs=[]),
    dict(name="vnk_set_venv_returns_len", file=_VN, qual="VecNormalize.set_venv", start=r"^self\.returns = ", end=None,
         kind="callarg", call=r"np\.zeros", arg=0, names={"self.num_envs": 1}, inputs=[]),
]
