"""C20 fragments: record_mean's update, the per-format exclusion test, the human formats' exclusion test.
Membership tests are inputs (booleans); start patterns anchor on stable text only."""
FILE = "stable_baselines3/common/logger.py"

SPECS = [
    dict(name="lg_mean_update", qual="Logger.record_mean", start=r"^self\.name_to_value\[key\] = ", end=r"^self\.name_to_count\[key\] = ",
         inputs=[("old_val", "Q"), ("count", "Z"), ("value", "Q")],
         subst={"self.name_to_value[key]": "new_val", "self.name_to_count[key]": "new_count"},
         outputs=[("new_val", "Q"), ("new_count", "Z")]),
    dict(name="lg_is_excluded", qual="filter_excluded_keys.is_excluded", start=r"^return ", end=None, kind="expr", ret="bool",
         inputs=[("has_key", "bool"), ("not_none", "bool"), ("fmt_in", "bool"), ("no_key", "bool"), ("is_none", "bool"), ("fmt_not_in", "bool")],
         subst={"key in key_excluded": "has_key", "key_excluded[key] is not None": "not_none", "_format in key_excluded[key]": "fmt_in",
                "key not in key_excluded": "no_key", "key_excluded[key] is None": "is_none", "_format not in key_excluded[key]": "fmt_not_in"}),
    dict(name="lg_human_hidden", qual="HumanOutputFormat.write", start=r"^if excluded\b", end=None, kind="test",
         inputs=[("not_none", "bool"), ("has_stdout", "bool"), ("has_log", "bool")],
         subst={"excluded is not None": "not_none", "'stdout' in excluded": "has_stdout", "'log' in excluded": "has_log"}),
    # ---- extension ----
    # CSV header rewrite: what is appended to every physical line (the separator times the number of new keys)
    dict(name="lg_csv_pad", qual="CSVOutputFormat.write", start=r"^self\.file\.write\(self\.separator", end=None, kind="subexpr", pick=r"self\.separator.*", ret="Z",
         inputs=[("sep", "Z"), ("n_extra", "Z")], subst={"self.separator": "sep", "len(extra_keys)": "n_extra"}),
    # Logger.log: level filter; Logger.dump: nothing happens when logging is disabled
    dict(name="lg_log_emits", qual="Logger.log", start=r"^if self\.level\b", end=None, kind="test",
         inputs=[("cfg", "Z"), ("level", "Z")], subst={"self.level": "cfg"}),
    dict(name="lg_dump_disabled", qual="Logger.dump", start=r"^if self\.level\b", end=None, kind="test",
         inputs=[("cfg", "Z"), ("DISABLED", "Z")], subst={"self.level": "cfg"}),
    # HumanOutputFormat._truncate: when a key / value is cut
    dict(name="lg_truncates", qual="HumanOutputFormat._truncate", start=r"^if len\(string\)", end=None, kind="test",
         inputs=[("n", "Z"), ("max_length", "Z")], subst={"len(string)": "n", "self.max_length": "max_length"}),
    dict(name="lg_truncate_keep", qual="HumanOutputFormat._truncate", start=r"^string = ", end=None, kind="subexpr", pick=r"self\.max_length .*", ret="Z",
         inputs=[("max_length", "Z")], subst={"self.max_length": "max_length"}),
    # ---- build round 5: HumanOutputFormat.write - tag detection, tag slice, indentation test, empty table, frame width, padding
    dict(name="lg_tag_found", qual="HumanOutputFormat.write", start=r"^if key\.find", end=None, kind="test",
         inputs=[("pos", "Z")], subst={"key.find('/')": "pos"}),
    dict(name="lg_tag_end", qual="HumanOutputFormat.write", start=r"^tag = key", end=None, kind="subexpr", pick=r"key\.find\('/'\).*", ret="Z",
         inputs=[("pos", "Z")], subst={"key.find('/')": "pos"}),
    dict(name="lg_indent_test", qual="HumanOutputFormat.write", start=r"^if len\(tag\)", end=None, kind="test",
         inputs=[("tag_len", "Z"), ("tag_in_key", "bool")], subst={"len(tag)": "tag_len", "tag in key": "tag_in_key"}),
    dict(name="lg_empty_table", qual="HumanOutputFormat.write", start=r"^if len\(key2str\)", end=None, kind="test",
         inputs=[("n", "Z")], subst={"len(key2str)": "n"}),
    dict(name="lg_frame_width", qual="HumanOutputFormat.write", start=r"^dashes = ", end=None, kind="subexpr", pick=r"key_width .*", ret="Z",
         inputs=[("key_width", "Z"), ("val_width", "Z")], subst={}),
    dict(name="lg_key_pad", qual="HumanOutputFormat.write", start=r"^key_space = ", end=None, kind="subexpr", pick=r"key_width .*", ret="Z",
         inputs=[("key_width", "Z"), ("key_len", "Z")], subst={"len(key)": "key_len"}),
    dict(name="lg_val_pad", qual="HumanOutputFormat.write", start=r"^val_space = ", end=None, kind="subexpr", pick=r"val_width .*", ret="Z",
         inputs=[("val_width", "Z"), ("val_len", "Z")], subst={"len(value)": "val_len"}),
]
