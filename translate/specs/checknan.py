"""C17 fragments: VecCheckNan - the "stop checking" guard of _check_val, what check_array_value looks for, and what happens on a hit."""
FILE = "stable_baselines3/common/vec_env/vec_check_nan.py"
SPECS = [
    # if not self.raise_exception and self.warn_once and self._user_warned: return    (first `if` of _check_val)
    dict(name="skip_check_guard", qual="VecCheckNan._check_val", start=r"^if ", end=None, nth=0, kind="test",
         inputs=[("raise_exception", "bool"), ("warn_once", "bool"), ("user_warned", "bool")],
         subst={"self.raise_exception": "raise_exception", "self.warn_once": "warn_once", "self._user_warned": "user_warned"}),
    # has_nan = np.any(np.isnan(value))
    dict(name="array_has_nan", qual="VecCheckNan.check_array_value", start=r"^has_nan = ", end=None, kind="expr", ret="bool",
         inputs=[("any_isnan_value", "bool")], subst={"np.any(np.isnan(value))": "any_isnan_value"}),
    # has_inf = self.check_inf and np.any(np.isinf(value))
    dict(name="array_has_inf", qual="VecCheckNan.check_array_value", start=r"^has_inf = ", end=None, kind="expr", ret="bool",
         inputs=[("check_inf", "bool"), ("any_isinf_value", "bool")],
         subst={"self.check_inf": "check_inf", "np.any(np.isinf(value))": "any_isinf_value"}),
]
