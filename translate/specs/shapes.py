"""C11: the shape predicates that decide whether predict() treats an observation as a batch
(utils.is_vectorized_*_observation; ValueError branch = None), the transposition test of maybe_transpose
(preprocessing.py), the rank test of VecTransposeImage.transpose_image, the squeeze guard and the
clip / unscale of BasePolicy.predict (policies.py).  Shapes are lists of Z."""
FILE = "stable_baselines3/common/utils.py"
_PP = "stable_baselines3/common/preprocessing.py"
_PO = "stable_baselines3/common/policies.py"
_S = {"observation.shape": "oshape", "observation_space.shape": "sshape"}
_I = [("oshape", "L"), ("sshape", "L")]
SPECS = [
    dict(name="vec_box", qual="is_vectorized_box_observation", start=None, end=None, ret="obool", inputs=_I, subst=_S),
    dict(name="vec_discrete", qual="is_vectorized_discrete_observation", start=None, end=None, ret="obool",
         inputs=[("is_int", "bool"), ("oshape", "L")], subst={"isinstance(observation, int)": "is_int", **_S}),
    dict(name="vec_multidiscrete", qual="is_vectorized_multidiscrete_observation", start=None, end=None, ret="obool",
         inputs=[("oshape", "L"), ("k", "Z")], subst={"len(observation_space.nvec)": "k", **_S}),
    dict(name="vec_multibinary", qual="is_vectorized_multibinary_observation", start=None, end=None, ret="obool", inputs=_I, subst=_S),
    dict(name="transpose_needed", file=_PP, qual="maybe_transpose", start=r"^if .*\bobservation\.shape\b", end=None, kind="test", inputs=_I, subst=_S),
    dict(name="transpose_accepted", file=_PP, qual="maybe_transpose", start=r"^if transpose_obs\.shape\b", end=None, kind="test",
         inputs=[("tshape", "L"), ("sshape", "L")], subst={"transpose_obs.shape": "tshape", "observation_space.shape": "sshape"}),
    dict(name="transpose_rank3", file="stable_baselines3/common/vec_env/vec_transpose.py", qual="VecTransposeImage.transpose_image",
         start=r"^if len\(image\.shape\)", end=None, kind="test", inputs=[("ishape", "L")], subst={"image.shape": "ishape"}),
    # torch_layers.create_mlp: the guards and the expressions that choose the layers
    dict(name="mlp_first_guard", file="stable_baselines3/common/torch_layers.py", qual="create_mlp", start=r"^if len\(net_arch\)", end=None, kind="test",
         inputs=[("net_arch", "L")]),
    dict(name="mlp_loop_count", file="stable_baselines3/common/torch_layers.py", qual="create_mlp", start=r"^for idx in range", end=None, kind="subexpr",
         pick=r"len\(net_arch\) \S+ \d+", ret="Z", inputs=[("net_arch", "L")]),
    dict(name="mlp_output_guard", file="stable_baselines3/common/torch_layers.py", qual="create_mlp", start=r"^if output_dim\b", end=None, kind="test",
         inputs=[("output_dim", "Z")]),
    dict(name="mlp_last_dim", file="stable_baselines3/common/torch_layers.py", qual="create_mlp", start=r"^last_layer_dim = ", end=None, kind="expr", ret="Z",
         inputs=[("net_arch", "L"), ("input_dim", "Z")]),
    dict(name="mlp_squash_guard", file="stable_baselines3/common/torch_layers.py", qual="create_mlp", start=r"^if squash_output", end=None, kind="test",
         inputs=[("squash_output", "bool")]),
    dict(name="predict_squeeze_guard", file=_PO, qual="BasePolicy.predict", start=r"^if .*\bvectorized_env\b", end=None, kind="test",
         inputs=[("vectorized_env", "bool")]),
    dict(name="predict_squash_guard", file=_PO, qual="BasePolicy.predict", start=r"^if .*self\.squash_output", end=None, kind="test",
         inputs=[("squash_output", "bool")], subst={"self.squash_output": "squash_output"}),
    dict(name="predict_clip", file=_PO, qual="BasePolicy.predict", start=r"^actions = .*self\.action_space\.low", end=None, kind="expr", ret="Q",
         inputs=[("actions", "Q"), ("low", "Q"), ("high", "Q")], subst={"self.action_space.low": "low", "self.action_space.high": "high"}),
    dict(name="predict_unscale", file=_PO, qual="BasePolicy.unscale_action", start=r"^return ", end=None, kind="expr", ret="Q",
         inputs=[("low", "Q"), ("high", "Q"), ("scaled_action", "Q")]),
]
