"""C01 (build round 5) fragments: key dispatch of the observation plumbing (DummyVecEnv._save_obs, util.dict_to_obs,
util.obs_space_info, subproc_vec_env._stack_obs) and index dispatch (VecEnv._get_indices, DummyVecEnv._get_target_envs and
the four indexed methods).
isinstance chains become booleans of a space-kind enum (`is_dict`, `is_tuple`); `x is None` is translated with None as an input
token (`none_v`): identity with None = Bool.eqb x none_v.  Loop sources, subscript keys and the expressions returned / assigned in
each branch are turned into integer codes (`names`; unknown text -> 0): an edit that loops over another collection, indexes
another key / row, or returns another container changes the code and breaks a Qed of Proofs/ObsBufProofs.v.
Start patterns anchor on the keyword and the first identifier only."""
_D = "stable_baselines3/common/vec_env/dummy_vec_env.py"
_U = "stable_baselines3/common/vec_env/util.py"
_S = "stable_baselines3/common/vec_env/subproc_vec_env.py"
_B = "stable_baselines3/common/vec_env/base_vec_env.py"

_KIND_IN = [("is_dict", "bool"), ("is_tuple", "bool")]


def _kind_subst(var):
    return {f"isinstance({var}, spaces.Dict)": "is_dict", f"isinstance({var}, spaces.Tuple)": "is_tuple"}


def _whole(name, file, qual, start, nth, of, names, scope="value"):
    return dict(name=name, file=file, qual=qual, start=start, nth=nth, of=of, end=None, kind="subexpr", scope=scope, pick=r".*", names=names, inputs=[])


_SAVE = r"^self\.buf_obs\["
SPECS = [
    # ---- DummyVecEnv._save_obs ----
    dict(name="save_loop_source", file=_D, qual="DummyVecEnv._save_obs", start=r"^for key\b", end=None, kind="subexpr", scope="iter",
         pick=r".*", names={"self.keys": 1}, inputs=[]),
    dict(name="save_guard", file=_D, qual="DummyVecEnv._save_obs", start=r"^if\b", end=None, kind="test",
         inputs=[("key_v", "bool"), ("none_v", "bool")], subst={"key": "key_v", "None": "none_v"}),
    dict(name="save_plain_bufkey", file=_D, qual="DummyVecEnv._save_obs", start=_SAVE, nth=0, of=2, end=None, kind="subscript_index",
         array=r"self\.buf_obs", axis=0, names={"key": 1}, inputs=[]),
    dict(name="save_plain_row", file=_D, qual="DummyVecEnv._save_obs", start=_SAVE, nth=0, of=2, end=None, kind="subscript_index",
         array=r"self\.buf_obs\[.*\]", axis=0, names={"env_idx": 1}, inputs=[]),
    _whole("save_plain_value", _D, "DummyVecEnv._save_obs", _SAVE, 0, 2, {"obs": 1}),
    dict(name="save_item_bufkey", file=_D, qual="DummyVecEnv._save_obs", start=_SAVE, nth=1, of=2, end=None, kind="subscript_index",
         array=r"self\.buf_obs", axis=0, names={"key": 1}, inputs=[]),
    dict(name="save_item_row", file=_D, qual="DummyVecEnv._save_obs", start=_SAVE, nth=1, of=2, end=None, kind="subscript_index",
         array=r"self\.buf_obs\[.*\]", axis=0, names={"env_idx": 1}, inputs=[]),
    _whole("save_item_value", _D, "DummyVecEnv._save_obs", _SAVE, 1, 2, {"obs[key]": 2}),
    # ---- DummyVecEnv._obs_from_buf: which space, which buffer, copied ----
    _whole("ofb_return", _D, "DummyVecEnv._obs_from_buf", r"^return\b", None, None,
           {"dict_to_obs(self.observation_space, deepcopy(self.buf_obs))": 1, "dict_to_obs(self.observation_space, copy_obs_dict(self.buf_obs))": 1}),
    # ---- util.dict_to_obs ----
    dict(name="dto_guard_dict", file=_U, qual="dict_to_obs", start=r"^if isinstance\(obs_space\b", nth=0, of=2, end=None, kind="test",
         inputs=_KIND_IN, subst=_kind_subst("obs_space")),
    dict(name="dto_guard_tuple", file=_U, qual="dict_to_obs", start=r"^if isinstance\(obs_space\b", nth=1, of=2, end=None, kind="test",
         inputs=_KIND_IN, subst=_kind_subst("obs_space")),
    _whole("dto_ret_dict", _U, "dict_to_obs", r"^return\b", 0, 3, {"obs_dict": 1}),
    _whole("dto_ret_tuple", _U, "dict_to_obs", r"^return\b", 1, 3, {"tuple((obs_dict[i] for i in range(len(obs_space.spaces))))": 2}),
    _whole("dto_ret_plain", _U, "dict_to_obs", r"^return\b", 2, 3, {"obs_dict[None]": 3}),
    # ---- util.obs_space_info ----
    dict(name="osi_guard_dict", file=_U, qual="obs_space_info", start=r"^if isinstance\(obs_space\b", nth=0, of=2, end=None, kind="test",
         inputs=_KIND_IN, subst=_kind_subst("obs_space")),
    dict(name="osi_guard_tuple", file=_U, qual="obs_space_info", start=r"^if isinstance\(obs_space\b", nth=1, of=2, end=None, kind="test",
         inputs=_KIND_IN, subst=_kind_subst("obs_space")),
    _whole("osi_sub_dict", _U, "obs_space_info", r"^subspaces = ", 0, 3, {"obs_space.spaces": 1}),
    _whole("osi_sub_tuple", _U, "obs_space_info", r"^subspaces = ", 1, 3, {"{i: space for i, space in enumerate(obs_space.spaces)}": 2}),
    _whole("osi_sub_plain", _U, "obs_space_info", r"^subspaces = ", 2, 3, {"{None: obs_space}": 3}),
    dict(name="osi_loop_source", file=_U, qual="obs_space_info", start=r"^for key\b", end=None, kind="subexpr", scope="iter",
         pick=r".*", names={"subspaces.items()": 1}, inputs=[]),
    dict(name="osi_appended", file=_U, qual="obs_space_info", start=r"^keys\.append\b", end=None, kind="callarg", call=r"keys\.append", arg=0,
         names={"key": 1}, inputs=[]),
    _whole("osi_return", _U, "obs_space_info", r"^return\b", None, None, {"(keys, shapes, dtypes)": 1}),
    # ---- subproc_vec_env._stack_obs ----
    dict(name="stk_guard_dict", file=_S, qual="_stack_obs", start=r"^if isinstance\(space\b", nth=0, of=2, end=None, kind="test",
         inputs=_KIND_IN, subst=_kind_subst("space")),
    dict(name="stk_guard_tuple", file=_S, qual="_stack_obs", start=r"^if isinstance\(space\b", nth=1, of=2, end=None, kind="test",
         inputs=_KIND_IN, subst=_kind_subst("space")),
    _whole("stk_ret_dict", _S, "_stack_obs", r"^return\b", 0, 3,
           {"{key: np.stack([single_obs[key] for single_obs in obs_list]) for key in space.spaces.keys()}": 1,
            "{key: np.stack([single_obs[key] for single_obs in obs_list]) for key in space.spaces}": 1}),
    _whole("stk_tuple_len", _S, "_stack_obs", r"^obs_len = ", None, None, {"len(space.spaces)": 1}),
    _whole("stk_ret_tuple", _S, "_stack_obs", r"^return\b", 1, 3,
           {"tuple((np.stack([single_obs[i] for single_obs in obs_list]) for i in range(obs_len)))": 2}),
    _whole("stk_ret_plain", _S, "_stack_obs", r"^return\b", 2, 3, {"np.stack(obs_list)": 3}),
    # ---- VecEnv._get_indices ----
    dict(name="gi_guard_none", file=_B, qual="VecEnv._get_indices", start=r"^if\b", nth=0, of=2, end=None, kind="test",
         inputs=[("ix_v", "bool"), ("none_v", "bool"), ("is_int", "bool")], subst={"indices": "ix_v", "None": "none_v", "isinstance(indices, int)": "is_int"}),
    dict(name="gi_guard_int", file=_B, qual="VecEnv._get_indices", start=r"^if\b", nth=1, of=2, end=None, kind="test",
         inputs=[("ix_v", "bool"), ("none_v", "bool"), ("is_int", "bool")], subst={"indices": "ix_v", "None": "none_v", "isinstance(indices, int)": "is_int"}),
    _whole("gi_all", _B, "VecEnv._get_indices", r"^indices = ", 0, 2, {"range(self.num_envs)": 1}),
    _whole("gi_single", _B, "VecEnv._get_indices", r"^indices = ", 1, 2, {"[indices]": 2}),
    _whole("gi_return", _B, "VecEnv._get_indices", r"^return\b", None, None, {"indices": 1}),
    # ---- DummyVecEnv._get_target_envs and the indexed methods ----
    _whole("gte_indices", _D, "DummyVecEnv._get_target_envs", r"^indices = ", None, None, {"self._get_indices(indices)": 1}),
    _whole("gte_return", _D, "DummyVecEnv._get_target_envs", r"^return\b", None, None, {"[self.envs[i] for i in indices]": 1}),
    _whole("get_attr_targets", _D, "DummyVecEnv.get_attr", r"^target_envs = ", None, None, {"self._get_target_envs(indices)": 1}),
    _whole("get_attr_return", _D, "DummyVecEnv.get_attr", r"^return\b", None, None, {"[env_i.get_wrapper_attr(attr_name) for env_i in target_envs]": 1}),
    _whole("set_attr_targets", _D, "DummyVecEnv.set_attr", r"^target_envs = ", None, None, {"self._get_target_envs(indices)": 1}),
    dict(name="set_attr_loop_source", file=_D, qual="DummyVecEnv.set_attr", start=r"^for env_i\b", end=None, kind="subexpr", scope="iter",
         pick=r".*", names={"target_envs": 1}, inputs=[]),
    dict(name="set_attr_receiver", file=_D, qual="DummyVecEnv.set_attr", start=r"^setattr\b", end=None, kind="callarg", call=r"setattr", arg=0,
         names={"env_i": 1}, inputs=[]),
    _whole("env_method_targets", _D, "DummyVecEnv.env_method", r"^target_envs = ", None, None, {"self._get_target_envs(indices)": 1}),
    _whole("env_method_return", _D, "DummyVecEnv.env_method", r"^return\b", None, None,
           {"[env_i.get_wrapper_attr(method_name)(*method_args, **method_kwargs) for env_i in target_envs]": 1}),
    _whole("is_wrapped_targets", _D, "DummyVecEnv.env_is_wrapped", r"^target_envs = ", None, None, {"self._get_target_envs(indices)": 1}),
    _whole("is_wrapped_return", _D, "DummyVecEnv.env_is_wrapped", r"^return\b", None, None,
           {"[env_util.is_wrapped(env_i, wrapper_class) for env_i in target_envs]": 1}),
]
for _s in SPECS:
    if _s.get("nth") is None:
        _s.pop("nth", None)
        _s.pop("of", None)
