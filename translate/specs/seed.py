"""C10 fragments: which value each seeding call receives.  The calls themselves are outside the
translator's subset; kind=subexpr picks the argument expression of each call (so `seed` -> `seed + 1`
or a constant breaks the interface lemma), and pick=listcomp_elt the per-sub-env seed `seed + idx`."""
def _arg(callee):
    """kind=subexpr regex: the outermost sub-expression that is not the call / its callee chain, i.e. the call's whole
    first argument, whatever it is (`seed + 1` and a constant regenerate and break the lemma; an unsupported expression
    such as hash(seed), or a missing argument, is reported as a fragment fallback)"""
    return r"(?!" + callee + r"\b)(?!(self|th|np|random)$)(?!.*(device|cuda))(?s:.+)"


# in BaseAlgorithm.set_random_seed the parameter `seed` and the attribute `self.seed` (the constructor's seed) are
# DISTINCT inputs: passing self.seed where seed is meant must break the interface lemma
_BI = dict(inputs=[("seed", "Z"), ("model_seed", "Z")], subst={"self.seed": "model_seed"})
_U = "stable_baselines3/common/utils.py"
_B = "stable_baselines3/common/base_class.py"
SPECS = [
    dict(name="seed_vecenv_elt", file="stable_baselines3/common/vec_env/base_vec_env.py", qual="VecEnv.seed", start=r"^self\._seeds = ", end=None,
         kind="expr", pick="listcomp_elt", ret="Z", inputs=[("seed", "Z"), ("idx", "Z")]),
    dict(name="seed_py_arg", file=_U, qual="set_random_seed", start=r"^random\.seed\(", end=None, kind="subexpr", pick=_arg(r"random"), ret="Z", inputs=[("seed", "Z")]),
    dict(name="seed_np_arg", file=_U, qual="set_random_seed", start=r"^np\.random\.seed\(", end=None, kind="subexpr", pick=_arg(r"np\.random"), ret="Z", inputs=[("seed", "Z")]),
    dict(name="seed_torch_arg", file=_U, qual="set_random_seed", start=r"^th\.manual_seed\(", end=None, kind="subexpr", pick=_arg(r"th\.manual_seed"), ret="Z", inputs=[("seed", "Z")]),
    dict(name="seed_global_arg", file=_B, qual="BaseAlgorithm.set_random_seed", start=r"^set_random_seed\(", end=None, kind="subexpr", pick=_arg(r"set_random_seed"), ret="Z", **_BI),
    dict(name="seed_aspace_arg", file=_B, qual="BaseAlgorithm.set_random_seed", start=r"^self\.action_space\.seed\(", end=None, kind="subexpr", pick=_arg(r"self\.action_space"), ret="Z", **_BI),
    dict(name="seed_env_arg", file=_B, qual="BaseAlgorithm.set_random_seed", start=r"^self\.env\.seed\(", end=None, kind="subexpr", pick=_arg(r"self\.env"), ret="Z", **_BI),
]
