"""C18 fragments (start/end patterns anchor on stable text only, never on the captured operator):
 Monitor / VecMonitor accumulators and guards, evaluate_policy quota and bookkeeping.
Rewards are typed Z (units of 1/4, as in Model/Script.v): only the additive structure matters."""
_MON = "stable_baselines3/common/monitor.py"
_VM = "stable_baselines3/common/vec_env/vec_monitor.py"
_EV = "stable_baselines3/common/evaluation.py"

SPECS = [
    # ---- Monitor ----
    dict(name="mon_reset_refused", file=_MON, qual="Monitor.reset", start=r"^if .*self.allow_early_resets", end=None, kind="test",
         inputs=[("allow_early_resets", "bool"), ("needs_reset", "bool")],
         subst={"self.allow_early_resets": "allow_early_resets", "self.needs_reset": "needs_reset"}),
    dict(name="mon_reset_state", file=_MON, qual="Monitor.reset", start=r"^self.needs_reset = ", end=None,
         inputs=[], subst={"self.needs_reset": "needs_reset"}, outputs=[("needs_reset", "bool")]),
    dict(name="mon_step_refused", file=_MON, qual="Monitor.step", start=r"^if .*self\.needs_reset", end=None, kind="test",
         inputs=[("needs_reset", "bool")], subst={"self.needs_reset": "needs_reset"}),
    dict(name="mon_ends", file=_MON, qual="Monitor.step", start=r"^if .*(terminated|truncated)\b", end=None, kind="test",
         inputs=[("terminated", "bool"), ("truncated", "bool")]),
    dict(name="mon_end_state", file=_MON, qual="Monitor.step", start=r"^self.needs_reset = ", end=r"^ep_len = ",
         inputs=[("sum_rewards", "Z"), ("n_rewards", "Z")],
         subst={"self.needs_reset": "needs_reset", "sum(self.rewards)": "sum_rewards", "len(self.rewards)": "n_rewards"},
         outputs=[("needs_reset", "bool"), ("ep_rew", "Z"), ("ep_len", "Z")]),
    dict(name="mon_total_steps", file=_MON, qual="Monitor.step", start=r"^self\.total_steps\b", end=None,
         inputs=[("total_steps", "Z")], subst={"self.total_steps": "total_steps"}, outputs=[("total_steps", "Z")]),
    # ---- VecMonitor ----
    dict(name="vm_acc", file=_VM, qual="VecMonitor.step_wait", start=r"^self\.episode_returns [-+*/]?= ", end=r"^self\.episode_lengths [-+*/]?= ",
         inputs=[("ret", "Z"), ("len", "Z"), ("reward", "Z")],
         subst={"self.episode_returns": "ret", "self.episode_lengths": "len", "rewards": "reward"},
         outputs=[("ret", "Z"), ("len", "Z")]),
    dict(name="vm_done", file=_VM, qual="VecMonitor.step_wait", start=r"^if .*dones\[i\]", end=None, kind="test",
         inputs=[("done", "bool")], subst={"dones[i]": "done"}),
    dict(name="vm_report", file=_VM, qual="VecMonitor.step_wait", start=r"^episode_return = ", end=r"^episode_length = ",
         inputs=[("ret", "Z"), ("len", "Z")], subst={"self.episode_returns[i]": "ret", "self.episode_lengths[i]": "len"},
         outputs=[("episode_return", "Z"), ("episode_length", "Z")]),
    dict(name="vm_restart", file=_VM, qual="VecMonitor.step_wait", start=r"^self.episode_returns\[i\] = ", end=r"^self.episode_lengths\[i\] = ",
         inputs=[], subst={"self.episode_returns[i]": "ret", "self.episode_lengths[i]": "len"},
         outputs=[("ret", "Z"), ("len", "Z")]),
    # ---- evaluate_policy ----
    dict(name="ev_quota", file=_EV, qual="evaluate_policy", start=r"^episode_count_targets = ", end=None, kind="expr", ret="Z",
         pick="listcomp_elt", inputs=[("n_eval_episodes", "Z"), ("i", "Z"), ("n_envs", "Z")]),
    dict(name="ev_under_quota", file=_EV, qual="evaluate_policy", start=r"^if episode_count", end=None, kind="test",
         inputs=[("count", "Z"), ("target", "Z")], subst={"episode_counts[i]": "count", "episode_count_targets[i]": "target"}),
    dict(name="ev_acc", file=_EV, qual="evaluate_policy", start=r"^current_rewards [-+*/]= ", end=r"^current_lengths [-+*/]= ",
         inputs=[("cur_r", "Z"), ("cur_l", "Z"), ("reward", "Z")],
         subst={"current_rewards": "cur_r", "current_lengths": "cur_l", "rewards": "reward"},
         outputs=[("cur_r", "Z"), ("cur_l", "Z")]),
    dict(name="ev_done", file=_EV, qual="evaluate_policy", start=r"^if .*dones\[i\]", end=None, kind="test",
         inputs=[("done", "bool")], subst={"dones[i]": "done"}),
    dict(name="ev_restart", file=_EV, qual="evaluate_policy", start=r"^current_rewards\[i\] = ", end=r"^current_lengths\[i\] = ",
         inputs=[], subst={"current_rewards[i]": "cur_r", "current_lengths[i]": "cur_l"},
         outputs=[("cur_r", "Z"), ("cur_l", "Z")]),
    # the monitor-aware branch (life-loss "done" without an "episode" entry is not an episode end) and the two counters
    dict(name="ev_monitor_branch", file=_EV, qual="evaluate_policy", start=r"^if is_monitor_wrapped:", end=None, kind="test",
         inputs=[("is_monitor_wrapped", "bool")]),
    dict(name="ev_has_episode", file=_EV, qual="evaluate_policy", start=r"^if .*episode.* in info", end=None, kind="test",
         inputs=[("has_episode", "bool"), ("no_episode", "bool")],
         subst={"'episode' in info.keys()": "has_episode", "'episode' in info": "has_episode", "'episode' not in info.keys()": "no_episode"}),
    dict(name="ev_count_mon", file=_EV, qual="evaluate_policy", start=r"^episode_counts\[i\] [-+*/]= ", nth=0, of=2, end=None,
         inputs=[("count", "Z")], subst={"episode_counts[i]": "count"}, outputs=[("count", "Z")]),
    dict(name="ev_count_nomon", file=_EV, qual="evaluate_policy", start=r"^episode_counts\[i\] [-+*/]= ", nth=1, of=2, end=None,
         inputs=[("count", "Z")], subst={"episode_counts[i]": "count"}, outputs=[("count", "Z")]),
]
