"""C06: the statements of OnPolicyAlgorithm.collect_rollouts that decide the property (time-limit bootstrap
condition and formula, loop guard), BasePolicy.unscale_action, and the flag formulas of DummyVecEnv.step_wait
that the local auto-reset step of Model/OnPolicyCollect.v mirrors."""
FILE = "stable_baselines3/common/on_policy_algorithm.py"
_Q = "OnPolicyAlgorithm.collect_rollouts"
_D = "stable_baselines3/common/vec_env/dummy_vec_env.py"
_B = [("terminated", "bool"), ("truncated", "bool")]
SPECS = [
    dict(
        name="onp_boot_cond", qual=_Q, start=r"^if done\b", end=None, kind="test",
        inputs=[("done", "bool"), ("has_terminal_obs", "bool"), ("timelimit", "bool")],
        subst={"infos[idx].get('terminal_observation') is not None": "has_terminal_obs",
               "infos[idx].get('TimeLimit.truncated', False)": "timelimit"},
    ),
    dict(
        name="onp_boot_reward", qual=_Q, start=r"^rewards\[idx\] \S?= ", end=None,
        inputs=[("reward", "Q"), ("gamma", "Q"), ("terminal_value", "Q")],
        subst={"rewards[idx]": "reward", "self.gamma": "gamma"}, outputs=[("reward", "Q")],
    ),
    dict(
        name="onp_rollout_guard", qual=_Q, start=r"^while .*n_rollout_steps", end=None, kind="test",
        inputs=[("n_steps", "Z"), ("n_rollout_steps", "Z")],
    ),
    dict(
        name="onp_sde_guard", qual=_Q, start=r"^if .*self\.sde_sample_freq\b", end=None, kind="test",
        inputs=[("use_sde", "bool"), ("sde_sample_freq", "Z"), ("n_steps", "Z")],
        subst={"self.use_sde": "use_sde", "self.sde_sample_freq": "sde_sample_freq"},
    ),
    dict(
        name="onp_sde_start_guard", qual=_Q, start=r"^if self\.use_sde:$", end=None, kind="test",
        inputs=[("use_sde", "bool")], subst={"self.use_sde": "use_sde"},
    ),
    dict(
        name="onp_clip", qual=_Q, start=r"^clipped_actions = .*self\.action_space\.low", end=None, kind="expr", ret="Q",
        inputs=[("actions", "Q"), ("low", "Q"), ("high", "Q")], subst={"self.action_space.low": "low", "self.action_space.high": "high"},
    ),
    dict(
        name="onp_unscale", file="stable_baselines3/common/policies.py", qual="BasePolicy.unscale_action", start=r"^return ", end=None,
        kind="expr", ret="Q", inputs=[("low", "Q"), ("high", "Q"), ("scaled_action", "Q")],
    ),
    dict(name="onp_vec_done", file=_D, qual="DummyVecEnv.step_wait", start=r"^self\.buf_dones\[env_idx\] = ", end=None,
         kind="expr", ret="bool", inputs=_B),
    dict(name="onp_vec_timelimit", file=_D, qual="DummyVecEnv.step_wait",
         start=r"^self\.buf_infos\[env_idx\]\['TimeLimit\.truncated'\] = ", end=None, kind="expr", ret="bool", inputs=_B),
]
