"""C17 fragments: StackedObservations.compute_stacking axis / shape arithmetic and the roll amount of update()."""
FILE = "stable_baselines3/common/vec_env/stacked_observations.py"
_Q = "StackedObservations.compute_stacking"
SPECS = [
    # stack_dimension = 1 if channels_first else -1   (includes the vec-env dimension)
    dict(name="stack_dimension", qual=_Q, start=r"^stack_dimension = ", end=None, kind="expr", ret="Z",
         inputs=[("channels_first", "bool")]),
    # repeat_axis = 0 if channels_first else -1
    dict(name="repeat_axis", qual=_Q, start=r"^repeat_axis = ", end=None, kind="expr", ret="Z",
         inputs=[("channels_first", "bool")]),
    # stacked_shape[repeat_axis] *= n_stack
    dict(name="stacked_dim", qual=_Q, start=r"^stacked_shape\[repeat_axis\]", end=None,
         inputs=[("dim", "Z"), ("n_stack", "Z")], subst={"stacked_shape[repeat_axis]": "dim"}, outputs=[("dim", "Z")]),
    # the default for non-image spaces when channels_order is None
    dict(name="default_channels_first", qual=_Q, start=r"^channels_first = (True|False)$", end=None, kind="expr", ret="bool", inputs=[]),
    # the image test decides the automatic order: `if is_image_space(observation_space):` and the order it then takes.
    # The substitutions name the EXACT calls: a changed argument list no longer matches and the fragment is not regenerated (reported).
    dict(name="auto_order_is_image_guard", qual=_Q, start=r"^if is_image_space\b", end=None, kind="test",
         inputs=[("is_image_default_args", "bool")], subst={"is_image_space(observation_space)": "is_image_default_args"}),
    dict(name="auto_order_of_image", qual=_Q, start=r"^channels_first = is_image_space_channels_first\b", end=None, kind="expr", ret="bool",
         inputs=[("smallest_axis_first", "bool")], subst={"is_image_space_channels_first(observation_space)": "smallest_axis_first"}),
    # update(): shift = -observations.shape[self.stack_dimension]
    dict(name="update_shift", qual="StackedObservations.update", start=r"^shift = ", end=None, kind="expr", ret="Z",
         inputs=[("frame", "Z")], subst={"observations.shape[self.stack_dimension]": "frame"}),
    # __init__: the declared bounds of the stacked space. The substitutions name the EXACT calls (np.repeat of the base space's low / high,
    # n_stack times, on repeat_axis): a changed call is not translatable and the run reports the fragment as not regenerated.
    # What np.repeat does to an array is Model/WrapperBounds.v `trepeat`, tied by correspondence (declared low/high arrays of every generated space).
    dict(name="declared_low", qual="StackedObservations.__init__", start=r"^low = ", end=None, kind="expr", ret="Z",
         inputs=[("np_repeat_of_base_low_n_stack_on_repeat_axis", "Z")],
         subst={"np.repeat(observation_space.low, n_stack, axis=self.repeat_axis)": "np_repeat_of_base_low_n_stack_on_repeat_axis"}),
    dict(name="declared_high", qual="StackedObservations.__init__", start=r"^high = ", end=None, kind="expr", ret="Z",
         inputs=[("np_repeat_of_base_high_n_stack_on_repeat_axis", "Z")],
         subst={"np.repeat(observation_space.high, n_stack, axis=self.repeat_axis)": "np_repeat_of_base_high_n_stack_on_repeat_axis"}),
]
