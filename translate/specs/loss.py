"""C07 fragments: the arithmetic assembly lines of the train() methods.  Tensor reductions
(.mean(), .std(), th.min, th.clamp, F.mse_loss) are outside the translator's subset and enter as
substituted inputs; what is regenerated and proved against the model is the *assembly*: TD targets
with (1 - done), the entropy term of the SAC target, the three-term PPO/A2C loss, advantage
normalisation, the unclipped surrogate term, the delayed-actor guard of TD3."""
_ADV = dict(
    start=r"^advantages = \(", end=None, kind="expr", ret="Q",
    inputs=[("adv", "Q"), ("mean", "Q"), ("std", "Q")],
    subst={"advantages": "adv", "advantages.mean()": "mean", "advantages.std()": "std"},
)
_LOSS = dict(
    start=r"^loss = ", end=None, kind="expr", ret="Q",
    inputs=[("policy_loss", "Q"), ("entropy_loss", "Q"), ("value_loss", "Q"), ("ent_coef", "Q"), ("vf_coef", "Q")],
    subst={"self.ent_coef": "ent_coef", "self.vf_coef": "vf_coef"},
)
_TARGET = dict(
    start=r"^target_q_values = ", end=None, kind="expr", ret="Q",
    inputs=[("r", "Q"), ("d", "Q"), ("gamma", "Q"), ("nq", "Q")],
    subst={"replay_data.rewards": "r", "replay_data.dones": "d", "self.gamma": "gamma", "next_q_values": "nq"},
)
SPECS = [
    dict(name="ppo_adv_norm", file="stable_baselines3/ppo/ppo.py", qual="PPO.train", **_ADV),
    dict(name="ppo_surr1", file="stable_baselines3/ppo/ppo.py", qual="PPO.train", start=r"^policy_loss_1 = ", end=None, kind="expr", ret="Q",
         inputs=[("adv", "Q"), ("ratio", "Q")], subst={"advantages": "adv"}),
    dict(name="ppo_loss", file="stable_baselines3/ppo/ppo.py", qual="PPO.train", **_LOSS),
    dict(name="a2c_adv_norm", file="stable_baselines3/a2c/a2c.py", qual="A2C.train", **_ADV),
    dict(name="a2c_loss", file="stable_baselines3/a2c/a2c.py", qual="A2C.train", **_LOSS),
    dict(name="dqn_target_frag", file="stable_baselines3/dqn/dqn.py", qual="DQN.train", **_TARGET),
    dict(name="sac_target_frag", file="stable_baselines3/sac/sac.py", qual="SAC.train", **_TARGET),
    dict(name="sac_soft_value", file="stable_baselines3/sac/sac.py", qual="SAC.train", start=r"^next_q_values = next_q_values\b", end=None, kind="expr", ret="Q",
         inputs=[("nq", "Q"), ("ent_coef", "Q"), ("nlp", "Q")],
         subst={"next_q_values": "nq", "next_log_prob.reshape(-1, 1)": "nlp"}),
    dict(name="td3_target_frag", file="stable_baselines3/td3/td3.py", qual="TD3.train", **_TARGET),
    dict(name="td3_delay_guard", file="stable_baselines3/td3/td3.py", qual="TD3.train", start=r"^if self\._n_updates\b", end=None, kind="test",
         inputs=[("n_updates", "Z"), ("policy_delay", "Z")], subst={"self._n_updates": "n_updates", "self.policy_delay": "policy_delay"}),
    # ---- optimizer-facing logic
    dict(name="lr_assigned", file="stable_baselines3/common/utils.py", qual="update_learning_rate", start=r"^param_group\['lr'\] = ", end=None, kind="expr", ret="Q",
         inputs=[("learning_rate", "Q")]),
    dict(name="lr_progress_arg", file="stable_baselines3/common/base_class.py", qual="BaseAlgorithm._update_learning_rate", start=r"^update_learning_rate\(", end=None,
         kind="subexpr", pick=r"(?!update_learning_rate\b|self\.lr_schedule\b|optimizer$|self$)(?s:.+)", ret="Q", inputs=[("progress", "Q")], subst={"self._current_progress_remaining": "progress"}),
    dict(name="sac_auto_target_entropy", file="stable_baselines3/sac/sac.py", qual="SAC._setup_model", start=r"^self\.target_entropy = float\((?!self)", end=None, kind="expr", ret="Q",
         inputs=[("prod", "Q")], subst={"np.prod(self.env.action_space.shape).astype(np.float32)": "prod"}),
    dict(name="sac_default_init", file="stable_baselines3/sac/sac.py", qual="SAC._setup_model", start=r"^init_value = (?!float)", end=None, kind="expr", ret="Q", inputs=[]),
    dict(name="sac_log_arg", file="stable_baselines3/sac/sac.py", qual="SAC._setup_model", start=r"^self\.log_ent_coef = ", end=None, kind="subexpr",
         pick=r"(?!th\.log\b|th$|self)(?s:.*)\binit_value\b.*", ret="Q", inputs=[("one", "Q"), ("init_value", "Q")], subst={"th.ones(1, device=self.device)": "one"}),
    # SAC actor loss: the term under .mean()  (entropy sign)
    dict(name="sac_actor_term_frag", file="stable_baselines3/sac/sac.py", qual="SAC.train", start=r"^actor_loss = ", end=None, kind="subexpr",
         pick=r"[^()]*\bent_coef\b[^()]*", ret="Q", inputs=[("ent_coef", "Q"), ("log_prob", "Q"), ("min_qf_pi", "Q")]),
    # PPO clip bounds: the two bound arguments of th.clamp(ratio, 1 - clip_range, 1 + clip_range)
    dict(name="ppo_clip_lo", file="stable_baselines3/ppo/ppo.py", qual="PPO.train", start=r"^policy_loss_2 = ", end=None, kind="subexpr",
         pick=r"[^(),+]*-[^(),+]*", ret="Q", inputs=[("clip_range", "Q")]),
    dict(name="ppo_clip_hi", file="stable_baselines3/ppo/ppo.py", qual="PPO.train", start=r"^policy_loss_2 = ", end=None, kind="subexpr",
         pick=r"[^(),\-]*\+[^(),\-]*", ret="Q", inputs=[("clip_range", "Q")]),
    dict(name="ppo_vclip_lo", file="stable_baselines3/ppo/ppo.py", qual="PPO.train", start=r"^values_pred = rollout_data\.old_values", end=None, kind="subexpr",
         pick=r"-clip_range_vf|-\s*[^(),]*clip[^(),]*", ret="Q", inputs=[("clip_range_vf", "Q"), ("clip_range", "Q")]),
]
