"""C04: scale_action / unscale_action (policies.py), the noise clip of _sample_action, the terminal-observation guard of
_store_transition, the counters of collect_rollouts (off_policy_algorithm.py) and should_collect_more_steps (utils.py)."""
FILE = "stable_baselines3/common/off_policy_algorithm.py"
_P = "stable_baselines3/common/policies.py"
_UT = "stable_baselines3/common/utils.py"
_A = [("low", "Q"), ("high", "Q")]
SPECS = [
    dict(name="off_scale", file=_P, qual="BasePolicy.scale_action", start=r"^return ", end=None, kind="expr", ret="Q",
         inputs=_A + [("action", "Q")]),
    dict(name="off_unscale", file=_P, qual="BasePolicy.unscale_action", start=r"^return ", end=None, kind="expr", ret="Q",
         inputs=_A + [("scaled_action", "Q")]),
    dict(name="off_noise_clip", qual="OffPolicyAlgorithm._sample_action", start=r"^scaled_action = .*action_noise\(\)", end=None, kind="expr", ret="Q",
         inputs=[("scaled_action", "Q"), ("noise", "Q")], subst={"action_noise()": "noise"}),
    dict(name="off_noise_guard", qual="OffPolicyAlgorithm._sample_action", start=r"^if action_noise\b", end=None, kind="test",
         inputs=[("has_noise", "bool")], subst={"action_noise is not None": "has_noise"}),
    dict(name="off_use_terminal", qual="OffPolicyAlgorithm._store_transition", start=r"^if done\b", end=None, kind="test",
         inputs=[("done", "bool"), ("has_terminal_obs", "bool")],
         subst={"infos[i].get('terminal_observation') is not None": "has_terminal_obs"}),
    dict(name="off_count", qual="OffPolicyAlgorithm.collect_rollouts", start=r"^self\.num_timesteps \S= ", end=r"^num_collected_steps \S= ",
         inputs=[("num_timesteps", "Z"), ("num_envs", "Z"), ("num_collected_steps", "Z")],
         subst={"self.num_timesteps": "num_timesteps", "env.num_envs": "num_envs"},
         outputs=[("num_timesteps", "Z"), ("num_collected_steps", "Z")]),
    dict(name="off_episode_inc", qual="OffPolicyAlgorithm.collect_rollouts", start=r"^num_collected_episodes \S= ", end=None,
         inputs=[("num_collected_episodes", "Z")], outputs=[("num_collected_episodes", "Z")]),
    dict(name="off_learn_guard", qual="OffPolicyAlgorithm.learn", start=r"^while .*total_timesteps", end=None, kind="test",
         inputs=[("num_timesteps", "Z"), ("total_timesteps", "Z")], subst={"self.num_timesteps": "num_timesteps"}),
    dict(name="off_more_step", file=_UT, qual="should_collect_more_steps", start=r"^return .*num_collected_steps", end=None, kind="expr", ret="bool",
         inputs=[("num_collected_steps", "Z"), ("frequency", "Z")], subst={"train_freq.frequency": "frequency"}),
    dict(name="off_more_episode", file=_UT, qual="should_collect_more_steps", start=r"^return .*num_collected_episodes", end=None, kind="expr", ret="bool",
         inputs=[("num_collected_episodes", "Z"), ("frequency", "Z")], subst={"train_freq.frequency": "frequency"}),
    dict(name="off_sde_guard", qual="OffPolicyAlgorithm.collect_rollouts", start=r"^if .*self\.sde_sample_freq\b", end=None, kind="test",
         inputs=[("use_sde", "bool"), ("sde_sample_freq", "Z"), ("num_collected_steps", "Z")],
         subst={"self.use_sde": "use_sde", "self.sde_sample_freq": "sde_sample_freq"}),
    dict(name="off_sde_start_guard", qual="OffPolicyAlgorithm.collect_rollouts", start=r"^if self\.use_sde:$", end=None, kind="test",
         inputs=[("use_sde", "bool")], subst={"self.use_sde": "use_sde"}),
    dict(name="off_noise_reset_guard", qual="OffPolicyAlgorithm.collect_rollouts", start=r"^if action_noise\b", end=None, kind="test",
         inputs=[("has_noise", "bool")], subst={"action_noise is not None": "has_noise"}),
    dict(name="off_warmup", qual="OffPolicyAlgorithm._sample_action", start=r"^if self\.num_timesteps\b", end=None, kind="test",
         inputs=[("num_timesteps", "Z"), ("learning_starts", "Z"), ("use_sde", "bool"), ("use_sde_at_warmup", "bool")],
         subst={"self.num_timesteps": "num_timesteps", "self.use_sde": "use_sde", "self.use_sde_at_warmup": "use_sde_at_warmup"}),
]
