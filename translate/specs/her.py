"""C16 fragments: episode bookkeeping arithmetic, goal index expressions, relabelled share (her_replay_buffer.py).
start/end patterns anchor on stable text only, never on the operator or constant the fragment captures."""
FILE = "stable_baselines3/her/her_replay_buffer.py"
_B = "HerReplayBuffer."

SPECS = [
    # add(): invalidation of the episode being overwritten
    dict(name="her_inval_guard", qual=_B + "add", start=r"^if (not )?\(?episode_length\b", end=None, kind="test",
         inputs=[("episode_length", "Z")]),
    dict(name="her_inval_end", qual=_B + "add", start=r"^episode_end = ", end=None, kind="expr", ret="Z",
         inputs=[("episode_start", "Z"), ("episode_length", "Z")]),
    dict(name="her_inval_slot", qual=_B + "add", start=r"^episode_indices = ", end=None, kind="expr", ret="Z",
         inputs=[("t", "Z"), ("buffer_size", "Z")],
         subst={"np.arange(self.pos, episode_end)": "t", "self.buffer_size": "buffer_size"}),
    dict(name="her_inval_value", qual=_B + "add", start=r"^self\.ep_length\[episode_indices, env_idx\] = ", end=None, kind="expr", ret="Z", inputs=[]),
    # _compute_episode_length
    dict(name="her_close_bounds", qual=_B + "_compute_episode_length", start=r"^episode_start = ", end=r"^if (not )?\(?episode_end\b",
         inputs=[("cur_start", "Z"), ("pos", "Z"), ("buffer_size", "Z")],
         subst={"self._current_ep_start[env_idx]": "cur_start", "self.pos": "pos", "self.buffer_size": "buffer_size"},
         outputs=[("episode_start", "Z"), ("episode_end", "Z")]),
    dict(name="her_close_slot", qual=_B + "_compute_episode_length", start=r"^episode_indices = ", end=None, kind="expr", ret="Z",
         inputs=[("t", "Z"), ("buffer_size", "Z")],
         subst={"np.arange(episode_start, episode_end)": "t", "self.buffer_size": "buffer_size"}),
    dict(name="her_close_length", qual=_B + "_compute_episode_length", start=r"^self\.ep_length\[episode_indices, env_idx\] = ", end=None,
         kind="expr", ret="Z", inputs=[("episode_start", "Z"), ("episode_end", "Z")]),
    dict(name="her_close_new_start", qual=_B + "_compute_episode_length", start=r"^self\._current_ep_start\[env_idx\] = ", end=None,
         kind="expr", ret="Z", inputs=[("pos", "Z")], subst={"self.pos": "pos"}),
    # sample(): validity and the relabelled share
    dict(name="her_is_valid", qual=_B + "sample", start=r"^is_valid = ", end=None, kind="expr", ret="bool",
         inputs=[("ep_length", "Z")], subst={"self.ep_length": "ep_length"}),
    dict(name="her_ratio", qual=_B + "__init__", start=r"^self\.her_ratio = ", end=None, kind="expr", ret="Q",
         inputs=[("n_sampled_goal", "Z")], subst={"self.n_sampled_goal": "n_sampled_goal"}),
    dict(name="her_virtual_product", qual=_B + "sample", start=r"^nb_virtual = ", end=None, kind="subexpr", pick=r"(?!int\b).*self\.her_ratio.*",
         ret="Q", inputs=[("ratio", "Q"), ("batch_size", "Z")], subst={"self.her_ratio": "ratio"}),
    # _sample_goals
    dict(name="her_goal_final", qual=_B + "_sample_goals", start=r"^transition_indices_in_episode = (?!np\.random)", end=None, kind="expr", ret="Z",
         inputs=[("batch_ep_length", "Z")]),
    dict(name="her_goal_current", qual=_B + "_sample_goals", start=r"^current_indices_in_episode = ", end=None, kind="expr", ret="Z",
         inputs=[("batch_indices", "Z"), ("batch_ep_start", "Z"), ("buffer_size", "Z")], subst={"self.buffer_size": "buffer_size"}),
    dict(name="her_goal_future_draw", qual=_B + "_sample_goals", start=r"^transition_indices_in_episode = np\.random\.randint\((?!0\b)", end=None, kind="expr", ret="Z",
         inputs=[("choice", "Z")], subst={"np.random.randint(current_indices_in_episode, batch_ep_length)": "choice"}),
    dict(name="her_goal_episode_draw", qual=_B + "_sample_goals", start=r"^transition_indices_in_episode = np\.random\.randint\(0\b", end=None, kind="expr", ret="Z",
         inputs=[("choice", "Z")], subst={"np.random.randint(0, batch_ep_length)": "choice"}),
    dict(name="her_goal_slot", qual=_B + "_sample_goals", start=r"^transition_indices = ", end=None, kind="expr", ret="Z",
         inputs=[("transition_indices_in_episode", "Z"), ("batch_ep_start", "Z"), ("buffer_size", "Z")], subst={"self.buffer_size": "buffer_size"}),
    # truncate_last_trajectory: which columns are closed, which slot is marked
    dict(name="her_trunc_guard", qual=_B + "truncate_last_trajectory", start=r"^if \(?self\._current_ep_start\b", end=None,
         kind="subexpr", pick=r"self\._current_ep_start [!=<>]+ self\.pos", ret="bool",
         inputs=[("cur_start", "Z"), ("pos", "Z")], subst={"self._current_ep_start": "cur_start", "self.pos": "pos"}),
    dict(name="her_trunc_slot", qual=_B + "truncate_last_trajectory", start=r"^self\.dones\[", end=None,
         kind="subexpr", pick=r"self\.pos( [-+] \d+)?", ret="Z", inputs=[("pos", "Z")], subst={"self.pos": "pos"}),
]
