"""C16 fragments: episode bookkeeping arithmetic, goal index expressions, relabelled share (her_replay_buffer.py).
start/end patterns anchor on stable text only, never on the operator or constant the fragment captures."""
FILE = "stable_baselines3/her/her_replay_buffer.py"
_B = "HerReplayBuffer."

SPECS = [
    # add(): invalidation of the episode being overwritten
    dict(name="her_inval_guard", qual=_B + "add", start=r"^if (not )?\(?episode_length\b", end=None, kind="test",
         inputs=[("episode_length", "Z")]),
    dict(name="her_inval_end", qual=_B + "add", start=r"^episode_end = ", end=None, kind="expr", ret="Z",
         inputs=[("episode_start", "Z"), ("episode_length", "Z")]),
    dict(name="her_inval_slot", qual=_B + "add", start=r"^episode_indices = ", end=None, kind="expr", ret="Z",
         inputs=[("t", "Z"), ("buffer_size", "Z")],
         subst={"self.buffer_size": "buffer_size"}, subst_calls={r"np\.arange": "t"}),
    dict(name="her_inval_value", qual=_B + "add", start=r"^self\.ep_length\[episode_indices, env_idx\] = ", end=None, kind="expr", ret="Z", inputs=[]),
    # _compute_episode_length
    dict(name="her_close_bounds", qual=_B + "_compute_episode_length", start=r"^episode_start = ", end=r"^if (not )?\(?episode_end\b",
         inputs=[("cur_start", "Z"), ("pos", "Z"), ("buffer_size", "Z")],
         subst={"self._current_ep_start[env_idx]": "cur_start", "self.pos": "pos", "self.buffer_size": "buffer_size"},
         outputs=[("episode_start", "Z"), ("episode_end", "Z")]),
    dict(name="her_close_slot", qual=_B + "_compute_episode_length", start=r"^episode_indices = ", end=None, kind="expr", ret="Z",
         inputs=[("t", "Z"), ("buffer_size", "Z")],
         subst={"self.buffer_size": "buffer_size"}, subst_calls={r"np\.arange": "t"}),
    dict(name="her_close_length", qual=_B + "_compute_episode_length", start=r"^self\.ep_length\[episode_indices, env_idx\] = ", end=None,
         kind="expr", ret="Z", inputs=[("episode_start", "Z"), ("episode_end", "Z")]),
    dict(name="her_close_new_start", qual=_B + "_compute_episode_length", start=r"^self\._current_ep_start\[env_idx\] = ", end=None,
         kind="expr", ret="Z", inputs=[("pos", "Z")], subst={"self.pos": "pos"}),
    # sample(): validity and the relabelled share
    dict(name="her_is_valid", qual=_B + "sample", start=r"^is_valid = ", end=None, kind="expr", ret="bool",
         inputs=[("ep_length", "Z")], subst={"self.ep_length": "ep_length"}),
    dict(name="her_ratio", qual=_B + "__init__", start=r"^self\.her_ratio = ", end=None, kind="expr", ret="Q",
         inputs=[("n_sampled_goal", "Z")], subst={"self.n_sampled_goal": "n_sampled_goal"}),
    dict(name="her_virtual_product", qual=_B + "sample", start=r"^nb_virtual = ", end=None, kind="subexpr", pick=r"(?!int\b).*self\.her_ratio.*",
         ret="Q", inputs=[("ratio", "Q"), ("batch_size", "Z")], subst={"self.her_ratio": "ratio"}),
    # _sample_goals
    dict(name="her_goal_final", qual=_B + "_sample_goals", start=r"^transition_indices_in_episode = ", nth=0, of=3, end=None, kind="expr", ret="Z",
         inputs=[("batch_ep_length", "Z")]),
    dict(name="her_goal_current", qual=_B + "_sample_goals", start=r"^current_indices_in_episode = ", end=None, kind="expr", ret="Z",
         inputs=[("batch_indices", "Z"), ("batch_ep_start", "Z"), ("buffer_size", "Z")], subst={"self.buffer_size": "buffer_size"}),
    # the bounds of the two random goal draws are the ARGUMENTS of the randint calls; the draw is used as it is
    *[dict(name=f"her_goal_{nm}_{b_}", qual=_B + "_sample_goals", start=r"^transition_indices_in_episode = ", nth=k, of=3, end=None, kind="callarg",
           call=r"np\.random\.randint", arg=a_, ret="Z", inputs=[("current_indices_in_episode", "Z"), ("batch_ep_length", "Z")])
      for k, nm in ((1, "future"), (2, "episode")) for b_, a_ in (("lo", 0), ("hi", 1))],
    dict(name="her_goal_future_draw", qual=_B + "_sample_goals", start=r"^transition_indices_in_episode = ", nth=1, of=3, end=None, kind="expr", ret="Z",
         inputs=[("choice", "Z")], subst_calls={r"np\.random\.randint": "choice"}),
    dict(name="her_goal_episode_draw", qual=_B + "_sample_goals", start=r"^transition_indices_in_episode = ", nth=2, of=3, end=None, kind="expr", ret="Z",
         inputs=[("choice", "Z")], subst_calls={r"np\.random\.randint": "choice"}),
    # which strategy each branch serves (codes: 1 FINAL, 2 FUTURE, 3 EPISODE), in document order
    *[dict(name=f"her_goal_branch{k}", qual=_B + "_sample_goals", start=r"^if self\.goal_selection_strategy\b", nth=k, of=3, end=None, kind="subexpr", scope="test",
           pick=r"GoalSelectionStrategy\.\w+", names={"GoalSelectionStrategy.FINAL": 1, "GoalSelectionStrategy.FUTURE": 2, "GoalSelectionStrategy.EPISODE": 3}, inputs=[])
      for k in range(3)],
    # where the new goal is read from: next_observations["achieved_goal"] at (goal slot, env)
    dict(name="her_goal_source", qual=_B + "_sample_goals", start=r"^return ", end=None, kind="subexpr", pick=r"self\.\w+\['\w+'\]",
         names={"self.next_observations['achieved_goal']": 1}, inputs=[]),
    dict(name="her_goal_source_slot", qual=_B + "_sample_goals", start=r"^return ", end=None, kind="subscript_index", array=r"self\.\w+\['\w+'\]", axis=0, ret="Z",
         inputs=[("transition_indices", "Z"), ("env_indices", "Z")]),
    dict(name="her_goal_source_env", qual=_B + "_sample_goals", start=r"^return ", end=None, kind="subscript_index", array=r"self\.\w+\['\w+'\]", axis=1, ret="Z",
         inputs=[("transition_indices", "Z"), ("env_indices", "Z")]),
    dict(name="her_goal_slot", qual=_B + "_sample_goals", start=r"^transition_indices = ", end=None, kind="expr", ret="Z",
         inputs=[("transition_indices_in_episode", "Z"), ("batch_ep_start", "Z"), ("buffer_size", "Z")], subst={"self.buffer_size": "buffer_size"}),
    # truncate_last_trajectory: which columns are closed, which slot is marked
    dict(name="her_trunc_guard", qual=_B + "truncate_last_trajectory", start=r"^if \(?self\._current_ep_start\b", end=None,
         kind="subexpr", pick=r"self\._current_ep_start [!=<>]+ self\.pos", ret="bool",
         inputs=[("cur_start", "Z"), ("pos", "Z")], subst={"self._current_ep_start": "cur_start", "self.pos": "pos"}),
    dict(name="her_trunc_slot", qual=_B + "truncate_last_trajectory", start=r"^self\.dones\[", end=None,
         kind="subexpr", pick=r"self\.pos( [-+] \d+)?", ret="Z", inputs=[("pos", "Z")], subst={"self.pos": "pos"}),
    # bounds of the np.arange calls (first slot, end) of the invalidation and of _compute_episode_length
    dict(name="her_inval_from", qual=_B + "add", start=r"^episode_indices = ", end=None, kind="callarg", call=r"np\.arange", arg=0, ret="Z",
         inputs=[("pos", "Z"), ("episode_end", "Z")], subst={"self.pos": "pos"}),
    dict(name="her_inval_to", qual=_B + "add", start=r"^episode_indices = ", end=None, kind="callarg", call=r"np\.arange", arg=1, ret="Z",
         inputs=[("pos", "Z"), ("episode_end", "Z")], subst={"self.pos": "pos"}),
    dict(name="her_inval_which", qual=_B + "add", start=r"^self\.ep_length\[episode_indices, env_idx\] = ", end=None, kind="subscript_index", array=r"self\.ep_length", axis=0,
         names={"episode_indices": 1}, inputs=[]),
    dict(name="her_inval_reads_start", qual=_B + "add", start=r"^episode_start = ", end=None, kind="subscript_index", array=r"self\.ep_start", axis=0, ret="Z",
         inputs=[("pos", "Z")], subst={"self.pos": "pos"}),
    dict(name="her_inval_reads_length", qual=_B + "add", start=r"^episode_length = ", end=None, kind="subscript_index", array=r"self\.ep_length", axis=0, ret="Z",
         inputs=[("pos", "Z")], subst={"self.pos": "pos"}),
    dict(name="her_close_from", qual=_B + "_compute_episode_length", start=r"^episode_indices = ", end=None, kind="callarg", call=r"np\.arange", arg=0, ret="Z",
         inputs=[("episode_start", "Z"), ("episode_end", "Z")]),
    dict(name="her_close_to", qual=_B + "_compute_episode_length", start=r"^episode_indices = ", end=None, kind="callarg", call=r"np\.arange", arg=1, ret="Z",
         inputs=[("episode_start", "Z"), ("episode_end", "Z")]),
    # add(): ep_start[pos] = _current_ep_start; episodes are closed exactly for the columns whose done flag is set
    dict(name="her_ep_start_slot", qual=_B + "add", start=r"^self\.ep_start\[", end=None, kind="subscript_index", array=r"self\.ep_start", axis=0, ret="Z",
         inputs=[("pos", "Z")], subst={"self.pos": "pos"}),
    dict(name="her_ep_start_value", qual=_B + "add", start=r"^self\.ep_start\[", end=None, kind="callarg", call=r"self\.\w+\.copy", arg="@receiver",
         names={"self._current_ep_start": 1}, inputs=[]),
    dict(name="her_close_guard", qual=_B + "add", start=r"^if (not )?\(?done\b", end=None, kind="test", inputs=[("done_e", "bool")], subst={"done[env_idx]": "done_e"}),
    dict(name="her_close_guard_arg", qual=_B + "add", start=r"^if (not )?\(?done\b", end=None, kind="callarg", call=r"self\._compute_episode_length", arg=0,
         names={"env_idx": 1}, inputs=[]),
    # truncate_last_trajectory: slots of the done / timeout marks, and that the timeout mark is conditional on handle_timeout_termination
    dict(name="her_trunc_to_slot", qual=_B + "truncate_last_trajectory", start=r"^self\.timeouts\[", end=None, kind="subscript_index", array=r"self\.timeouts", axis=0, ret="Z",
         inputs=[("pos", "Z")], subst={"self.pos": "pos"}),
    dict(name="her_trunc_to_guard", qual=_B + "truncate_last_trajectory", start=r"^if (not )?\(?self\.handle_timeout_termination", end=None, kind="test",
         inputs=[("hto", "bool")], subst={"self.handle_timeout_termination": "hto"}),
    # _get_virtual_samples: the goal is written into both observations; compute_reward(next achieved goal, new desired goal, infos)
    dict(name="her_relabel_obs_key", qual=_B + "_get_virtual_samples", start=r"^obs\['desired_goal'\] = |^obs\[.*\] = new_goals", end=None, kind="subexpr",
         pick=r"obs\['\w+'\]", names={"obs['desired_goal']": 1}, inputs=[]),
    dict(name="her_relabel_next_key", qual=_B + "_get_virtual_samples", start=r"^next_obs\[.*\] = ", end=None, kind="subexpr",
         pick=r"next_obs\['\w+'\]", names={"next_obs['desired_goal']": 1}, inputs=[]),
    dict(name="her_relabel_next_value", qual=_B + "_get_virtual_samples", start=r"^next_obs\[.*\] = ", end=None, kind="subexpr",
         pick=r"new_goals|obs\['\w+'\]", names={"new_goals": 1}, inputs=[]),
    *[dict(name=f"her_reward_arg{k}", qual=_B + "_get_virtual_samples", start=r"^rewards = self\.env\.env_method", end=None, kind="callarg", call=r"self\.env\.env_method", arg=k,
           names={"'compute_reward'": 1, "next_obs['achieved_goal']": 2, "obs['desired_goal']": 3, "infos": 4}, inputs=[]) for k in range(4)],
]
