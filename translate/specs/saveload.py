"""C09 fragments: the decision which attribute is stored as plain JSON (save_util.py). Calls are inputs (booleans)."""
FILE = "stable_baselines3/common/save_util.py"

SPECS = [
    # is_json_roundtrippable: serializable AND unchanged by json.loads(json.dumps(.))
    dict(name="sl_roundtrippable", qual="is_json_roundtrippable", start=None, end=None, ret="bool",
         inputs=[("serializable", "bool"), ("same", "bool")],
         subst={"is_json_serializable(item)": "serializable", "_same_value_and_type(item, json.loads(json.dumps(item)))": "same"}),
    # data_to_json: which test decides between plain storage and cloudpickle
    # (both tests are inputs, so a regression to is_json_serializable translates and breaks the interface lemma)
    dict(name="sl_keep_plain", qual="data_to_json", start=r"^if is_json_\w+\(data_item\)", end=None, kind="test",
         inputs=[("serializable", "bool"), ("roundtrippable", "bool")],
         subst={"is_json_roundtrippable(data_item)": "roundtrippable", "is_json_serializable(data_item)": "serializable"}),
    # _same_value_and_type: the type test comes first and is an identity test on the types
    # the scalar case is the one return that is neither `return False` nor a `len(...)` conjunction; == and != are both inputs,
    # so `!=` and `return True` mutants translate and break the interface lemma instead of falling back
    dict(name="sl_same_scalar", qual="_same_value_and_type", start=r"^return (?!False\b|len\()", end=None, kind="expr", ret="bool",
         inputs=[("eq", "bool"), ("ne", "bool")], subst={"original == restored": "eq", "original != restored": "ne"}),
    # the type test that comes first
    dict(name="sl_type_differs", qual="_same_value_and_type", start=r"^if type\(", end=None, kind="test",
         inputs=[("same_type", "bool"), ("other_type", "bool")],
         subst={"type(original) is not type(restored)": "other_type", "type(original) is type(restored)": "same_type"}),
    # a dictionary key must be a plain str (13e02e6)
    dict(name="sl_key_plain", qual="_same_value_and_type", start=r"^return len\(.*type\(key\)", end=None, kind="subexpr",
         pick=r"type\(key\) is(?: not)? str", ret="bool", inputs=[("is_str", "bool"), ("not_str", "bool")],
         subst={"type(key) is str": "is_str", "type(key) is not str": "not_str"}),
]
