"""C01 fragments: the flag formulas and the auto-reset guard of the two VecEnv implementations.
Patterns anchor on the assigned target, or on the keyword plus the guarded variable (an optional `not` / parenthesis is accepted, so a
negated or extended guard still matches and breaks the Qed); further `if` statements elsewhere in the function do not disturb them."""
_D = "stable_baselines3/common/vec_env/dummy_vec_env.py"
_S = "stable_baselines3/common/vec_env/subproc_vec_env.py"
_B = [("terminated", "bool"), ("truncated", "bool")]
SPECS = [
    # DummyVecEnv.step_wait: done, TimeLimit.truncated, guard of the auto-reset branch
    dict(name="dummy_done", file=_D, qual="DummyVecEnv.step_wait", start=r"^self\.buf_dones\[env_idx\] = ", end=None,
         kind="expr", ret="bool", inputs=_B),
    dict(name="dummy_timelimit", file=_D, qual="DummyVecEnv.step_wait",
         start=r"^self\.buf_infos\[env_idx\]\['TimeLimit\.truncated'\] = ", end=None, kind="expr", ret="bool", inputs=_B),
    dict(name="dummy_autoreset_guard", file=_D, qual="DummyVecEnv.step_wait", start=r"^if \(?(not )?\(?self\.buf_dones\b", end=None,
         kind="test", inputs=[("done", "bool"), ("terminated", "bool"), ("truncated", "bool")], subst={"self.buf_dones[env_idx]": "done"}),
    # SubprocVecEnv worker, 'step' branch
    dict(name="worker_done", file=_S, qual="_worker", start=r"^done = ", end=None, kind="expr", ret="bool", inputs=_B),
    dict(name="worker_timelimit", file=_S, qual="_worker", start=r"^info\['TimeLimit\.truncated'\] = ", end=None,
         kind="expr", ret="bool", inputs=_B),
    dict(name="worker_autoreset_guard", file=_S, qual="_worker", start=r"^if \(?(not )?\(?done\b", end=None, kind="test",
         inputs=[("done", "bool"), ("terminated", "bool"), ("truncated", "bool")]),
]
