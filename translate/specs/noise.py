"""C10 (round 3) fragments of stable_baselines3/common/noise.py: the Ornstein-Uhlenbeck update
expression (np.sqrt(dt) and the normal draw enter as inputs), what __call__ stores as the new state,
and what reset() restores."""
FILE = "stable_baselines3/common/noise.py"
_OU = "OrnsteinUhlenbeckActionNoise"
SPECS = [
    dict(name="noise_ou_update", qual=f"{_OU}.__call__", start=r"^noise = ", end=None, kind="expr", ret="Q",
         inputs=[("x", "Q"), ("theta", "Q"), ("mu", "Q"), ("dt", "Q"), ("sigma", "Q"), ("sqdt", "Q"), ("n", "Q")],
         subst={"self.noise_prev": "x", "self._theta": "theta", "self._mu": "mu", "self._dt": "dt", "self._sigma": "sigma",
                "np.sqrt(self._dt)": "sqdt", "np.random.normal(size=self._mu.shape)": "n"}),
    # the new state is the freshly computed array (not an in-place update of the old one)
    dict(name="noise_ou_new_state", qual=f"{_OU}.__call__", start=r"^self\.noise_prev = ", end=None, kind="expr", ret="Q",
         inputs=[("noise", "Q")]),
    dict(name="noise_ou_reset", qual=f"{_OU}.reset", start=r"^self\.noise_prev = ", end=None, kind="expr", ret="Q",
         inputs=[("has_init", "bool"), ("init", "Q"), ("zeros", "Q")],
         subst={"self.initial_noise is not None": "has_init", "self.initial_noise": "init", "np.zeros_like(self._mu)": "zeros"}),
]
