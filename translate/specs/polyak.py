"""C08 fragments: the polyak arithmetic (utils.py), the three cadence conditions and the arguments of every polyak_update call
(dqn.py, sac.py, td3.py).  start patterns anchor on stable text only; operators, callee names and arguments are picked."""
_U = "stable_baselines3/common/utils.py"
_TP = {"target_param.data": "t", "param.data": "p"}
_TPI = [("t", "Q"), ("p", "Q"), ("tau", "Q")]
# identities of the tensor lists handed to polyak_update (symbolic integer ids)
_IDS = {"self.q_net.parameters()": 1, "self.q_net_target.parameters()": 2, "self.batch_norm_stats": 3, "self.batch_norm_stats_target": 4,
        "self.critic.parameters()": 5, "self.critic_target.parameters()": 6, "self.actor.parameters()": 7, "self.actor_target.parameters()": 8,
        "self.critic_batch_norm_stats": 9, "self.critic_batch_norm_stats_target": 10, "self.actor_batch_norm_stats": 11, "self.actor_batch_norm_stats_target": 12}


def _pu(name, file, qual, nth, of, arg):
    """argument `arg` (0 = source list, 1 = target list, 2 = tau) of the nth polyak_update call of the function"""
    d = dict(name=name, file=file, qual=qual, start=r"^polyak_update\(", end=None, nth=nth, of=of, kind="callarg", call=r"polyak_update", arg=arg)
    if arg == 2:
        d.update(ret="Q", inputs=[("tau", "Q")], subst={"self.tau": "tau"})
    else:
        d.update(names=_IDS, inputs=[])
    return d


SPECS = [
    # polyak_update: WHICH in-place method scales WHAT by WHAT; which function adds what to what with which alpha into what
    dict(name="polyak_scale_op", file=_U, qual="polyak_update", start=r"^target_param\.data\.\w+\(", end=None, kind="callarg",
         call=r"target_param\.data\.\w+", arg="@name", names={"target_param.data.mul_": 1}, inputs=[]),
    dict(name="polyak_scale", file=_U, qual="polyak_update", start=r"^target_param\.data\.\w+\(", end=None, kind="callarg",
         call=r"target_param\.data\.\w+", arg=0, ret="Q", inputs=[("tau", "Q")]),
    dict(name="polyak_add_op", file=_U, qual="polyak_update", start=r"^th\.\w+\(", end=None, kind="callarg", call=r"th\.\w+", arg="@name",
         names={"th.add": 1}, inputs=[]),
    dict(name="polyak_add_a", file=_U, qual="polyak_update", start=r"^th\.\w+\(", end=None, kind="callarg", call=r"th\.\w+", arg=0, ret="Q", inputs=_TPI, subst=_TP),
    dict(name="polyak_add_b", file=_U, qual="polyak_update", start=r"^th\.\w+\(", end=None, kind="callarg", call=r"th\.\w+", arg=1, ret="Q", inputs=_TPI, subst=_TP),
    dict(name="polyak_alpha", file=_U, qual="polyak_update", start=r"^th\.\w+\(", end=None, kind="callarg", call=r"th\.\w+", arg="alpha", ret="Q", inputs=_TPI, subst=_TP),
    dict(name="polyak_out", file=_U, qual="polyak_update", start=r"^th\.\w+\(", end=None, kind="callarg", call=r"th\.\w+", arg="out", ret="Q", inputs=_TPI, subst=_TP),
    # the pairing of the two lists: zip_strict(params, target_params) unpacked as (param, target_param)
    dict(name="polyak_zip", file=_U, qual="polyak_update", start=r"^for param, target_param in ", end=None, kind="callarg", call=r"\w+", arg="@name",
         names={"zip_strict": 1}, inputs=[]),
    dict(name="polyak_zip_first", file=_U, qual="polyak_update", start=r"^for param, target_param in ", end=None, kind="callarg", call=r"\w+", arg=0,
         names={"params": 1, "target_params": 2}, inputs=[]),
    dict(name="polyak_zip_second", file=_U, qual="polyak_update", start=r"^for param, target_param in ", end=None, kind="callarg", call=r"\w+", arg=1,
         names={"params": 1, "target_params": 2}, inputs=[]),
    # DQN._on_step
    dict(name="dqn_count", file="stable_baselines3/dqn/dqn.py", qual="DQN._on_step", start=r"^self\._n_calls [-+*/]= ", end=None,
         inputs=[("n_calls", "Z")], subst={"self._n_calls": "n_calls"}, outputs=[("n_calls", "Z")]),
    dict(name="dqn_update_cond", file="stable_baselines3/dqn/dqn.py", qual="DQN._on_step", start=r"^if (not )?\(?self\._n_calls\b", end=None, kind="test",
         inputs=[("n_calls", "Z"), ("tui", "Z"), ("n_envs", "Z")],
         subst={"self._n_calls": "n_calls", "self.target_update_interval": "tui", "self.n_envs": "n_envs"}),
    # SAC.train
    dict(name="sac_update_cond", file="stable_baselines3/sac/sac.py", qual="SAC.train", start=r"^if (not )?\(?gradient_step\b", end=None, kind="test",
         inputs=[("gradient_step", "Z"), ("tui", "Z")], subst={"self.target_update_interval": "tui"}),
    # TD3.train
    dict(name="td3_count", file="stable_baselines3/td3/td3.py", qual="TD3.train", start=r"^self\._n_updates [-+*/]= ", end=None,
         inputs=[("n_updates", "Z")], subst={"self._n_updates": "n_updates"}, outputs=[("n_updates", "Z")]),
    dict(name="td3_update_cond", file="stable_baselines3/td3/td3.py", qual="TD3.train", start=r"^if (not )?\(?self\._n_updates\b", end=None, kind="test",
         inputs=[("n_updates", "Z"), ("policy_delay", "Z")], subst={"self._n_updates": "n_updates", "self.policy_delay": "policy_delay"}),
    # every polyak_update call: source list, target list, coefficient (document order inside the function)
    *[_pu(f"dqn_pu{k}_{nm}", "stable_baselines3/dqn/dqn.py", "DQN._on_step", k, 2, a) for k in range(2) for nm, a in (("src", 0), ("dst", 1), ("tau", 2))],
    *[_pu(f"sac_pu{k}_{nm}", "stable_baselines3/sac/sac.py", "SAC.train", k, 2, a) for k in range(2) for nm, a in (("src", 0), ("dst", 1), ("tau", 2))],
    *[_pu(f"td3_pu{k}_{nm}", "stable_baselines3/td3/td3.py", "TD3.train", k, 4, a) for k in range(4) for nm, a in (("src", 0), ("dst", 1), ("tau", 2))],
]
