"""C08 fragments: the polyak arithmetic (utils.py) and the three cadence conditions (dqn.py, sac.py, td3.py).
start patterns anchor on stable text only."""
SPECS = [
    # polyak_update: factor of mul_ and alpha of th.add
    dict(name="polyak_scale", file="stable_baselines3/common/utils.py", qual="polyak_update",
         start=r"^target_param\.data\.mul_\(", end=None, kind="subexpr", pick=r"[^()]*\btau\b[^()]*", ret="Q", inputs=[("tau", "Q")]),
    dict(name="polyak_alpha", file="stable_baselines3/common/utils.py", qual="polyak_update",
         start=r"^th\.add\(", end=None, kind="subexpr", pick=r"[^(),]*\btau\b[^(),]*", ret="Q", inputs=[("tau", "Q")]),
    # DQN._on_step
    dict(name="dqn_count", file="stable_baselines3/dqn/dqn.py", qual="DQN._on_step", start=r"^self\._n_calls \+= ", end=None,
         inputs=[("n_calls", "Z")], subst={"self._n_calls": "n_calls"}, outputs=[("n_calls", "Z")]),
    dict(name="dqn_update_cond", file="stable_baselines3/dqn/dqn.py", qual="DQN._on_step", start=r"^if (not )?\(?self\._n_calls\b", end=None, kind="test",
         inputs=[("n_calls", "Z"), ("tui", "Z"), ("n_envs", "Z")],
         subst={"self._n_calls": "n_calls", "self.target_update_interval": "tui", "self.n_envs": "n_envs"}),
    # SAC.train
    dict(name="sac_update_cond", file="stable_baselines3/sac/sac.py", qual="SAC.train", start=r"^if (not )?\(?gradient_step\b", end=None, kind="test",
         inputs=[("gradient_step", "Z"), ("tui", "Z")], subst={"self.target_update_interval": "tui"}),
    # TD3.train
    dict(name="td3_count", file="stable_baselines3/td3/td3.py", qual="TD3.train", start=r"^self\._n_updates \+= ", end=None,
         inputs=[("n_updates", "Z")], subst={"self._n_updates": "n_updates"}, outputs=[("n_updates", "Z")]),
    dict(name="td3_update_cond", file="stable_baselines3/td3/td3.py", qual="TD3.train", start=r"^if (not )?\(?self\._n_updates\b", end=None, kind="test",
         inputs=[("n_updates", "Z"), ("policy_delay", "Z")], subst={"self._n_updates": "n_updates", "self.policy_delay": "policy_delay"}),
    # the coefficient used for the normalisation running statistics at the update instants (a copy: tau = 1.0)
    dict(name="dqn_bn_tau", file="stable_baselines3/dqn/dqn.py", qual="DQN._on_step", start=r"^polyak_update\(self\.batch_norm_stats\b", end=None,
         kind="subexpr", pick=r"\d+(\.\d*)?|self\.tau", ret="Q", inputs=[("tau", "Q")], subst={"self.tau": "tau"}),
    dict(name="sac_bn_tau", file="stable_baselines3/sac/sac.py", qual="SAC.train", start=r"^polyak_update\(self\.batch_norm_stats\b", end=None,
         kind="subexpr", pick=r"\d+(\.\d*)?|self\.tau", ret="Q", inputs=[("tau", "Q")], subst={"self.tau": "tau"}),
    dict(name="td3_critic_bn_tau", file="stable_baselines3/td3/td3.py", qual="TD3.train", start=r"^polyak_update\(self\.critic_batch_norm_stats\b", end=None,
         kind="subexpr", pick=r"\d+(\.\d*)?|self\.tau", ret="Q", inputs=[("tau", "Q")], subst={"self.tau": "tau"}),
    dict(name="td3_actor_bn_tau", file="stable_baselines3/td3/td3.py", qual="TD3.train", start=r"^polyak_update\(self\.actor_batch_norm_stats\b", end=None,
         kind="subexpr", pick=r"\d+(\.\d*)?|self\.tau", ret="Q", inputs=[("tau", "Q")], subst={"self.tau": "tau"}),
    # the coefficient used for the parameters: the configured tau
    dict(name="dqn_param_tau", file="stable_baselines3/dqn/dqn.py", qual="DQN._on_step", start=r"^polyak_update\(self\.q_net\.parameters", end=None,
         kind="subexpr", pick=r"\d+(\.\d*)?|self\.tau", ret="Q", inputs=[("tau", "Q")], subst={"self.tau": "tau"}),
    dict(name="sac_param_tau", file="stable_baselines3/sac/sac.py", qual="SAC.train", start=r"^polyak_update\(self\.critic\.parameters", end=None,
         kind="subexpr", pick=r"\d+(\.\d*)?|self\.tau", ret="Q", inputs=[("tau", "Q")], subst={"self.tau": "tau"}),
    dict(name="td3_critic_param_tau", file="stable_baselines3/td3/td3.py", qual="TD3.train", start=r"^polyak_update\(self\.critic\.parameters", end=None,
         kind="subexpr", pick=r"\d+(\.\d*)?|self\.tau", ret="Q", inputs=[("tau", "Q")], subst={"self.tau": "tau"}),
    dict(name="td3_actor_param_tau", file="stable_baselines3/td3/td3.py", qual="TD3.train", start=r"^polyak_update\(self\.actor\.parameters", end=None,
         kind="subexpr", pick=r"\d+(\.\d*)?|self\.tau", ret="Q", inputs=[("tau", "Q")], subst={"self.tau": "tau"}),
]
