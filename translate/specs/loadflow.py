"""C09 (build round 5) fragments: the guards of BaseAlgorithm.load / set_parameters and OffPolicyAlgorithm.load_replay_buffer.
Membership / comparison tests are inputs (booleans), with BOTH polarities named so that a flipped test translates and
breaks the interface lemma instead of falling back."""
FILE = "stable_baselines3/common/base_class.py"
OFF = "stable_baselines3/common/off_policy_algorithm.py"

SPECS = [
    # load(): raise ValueError when kwargs carries a different policy_kwargs (the 2nd of the two `if 'policy_kwargs' ...` statements)
    dict(name="ld_pk_raises", qual="BaseAlgorithm.load", start=r"^if (not )?\(?'policy_kwargs'", nth=1, of=2, end=None, kind="test",
         inputs=[("in_kwargs", "bool"), ("notin_kwargs", "bool"), ("differs", "bool"), ("equal", "bool")],
         subst={"'policy_kwargs' in kwargs": "in_kwargs", "'policy_kwargs' not in kwargs": "notin_kwargs",
                "kwargs['policy_kwargs'] != data['policy_kwargs']": "differs", "kwargs['policy_kwargs'] == data['policy_kwargs']": "equal"}),
    # load(): both spaces must be in the archive
    dict(name="ld_spaces_missing", qual="BaseAlgorithm.load", start=r"^if .*'observation_space'", end=None, kind="test",
         inputs=[("obs_in", "bool"), ("obs_notin", "bool"), ("act_in", "bool"), ("act_notin", "bool")],
         subst={"'observation_space' not in data": "obs_notin", "'observation_space' in data": "obs_in",
                "'action_space' not in data": "act_notin", "'action_space' in data": "act_in"}),
    # load(): backward-compatibility conversion of net_arch = [dict(...)] (truthiness first: an empty list has no [0])
    dict(name="ld_legacy_net_arch", qual="BaseAlgorithm.load", start=r"^if .*saved_net_arch", end=None, kind="test",
         inputs=[("truthy", "bool"), ("is_list", "bool"), ("first_is_dict", "bool")],
         subst={"saved_net_arch": "truthy", "isinstance(saved_net_arch, list)": "is_list", "isinstance(saved_net_arch[0], dict)": "first_is_dict"}),
    # load(): env given?
    dict(name="ld_env_given", qual="BaseAlgorithm.load", start=r"^if env is", end=None, kind="test",
         inputs=[("env_is_none", "bool"), ("env_not_none", "bool")],
         subst={"env is not None": "env_not_none", "env is None": "env_is_none"}),
    # load(): _last_obs is dropped iff force_reset
    dict(name="ld_force_reset", qual="BaseAlgorithm.load", start=r"^if .*force_reset", end=None, kind="test",
         inputs=[("force_reset", "bool"), ("data_not_none", "bool"), ("data_is_none", "bool")],
         subst={"data is not None": "data_not_none", "data is None": "data_is_none"}),
    # load(): n_envs is taken from the env whenever there is data
    dict(name="ld_n_envs_updated", qual="BaseAlgorithm.load", start=r"^if data is", end=None, kind="test",
         inputs=[("data_not_none", "bool"), ("data_is_none", "bool")],
         subst={"data is not None": "data_not_none", "data is None": "data_is_none"}),
    # load(): the stored env is used when no env is given
    dict(name="ld_use_stored_env", qual="BaseAlgorithm.load", start=r"^if 'env'", end=None, kind="test",
         inputs=[("env_in", "bool"), ("env_notin", "bool")],
         subst={"'env' in data": "env_in", "'env' not in data": "env_notin"}),
    # load(): gSDE noise re-sampled iff use_sde
    dict(name="ld_reset_noise", qual="BaseAlgorithm.load", start=r"^if .*use_sde", end=None, kind="test",
         inputs=[("use_sde", "bool")], subst={"model.use_sde": "use_sde"}),
    # set_parameters(): the final test and the strict= argument, optimizers special-cased
    dict(name="sp_names_raise", qual="BaseAlgorithm.set_parameters", start=r"^if .*updated_objects", end=None, kind="test",
         inputs=[("exact_match", "bool"), ("differ", "bool"), ("same", "bool")],
         subst={"updated_objects != objects_needing_update": "differ", "updated_objects == objects_needing_update": "same"}),
    dict(name="sp_strict_arg", qual="BaseAlgorithm.set_parameters", start=r"^attr.load_state_dict\(.*strict", end=None, kind="callarg",
         call=r"attr\.load_state_dict", arg="strict", ret="bool", inputs=[("exact_match", "bool")], subst={}),
    dict(name="sp_is_optimizer", qual="BaseAlgorithm.set_parameters", start=r"^if isinstance\(attr", end=None, kind="test",
         inputs=[("is_optim", "bool"), ("is_module", "bool")],
         subst={"isinstance(attr, th.optim.Optimizer)": "is_optim", "isinstance(attr, th.nn.Module)": "is_module"}),
    # load_replay_buffer(): HER special case, truncation on request only
    dict(name="rb_is_her", file=OFF, qual="OffPolicyAlgorithm.load_replay_buffer", start=r"^if (not )?isinstance\(self.replay_buffer", end=None, kind="test",
         inputs=[("is_her", "bool"), ("is_plain", "bool")],
         subst={"isinstance(self.replay_buffer, HerReplayBuffer)": "is_her", "isinstance(self.replay_buffer, ReplayBuffer)": "is_plain"}),
    dict(name="rb_truncate", file=OFF, qual="OffPolicyAlgorithm.load_replay_buffer", start=r"^if .*truncate_last_traj", end=None, kind="test",
         inputs=[("truncate_last_traj", "bool")], subst={}),
    dict(name="rb_legacy", file=OFF, qual="OffPolicyAlgorithm.load_replay_buffer", start=r"^if .*hasattr\(", end=None, kind="test",
         inputs=[("has_attr", "bool")], subst={"hasattr(self.replay_buffer, 'handle_timeout_termination')": "has_attr"}),
]
