"""C03 fragments: ring cursor, size, capacity, sample index bounds / maps, done mask (buffers.py).
start/end patterns anchor on stable text only (assigned name, keyword + first identifier), never on the
operator or constant the fragment captures."""
FILE = "stable_baselines3/common/buffers.py"

_CUR = dict(
    start=r"^self\.pos \+= ", end=r"^if (not )?\(?self\.pos\b",
    inputs=[("pos", "Z"), ("buffer_size", "Z"), ("full", "bool")],
    subst={"self.pos": "pos", "self.buffer_size": "buffer_size", "self.full": "full"},
    outputs=[("pos", "Z"), ("full", "bool")],
)
_CAP = dict(start=r"^self\.buffer_size = ", end=None, kind="expr", ret="Z",
            inputs=[("buffer_size", "Z"), ("n_envs", "Z")])
# the arithmetic combination of dones[...] and timeouts[...] (whatever the operators), without the
# surrounding reshape / to_torch / normalize calls
_MASK_PICK = r"(?!.*(reshape|normalize|to_torch)).*self\.(dones|timeouts)\[.*self\.(dones|timeouts)\[.*"
_MASK = dict(kind="subexpr", pick=_MASK_PICK, ret="Z", inputs=[("d", "Z"), ("t", "Z")],
             subst={"self.dones[batch_inds, env_indices]": "d", "self.timeouts[batch_inds, env_indices]": "t"})
_SELF = {"self.full": "full", "self.buffer_size": "buffer_size", "self.pos": "pos"}

SPECS = [
    # add(): advance the write cursor, wrap and set `full`
    dict(name="rb_add_cursor", qual="ReplayBuffer.add", **_CUR),
    dict(name="dictrb_add_cursor", qual="DictReplayBuffer.add", **_CUR),
    # size()
    dict(name="rb_size", qual="BaseBuffer.size", start=None, end=None, ret="Z",
         inputs=[("full", "bool"), ("buffer_size", "Z"), ("pos", "Z")], subst=_SELF),
    # capacity = max(buffer_size // n_envs, 1)
    dict(name="rb_capacity", qual="ReplayBuffer.__init__", **_CAP),
    dict(name="dictrb_capacity", qual="DictReplayBuffer.__init__", **_CAP),
    # BaseBuffer.sample(): indices are drawn from [0, upper_bound) and used as they are
    dict(name="rb_upper_bound", qual="BaseBuffer.sample", start=r"^upper_bound = ", end=None, kind="expr", ret="Z",
         inputs=[("full", "bool"), ("buffer_size", "Z"), ("pos", "Z")], subst=_SELF),
    dict(name="rb_base_index", qual="BaseBuffer.sample", start=r"^batch_inds = ", end=None, kind="expr", ret="Z",
         inputs=[("draw", "Z")], subst={"np.random.randint(0, upper_bound, size=batch_size)": "draw"}),
    # ReplayBuffer.sample(): which branch, and the index map of the two memory-optimised branches
    # (draw_full / draw_notfull stand for randint(1, buffer_size) / randint(0, pos): the texts are pinned by subst)
    dict(name="rb_sample_not_memopt", qual="ReplayBuffer.sample", start=r"^if (not )?self\.optimize_memory_usage", end=None, kind="test",
         inputs=[("memopt", "bool")], subst={"self.optimize_memory_usage": "memopt"}),
    dict(name="rb_memopt_index", qual="ReplayBuffer.sample", start=r"^if (not )?self\.full", end=None,
         inputs=[("full", "bool"), ("draw_full", "Z"), ("draw_notfull", "Z"), ("pos", "Z"), ("buffer_size", "Z")],
         subst={"np.random.randint(1, self.buffer_size, size=batch_size)": "draw_full",
                "np.random.randint(0, self.pos, size=batch_size)": "draw_notfull", **_SELF},
         outputs=[("batch_inds", "Z")]),
    # _get_samples(): slot of the next observation in the memory-optimised variant; done mask
    dict(name="rb_memopt_next_index", qual="ReplayBuffer._get_samples", start=r"^next_obs = self\._normalize_obs\(self\.observations\[", end=None,
         kind="subexpr", pick=r"[^\[\],]*batch_inds[^\[\],]*", ret="Z",
         inputs=[("batch_inds", "Z"), ("buffer_size", "Z")], subst={"self.buffer_size": "buffer_size"}),
    dict(name="rb_memopt_next_branch", qual="ReplayBuffer._get_samples", start=r"^if (not )?self\.optimize_memory_usage", end=None, kind="test",
         inputs=[("memopt", "bool")], subst={"self.optimize_memory_usage": "memopt"}),
    dict(name="rb_done_mask", qual="ReplayBuffer._get_samples", start=r"^data = ", end=None, **_MASK),
    dict(name="dictrb_done_mask", qual="DictReplayBuffer._get_samples", start=r"^return DictReplayBufferSamples", end=None, **_MASK),
    # add(): where the memory-optimised variant writes next_obs; when timeouts are recorded
    dict(name="rb_memopt_write_index", qual="ReplayBuffer.add", start=r"^self\.observations\[.*\] = np\.array\(next_obs\)", end=None,
         kind="subexpr", pick=r"[^\[\],]*self\.pos[^\[\],]*", ret="Z",
         inputs=[("pos", "Z"), ("buffer_size", "Z")], subst={"self.pos": "pos", "self.buffer_size": "buffer_size"}),
    dict(name="rb_add_memopt_branch", qual="ReplayBuffer.add", start=r"^if (not )?self\.optimize_memory_usage", end=None, kind="test",
         inputs=[("memopt", "bool")], subst={"self.optimize_memory_usage": "memopt"}),
    dict(name="rb_add_timeout_branch", qual="ReplayBuffer.add", start=r"^if (not )?self\.handle_timeout_termination", end=None, kind="test",
         inputs=[("hto", "bool")], subst={"self.handle_timeout_termination": "hto"}),
    dict(name="dictrb_add_timeout_branch", qual="DictReplayBuffer.add", start=r"^if (not )?self\.handle_timeout_termination", end=None, kind="test",
         inputs=[("hto", "bool")], subst={"self.handle_timeout_termination": "hto"}),
    # ---- RolloutBuffer / DictRolloutBuffer cursor, reset and get() protocol
    dict(name="rollout_add_cursor", qual="RolloutBuffer.add", **_CUR),
    dict(name="dictrollout_add_cursor", qual="DictRolloutBuffer.add", **_CUR),
    dict(name="base_reset", qual="BaseBuffer.reset", start=None, end=None, inputs=[],
         subst={"self.pos": "pos", "self.full": "full"}, outputs=[("pos", "Z"), ("full", "bool")]),
    dict(name="rollout_reset_ready", qual="RolloutBuffer.reset", start=r"^self\.generator_ready = ", end=None, kind="expr", ret="bool", inputs=[]),
    dict(name="dictrollout_reset_ready", qual="DictRolloutBuffer.reset", start=r"^self\.generator_ready = ", end=None, kind="expr", ret="bool", inputs=[]),
    dict(name="rollout_get_requires", qual="RolloutBuffer.get", start=r"^assert ", end=None, kind="subexpr", pick=r"(not )?self\.full", ret="bool",
         inputs=[("full", "bool")], subst={"self.full": "full"}),
    dict(name="dictrollout_get_requires", qual="DictRolloutBuffer.get", start=r"^assert ", end=None, kind="subexpr", pick=r"(not )?self\.full", ret="bool",
         inputs=[("full", "bool")], subst={"self.full": "full"}),
    dict(name="rollout_get_flatten_guard", qual="RolloutBuffer.get", start=r"^if (not )?\(?self\.generator_ready", end=None, kind="test",
         inputs=[("ready", "bool")], subst={"self.generator_ready": "ready"}),
    dict(name="dictrollout_get_flatten_guard", qual="DictRolloutBuffer.get", start=r"^if (not )?\(?self\.generator_ready", end=None, kind="test",
         inputs=[("ready", "bool")], subst={"self.generator_ready": "ready"}),
    dict(name="rollout_get_sets_ready", qual="RolloutBuffer.get", start=r"^self\.generator_ready = ", end=None, kind="expr", ret="bool", inputs=[]),
    dict(name="dictrollout_get_sets_ready", qual="DictRolloutBuffer.get", start=r"^self\.generator_ready = ", end=None, kind="expr", ret="bool", inputs=[]),
]
