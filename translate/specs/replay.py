"""C03 fragments: ring cursor, size, capacity, sample index bounds / maps, done mask (buffers.py)."""
FILE = "stable_baselines3/common/buffers.py"

_CUR = dict(
    start=r"^self\.pos \+= 1", end=r"^if self\.pos == ",
    inputs=[("pos", "Z"), ("buffer_size", "Z"), ("full", "bool")],
    subst={"self.pos": "pos", "self.buffer_size": "buffer_size", "self.full": "full"},
    outputs=[("pos", "Z"), ("full", "bool")],
)
_CAP = dict(start=r"^self\.buffer_size = max", end=None, kind="expr", ret="Z",
            inputs=[("buffer_size", "Z"), ("n_envs", "Z")])
_MASK_PICK = r"self\.dones\[[^\]]*\] \* .*self\.timeouts\[[^\]]*\]\)?"
_MASK = dict(kind="subexpr", pick=_MASK_PICK, ret="Z", inputs=[("d", "Z"), ("t", "Z")],
             subst={"self.dones[batch_inds, env_indices]": "d", "self.timeouts[batch_inds, env_indices]": "t"})

SPECS = [
    # add(): advance the write cursor, wrap and set `full`
    dict(name="rb_add_cursor", qual="ReplayBuffer.add", **_CUR),
    dict(name="dictrb_add_cursor", qual="DictReplayBuffer.add", **_CUR),
    # size()
    dict(name="rb_size", qual="BaseBuffer.size", start=None, end=None, ret="Z",
         inputs=[("full", "bool"), ("buffer_size", "Z"), ("pos", "Z")],
         subst={"self.full": "full", "self.buffer_size": "buffer_size", "self.pos": "pos"}),
    # capacity = max(buffer_size // n_envs, 1)
    dict(name="rb_capacity", qual="ReplayBuffer.__init__", **_CAP),
    dict(name="dictrb_capacity", qual="DictReplayBuffer.__init__", **_CAP),
    # BaseBuffer.sample(): indices are drawn from [0, upper_bound) and used as they are
    dict(name="rb_upper_bound", qual="BaseBuffer.sample", start=r"^upper_bound = ", end=None, kind="expr", ret="Z",
         inputs=[("full", "bool"), ("buffer_size", "Z"), ("pos", "Z")],
         subst={"self.full": "full", "self.buffer_size": "buffer_size", "self.pos": "pos"}),
    dict(name="rb_base_index", qual="BaseBuffer.sample", start=r"^batch_inds = ", end=None, kind="expr", ret="Z",
         inputs=[("draw", "Z")], subst={"np.random.randint(0, upper_bound, size=batch_size)": "draw"}),
    # ReplayBuffer.sample(): which branch, and the index map of each branch
    dict(name="rb_sample_not_memopt", qual="ReplayBuffer.sample", start=r"^if not self\.optimize_memory_usage", end=None, kind="test",
         inputs=[("memopt", "bool")], subst={"self.optimize_memory_usage": "memopt"}),
    dict(name="rb_sample_full_branch", qual="ReplayBuffer.sample", start=r"^if self\.full", end=None, kind="test",
         inputs=[("full", "bool")], subst={"self.full": "full"}),
    dict(name="rb_memopt_full_index", qual="ReplayBuffer.sample", start=r"^batch_inds = \(", end=None, kind="expr", ret="Z",
         inputs=[("draw", "Z"), ("pos", "Z"), ("buffer_size", "Z")],
         subst={"np.random.randint(1, self.buffer_size, size=batch_size)": "draw", "self.pos": "pos", "self.buffer_size": "buffer_size"}),
    dict(name="rb_memopt_notfull_index", qual="ReplayBuffer.sample", start=r"^batch_inds = np", end=None, kind="expr", ret="Z",
         inputs=[("draw", "Z")], subst={"np.random.randint(0, self.pos, size=batch_size)": "draw"}),
    # _get_samples(): slot of the next observation in the memory-optimised variant; done mask
    dict(name="rb_memopt_next_index", qual="ReplayBuffer._get_samples", start=r"^next_obs = .*% self\.buffer_size", end=None,
         kind="subexpr", pick=r".*% self\.buffer_size", ret="Z",
         inputs=[("batch_inds", "Z"), ("buffer_size", "Z")], subst={"self.buffer_size": "buffer_size"}),
    dict(name="rb_memopt_next_branch", qual="ReplayBuffer._get_samples", start=r"^if self\.optimize_memory_usage", end=None, kind="test",
         inputs=[("memopt", "bool")], subst={"self.optimize_memory_usage": "memopt"}),
    dict(name="rb_done_mask", qual="ReplayBuffer._get_samples", start=r"^data = ", end=None, **_MASK),
    dict(name="dictrb_done_mask", qual="DictReplayBuffer._get_samples", start=r"^return DictReplayBufferSamples", end=None, **_MASK),
    # add(): where the memory-optimised variant writes next_obs; when timeouts are recorded
    dict(name="rb_memopt_write_index", qual="ReplayBuffer.add", start=r"^self\.observations\[.*% self\.buffer_size\] = ", end=None,
         kind="subexpr", pick=r".*% self\.buffer_size", ret="Z",
         inputs=[("pos", "Z"), ("buffer_size", "Z")], subst={"self.pos": "pos", "self.buffer_size": "buffer_size"}),
    dict(name="rb_add_memopt_branch", qual="ReplayBuffer.add", start=r"^if self\.optimize_memory_usage", end=None, kind="test",
         inputs=[("memopt", "bool")], subst={"self.optimize_memory_usage": "memopt"}),
    dict(name="rb_add_timeout_branch", qual="ReplayBuffer.add", start=r"^if self\.handle_timeout_termination", end=None, kind="test",
         inputs=[("hto", "bool")], subst={"self.handle_timeout_termination": "hto"}),
    dict(name="dictrb_add_timeout_branch", qual="DictReplayBuffer.add", start=r"^if self\.handle_timeout_termination", end=None, kind="test",
         inputs=[("hto", "bool")], subst={"self.handle_timeout_termination": "hto"}),
]
