"""C03 fragments (buffers.py): ring cursor, size, capacity, the bounds of every random draw, the index maps, the gather
indices of _get_samples, the slots and sources of every write in add(), the done mask; RolloutBuffer cursor / reset / get.
start/end patterns anchor on stable text only (assigned name, keyword + first identifier); bounds, operators and indices
are picked as sub-expressions (kind callarg / subscript_index / subexpr) so that changing them changes the fragment."""
FILE = "stable_baselines3/common/buffers.py"

_SELF = {"self.full": "full", "self.buffer_size": "buffer_size", "self.pos": "pos", "self.n_envs": "n_envs"}
_CUR = dict(
    start=r"^self\.pos [-+*/]= ", end=r"^if (not )?\(?self\.pos\b",
    inputs=[("pos", "Z"), ("buffer_size", "Z"), ("full", "bool")], subst=_SELF,
    outputs=[("pos", "Z"), ("full", "bool")],
)
_CAP = dict(start=r"^self\.buffer_size = ", end=None, kind="expr", ret="Z", inputs=[("buffer_size", "Z"), ("n_envs", "Z")])
_RAND = r"np\.random\.randint"
_BOUND_IN = [("full", "bool"), ("buffer_size", "Z"), ("pos", "Z"), ("n_envs", "Z"), ("upper_bound", "Z")]
# the arithmetic combination of dones[...] and timeouts[...] (whatever the operators and the gather indices, which have
# their own fragments), without the surrounding reshape / to_torch / normalize calls
_MASK_PICK = r"(?!.*(reshape|normalize|to_torch)).*self\.(dones|timeouts)\[.*self\.(dones|timeouts)\[.*"
_MASK = dict(kind="subexpr", pick=_MASK_PICK, ret="Z", inputs=[("d", "Z"), ("t", "Z")],
             subst_re={r"self\.dones\[[^\]]*\]": "d", r"self\.timeouts\[[^\]]*\]": "t"})
_SRC = {"obs": 1, "next_obs": 2, "action": 3, "reward": 4, "done": 5}


def _bound(name, qual, start, arg, **kw):
    return dict(name=name, qual=qual, start=start, end=None, kind="callarg", call=_RAND, arg=arg, ret="Z", inputs=_BOUND_IN, subst=_SELF, **kw)


def _gather(name, qual, start, array, axis, **kw):
    return dict(name=name, qual=qual, start=start, end=None, kind="subscript_index", array=array, axis=axis, ret="Z",
                inputs=[("batch_inds", "Z"), ("env_indices", "Z"), ("buffer_size", "Z")], subst={"self.buffer_size": "buffer_size"}, **kw)


def _slot(name, qual, start, array, **kw):
    return dict(name=name, qual=qual, start=start, end=None, kind="subscript_index", array=array, axis=0, ret="Z",
                inputs=[("pos", "Z"), ("buffer_size", "Z")], subst=_SELF, **kw)


def _src(name, qual, start, **kw):
    return dict(name=name, qual=qual, start=start, end=None, kind="callarg", call=r"np\.array", arg=0, names=_SRC, inputs=[], **kw)


_RB, _DRB, _GS, _DGS = "ReplayBuffer.add", "DictReplayBuffer.add", "ReplayBuffer._get_samples", "DictReplayBuffer._get_samples"

SPECS = [
    # add(): advance the write cursor, wrap and set `full`
    dict(name="rb_add_cursor", qual=_RB, **_CUR),
    dict(name="dictrb_add_cursor", qual=_DRB, **_CUR),
    # size(), capacity
    dict(name="rb_size", qual="BaseBuffer.size", start=None, end=None, ret="Z", inputs=[("full", "bool"), ("buffer_size", "Z"), ("pos", "Z")], subst=_SELF),
    dict(name="rb_capacity", qual="ReplayBuffer.__init__", **_CAP),
    dict(name="dictrb_capacity", qual="DictReplayBuffer.__init__", **_CAP),
    # BaseBuffer.sample(): bounds of the index draw, the draw is used as it is
    dict(name="rb_upper_bound", qual="BaseBuffer.sample", start=r"^upper_bound = ", end=None, kind="expr", ret="Z",
         inputs=[("full", "bool"), ("buffer_size", "Z"), ("pos", "Z")], subst=_SELF),
    _bound("rb_base_lo", "BaseBuffer.sample", r"^batch_inds = ", 0),
    _bound("rb_base_hi", "BaseBuffer.sample", r"^batch_inds = ", 1),
    dict(name="rb_base_index", qual="BaseBuffer.sample", start=r"^batch_inds = ", end=None, kind="expr", ret="Z",
         inputs=[("draw", "Z")], subst_calls={_RAND: "draw"}),
    # ReplayBuffer.sample(): which branch; bounds and index map of the two memory-optimised branches
    dict(name="rb_sample_not_memopt", qual="ReplayBuffer.sample", start=r"^if (not )?self\.optimize_memory_usage", end=None, kind="test",
         inputs=[("memopt", "bool")], subst={"self.optimize_memory_usage": "memopt"}),
    _bound("rb_memopt_full_lo", "ReplayBuffer.sample", r"^batch_inds = ", 0, nth=0, of=2),
    _bound("rb_memopt_full_hi", "ReplayBuffer.sample", r"^batch_inds = ", 1, nth=0, of=2),
    _bound("rb_memopt_notfull_lo", "ReplayBuffer.sample", r"^batch_inds = ", 0, nth=1, of=2),
    _bound("rb_memopt_notfull_hi", "ReplayBuffer.sample", r"^batch_inds = ", 1, nth=1, of=2),
    dict(name="rb_memopt_index", qual="ReplayBuffer.sample", start=r"^if (not )?self\.full", end=None,
         inputs=[("full", "bool"), ("draw", "Z"), ("pos", "Z"), ("buffer_size", "Z")], subst=_SELF, subst_calls={_RAND: "draw"},
         outputs=[("batch_inds", "Z")]),
    # _get_samples(): bounds of the env-column draw
    _bound("rb_env_lo", _GS, r"^env_indices = ", 0),
    _bound("rb_env_hi", _GS, r"^env_indices = ", "high"),
    _bound("dictrb_env_lo", _DGS, r"^env_indices = ", 0),
    _bound("dictrb_env_hi", _DGS, r"^env_indices = ", "high"),
    # _get_samples(): (slot, env) index of every gathered array
    *[_gather(f"rb_gather_{nm}_{ax}", _GS, r"^data = ", rf"self\.{arr}", a)
      for nm, arr in (("obs", "observations"), ("act", "actions"), ("done", "dones"), ("to", "timeouts"), ("rew", "rewards")) for ax, a in (("slot", 0), ("env", 1))],
    _gather("rb_gather_next_slot", _GS, r"^next_obs = ", r"self\.next_observations", 0, nth=1, of=2),
    _gather("rb_gather_next_env", _GS, r"^next_obs = ", r"self\.next_observations", 1, nth=1, of=2),
    _gather("rb_memopt_next_index", _GS, r"^next_obs = ", r"self\.observations", 0, nth=0, of=2),
    _gather("rb_memopt_next_env", _GS, r"^next_obs = ", r"self\.observations", 1, nth=0, of=2),
    *[_gather(f"dictrb_gather_{nm}_{ax}", _DGS, r"^return DictReplayBufferSamples", rf"self\.{arr}", a)
      for nm, arr in (("act", "actions"), ("done", "dones"), ("to", "timeouts"), ("rew", "rewards")) for ax, a in (("slot", 0), ("env", 1))],
    _gather("dictrb_gather_obs_slot", _DGS, r"^obs_ = ", r"obs", 0),
    _gather("dictrb_gather_obs_env", _DGS, r"^obs_ = ", r"obs", 1),
    _gather("dictrb_gather_next_slot", _DGS, r"^next_obs_ = ", r"obs", 0),
    _gather("dictrb_gather_next_env", _DGS, r"^next_obs_ = ", r"obs", 1),
    dict(name="dictrb_gather_obs_source", qual=_DGS, start=r"^obs_ = ", end=None, kind="subexpr", pick=r"self\.\w*observations\.items\(\)",
         names={"self.observations.items()": 1, "self.next_observations.items()": 2}, inputs=[]),
    dict(name="dictrb_gather_next_source", qual=_DGS, start=r"^next_obs_ = ", end=None, kind="subexpr", pick=r"self\.\w*observations\.items\(\)",
         names={"self.observations.items()": 1, "self.next_observations.items()": 2}, inputs=[]),
    dict(name="rb_memopt_next_branch", qual=_GS, start=r"^if (not )?self\.optimize_memory_usage", end=None, kind="test",
         inputs=[("memopt", "bool")], subst={"self.optimize_memory_usage": "memopt"}),
    dict(name="rb_done_mask", qual=_GS, start=r"^data = ", end=None, **_MASK),
    dict(name="dictrb_done_mask", qual=_DGS, start=r"^return DictReplayBufferSamples", end=None, **_MASK),
    # add(): slot and source of every write
    _slot("rb_add_obs_slot", _RB, r"^self\.observations\[", r"self\.observations", nth=0, of=2),
    _src("rb_add_obs_src", _RB, r"^self\.observations\[", nth=0, of=2),
    _slot("rb_memopt_write_index", _RB, r"^self\.observations\[", r"self\.observations", nth=1, of=2),
    _src("rb_memopt_write_src", _RB, r"^self\.observations\[", nth=1, of=2),
    _slot("rb_add_next_slot", _RB, r"^self\.next_observations\[", r"self\.next_observations"),
    _src("rb_add_next_src", _RB, r"^self\.next_observations\["),
    _slot("rb_add_act_slot", _RB, r"^self\.actions\[", r"self\.actions"), _src("rb_add_act_src", _RB, r"^self\.actions\["),
    _slot("rb_add_rew_slot", _RB, r"^self\.rewards\[", r"self\.rewards"), _src("rb_add_rew_src", _RB, r"^self\.rewards\["),
    _slot("rb_add_done_slot", _RB, r"^self\.dones\[", r"self\.dones"), _src("rb_add_done_src", _RB, r"^self\.dones\["),
    _slot("rb_add_to_slot", _RB, r"^self\.timeouts\[", r"self\.timeouts"),
    _slot("dictrb_add_obs_slot", _DRB, r"^self\.observations\[key\]\[", r"self\.observations\[key\]"),
    _slot("dictrb_add_next_slot", _DRB, r"^self\.next_observations\[key\]\[", r"self\.next_observations\[key\]"),
    _slot("dictrb_add_act_slot", _DRB, r"^self\.actions\[", r"self\.actions"), _src("dictrb_add_act_src", _DRB, r"^self\.actions\["),
    _slot("dictrb_add_rew_slot", _DRB, r"^self\.rewards\[", r"self\.rewards"), _src("dictrb_add_rew_src", _DRB, r"^self\.rewards\["),
    _slot("dictrb_add_done_slot", _DRB, r"^self\.dones\[", r"self\.dones"), _src("dictrb_add_done_src", _DRB, r"^self\.dones\["),
    _slot("dictrb_add_to_slot", _DRB, r"^self\.timeouts\[", r"self\.timeouts"),
    dict(name="rb_add_memopt_branch", qual=_RB, start=r"^if (not )?self\.optimize_memory_usage", end=None, kind="test",
         inputs=[("memopt", "bool")], subst={"self.optimize_memory_usage": "memopt"}),
    dict(name="rb_add_timeout_branch", qual=_RB, start=r"^if (not )?self\.handle_timeout_termination", end=None, kind="test",
         inputs=[("hto", "bool")], subst={"self.handle_timeout_termination": "hto"}),
    dict(name="dictrb_add_timeout_branch", qual=_DRB, start=r"^if (not )?self\.handle_timeout_termination", end=None, kind="test",
         inputs=[("hto", "bool")], subst={"self.handle_timeout_termination": "hto"}),
    # ---- RolloutBuffer / DictRolloutBuffer cursor, reset and get() protocol
    dict(name="rollout_add_cursor", qual="RolloutBuffer.add", **_CUR),
    dict(name="dictrollout_add_cursor", qual="DictRolloutBuffer.add", **_CUR),
    dict(name="base_reset", qual="BaseBuffer.reset", start=None, end=None, inputs=[], subst={"self.pos": "pos", "self.full": "full"}, outputs=[("pos", "Z"), ("full", "bool")]),
    dict(name="rollout_reset_ready", qual="RolloutBuffer.reset", start=r"^self\.generator_ready = ", end=None, kind="expr", ret="bool", inputs=[]),
    dict(name="dictrollout_reset_ready", qual="DictRolloutBuffer.reset", start=r"^self\.generator_ready = ", end=None, kind="expr", ret="bool", inputs=[]),
    dict(name="rollout_get_requires", qual="RolloutBuffer.get", start=r"^assert ", end=None, kind="subexpr", pick=r"(not )?self\.full", ret="bool",
         inputs=[("full", "bool")], subst={"self.full": "full"}),
    dict(name="dictrollout_get_requires", qual="DictRolloutBuffer.get", start=r"^assert ", end=None, kind="subexpr", pick=r"(not )?self\.full", ret="bool",
         inputs=[("full", "bool")], subst={"self.full": "full"}),
    dict(name="rollout_get_flatten_guard", qual="RolloutBuffer.get", start=r"^if (not )?\(?self\.generator_ready", end=None, kind="test",
         inputs=[("ready", "bool")], subst={"self.generator_ready": "ready"}),
    dict(name="dictrollout_get_flatten_guard", qual="DictRolloutBuffer.get", start=r"^if (not )?\(?self\.generator_ready", end=None, kind="test",
         inputs=[("ready", "bool")], subst={"self.generator_ready": "ready"}),
    dict(name="rollout_get_sets_ready", qual="RolloutBuffer.get", start=r"^self\.generator_ready = ", end=None, kind="expr", ret="bool", inputs=[]),
    dict(name="dictrollout_get_sets_ready", qual="DictRolloutBuffer.get", start=r"^self\.generator_ready = ", end=None, kind="expr", ret="bool", inputs=[]),
    # __init__: the dtype every storage array is allocated with (codes: 1 = the observation space's dtype, 2 = _maybe_cast_dtype(action dtype):
    # float64 actions are stored as float32 by design, 3 = np.float32)
    *[dict(name=nm, qual=q, start=st, end=None, kind="callarg", call=r"np\.zeros", arg="dtype", inputs=[],
           names={"observation_space.dtype": 1, "observation_space[key].dtype": 1, "self._maybe_cast_dtype(action_space.dtype)": 2, "np.float32": 3})
      for nm, q, st in (("rb_alloc_obs_dtype", "ReplayBuffer.__init__", r"^self\.observations = "),
                        ("rb_alloc_next_dtype", "ReplayBuffer.__init__", r"^self\.next_observations = "),
                        ("rb_alloc_act_dtype", "ReplayBuffer.__init__", r"^self\.actions = "),
                        ("rb_alloc_rew_dtype", "ReplayBuffer.__init__", r"^self\.rewards = "),
                        ("rb_alloc_done_dtype", "ReplayBuffer.__init__", r"^self\.dones = "),
                        ("rb_alloc_to_dtype", "ReplayBuffer.__init__", r"^self\.timeouts = "),
                        ("dictrb_alloc_obs_dtype", "DictReplayBuffer.__init__", r"^self\.observations = "),
                        ("dictrb_alloc_next_dtype", "DictReplayBuffer.__init__", r"^self\.next_observations = "),
                        ("dictrb_alloc_act_dtype", "DictReplayBuffer.__init__", r"^self\.actions = "))],
]
