FILE = "stable_baselines3/common/buffers.py"
_Q = "RolloutBuffer.compute_returns_and_advantage"
SPECS = [
    # the two assignments of the backward recursion
    dict(
        name="gae_body", qual=_Q, start=r"^delta = ", end=r"^last_gae_lam = ",
        inputs=[("r", "Q"), ("v", "Q"), ("nv", "Q"), ("nnt", "Q"), ("gamma", "Q"), ("lam", "Q"), ("last_gae_lam", "Q")],
        subst={"self.rewards[step]": "r", "self.values[step]": "v", "next_values": "nv",
               "next_non_terminal": "nnt", "self.gamma": "gamma", "self.gae_lambda": "lam"},
        outputs=[("delta", "Q"), ("last_gae_lam", "Q")],
    ),
    # which successor value / non-terminal flag a step uses
    dict(
        name="gae_next", qual=_Q, start=r"^if step\b", end=None,
        inputs=[("step", "Z"), ("buffer_size", "Z"), ("done_last", "Q"), ("last_v", "Q"), ("es_next", "Q"), ("v_next", "Q")],
        subst={"self.buffer_size": "buffer_size", "dones.astype(np.float32)": "done_last", "last_values": "last_v",
               "self.episode_starts[step + 1]": "es_next", "self.values[step + 1]": "v_next"},
        outputs=[("next_non_terminal", "Q"), ("next_values", "Q")],
    ),
    # what is stored per step, and the returns
    dict(
        name="gae_store", qual=_Q, start=r"^self.advantages\[step\] = ", end=None, kind="expr", ret="Q",
        inputs=[("last_gae_lam", "Q")],
    ),
    dict(
        name="gae_returns", qual=_Q, start=r"^self.returns = ", end=None, kind="expr", ret="Q",
        inputs=[("adv", "Q"), ("v", "Q")], subst={"self.advantages": "adv", "self.values": "v"},
    ),
    # minibatch slicing of get()
    dict(
        name="rollout_get_guard", qual="RolloutBuffer.get", start=r"^while start_idx\b", end=None, kind="test",
        inputs=[("start_idx", "Z"), ("buffer_size", "Z"), ("n_envs", "Z")],
        subst={"self.buffer_size": "buffer_size", "self.n_envs": "n_envs"},
    ),
    dict(
        name="rollout_get_advance", qual="RolloutBuffer.get", start=r"^start_idx [-+*/%]= ", end=None,
        inputs=[("start_idx", "Z"), ("batch_size", "Z")], outputs=[("start_idx", "Z")],
    ),
    dict(
        name="dictrollout_get_guard", qual="DictRolloutBuffer.get", start=r"^while start_idx\b", end=None, kind="test",
        inputs=[("start_idx", "Z"), ("buffer_size", "Z"), ("n_envs", "Z")],
        subst={"self.buffer_size": "buffer_size", "self.n_envs": "n_envs"},
    ),
    dict(
        name="dictrollout_get_advance", qual="DictRolloutBuffer.get", start=r"^start_idx [-+*/%]= ", end=None,
        inputs=[("start_idx", "Z"), ("batch_size", "Z")], outputs=[("start_idx", "Z")],
    ),
]
