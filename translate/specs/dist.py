"""C14 fragments of stable_baselines3/common/distributions.py.  torch calls are outside the
translator's subset: each transcendental sub-expression is substituted by an input name, so the
fragments carry the *assembly* (which rank sums per row, how atanh combines the two log1p values,
the guards and offsets of expln, the sign of the squash correction)."""
FILE = "stable_baselines3/common/distributions.py"
SPECS = [
    dict(
        name="dist_sum_per_row", qual="sum_independent_dims", start=r"^if len\(tensor\.shape\)", end=None, kind="test",
        inputs=[("rank", "Z")], subst={"len(tensor.shape)": "rank"},
    ),
    dict(
        name="dist_atanh", qual="TanhBijector.atanh", start=r"^return ", end=None, kind="expr", ret="Q",
        inputs=[("lp", "Q"), ("lm", "Q")], subst={"x.log1p()": "lp", "(-x).log1p()": "lm"},
    ),
    dict(
        name="dist_expln", qual="StateDependentNoiseDistribution.get_std", start=r"^below_threshold = ", end=r"^std = below_threshold",
        inputs=[("log_std", "Q"), ("e", "Q"), ("l1p", "Q"), ("eps", "Q")],
        subst={"th.exp(log_std)": "e", "th.log1p(safe_log_std)": "l1p", "self.epsilon": "eps"},
        outputs=[("safe_log_std", "Q"), ("std", "Q")],
    ),
    dict(
        name="dist_squash_update", qual="SquashedDiagGaussianDistribution.log_prob", start=r"^log_prob ([-+*/]=|= log_prob\b)", end=None,
        inputs=[("log_prob", "Q"), ("corr", "Q")],
        subst={"th.sum(th.log(1 - actions ** 2 + self.epsilon), dim=1)": "corr"},
        outputs=[("log_prob", "Q")],
    ),
    dict(
        name="dist_gsde_squash_update", qual="StateDependentNoiseDistribution.log_prob", start=r"^log_prob ([-+*/]=|= log_prob\b)", end=None,
        inputs=[("log_prob", "Q"), ("corr", "Q")],
        subst={"th.sum(self.bijector.log_prob_correction(gaussian_actions), dim=1)": "corr"},
        outputs=[("log_prob", "Q")],
    ),
]
