"""C13: cadence conditions and counter updates of the callback classes, and the emission-point
guards of the two collection loops.  Regenerated from /repo on every run."""
FILE = "stable_baselines3/common/callbacks.py"
_ON = "stable_baselines3/common/on_policy_algorithm.py"
_OFF = "stable_baselines3/common/off_policy_algorithm.py"
_UT = "stable_baselines3/common/utils.py"

SPECS = [
    # BaseCallback.on_step: the two counter updates before _on_step()
    dict(
        name="cb_on_step_counters", qual="BaseCallback.on_step", start=r"^self\.n_calls", end=r"^self\.num_timesteps = ",
        inputs=[("n_calls", "Z"), ("model_nt", "Z")],
        subst={"self.n_calls": "n_calls", "self.num_timesteps": "num_timesteps", "self.model.num_timesteps": "model_nt"},
        outputs=[("n_calls", "Z"), ("num_timesteps", "Z")],
    ),
    # BaseCallback.on_training_start: num_timesteps refreshed from the model
    dict(
        name="cb_training_start_nt", qual="BaseCallback.on_training_start", start=r"^self\.num_timesteps = ", end=None, kind="expr", ret="Z",
        inputs=[("model_nt", "Z")], subst={"self.model.num_timesteps": "model_nt"},
    ),
    # CallbackList._on_step: conjunction, every child is called (child result is the LEFT operand)
    dict(
        name="cblist_combine", qual="CallbackList._on_step", start=r"^continue_training = .*callback\.on_step\(\)", end=None, kind="expr", ret="bool",
        inputs=[("child_ret", "bool"), ("continue_training", "bool")], subst={"callback.on_step()": "child_ret"},
    ),
    # CheckpointCallback
    dict(
        name="checkpoint_cond", qual="CheckpointCallback._on_step", start=r"^if .*self\.save_freq", end=None, kind="test",
        inputs=[("n_calls", "Z"), ("save_freq", "Z")], subst={"self.n_calls": "n_calls", "self.save_freq": "save_freq"},
    ),
    # EvalCallback
    dict(
        name="eval_cond", qual="EvalCallback._on_step", start=r"^if .*self\.eval_freq", end=None, kind="test",
        inputs=[("n_calls", "Z"), ("eval_freq", "Z")], subst={"self.n_calls": "n_calls", "self.eval_freq": "eval_freq"},
    ),
    dict(
        name="eval_better", qual="EvalCallback._on_step", start=r"^if .*self\.best_mean_reward", end=None, kind="test",
        inputs=[("mean_reward", "Z"), ("best", "Z")], subst={"self.best_mean_reward": "best"},
    ),
    dict(
        name="eval_after_combine", qual="EvalCallback._on_step", start=r"^continue_training = .*self\._on_event\(\)", end=None,
        kind="expr", ret="bool",
        inputs=[("continue_training", "bool"), ("event_ret", "bool")], subst={"self._on_event()": "event_ret"},
    ),
    # EveryNTimesteps
    dict(
        name="everyn_cond", qual="EveryNTimesteps._on_step", start=r"^if .*self\.last_time_trigger", end=None, kind="test",
        inputs=[("num_timesteps", "Z"), ("last_time_trigger", "Z"), ("n_steps", "Z")],
        subst={"self.num_timesteps": "num_timesteps", "self.last_time_trigger": "last_time_trigger", "self.n_steps": "n_steps"},
    ),
    dict(
        name="everyn_update", qual="EveryNTimesteps._on_step", start=r"^self\.last_time_trigger = ", end=None, kind="expr", ret="Z",
        inputs=[("num_timesteps", "Z")], subst={"self.num_timesteps": "num_timesteps"},
    ),
    dict(
        name="everyn_init_last", qual="EveryNTimesteps.__init__", start=r"^self\.last_time_trigger = ", end=None, kind="expr", ret="Z",
        inputs=[],
    ),
    # StopTrainingOnMaxEpisodes
    dict(
        name="maxep_total", qual="StopTrainingOnMaxEpisodes._init_callback", start=r"^self\._total_max_episodes = ", end=None, kind="expr", ret="Z",
        inputs=[("max_episodes", "Z"), ("num_envs", "Z")],
        subst={"self.max_episodes": "max_episodes", "self.training_env.num_envs": "num_envs"},
    ),
    dict(
        name="maxep_count", qual="StopTrainingOnMaxEpisodes._on_step", start=r"^self\.n_episodes \S= ", end=None,
        inputs=[("n_episodes", "Z"), ("ndones", "Z")],
        subst={"self.n_episodes": "n_episodes", "np.sum(self.locals['dones']).item()": "ndones"},
        outputs=[("n_episodes", "Z")],
    ),
    dict(
        name="maxep_continue", qual="StopTrainingOnMaxEpisodes._on_step", start=r"^continue_training = ", end=None, kind="expr", ret="bool",
        inputs=[("n_episodes", "Z"), ("total_max", "Z")],
        subst={"self.n_episodes": "n_episodes", "self._total_max_episodes": "total_max"},
    ),
    # StopTrainingOnRewardThreshold
    dict(
        name="rthresh_continue", qual="StopTrainingOnRewardThreshold._on_step", start=r"^continue_training = ", end=None, kind="expr", ret="bool",
        inputs=[("best", "Z"), ("threshold", "Z")],
        subst={"self.parent.best_mean_reward": "best", "self.reward_threshold": "threshold"},
    ),
    # StopTrainingOnNoModelImprovement: the whole decision block
    dict(
        name="noimp_block", qual="StopTrainingOnNoModelImprovement._on_step", start=r"^if self\.n_calls\b", end=r"^self\.last_best_mean_reward = ",
        inputs=[("continue_training", "bool"), ("n_calls", "Z"), ("min_evals", "Z"), ("best", "Z"), ("last_best", "Z"), ("no_improvement_evals", "Z"), ("max_no", "Z")],
        subst={"self.n_calls": "n_calls", "self.min_evals": "min_evals", "self.parent.best_mean_reward": "best",
               "self.last_best_mean_reward": "last_best", "self.no_improvement_evals": "no_improvement_evals",
               "self.max_no_improvement_evals": "max_no"},
        outputs=[("continue_training", "bool"), ("no_improvement_evals", "Z"), ("last_best", "Z")],
    ),
    # emission points: on-policy loops
    dict(
        name="onpol_rollout_guard", file=_ON, qual="OnPolicyAlgorithm.collect_rollouts", start=r"^while .*n_rollout_steps", end=None, kind="test",
        inputs=[("n_steps", "Z"), ("n_rollout_steps", "Z")],
    ),
    dict(
        name="onpol_count", file=_ON, qual="OnPolicyAlgorithm.collect_rollouts", start=r"^self\.num_timesteps \S= ", end=None,
        inputs=[("num_timesteps", "Z"), ("num_envs", "Z")],
        subst={"self.num_timesteps": "num_timesteps", "env.num_envs": "num_envs"}, outputs=[("num_timesteps", "Z")],
    ),
    dict(
        name="onpol_nsteps_inc", file=_ON, qual="OnPolicyAlgorithm.collect_rollouts", start=r"^n_steps \S= ", end=None,
        inputs=[("n_steps", "Z")], outputs=[("n_steps", "Z")],
    ),
    dict(
        name="onpol_learn_guard", file=_ON, qual="OnPolicyAlgorithm.learn", start=r"^while .*total_timesteps", end=None, kind="test",
        inputs=[("num_timesteps", "Z"), ("total_timesteps", "Z")], subst={"self.num_timesteps": "num_timesteps"},
    ),
    # emission points: off-policy loops
    dict(
        name="offpol_count", file=_OFF, qual="OffPolicyAlgorithm.collect_rollouts", start=r"^self\.num_timesteps \S= ", end=r"^num_collected_steps \S= ",
        inputs=[("num_timesteps", "Z"), ("num_envs", "Z"), ("num_collected_steps", "Z")],
        subst={"self.num_timesteps": "num_timesteps", "env.num_envs": "num_envs"},
        outputs=[("num_timesteps", "Z"), ("num_collected_steps", "Z")],
    ),
    dict(
        name="offpol_episode_inc", file=_OFF, qual="OffPolicyAlgorithm.collect_rollouts", start=r"^num_collected_episodes \S= ", end=None,
        inputs=[("num_collected_episodes", "Z")], outputs=[("num_collected_episodes", "Z")],
    ),
    dict(
        name="offpol_learn_guard", file=_OFF, qual="OffPolicyAlgorithm.learn", start=r"^while .*total_timesteps", end=None, kind="test",
        inputs=[("num_timesteps", "Z"), ("total_timesteps", "Z")], subst={"self.num_timesteps": "num_timesteps"},
    ),
    dict(
        name="cb_collect_more_step", file=_UT, qual="should_collect_more_steps", start=r"^return .*num_collected_steps", end=None, kind="expr", ret="bool",
        inputs=[("num_collected_steps", "Z"), ("frequency", "Z")], subst={"train_freq.frequency": "frequency"},
    ),
    dict(
        name="cb_collect_more_episode", file=_UT, qual="should_collect_more_steps", start=r"^return .*num_collected_episodes", end=None, kind="expr", ret="bool",
        inputs=[("num_collected_episodes", "Z"), ("frequency", "Z")], subst={"train_freq.frequency": "frequency"},
    ),
    # _setup_learn: counter reset / total extension
    dict(
        name="setup_learn_counters", file="stable_baselines3/common/base_class.py", qual="BaseAlgorithm._setup_learn",
        start=r"^if (not )?reset_num_timesteps:", end=None,
        inputs=[("reset_num_timesteps", "bool"), ("num_timesteps", "Z"), ("episode_num", "Z"), ("total_timesteps", "Z")],
        subst={"self.num_timesteps": "num_timesteps", "self._episode_num": "episode_num"},
        outputs=[("num_timesteps", "Z"), ("episode_num", "Z"), ("total_timesteps", "Z")],
    ),
]
