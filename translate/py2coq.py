"""Fail-closed translator from small Python fragments (ast) to Gallina definitions.

A fragment is a consecutive run of statements inside one function (or a whole
function body) of /repo's *current working tree*.  Supported statements:
assignment / augmented assignment to a name or to an lvalue that the spec maps
to a name, if/elif/else, return, docstrings, `pass`.  Supported expressions:
integer/decimal literals, names, the spec's textual substitutions, + - * / // %
unary -, comparisons (chains included), and/or/not, conditional expressions,
max/min/abs/int/float/bool calls, True/False.  Anything else raises
TranslateError (the caller then falls back to the pinned fragment and relies
on the correspondence check, and says so in the evidence).

Types: Z, Q, bool.  `/` always yields Q; `//` and `%` are Z only (Python floor
semantics = Coq Z.div / Z.modulo for every sign).
"""
from __future__ import annotations

import ast
import re
from fractions import Fraction


class TranslateError(Exception):
    pass


def _find_func(tree: ast.Module, qual: str):
    parts = qual.split(".")
    node = tree
    for p in parts:
        found = None
        for ch in node.body:
            if isinstance(ch, (ast.FunctionDef, ast.ClassDef, ast.AsyncFunctionDef)) and ch.name == p:
                if found is not None:
                    raise TranslateError(f"ambiguous {qual}")
                found = ch
        if found is None:
            raise TranslateError(f"cannot find {qual}")
        node = found
    if not isinstance(node, ast.FunctionDef):
        raise TranslateError(f"{qual} is not a function")
    return node


def _walk_blocks(stmts):
    """yield every statement list (block) nested in stmts, outermost first"""
    yield stmts
    for s in stmts:
        for field in ("body", "orelse", "finalbody"):
            sub = getattr(s, field, None)
            if isinstance(sub, list) and sub and isinstance(sub[0], ast.stmt):
                yield from _walk_blocks(sub)
        if isinstance(s, ast.Try):
            for h in s.handlers:
                yield from _walk_blocks(h.body)


def select(func: ast.FunctionDef, start: str | None, end: str | None, nth: int | None = None, of: int | None = None):
    """statements of one block of `func` from the first whose first source line matches
    `start` through the first following one matching `end` (both regexes on
    the unparsed statement's first line).  None/None = whole body."""
    if start is None:
        return list(func.body)
    hits = []
    for block in _walk_blocks(func.body):
        for i, s in enumerate(block):
            first = ast.unparse(s).split("\n")[0]
            if re.search(start, first):
                hits.append((block, i))
    if nth is not None:
        # (additive) the nth (0-based, document order) of exactly `of` matching statements
        if (of is not None and len(hits) != of) or not 0 <= nth < len(hits):
            raise TranslateError(f"start pattern {start!r} matched {len(hits)} statements in {func.name}, expected {of} (nth={nth})")
        block, i = hits[nth]
    else:
        if len(hits) != 1:
            raise TranslateError(f"start pattern {start!r} matched {len(hits)} statements in {func.name}")
        block, i = hits[0]
    if end is None:
        return [block[i]]
    for j in range(i, len(block)):
        first = ast.unparse(block[j]).split("\n")[0]
        if re.search(end, first):
            return block[i : j + 1]
    raise TranslateError(f"end pattern {end!r} not found after start in {func.name}")


class Tr:
    def __init__(self, types: dict, subst: dict, consts: dict | None = None, subst_re: dict | None = None, subst_calls: dict | None = None):
        self.types = dict(types)  # name -> 'Z'|'Q'|'bool'
        self.subst = {self._norm(k): v for k, v in subst.items()}
        self.consts = consts or {}
        self.subst_re = dict(subst_re or {})        # (additive) regex fully matching the unparsed expression -> name
        self.subst_calls = dict(subst_calls or {})  # (additive) regex fully matching the unparsed callee of a Call -> name, whatever the arguments

    @staticmethod
    def _norm(src: str) -> str:
        return ast.unparse(ast.parse(src, mode="eval").body)

    # ---------- expressions: return (coq_text, type) ----------
    def coerce(self, et, want):
        e, t = et
        if t == want:
            return e
        if t == "Z" and want == "Q":
            return f"(inject_Z {e})"
        if t == "bool" and want == "Z":
            return f"(if {e} then 1 else 0)%Z"
        if t == "bool" and want == "Q":
            return f"(if {e} then 1 else 0)%Q"
        if t == "Z" and want == "bool":
            return f"(negb (Z.eqb {e} 0))"
        raise TranslateError(f"cannot coerce {t} to {want}: {e}")

    def expr(self, n):
        key = ast.unparse(n)
        if key in self.subst:
            v = self.subst[key]
            if v not in self.types:
                raise TranslateError(f"substituted name {v} has no type")
            return v, self.types[v]
        for pat, v in self.subst_re.items():
            if re.fullmatch(pat, key, re.S):
                if v not in self.types:
                    raise TranslateError(f"substituted name {v} has no type")
                return v, self.types[v]
        if isinstance(n, ast.Call):
            callee = ast.unparse(n.func)
            for pat, v in self.subst_calls.items():
                if re.fullmatch(pat, callee, re.S):
                    if v not in self.types:
                        raise TranslateError(f"substituted name {v} has no type")
                    return v, self.types[v]
        if isinstance(n, ast.Constant):
            if n.value is True:
                return "true", "bool"
            if n.value is False:
                return "false", "bool"
            if isinstance(n.value, int):
                return f"({n.value})%Z", "Z"
            if isinstance(n.value, float):
                fr = Fraction(repr(n.value))
                return f"({fr.numerator} # {fr.denominator})%Q", "Q"
            raise TranslateError(f"constant {n.value!r}")
        if isinstance(n, ast.Name):
            if n.id in self.types:
                return n.id, self.types[n.id]
            raise TranslateError(f"unknown name {n.id}")
        if isinstance(n, ast.UnaryOp):
            if isinstance(n.op, ast.Not):
                return f"(negb {self.coerce(self.expr(n.operand), 'bool')})", "bool"
            if isinstance(n.op, ast.USub):
                e, t = self.expr(n.operand)
                if t == "Z":
                    return f"(Z.opp {e})", "Z"
                if t == "Q":
                    return f"(Qopp {e})", "Q"
            if isinstance(n.op, ast.UAdd):
                return self.expr(n.operand)
            raise TranslateError(f"unary {ast.dump(n.op)}")
        if isinstance(n, ast.BinOp):
            a, b = self.expr(n.left), self.expr(n.right)
            if a[1] == "bool":
                a = (self.coerce(a, "Z"), "Z")
            if b[1] == "bool":
                b = (self.coerce(b, "Z"), "Z")
            op = type(n.op)
            if op in (ast.FloorDiv, ast.Mod):
                if a[1] != "Z" or b[1] != "Z":
                    raise TranslateError("// and % only on Z")
                f = "Z.div" if op is ast.FloorDiv else "Z.modulo"
                return f"({f} {a[0]} {b[0]})", "Z"
            if op is ast.Div:
                return f"(Qdiv {self.coerce(a, 'Q')} {self.coerce(b, 'Q')})", "Q"
            names = {ast.Add: ("Z.add", "Qplus"), ast.Sub: ("Z.sub", "Qminus"), ast.Mult: ("Z.mul", "Qmult")}
            if op not in names:
                raise TranslateError(f"binop {op.__name__}")
            if a[1] == "Z" and b[1] == "Z":
                return f"({names[op][0]} {a[0]} {b[0]})", "Z"
            return f"({names[op][1]} {self.coerce(a, 'Q')} {self.coerce(b, 'Q')})", "Q"
        if isinstance(n, ast.Compare):
            parts = []
            left = self.expr(n.left)
            for op, right_n in zip(n.ops, n.comparators):
                right = self.expr(right_n)
                parts.append(self.cmp(type(op), left, right))
                left = right
            out = parts[0]
            for p in parts[1:]:
                out = f"(andb {out} {p})"
            return out, "bool"
        if isinstance(n, ast.BoolOp):
            f = "andb" if isinstance(n.op, ast.And) else "orb"
            vals = [self.coerce(self.expr(v), "bool") for v in n.values]
            out = vals[0]
            for v in vals[1:]:
                out = f"({f} {out} {v})"
            return out, "bool"
        if isinstance(n, ast.IfExp):
            c = self.coerce(self.expr(n.test), "bool")
            a, b = self.expr(n.body), self.expr(n.orelse)
            t = a[1] if a[1] == b[1] else ("Q" if "Q" in (a[1], b[1]) else "Z")
            return f"(if {c} then {self.coerce(a, t)} else {self.coerce(b, t)})", t
        if isinstance(n, ast.Call) and isinstance(n.func, ast.Name) and not n.keywords:
            fn = n.func.id
            args = [self.expr(a) for a in n.args]
            if fn in ("max", "min") and len(args) == 2:
                if args[0][1] == "Z" and args[1][1] == "Z":
                    return f"(Z.{fn} {args[0][0]} {args[1][0]})", "Z"
                return f"(Q{fn} {self.coerce(args[0], 'Q')} {self.coerce(args[1], 'Q')})", "Q"
            if fn == "abs" and len(args) == 1:
                if args[0][1] == "Z":
                    return f"(Z.abs {args[0][0]})", "Z"
                return f"(Qabs {self.coerce(args[0], 'Q')})", "Q"
            if fn == "int" and len(args) == 1 and args[0][1] in ("Z", "bool"):
                return self.coerce(args[0], "Z"), "Z"
            if fn == "float" and len(args) == 1:
                return self.coerce(args[0], "Q"), "Q"
            if fn == "bool" and len(args) == 1:
                return self.coerce(args[0], "bool"), "bool"
        if isinstance(n, ast.Call) and not n.keywords and len(n.args) == 3 and ast.unparse(n.func) in ("np.clip", "numpy.clip"):
            # np.clip(x, lo, hi) = minimum(maximum(x, lo), hi)   (additive case, C04/C11)
            x, lo, hi = (self.expr(a) for a in n.args)
            if x[1] == "Z" and lo[1] == "Z" and hi[1] == "Z":
                return f"(Z.min (Z.max {x[0]} {lo[0]}) {hi[0]})", "Z"
            return f"(Qmin (Qmax {self.coerce(x, 'Q')} {self.coerce(lo, 'Q')}) {self.coerce(hi, 'Q')})", "Q"
        if isinstance(n, ast.Call) and not n.keywords and len(n.args) == 1 and ast.unparse(n.func) in ("np.square", "numpy.square"):
            # np.square(x) = x * x   (additive case, C15)
            x = self.expr(n.args[0])
            if x[1] == "Z":
                return f"(Z.mul {x[0]} {x[0]})", "Z"
            xq = self.coerce(x, "Q")
            return f"(Qmult {xq} {xq})", "Q"
        # ---- (additive, C11) shape tuples: type "L" = list Z ----
        if isinstance(n, ast.Tuple) and isinstance(n.ctx, ast.Load):
            elts = [self.expr(e) for e in n.elts]
            if all(t == "Z" for _, t in elts):
                out = "nil"
                for e, _ in reversed(elts):
                    out = f"(cons {e} {out})"
                return (out if elts else "(@nil Z)"), "L"
        if isinstance(n, ast.Subscript):
            v = self.expr(n.value)
            if v[1] == "L":
                sl = n.slice
                if isinstance(sl, ast.Slice) and sl.upper is None and sl.step is None and isinstance(sl.lower, ast.Constant) and sl.lower.value == 1:
                    return f"(Coq.Lists.List.tl {v[0]})", "L"
                if isinstance(sl, ast.Constant) and isinstance(sl.value, int) and sl.value >= 0:
                    return f"(Coq.Lists.List.nth {sl.value}%nat {v[0]} (0)%Z)", "Z"
                if isinstance(sl, ast.UnaryOp) and isinstance(sl.op, ast.USub) and isinstance(sl.operand, ast.Constant) and sl.operand.value == 1:
                    return f"(Coq.Lists.List.last {v[0]} (0)%Z)", "Z"
        if isinstance(n, ast.Call) and isinstance(n.func, ast.Name) and n.func.id == "len" and len(n.args) == 1 and not n.keywords:
            v = self.expr(n.args[0])
            if v[1] == "L":
                return f"(Z.of_nat (Coq.Lists.List.length {v[0]}))", "Z"
        raise TranslateError(f"unsupported expression: {key}")

    def cmp(self, op, a, b):
        if a[1] == "L" and b[1] == "L" and op in (ast.Eq, ast.NotEq):   # (additive, C11)
            e = f"(if Coq.Lists.List.list_eq_dec Z.eq_dec {a[0]} {b[0]} then true else false)"
            return e if op is ast.Eq else f"(negb {e})"
        if a[1] == "bool" and b[1] == "bool" and op in (ast.Eq, ast.NotEq, ast.Is, ast.IsNot):
            e = f"(Bool.eqb {a[0]} {b[0]})"
            return e if op in (ast.Eq, ast.Is) else f"(negb {e})"
        if a[1] == "bool":
            a = (self.coerce(a, "Z"), "Z")
        if b[1] == "bool":
            b = (self.coerce(b, "Z"), "Z")
        if a[1] == "Z" and b[1] == "Z":
            x, y = a[0], b[0]
            tbl = {
                ast.Eq: f"(Z.eqb {x} {y})", ast.NotEq: f"(negb (Z.eqb {x} {y}))",
                ast.Lt: f"(Z.ltb {x} {y})", ast.LtE: f"(Z.leb {x} {y})",
                ast.Gt: f"(Z.ltb {y} {x})", ast.GtE: f"(Z.leb {y} {x})",
            }
        else:
            x, y = self.coerce(a, "Q"), self.coerce(b, "Q")
            tbl = {
                ast.Eq: f"(Qeq_bool {x} {y})", ast.NotEq: f"(negb (Qeq_bool {x} {y}))",
                ast.Lt: f"(negb (Qle_bool {y} {x}))", ast.LtE: f"(Qle_bool {x} {y})",
                ast.Gt: f"(negb (Qle_bool {x} {y}))", ast.GtE: f"(Qle_bool {y} {x})",
            }
        if op not in tbl:
            raise TranslateError(f"comparison {op.__name__}")
        return tbl[op]

    # ---------- statements ----------
    def lvalue(self, t):
        key = ast.unparse(t)
        if key in self.subst:
            return self.subst[key]
        if isinstance(t, ast.Name):
            return t.id
        raise TranslateError(f"unsupported assignment target: {key}")

    def assigned(self, stmts):
        out = []
        for s in stmts:
            if isinstance(s, ast.Assign):
                for t in s.targets:
                    out.append(self.lvalue(t))
            elif isinstance(s, (ast.AugAssign, ast.AnnAssign)):
                out.append(self.lvalue(s.target))
            elif isinstance(s, ast.If):
                out += self.assigned(s.body) + self.assigned(s.orelse)
        seen, res = set(), []
        for v in out:
            if v not in seen:
                seen.add(v)
                res.append(v)
        return res

    def block(self, stmts, outs, ret_type):
        """translate stmts followed by returning the tuple `outs` (or the value of a
        `return`); yields coq text"""
        if not stmts:
            if outs is None:
                raise TranslateError("function body falls through without return")
            for v in outs:
                if v not in self.types:
                    raise TranslateError(f"output {v} not defined on some path")
            return "(" + ", ".join(outs) + ")"
        s, rest = stmts[0], stmts[1:]
        if isinstance(s, ast.Expr) and isinstance(s.value, ast.Constant) and isinstance(s.value.value, str):
            return self.block(rest, outs, ret_type)
        if isinstance(s, ast.Pass):
            return self.block(rest, outs, ret_type)
        if isinstance(s, ast.Raise) and outs is None and ret_type == "obool":   # (additive, C11) raise -> None
            return "None"
        if isinstance(s, ast.Return):
            if outs is not None:
                raise TranslateError("return inside a statement fragment")
            if s.value is None:
                raise TranslateError("bare return")
            if ret_type == "obool":   # (additive, C11)
                return f"(Some {self.coerce(self.expr(s.value), 'bool')})"
            return self.coerce(self.expr(s.value), ret_type)
        if isinstance(s, ast.Assign):
            if len(s.targets) != 1:
                raise TranslateError("chained assignment")
            v = self.lvalue(s.targets[0])
            e, t = self.expr(s.value)
            if v in self.types and self.types[v] != t:
                e, t = self.coerce((e, t), self.types[v]), self.types[v]
            self.types[v] = t
            return f"let {v} := {e} in\n  {self.block(rest, outs, ret_type)}"
        if isinstance(s, ast.AnnAssign) and s.value is not None:
            v = self.lvalue(s.target)
            e, t = self.expr(s.value)
            self.types[v] = t
            return f"let {v} := {e} in\n  {self.block(rest, outs, ret_type)}"
        if isinstance(s, ast.AugAssign):
            v = self.lvalue(s.target)
            fake = ast.BinOp(left=s.target, op=s.op, right=s.value)
            # the target on the right-hand side must resolve like the lvalue
            save = dict(self.subst)
            self.subst[ast.unparse(s.target)] = v
            e, t = self.expr(fake)
            self.subst = save
            if v in self.types and self.types[v] != t:
                e, t = self.coerce((e, t), self.types[v]), self.types[v]
            self.types[v] = t
            return f"let {v} := {e} in\n  {self.block(rest, outs, ret_type)}"
        if isinstance(s, ast.If):
            c = self.coerce(self.expr(s.test), "bool")
            if outs is None and not rest:
                # function-style: both branches return
                t0 = dict(self.types)
                a = self.block(s.body, None, ret_type)
                self.types = dict(t0)
                b = self.block(s.orelse, None, ret_type)
                self.types = t0
                return f"(if {c} then {a} else {b})"
            if outs is None and any(isinstance(x, ast.Return) for x in s.body) and not s.orelse:
                # early return:  if c: return e   <rest>
                t0 = dict(self.types)
                a = self.block(s.body, None, ret_type)
                self.types = dict(t0)
                b = self.block(rest, None, ret_type)
                return f"(if {c} then {a} else {b})"
            vs = self.assigned([s])
            t0 = dict(self.types)
            a = self.block(s.body, vs, ret_type)
            ta = self.types
            self.types = dict(t0)
            b = self.block(s.orelse, vs, ret_type)
            for v in vs:
                if ta[v] != self.types[v] or (v in t0 and ta[v] != t0[v]):
                    raise TranslateError(f"type of {v} changes across branches")
                t0[v] = ta[v]
            self.types = t0
            pat = "'(" + ", ".join(vs) + ")" if len(vs) > 1 else vs[0]
            return f"let {pat} := (if {c} then {a} else {b}) in\n  {self.block(rest, outs, ret_type)}"
        raise TranslateError(f"unsupported statement: {ast.unparse(s).splitlines()[0]}")


COQ_TY = {"Z": "Z", "Q": "Q", "bool": "bool", "L": "(list Z)", "obool": "(option bool)"}


def translate_fragment(src_text: str, spec: dict) -> str:
    """spec keys: name, qual, start, end, inputs [(name, ty)], subst {py_expr: name},
    outputs [(name, ty)] (statement fragment) or ret ty (function fragment)."""
    tree = ast.parse(src_text)
    func = _find_func(tree, spec["qual"])
    stmts = select(func, spec.get("start"), spec.get("end"), spec.get("nth"), spec.get("of"))
    types = {n: t for n, t in spec["inputs"]}
    tr = Tr(types, spec.get("subst", {}), None, spec.get("subst_re"), spec.get("subst_calls"))
    args = " ".join(f"({n} : {COQ_TY[t]})" for n, t in spec["inputs"])
    if spec.get("kind") == "test":
        # the condition of the selected while / if statement
        if len(stmts) != 1 or not isinstance(stmts[0], (ast.While, ast.If)):
            raise TranslateError("kind=test needs exactly one while/if statement")
        body = tr.coerce(tr.expr(stmts[0].test), "bool")
        return f"Definition {spec['name']} {args} : bool :=\n  {body}.\n"
    if spec.get("kind") in ("callarg", "subscript_index"):
        # (additive) callarg: argument `arg` (int position, keyword name, "@name" = the callee itself, "@receiver" = the object of a
        #   method call) of the call(s) in the selected statement whose unparsed callee fully matches spec["call"];
        # subscript_index: element `axis` of the index tuple of the subscript(s) whose unparsed value fully matches spec["array"].
        # Several matches must be textually identical.  With spec["names"] the selected text is mapped to an integer code
        # (unknown text -> 0) instead of being translated: this turns "which function / key / object" into a checkable value.
        if len(stmts) != 1:
            raise TranslateError(f"kind={spec['kind']} needs exactly one statement")
        picked = []
        for node in ast.walk(getattr(stmts[0], spec["scope"]) if spec.get("scope") in ("test", "iter", "value", "target") else stmts[0]):
            if spec["kind"] == "callarg" and isinstance(node, ast.Call) and re.fullmatch(spec["call"], ast.unparse(node.func), re.S):
                a = spec["arg"]
                if a == "@name":
                    picked.append(node.func)
                elif a == "@receiver":
                    if not isinstance(node.func, ast.Attribute):
                        raise TranslateError("@receiver of a call that is not a method call")
                    picked.append(node.func.value)
                elif isinstance(a, int):
                    if a >= len(node.args) or any(isinstance(x, ast.Starred) for x in node.args[: a + 1]):
                        raise TranslateError(f"call {ast.unparse(node.func)} has no positional argument {a}")
                    picked.append(node.args[a])
                else:
                    kws = [k.value for k in node.keywords if k.arg == a]
                    if len(kws) != 1:
                        raise TranslateError(f"call {ast.unparse(node.func)} has no keyword argument {a}")
                    picked.append(kws[0])
            if spec["kind"] == "subscript_index" and isinstance(node, ast.Subscript) and re.fullmatch(spec["array"], ast.unparse(node.value), re.S):
                idx = node.slice.elts if isinstance(node.slice, ast.Tuple) else [node.slice]
                if spec["axis"] >= len(idx):
                    raise TranslateError(f"subscript of {ast.unparse(node.value)} has no axis {spec['axis']}")
                picked.append(idx[spec["axis"]])
        if not picked or len({ast.unparse(x) for x in picked}) != 1:
            raise TranslateError(f"{spec['kind']} selected {len(picked)} expressions in {spec['name']}")
        if "names" in spec:
            code = int(spec["names"].get(ast.unparse(picked[0]), 0))
            return f"Definition {spec['name']} {args} : Z :=\n  ({code})%Z.\n"
        body = tr.coerce(tr.expr(picked[0]), spec["ret"])
        return f"Definition {spec['name']} {args} : {COQ_TY[spec['ret']]} :=\n  {body}.\n"
    if spec.get("kind") == "subexpr":
        # (additive) the unique sub-expression of the selected single statement whose unparsed
        # text fully matches the regex spec["pick"]; outermost match when matches are nested
        if len(stmts) != 1:
            raise TranslateError("kind=subexpr needs exactly one statement")
        hits = []

        def _visit(node):
            if isinstance(node, ast.expr) and re.fullmatch(spec["pick"], ast.unparse(node), re.S):
                hits.append(node)
                return
            for ch in ast.iter_child_nodes(node):
                _visit(ch)

        _visit(getattr(stmts[0], spec["scope"]) if spec.get("scope") in ("test", "iter", "value", "target") else stmts[0])   # scope: only that part of the statement
        if not hits or len({ast.unparse(h) for h in hits}) != 1:  # several textually identical occurrences are one expression
            raise TranslateError(f"pick pattern {spec['pick']!r} matched {len(hits)} sub-expressions")
        if "names" in spec:
            code = int(spec["names"].get(ast.unparse(hits[0]), 0))
            return f"Definition {spec['name']} {args} : Z :=\n  ({code})%Z.\n"
        body = tr.coerce(tr.expr(hits[0]), spec["ret"])
        return f"Definition {spec['name']} {args} : {COQ_TY[spec['ret']]} :=\n  {body}.\n"
    if spec.get("kind") == "expr":
        # the right-hand side of the selected single assignment / return
        if len(stmts) != 1 or not isinstance(stmts[0], (ast.Assign, ast.Return, ast.AnnAssign)):
            raise TranslateError("kind=expr needs exactly one assignment/return")
        value = stmts[0].value
        if spec.get("pick") == "listcomp_elt":
            # additive option: the element expression of the unique list comprehension inside the
            # right-hand side, e.g. np.array([(n + i) // k for i in range(k)]) -> (n + i) // k
            comps = [x for x in ast.walk(value) if isinstance(x, ast.ListComp)]
            if len(comps) != 1 or len(comps[0].generators) != 1 or comps[0].generators[0].ifs:
                raise TranslateError("pick=listcomp_elt needs exactly one unconditional single-generator list comprehension")
            value = comps[0].elt
        elif spec.get("pick") is not None:
            raise TranslateError(f"unknown pick {spec.get('pick')!r}")
        body = tr.coerce(tr.expr(value), spec["ret"])
        return f"Definition {spec['name']} {args} : {COQ_TY[spec['ret']]} :=\n  {body}.\n"
    if "outputs" in spec:
        outs = [n for n, _ in spec["outputs"]]
        body = tr.block(stmts, outs, None)
        for n, t in spec["outputs"]:
            if tr.types.get(n) != t:
                raise TranslateError(f"output {n} has type {tr.types.get(n)}, spec says {t}")
        rty = " * ".join(COQ_TY[t] for _, t in spec["outputs"])
    else:
        body = tr.block(stmts, None, spec["ret"])
        rty = COQ_TY[spec["ret"]]
    return f"Definition {spec['name']} {args} : {rty} :=\n  {body}.\n"


HEADER = """(* GENERATED by /verif/translate/py2coq.py from /repo's working tree - do not edit *)
From Coq Require Import ZArith QArith Qminmax Qabs Bool.
Local Open Scope Z_scope.
"""
