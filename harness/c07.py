"""C07 - each training update applies the gradient of the algorithm's published objective.

Proof side:  Props/C07.v - closed-form derivatives (Coquelicot is_derive) of the PPO / A2C / DQN / SAC /
             TD3 (DDPG) objectives with respect to the network outputs on the batch, TD targets,
             gradient-norm clipping, delayed-actor cadence; Q2R transfer of the executable twins;
             interface lemmas to the assembly lines regenerated from the train() methods.
Tie:         tiny real learn() runs with hooks installed from outside (buffer sample/get, the
             output-producing policy calls with retain_grad, Tensor.backward with retain_graph,
             clip_grad_norm_, optimizer.step).  At every optimizer step:
               * the loss value and dL/d(outputs) as torch computed them are compared with the
                 executable Q twin of the model (vm_compute, qclose rel 1e-3) and with an
                 independent float64 oracle written from the property text;
               * the parameter gradient handed to the optimizer is compared with
                 autograd.grad(outputs, params, grad_outputs = closed-form dL/d(outputs)),
                 followed by the model's clipping rule; lr = schedule(progress).
Trusted:     torch autograd through the networks, the optimizer arithmetic.
"""
from __future__ import annotations

import json
import math
import os
from fractions import Fraction

from harness import common
from harness.common import Check, coq_Q, coq_Z, coq_bool, coq_list

REGISTRY = dict(
    text=("No known finding. Proof (over the reals, Coquelicot): for a batch objective k*sum_i f_i(output_i) the partial derivative in one sample's output is k*f_i'; closed-form derivatives away from the kinks of "
          "min/clamp/Huber: PPO clipped surrogate (-A where the unclipped branch is the minimum, 0 otherwise, times the ratio through exp; pessimistic bound), optional value clipping, entropy term "
          "(analytic or -log_prob), A2C policy-gradient/value/entropy, DQN Huber loss (clamp(x,-1,1)) against r + gamma(1-done) max Q_target (bootstrap cut when done), SAC critic (min over target critics "
          "minus alpha*log pi), actor (alpha through log pi, -1 through the smaller critic only), temperature (-(log pi + H_target)), TD3 critic/actor, target-policy smoothing bounds, DDPG as the "
          "special case, delayed-actor cadence, gradient-norm clipping (coefficient in (0,1], clipped norm <= max_norm); the scalar helpers of the executable Q twins compute these definitions (Q2R transfer: TD target, Huber and its derivative, surrogate and its derivative, value prediction / gradient, "
          "clip coefficient, TD3 next action, one gradient component of each kind) and every list component of the batch twins is that helper at the corresponding inputs; the twins agree with the "
          "assembly lines regenerated from the train() methods (incl. the entropy signs, 1 -+ clip_range, the value-clip bound). Tie: per-optimizer-step correspondence on real tiny training runs (loss, dL/d outputs, targets, pre-clip and at-step parameter "
          "gradients, learning rate). Partial: torch autograd through the networks and the optimizer arithmetic are trusted; only SB3's loss assembly, batch wiring, clipping and lr application are decided."),
    note=("Axioms reported by Print Assumptions for Props/C07.v: ClassicalDedekindReals.sig_forall_dec, ClassicalDedekindReals.sig_not_dec, FunctionalExtensionality.functional_extensionality_dep, "
          "Classical_Prop.classic (Coq standard library real numbers) for the derivative / transfer theorems; 12 of the 24 theorems depend on them; the 12 theorems over Q (fragments, rollout/advantage normalisation, learning-rate application) are closed under the global context. "
          "Trusted: Coq 8.16.1 kernel (vm_compute for the Q twins, no native_compute), Coquelicot, translate/py2coq.py + specs/loss.py, harness/c07.py (hooks), Python/torch autograd and optimizers. "
          "Not verified: float32 rounding (rel 1e-3 / abs 1e-6), behaviour exactly at the kinks (ratio = 1 +- clip, |v - v_old| = clip_vf, |td error| = 1, equal critics)."),
    technique="machine-checked proof in Coq over R (Coquelicot is_derive) + executable Q twins (vm_compute) + regenerated-fragment interface lemmas + per-gradient-step differential correspondence",
)

HEADER = """From Coq Require Import List QArith ZArith Qminmax Qabs.
From SB3V Require Model.Gae.
From SB3V Require Import Lib.QUtil Model.LossCommon Model.LossPPO Model.LossA2C Model.LossDQN Model.LossSAC Model.LossTD3 Model.LossRollout.
Import ListNotations.
Definition ckt (m i : list Q) : bool := forallb (fun b => b) (qclose_list (1 # 10000) (1 # 100000) m i) && Nat.eqb (length m) (length i).
Definition REL := (1 # 1000)%Q.
Definition ABS := (1 # 1000000)%Q.
Definition ck (m i : Q) : bool := qclose REL ABS m i.
Definition ckl (m i : list Q) : bool := forallb (fun b => b) (qclose_list REL ABS m i) && Nat.eqb (length m) (length i).
Definition ckll (m i : list (list Q)) : bool :=
  Nat.eqb (length m) (length i) && forallb (fun b => b) (map (fun p => ckl (fst p) (snd p)) (combine m i)).
"""

RTOL, ATOL = 1e-3, 1e-6


def fq(x) -> str:
    return coq_Q(Fraction(float(x)))


def fql(xs) -> str:
    return coq_list([Fraction(float(x)) for x in xs], coq_Q)


def fqll(rows) -> str:
    return "[" + "; ".join(fql(r) for r in rows) + "]"


def fopt(x) -> str:
    return "None" if x is None else f"(Some {fq(x)})"


def close(a, b, scale=1.0):
    return abs(a - b) <= RTOL * max(abs(a), abs(b)) + ATOL * max(1.0, scale)


def all_close(xs, ys, scale=1.0):
    return len(xs) == len(ys) and all(close(float(a), float(b), scale) for a, b in zip(xs, ys))


# ---------------------------------------------------------------- tiny environment
def make_env(continuous: bool, seed: int, reward_scale: float = 1.0, image_dict: bool = False):
    import gymnasium as gym
    import numpy as np
    from gymnasium import spaces

    class Tiny(gym.Env):
        """3-d observation; episodes terminate (not truncate) after 2-6 steps; reward depends on the action"""

        def __init__(self):
            self.observation_space = spaces.Box(-2, 2, (3,), dtype=np.float32)
            if image_dict:
                self.observation_space = spaces.Dict({"img": spaces.Box(0, 255, (1, 36, 36), dtype=np.uint8), "vec": spaces.Box(-2, 2, (3,), dtype=np.float32)})
            self.action_space = spaces.Box(-1, 1, (2,), dtype=np.float32) if continuous else spaces.Discrete(3)
            self._rng = np.random.default_rng(seed)
            self._t = 0
            self._len = 3

        def _obs(self):
            v = self._rng.uniform(-1, 1, 3).astype(np.float32)
            if image_dict:
                return {"img": self._rng.integers(0, 256, (1, 36, 36)).astype(np.uint8), "vec": v}
            return v

        def reset(self, *, seed=None, options=None):
            self._t = 0
            self._len = int(self._rng.integers(2, 7))
            return self._obs(), {}

        def step(self, action):
            self._t += 1
            a = float(np.sum(action))
            r = float(np.round(reward_scale * (math.sin(a + self._t) + 0.5 * self._rng.normal()), 3))
            return self._obs(), r, self._t >= self._len, False, {}

    return Tiny()


# ---------------------------------------------------------------- hooks
class Recorder:
    """captures, from outside, what the training step uses and produces"""

    def __init__(self, algo, model, cfg, total_timesteps):
        self.algo, self.model, self.cfg, self.total = algo, model, cfg, total_timesteps
        self.cur = None          # captures since the last batch
        self.steps = []          # analysed optimizer steps (dicts: exprs, problems, ...)
        self.exprs = []          # (label, coq_expr, step_index)
        self.problems = []       # (signature, message, step_index)
        self.n_opt_steps = 0
        self.max_steps = cfg.get("max_opt_steps", 12)
        self.td3_trace = []      # (n_updates, actor_stepped)
        self.hist = {}

    # --- generic helpers
    def new_batch(self, batch):
        self.cur = {"batch": batch, "calls": [], "backward": [], "clip": None, "normal": []}

    def call(self, name, args, out):
        if self.cur is not None:
            self.cur["calls"].append((name, args, out))

    def calls(self, name):
        return [c for c in self.cur["calls"] if c[0] == name]

    def prob(self, sig, msg):
        self.problems.append((sig, msg, self.n_opt_steps))

    def expr(self, label, e):
        self.exprs.append((label, e, self.n_opt_steps))

    def count(self, k):
        self.hist[k] = self.hist.get(k, 0) + 1


def install(rec: Recorder):
    """monkey-patch the instance (never the library source); returns an undo function"""
    import torch as th

    model, algo = rec.model, rec.algo
    undo = []

    def patch(obj, name, new):
        old = getattr(obj, name)
        had = name in getattr(obj, "__dict__", {})
        setattr(obj, name, new)
        undo.append((obj, name, old, had))

    # Tensor.backward: keep the graph so that autograd.grad can be re-run at optimizer.step
    orig_backward = th.Tensor.backward

    def backward(self, *a, **k):
        if rec.cur is not None:
            rec.cur["backward"].append(self)
        k["retain_graph"] = True
        return orig_backward(self, *a, **k)

    patch(th.Tensor, "backward", backward)

    orig_clip = th.nn.utils.clip_grad_norm_

    def clip(params, max_norm, *a, **k):
        params = list(params)
        pre = [None if p.grad is None else p.grad.detach().clone() for p in params]
        total = orig_clip(params, max_norm, *a, **k)
        if rec.cur is not None:
            rec.cur["clip"] = {"params": params, "pre": pre, "max_norm": float(max_norm), "total": float(total)}
        return total

    patch(th.nn.utils, "clip_grad_norm_", clip)

    orig_normal = th.Tensor.normal_

    def normal_(self, mean=0.0, std=1.0, *a, **k):
        out = orig_normal(self, mean, std, *a, **k)
        if rec.cur is not None:
            rec.cur["normal"].append((float(mean), float(std), out.detach().clone()))
        return out

    patch(th.Tensor, "normal_", normal_)

    def wrap_fn(obj, name, label, retain=True):
        orig = getattr(obj, name)

        def f(*a, **k):
            out = orig(*a, **k)
            outs = out if isinstance(out, tuple) else (out,)
            if retain:
                for o in outs:
                    if isinstance(o, th.Tensor) and o.requires_grad:
                        o.retain_grad()
            rec.call(label, a, out)
            return out

        patch(obj, name, f)

    def wrap_opt(opt, label):
        orig = opt.step

        def step(*a, **k):
            if rec.cur is not None and not model.policy.training:
                rec.prob(f"oracle-{algo}-train-step-outside-training-mode",
                         "an optimizer step is taken while the policy is in evaluation mode: train() must switch to training mode first (dropout / batch-norm layers would otherwise be evaluated, not trained)")
            if rec.cur is not None and rec.n_opt_steps < rec.max_steps:
                try:
                    ANALYSE[algo](rec, label, opt)
                except Exception as e:  # the harness must not hide a crash of its own analysis
                    rec.prob(f"analysis-exception-{algo}-{label}", f"{type(e).__name__}: {e}")
                rec.n_opt_steps += 1
            return orig(*a, **k)

        patch(opt, "step", step)

    if algo in ("ppo", "a2c"):
        import numpy as _np

        buf = model.rollout_buffer
        orig_cra = buf.compute_returns_and_advantage

        def cra(last_values, dones):
            out = orig_cra(last_values, dones)
            rec.rollout = {"last_values": last_values.detach().clone().cpu().numpy().reshape(-1).astype("float64").tolist(), "dones": _np.asarray(dones, dtype="float64").reshape(-1).tolist(),
                           "rewards": buf.rewards.copy(), "values": buf.values.copy(), "starts": buf.episode_starts.copy(),
                           "advantages": buf.advantages.copy(), "returns": buf.returns.copy(), "T": buf.buffer_size, "n": buf.n_envs}
            return out

        patch(buf, "compute_returns_and_advantage", cra)
        orig_perm = _np.random.permutation

        def perm(x):
            p_ = orig_perm(x)
            rec.last_perm = _np.array(p_).copy()
            return p_

        patch(_np.random, "permutation", perm)
        orig_get = buf.get

        def get(batch_size=None):
            k = 0
            for data in orig_get(batch_size):
                rec.new_batch(data)
                bs = len(data.advantages) if batch_size is None else batch_size
                rec.cur["indices"] = rec.last_perm[k * bs:(k + 1) * bs].tolist() if getattr(rec, "last_perm", None) is not None else None
                k += 1
                yield data

        patch(buf, "get", get)
        wrap_fn(model.policy, "evaluate_actions", "eval")
        wrap_opt(model.policy.optimizer, "policy")
    else:
        orig_sample = model.replay_buffer.sample

        def sample(*a, **k):
            data = orig_sample(*a, **k)
            rec.new_batch(data)
            return data

        patch(model.replay_buffer, "sample", sample)
        if algo == "dqn":
            wrap_fn(model.q_net, "forward", "q_net")
            wrap_fn(model.q_net_target, "forward", "q_net_target")
            wrap_opt(model.policy.optimizer, "policy")
        elif algo == "sac":
            wrap_fn(model.actor, "action_log_prob", "alp")
            wrap_fn(model.critic, "forward", "critic")
            wrap_fn(model.critic_target, "forward", "critic_target")
            if model.ent_coef_optimizer is not None:
                wrap_opt(model.ent_coef_optimizer, "ent_coef")
            wrap_opt(model.critic.optimizer, "critic")
            wrap_opt(model.actor.optimizer, "actor")
        else:  # td3 / ddpg
            wrap_fn(model.actor, "forward", "actor")
            wrap_fn(model.actor_target, "forward", "actor_target")
            wrap_fn(model.critic, "forward", "critic")
            wrap_fn(model.critic, "q1_forward", "q1")
            wrap_fn(model.critic_target, "forward", "critic_target")
            wrap_opt(model.critic.optimizer, "critic")
            wrap_opt(model.actor.optimizer, "actor")

    def undo_all():
        for obj, name, old, had in reversed(undo):
            if had or obj is th.nn.utils:
                setattr(obj, name, old)
            else:
                try:
                    delattr(obj, name)
                except AttributeError:
                    setattr(obj, name, old)

    return undo_all


# ---------------------------------------------------------------- shared step checks
def f64(t):
    return t.detach().double().reshape(-1).tolist()


def check_param_grads(rec, label, opt, outputs, dl_douts, clipped: bool):
    """the gradient handed to the optimizer = J^T (closed-form dL/d outputs), then the clipping rule; lr"""
    import torch as th

    params = [p for g in opt.param_groups for p in g["params"]]
    outs, gos = [], []
    for o, g in zip(outputs, dl_douts):
        if o is not None and o.requires_grad:
            outs.append(o)
            gos.append(th.as_tensor(g, dtype=o.dtype).reshape(o.shape))
    exp = th.autograd.grad(outs, params, grad_outputs=gos, allow_unused=True, retain_graph=True)
    exp = [th.zeros_like(p) if e is None else e for p, e in zip(params, exp)]
    at_step = [th.zeros_like(p) if p.grad is None else p.grad.detach() for p in params]
    scale = max(1e-12, max(float(e.abs().max()) for e in exp))
    tag = f"{rec.algo}-{label}"

    def cmp(a_list, b_list, sig, what):
        worst = 0.0
        for a, b in zip(a_list, b_list):
            d = (a.double() - b.double()).abs()
            lim = RTOL * th.maximum(a.double().abs(), b.double().abs()) + ATOL + 1e-4 * scale
            worst = max(worst, float((d - lim).max()))
        if worst > 0:
            rec.prob(sig, f"{tag}: {what} (excess {worst:.3e}, gradient scale {scale:.3e})")

    if clipped:
        cl = rec.cur["clip"]
        if cl is None:
            rec.prob(f"oracle-{tag}-no-gradient-clipping", "clip_grad_norm_ was not called before optimizer.step although max_grad_norm is configured")
            return
        ids = {id(p) for p in params}
        extra = [g for p, g in zip(cl["params"], cl["pre"]) if id(p) not in ids and g is not None and float(g.abs().max()) > 0]
        if not ids <= {id(p) for p in cl["params"]} or extra:
            # a superset is fine as long as the extra parameters carry no gradient (e.g. DQN's target network)
            rec.prob(f"oracle-{tag}-clip-parameter-set", "clip_grad_norm_ must cover the optimizer's parameters and no other parameter with a gradient")
        pre = {id(p): (th.zeros_like(p) if g is None else g) for p, g in zip(cl["params"], cl["pre"])}
        cmp([pre[id(p)] for p in params], exp, f"oracle-{tag}-gradient-is-not-gradient-of-objective", "pre-clip parameter gradient differs from J^T * closed-form dL/d(outputs)")
        total = math.sqrt(sum(float((e.double() ** 2).sum()) for e in exp))
        want_max = rec.cfg["max_grad_norm"]
        if abs(cl["max_norm"] - want_max) > 1e-12:
            rec.prob(f"oracle-{tag}-max-grad-norm", f"clip_grad_norm_ called with max_norm={cl['max_norm']}, configured {want_max}")
        coef = min(1.0, want_max / (total + 1e-6))
        cmp(at_step, [e * coef for e in exp], f"oracle-{tag}-gradient-clipping", f"at-step gradient differs from min(1, max_norm/(norm+1e-6)) * gradient (norm {total:.4g}, max_norm {want_max})")
        rec.count("clip_active" if coef < 1 else "clip_inactive")
        # model: clipping coefficient and one clipped entry
        flat_e = th.cat([e.reshape(-1) for e in exp])
        flat_s = th.cat([g.reshape(-1) for g in at_step])
        k = int(flat_e.abs().argmax())
        rec.expr(f"{tag}-clip", f"ck (clipped_Q {fq(want_max)} {fq(total)} {fq(flat_e[k])}) {fq(flat_s[k])}")
    else:
        cmp(at_step, exp, f"oracle-{tag}-gradient-is-not-gradient-of-objective", "parameter gradient at optimizer.step differs from J^T * closed-form dL/d(outputs)")
    # learning rate
    m = rec.model
    progress = max(0.0, 1.0 - m.num_timesteps / rec.total)   # rec.total: timesteps at the start of this learn() call (0 after a reset) + its total_timesteps
    want = lr_value(rec.cfg, progress)
    for g in opt.param_groups:
        if not close(g["lr"], want, 0.0) and abs(g["lr"] - want) > 1e-12:
            rec.prob(f"oracle-{tag}-learning-rate", f"param group lr {g['lr']!r}, schedule(progress={progress}) = {want!r}")
    rec.expr(f"{tag}-lr", f"ckll (apply_lr {lr_coq(rec.cfg)} (progress_Q {fq(m.num_timesteps)} {fq(rec.total)}) "
                          f"[{fql([0.0] * len(opt.param_groups))}]) [{fql([g['lr'] for g in opt.param_groups])}]")


def grads_of(rec, tag, outs):
    res = []
    for o in outs:
        if o is None:
            res.append(None)
        elif o.grad is None:
            res.append([0.0] * o.numel())
        else:
            res.append(f64(o.grad))
    return res


# ---------------------------------------------------------------- PPO / A2C
def analyse_onpolicy(rec, label, opt):
    import numpy as np
    import torch as th
    from gymnasium import spaces

    m, cfg, algo = rec.model, rec.cfg, rec.algo
    b = rec.cur["batch"]
    ev = rec.calls("eval")
    if len(ev) != 1 or len(rec.cur["backward"]) != 1:
        rec.prob(f"oracle-{algo}-step-structure", f"{len(ev)} evaluate_actions calls and {len(rec.cur['backward'])} backward calls for one optimizer step")
        return
    (obs_in, act_in), (values, log_prob, entropy) = ev[0][1], ev[0][2]
    # batch wiring
    want_act = b.actions.long().flatten() if isinstance(m.action_space, spaces.Discrete) else b.actions
    same_obs = (all(th.equal(obs_in[k_], b.observations[k_]) for k_ in b.observations) if isinstance(b.observations, dict) else th.equal(obs_in, b.observations))
    if not (same_obs and th.equal(act_in, want_act)):
        rec.prob(f"oracle-{algo}-batch-wiring", "evaluate_actions was not called on the minibatch's observations/actions")
    n = len(b.advantages)
    adv = np.array(f64(b.advantages))
    check_rollout_cells(rec, b)
    norm = cfg["normalize_advantage"] and (n > 1 or algo == "a2c")
    std = float(np.std(adv, ddof=1)) if n > 1 else float("nan")
    A = (adv - adv.mean()) / (std + 1e-8) if norm else adv
    lp, oldlp = np.array(f64(log_prob)), np.array(f64(b.old_log_prob))
    v, oldv, ret = np.array(f64(values)), np.array(f64(b.old_values)), np.array(f64(b.returns))
    has_ent = entropy is not None
    ent_terms = -np.array(f64(entropy)) if has_ent else lp
    ec, vc = cfg["ent_coef"], cfg["vf_coef"]
    progress = max(0.0, 1.0 - m.num_timesteps / rec.total)
    if algo == "ppo":
        c = cfg["clip_range"] * ((0.5 + 0.5 * progress) if cfg.get("linear_clip") else 1.0)
        cv = cfg["clip_range_vf"]
        r = np.exp(lp - oldlp)
        rc = np.clip(r, 1 - c, 1 + c)
        pol = -np.minimum(A * r, A * rc)
        unclipped = (A * r <= A * rc)
        dlp = (np.where(unclipped, -A, 0.0) * r + (0.0 if has_ent else ec)) / n
        vp = v if cv is None else oldv + np.clip(v - oldv, -cv, cv)
        inside = np.ones(n, bool) if cv is None else (np.abs(v - oldv) < cv)
        dv = vc * np.where(inside, 2 * (v - ret), 0.0) / n
        val = (ret - vp) ** 2
        rec.count("ppo_clipped_samples" if (~unclipped).any() else "ppo_no_clipped_sample")
        if cv is not None:
            rec.count("ppo_value_clipped" if (~inside).any() else "ppo_value_unclipped")
    else:
        pol = -(A * lp)
        dlp = (-A + (0.0 if has_ent else ec)) / n
        dv = vc * 2 * (v - ret) / n
        val = (ret - v) ** 2
    loss = pol.mean() + ec * ent_terms.mean() + vc * val.mean()
    dent = [-ec / n] * n
    t_loss = float(rec.cur["backward"][0].detach())
    g_lp, g_v, g_ent = grads_of(rec, algo, [log_prob, values, entropy])
    if not close(loss, t_loss, abs(loss)):
        rec.prob(f"oracle-{algo}-loss-value", f"loss {t_loss!r}, published objective {loss!r}")
    if not all_close(g_lp, dlp):
        rec.prob(f"oracle-{algo}-dloss-dlogprob", f"dL/dlog_prob {g_lp[:4]} vs closed form {dlp[:4].tolist()}")
    if not all_close(g_v, dv):
        rec.prob(f"oracle-{algo}-dloss-dvalue", f"dL/dvalue {g_v[:4]} vs closed form {dv[:4].tolist()}")
    if has_ent and not all_close(g_ent, dent):
        rec.prob(f"oracle-{algo}-dloss-dentropy", f"dL/dentropy {g_ent[:4]} vs closed form {dent[:4]}")
    # model (Q twin)
    advs_q = f"(adv_norm_Q {fql(adv)} {fq(std)})" if norm else fql(adv)
    if norm:
        rec.expr(f"{algo}-adv-std", f"qclose (1 # 1000) (1 # 1000000000) (adv_var_Q {fql(adv)}) ({fq(std)} * {fq(std)})")
    if algo == "ppo":
        call = f"ppo_batch_Q {fq(c)} {fopt(cv)} {fq(ec)} {fq(vc)} {coq_bool(has_ent)} {advs_q} {fql(np.exp(lp - oldlp))} {fql(ret)} {fql(oldv)} {fql(v)} {fql(ent_terms)}"
    else:
        call = f"a2c_batch_Q {fq(ec)} {fq(vc)} {coq_bool(has_ent)} {advs_q} {fql(lp)} {fql(ret)} {fql(v)} {fql(ent_terms)}"
    ent_cmp = f"ck (snd (snd (snd R))) {fq(g_ent[0])}" if has_ent else "true"
    rec.expr(f"{algo}-loss-and-output-gradients",
             f"let R := {call} in (ck (fst R) {fq(t_loss)}, ckl (fst (snd R)) {fql(g_lp)}, ckl (fst (snd (snd R))) {fql(g_v)}, {ent_cmp})")
    outs = [log_prob, values] + ([entropy] if has_ent else [])
    douts = [dlp, dv] + ([dent] if has_ent else [])
    check_param_grads(rec, label, opt, outs, douts, clipped=True)
    check_objective_gradient_independently(rec, opt, b, want_act, A, cfg, algo, c if algo == "ppo" else None)
    rec.count(f"{algo}_steps")


def check_objective_gradient_independently(rec, opt, b, actions, A, cfg, algo, clip):
    """the gradient handed to the optimizer vs the gradient of the PUBLISHED objective built from the policy's public
    value function and action distribution (predict_values / get_distribution on the same parameters), not from the
    tensors evaluate_actions returned"""
    import torch as th

    pol = rec.model.policy
    params = [p for g in opt.param_groups for p in g["params"]]
    v = pol.predict_values(b.observations).flatten()
    dist = pol.get_distribution(b.observations)
    lp = dist.log_prob(actions)
    ent = dist.entropy()
    adv = th.as_tensor(A, dtype=lp.dtype)
    ret, oldv, oldlp = b.returns.detach(), b.old_values.detach(), b.old_log_prob.detach()
    if algo == "ppo":
        ratio = th.exp(lp - oldlp)
        pol_loss = -th.min(adv * ratio, adv * th.clamp(ratio, 1 - clip, 1 + clip)).mean()
        cv = cfg["clip_range_vf"]
        vp = v if cv is None else oldv + th.clamp(v - oldv, -cv, cv)
    else:
        pol_loss = -(adv * lp).mean()
        vp = v
    val_loss = ((ret - vp) ** 2).mean()
    ent_loss = lp.mean() if ent is None else -ent.mean()
    objective = pol_loss + cfg["ent_coef"] * ent_loss + cfg["vf_coef"] * val_loss
    ref = th.autograd.grad(objective, params, allow_unused=True)
    ref = [th.zeros_like(p) if g is None else g for p, g in zip(params, ref)]
    cl = rec.cur["clip"]
    if cl is None:
        return
    pre = {id(p): (th.zeros_like(p) if g is None else g) for p, g in zip(cl["params"], cl["pre"])}
    scale = max(1e-12, max(float(g.abs().max()) for g in ref))
    names = {id(p): n for n, p in pol.named_parameters()}
    for p, g in zip(params, ref):
        got = pre.get(id(p), th.zeros_like(p))
        d = (got.double() - g.double()).abs()
        lim = RTOL * th.maximum(got.double().abs(), g.double().abs()) + ATOL + 1e-4 * scale
        if float((d - lim).max()) > 0:
            rec.prob(f"oracle-{algo}-parameter-gradient-not-gradient-of-objective",
                     f"parameter {names.get(id(p), '?')}: gradient handed to the optimizer (max |g| {float(got.abs().max()):.4g}) differs from the gradient of policy + ent_coef*entropy + vf_coef*value loss "
                     f"built from policy.predict_values / policy.get_distribution (max |g| {float(g.abs().max()):.4g}, max abs diff {float(d.max()):.4g})")
            break
    rec.count("independent_objective_gradients_checked")


def check_rollout_cells(rec, b):
    """C07 x C05: the minibatch's advantages / returns / old values are those of the rollout cells (t, e) = (i mod T, i div T)
    of the permutation slice, and return = advantage + value there"""
    import numpy as np

    ro, idx, algo = getattr(rec, "rollout", None), rec.cur.get("indices"), rec.algo
    if ro is None or idx is None or len(idx) != len(b.advantages):
        rec.prob(f"oracle-{algo}-minibatch-not-a-permutation-slice", "could not decode the minibatch as a slice of the recorded permutation of the rollout")
        return
    T, n_envs = ro["T"], ro["n"]
    cells = [(i % T, i // T) for i in idx]
    a32, r32, v32 = np.array(b.advantages.detach().cpu().numpy()).reshape(-1), np.array(b.returns.detach().cpu().numpy()).reshape(-1), np.array(b.old_values.detach().cpu().numpy()).reshape(-1)
    for j, (t, e) in enumerate(cells):
        if not (a32[j] == ro["advantages"][t, e] and r32[j] == ro["returns"][t, e] and v32[j] == ro["values"][t, e]):
            rec.prob(f"oracle-{algo}-minibatch-cell-wiring", f"sample {j} (flat index {idx[j]} = step {t}, env {e}): advantage/return/old value {a32[j]}, {r32[j]}, {v32[j]} "
                                                         f"!= rollout buffer cell {ro['advantages'][t, e]}, {ro['returns'][t, e]}, {ro['values'][t, e]}")
            break
        if r32[j] != np.float32(ro["advantages"][t, e] + ro["values"][t, e]):
            rec.prob(f"oracle-{algo}-return-is-not-advantage-plus-value", f"cell (step {t}, env {e}): return {r32[j]} != advantage + value = {ro['advantages'][t, e] + ro['values'][t, e]}")
            break
    cols = "[" + "; ".join(f"Gae.mk_col {fql(ro['rewards'][:, e])} {fql(ro['values'][:, e])} {fql(ro['starts'][:, e])} {fq(ro['last_values'][e])} {fq(ro['dones'][e])}" for e in range(n_envs)) + "]"
    cl = "[" + "; ".join(f"({t}, {e})" for t, e in cells) + "]%nat"
    m = rec.model
    rec.expr(f"{algo}-minibatch-columns-are-gae-cells",
             f"let R := mb_columns_exec {fq(m.gamma)} {fq(m.gae_lambda)} {cols} {cl} in (ckt (fst R) {fql(a32)}, ckt (fst (snd R)) {fql(r32)}, ckt (snd (snd R)) {fql(v32)})")
    rec.count("rollout_cells_checked")


# ---------------------------------------------------------------- DQN
def analyse_dqn(rec, label, opt):
    import numpy as np
    import torch as th

    m, cfg = rec.model, rec.cfg
    b = rec.cur["batch"]
    qn, qt = rec.calls("q_net"), rec.calls("q_net_target")
    if len(qn) != 1 or len(qt) != 1 or len(rec.cur["backward"]) != 1:
        rec.prob("oracle-dqn-step-structure", f"{len(qn)} q_net / {len(qt)} q_net_target calls, {len(rec.cur['backward'])} backward calls")
        return
    if not (th.equal(qn[0][1][0], b.observations) and th.equal(qt[0][1][0], b.next_observations)):
        rec.prob("oracle-dqn-batch-wiring", "q_net must see observations and q_net_target next_observations of the sampled batch")
    q_out, nq = qn[0][2], qt[0][2]
    n = q_out.shape[0]
    acts = b.actions.long().reshape(-1).tolist()
    rs, ds = np.array(f64(b.rewards)), np.array(f64(b.dones))
    nrows = nq.detach().double().tolist()
    y = rs + (1 - ds) * cfg["gamma"] * np.array([max(r) for r in nrows])
    qs = np.array([float(q_out.detach()[i, a]) for i, a in enumerate(acts)])
    x = qs - y
    loss = float(np.where(np.abs(x) < 1, 0.5 * x * x, np.abs(x) - 0.5).mean())
    dq = np.clip(x, -1, 1) / n
    t_loss = float(rec.cur["backward"][0].detach())
    g = q_out.grad.detach().double() if q_out.grad is not None else th.zeros_like(q_out).double()
    g_sel = [float(g[i, a]) for i, a in enumerate(acts)]
    mask = th.ones_like(g, dtype=th.bool)
    for i, a in enumerate(acts):
        mask[i, a] = False
    if not close(loss, t_loss, abs(loss)):
        rec.prob("oracle-dqn-loss-value", f"loss {t_loss!r}, Huber(Q(s,a) - (r + gamma (1-done) max Q_target)) = {loss!r}")
    if not all_close(g_sel, dq) or float(g[mask].abs().max() if mask.any() else 0.0) > ATOL:
        rec.prob("oracle-dqn-dloss-dq", f"dL/dQ(s,a) {g_sel[:4]} vs clamp(td error,-1,1)/n {dq[:4].tolist()} (or non-zero gradient on an action not taken)")
    rec.count("dqn_done_in_batch" if ds.any() else "dqn_no_done_in_batch")
    rec.count("dqn_huber_linear_branch" if (np.abs(x) >= 1).any() else "dqn_huber_quadratic_only")
    rec.expr("dqn-targets-loss-and-output-gradients",
             f"let R := dqn_batch_Q {fq(cfg['gamma'])} {fql(rs)} {fql(ds)} {fqll(nrows)} {fql(qs)} in "
             f"(ckl (fst R) {fql(y)}, ck (fst (snd R)) {fq(t_loss)}, ckl (snd (snd R)) {fql(g_sel)})")
    full = np.zeros((n, q_out.shape[1]))
    for i, a in enumerate(acts):
        full[i, a] = dq[i]
    check_param_grads(rec, label, opt, [q_out], [full], clipped=True)
    rec.count("dqn_steps")


# ---------------------------------------------------------------- SAC
def analyse_sac(rec, label, opt):
    import numpy as np
    import torch as th

    m, cfg = rec.model, rec.cfg
    b = rec.cur["batch"]
    n = b.rewards.shape[0]
    alps = rec.calls("alp")
    if not alps or not th.equal(alps[0][1][0], b.observations):
        rec.prob("oracle-sac-batch-wiring", "actor.action_log_prob must first be called on the sampled observations")
        return
    actions_pi, log_prob = alps[0][2]
    lp = np.array(f64(log_prob))
    if label == "ent_coef":
        la = float(m.log_ent_coef.detach())
        rec.cur["alpha"] = math.exp(la)
        H = float(m.target_entropy)
        if abs(H - cfg["target_entropy"]) > 1e-9:
            rec.prob("oracle-sac-target-entropy", f"target entropy {H} != configured {cfg['target_entropy']}")
        loss = -(la * (lp + H)).mean()
        dla = -(lp + H).mean()
        t_loss = float(rec.cur["backward"][0].detach())
        g = float(m.log_ent_coef.grad)
        if not close(loss, t_loss, abs(loss)) or not close(dla, g):
            rec.prob("oracle-sac-temperature-loss", f"ent_coef loss {t_loss!r} / gradient {g!r}; published -(log alpha (log pi + H)).mean() = {loss!r} / {dla!r}")
        rec.expr("sac-temperature", f"let R := sac_temp_Q {fq(la)} {fq(H)} {fql(lp)} in (ck (fst R) {fq(t_loss)}, ck (snd R) {fq(g)})")
        # lr of the temperature optimizer
        progress = max(0.0, 1.0 - m.num_timesteps / rec.total)
        want = lr_value(cfg, progress)
        if abs(opt.param_groups[0]["lr"] - want) > 1e-9 + 1e-6 * abs(want):
            rec.prob("oracle-sac-ent_coef-learning-rate", f"lr {opt.param_groups[0]['lr']} vs schedule {want}")
        rec.count("sac_temperature_steps")
        return
    alpha = rec.cur.get("alpha")
    if alpha is None:
        alpha = float(m.ent_coef_tensor) if m.ent_coef_optimizer is None else math.exp(float(m.log_ent_coef.detach()))
        if m.ent_coef_optimizer is None and abs(alpha - float(cfg["ent_coef"])) > 1e-6:
            rec.prob("oracle-sac-fixed-ent-coef", f"entropy coefficient {alpha} != configured {cfg['ent_coef']}")
    if label == "critic":
        cts, crs = rec.calls("critic_target"), rec.calls("critic")
        if len(alps) < 2 or len(cts) != 1 or len(crs) != 1:
            rec.prob("oracle-sac-step-structure", f"critic step saw {len(alps)} action_log_prob, {len(cts)} critic_target, {len(crs)} critic calls")
            return
        next_actions, next_lp = alps[1][2]
        ok = (th.equal(alps[1][1][0], b.next_observations) and th.equal(cts[0][1][0], b.next_observations) and th.equal(cts[0][1][1], next_actions)
              and th.equal(crs[0][1][0], b.observations) and th.equal(crs[0][1][1], b.actions))
        if not ok:
            rec.prob("oracle-sac-batch-wiring", "critic / critic_target / actor inputs are not the batch's (s, a) and (s', a'~pi(s'))")
        nq_cols = [f64(t) for t in cts[0][2]]
        nrows = [list(r) for r in zip(*nq_cols)]
        rs, ds, nlp = np.array(f64(b.rewards)), np.array(f64(b.dones)), np.array(f64(next_lp))
        y = rs + (1 - ds) * cfg["gamma"] * (np.array([min(r) for r in nrows]) - alpha * nlp)
        qcols = [np.array(f64(t)) for t in crs[0][2]]
        if len(qcols) != cfg["n_critics"]:
            rec.prob("oracle-sac-n-critics", f"{len(qcols)} critics, configured {cfg['n_critics']}")
        loss = 0.5 * sum(((q - y) ** 2).mean() for q in qcols)
        dq = [(q - y) / n for q in qcols]
        t_loss = float(rec.cur["backward"][-1].detach())
        gs = grads_of(rec, "sac", list(crs[0][2]))
        if not close(loss, t_loss, abs(loss)):
            rec.prob("oracle-sac-critic-loss-value", f"critic loss {t_loss!r}; published 0.5*sum_j mse(Q_j, r + gamma(1-d)(min Q_target - alpha log pi)) = {loss!r}")
        if not all(all_close(g, d) for g, d in zip(gs, dq)):
            rec.prob("oracle-sac-dcritic-loss-dq", f"dL/dQ_j {gs[0][:3]} vs (Q_j - target)/n {dq[0][:3].tolist()}")
        rec.count("sac_done_in_batch" if ds.any() else "sac_no_done_in_batch")
        rec.expr("sac-critic-targets-loss-and-output-gradients",
                 f"let ys := sac_targets_Q {fq(cfg['gamma'])} {fq(alpha)} {fql(rs)} {fql(ds)} {fqll(nrows)} {fql(nlp)} in let R := sac_critic_Q ys {fqll(qcols)} in "
                 f"(ckl ys {fql(y)}, ck (fst R) {fq(t_loss)}, ckll (snd R) {fqll(gs)})")
        check_param_grads(rec, label, opt, list(crs[0][2]), dq, clipped=False)
        rec.count("sac_critic_steps")
    else:
        crs = rec.calls("critic")
        if len(crs) != 2 or not (th.equal(crs[1][1][0], b.observations) and crs[1][1][1] is actions_pi):
            rec.prob("oracle-sac-batch-wiring", "the actor loss must evaluate the critics on (s, a_pi(s)) of the same batch")
            return
        qpi = list(crs[1][2])
        qrows = [list(r) for r in zip(*[f64(t) for t in qpi])]
        mins = np.array([min(r) for r in qrows])
        loss = (alpha * lp - mins).mean()
        dlp = [alpha / n] * n
        dq = [[(-1.0 / n if j == int(np.argmin(r)) else 0.0) for r in qrows] for j in range(len(qpi))]
        t_loss = float(rec.cur["backward"][-1].detach())
        g_lp = grads_of(rec, "sac", [log_prob])[0]
        g_q = grads_of(rec, "sac", qpi)
        if not close(loss, t_loss, abs(loss)):
            rec.prob("oracle-sac-actor-loss-value", f"actor loss {t_loss!r}; published (alpha log pi - min_j Q_j).mean() = {loss!r}")
        if not all_close(g_lp, dlp) or not all(all_close(a, d) for a, d in zip(g_q, dq)):
            rec.prob("oracle-sac-dactor-loss-doutputs", f"dL/dlog_pi {g_lp[:3]} vs alpha/n {dlp[:3]}; dL/dQ_j {[g[:3] for g in g_q]} vs -1/n at the minimum {[d[:3] for d in dq]}")
        g_rows = [list(r) for r in zip(*g_q)]
        rec.expr("sac-actor-loss-and-output-gradients",
                 f"let R := sac_actor_Q {fq(alpha)} {fql(lp)} {fqll(qrows)} in (ck (fst R) {fq(t_loss)}, ckl (fst (snd R)) {fql(g_lp)}, ckll (snd (snd R)) {fqll(g_rows)})")
        check_param_grads(rec, label, opt, [log_prob] + qpi, [dlp] + dq, clipped=False)
        rec.count("sac_actor_steps")


# ---------------------------------------------------------------- TD3 / DDPG
def analyse_td3(rec, label, opt):
    import numpy as np
    import torch as th

    m, cfg = rec.model, rec.cfg
    b = rec.cur["batch"]
    n = b.rewards.shape[0]
    if label == "critic":
        ats, cts, crs, nrm = rec.calls("actor_target"), rec.calls("critic_target"), rec.calls("critic"), rec.cur["normal"]
        if len(ats) != 1 or len(cts) != 1 or len(crs) != 1 or len(nrm) != 1:
            rec.prob("oracle-td3-step-structure", f"critic step saw {len(ats)} actor_target, {len(cts)} critic_target, {len(crs)} critic calls, {len(nrm)} noise draws")
            return
        ok = (th.equal(ats[0][1][0], b.next_observations) and th.equal(cts[0][1][0], b.next_observations)
              and th.equal(crs[0][1][0], b.observations) and th.equal(crs[0][1][1], b.actions))
        if not ok:
            rec.prob("oracle-td3-batch-wiring", "critic / critic_target / actor_target inputs are not the batch's (s, a) and s'")
        mean, std, noise = nrm[0]
        if mean != 0.0 or abs(std - cfg["target_policy_noise"]) > 1e-12 or noise.shape != b.actions.shape:
            rec.prob("oracle-td3-target-noise-law", f"target noise drawn with mean {mean}, std {std}, shape {tuple(noise.shape)}; configured N(0, {cfg['target_policy_noise']})")
        a_t, nz, na = np.array(f64(ats[0][2])), np.array(f64(noise)), np.array(f64(cts[0][1][1]))
        c = cfg["target_noise_clip"]
        want_na = np.clip(a_t + np.clip(nz, -c, c), -1, 1)
        if not all_close(na, want_na):
            rec.prob("oracle-td3-target-policy-smoothing", f"next actions {na[:4].tolist()} vs clamp(actor_target + clamp(noise, -{c}, {c}), -1, 1) {want_na[:4].tolist()}")
        rec.count("td3_noise_clipped" if (np.abs(nz) > c).any() else "td3_noise_unclipped")
        rec.count("td3_action_clamped" if (np.abs(a_t + np.clip(nz, -c, c)) > 1).any() else "td3_action_unclamped")
        nq_cols = [f64(t) for t in cts[0][2]]
        nrows = [list(r) for r in zip(*nq_cols)]
        rs, ds = np.array(f64(b.rewards)), np.array(f64(b.dones))
        y = rs + (1 - ds) * cfg["gamma"] * np.array([min(r) for r in nrows])
        qcols = [np.array(f64(t)) for t in crs[0][2]]
        if len(qcols) != cfg["n_critics"]:
            rec.prob("oracle-td3-n-critics", f"{len(qcols)} critics, configured {cfg['n_critics']}")
        loss = sum(((q - y) ** 2).mean() for q in qcols)
        dq = [2 * (q - y) / n for q in qcols]
        t_loss = float(rec.cur["backward"][-1].detach())
        gs = grads_of(rec, "td3", list(crs[0][2]))
        if not close(loss, t_loss, abs(loss)):
            rec.prob("oracle-td3-critic-loss-value", f"critic loss {t_loss!r}; published sum_j mse(Q_j, r + gamma(1-d) min_j Q_target_j(s', a')) = {loss!r}")
        if not all(all_close(g, d) for g, d in zip(gs, dq)):
            rec.prob("oracle-td3-dcritic-loss-dq", f"dL/dQ_j {gs[0][:3]} vs 2(Q_j - target)/n {dq[0][:3].tolist()}")
        rec.count("td3_done_in_batch" if ds.any() else "td3_no_done_in_batch")
        k = min(len(na), 8)
        rec.expr("td3-critic-smoothing-targets-loss-and-output-gradients",
                 f"let ys := td3_targets_Q {fq(cfg['gamma'])} {fql(rs)} {fql(ds)} {fqll(nrows)} in let R := td3_critic_Q ys {fqll(qcols)} in "
                 f"(ckl (qmap2 (td3_next_action_Q {fq(c)}) {fql(a_t[:k])} {fql(nz[:k])}) {fql(na[:k])}, ckl ys {fql(y)}, ck (fst R) {fq(t_loss)}, ckll (snd R) {fqll(gs)})")
        check_param_grads(rec, label, opt, list(crs[0][2]), dq, clipped=False)
        rec.td3_trace.append([int(m._n_updates), False])
        rec.count("td3_critic_steps")
    else:
        acs, q1s = rec.calls("actor"), rec.calls("q1")
        if len(acs) != 1 or len(q1s) != 1 or not (th.equal(acs[0][1][0], b.observations) and th.equal(q1s[0][1][0], b.observations) and q1s[0][1][1] is acs[0][2]):
            rec.prob("oracle-td3-batch-wiring", "the actor loss must be -Q_1(s, actor(s)) on the same batch")
            return
        q1 = q1s[0][2]
        loss = -float(np.mean(f64(q1)))
        dq1 = [-1.0 / n] * n
        t_loss = float(rec.cur["backward"][-1].detach())
        g = grads_of(rec, "td3", [q1])[0]
        if not close(loss, t_loss, abs(loss)) or not all_close(g, dq1):
            rec.prob("oracle-td3-actor-loss", f"actor loss {t_loss!r} / dL/dQ_1 {g[:3]}; published -Q_1(s, pi(s)).mean() = {loss!r} / {dq1[:3]}")
        rec.expr("td3-actor-loss-and-output-gradients", f"let R := td3_actor_Q {fql(f64(q1))} in (ck (fst R) {fq(t_loss)}, ckl (snd R) {fql(g)})")
        check_param_grads(rec, label, opt, [q1], [dq1], clipped=False)
        if rec.td3_trace and rec.td3_trace[-1][0] == int(m._n_updates):
            rec.td3_trace[-1][1] = True
        else:
            rec.prob("oracle-td3-actor-step-without-critic-step", f"actor optimizer stepped at n_updates={int(m._n_updates)} without a preceding critic step")
        rec.count("td3_actor_steps")


ANALYSE = {"ppo": analyse_onpolicy, "a2c": analyse_onpolicy, "dqn": analyse_dqn, "sac": analyse_sac, "td3": analyse_td3, "ddpg": analyse_td3}


# ---------------------------------------------------------------- configurations
def gen_configs(rng, tier):
    def lr():
        return rng.choice([1e-3, 3e-3, 7e-4])

    base = [
        dict(algo="ppo", continuous=False, n_steps=8, n_envs=2, batch_size=8, n_epochs=2, clip_range=0.2, clip_range_vf=None, normalize_advantage=True, ent_coef=0.01, vf_coef=0.5,
             max_grad_norm=0.5, gamma=0.99, total=32, share=True),
        dict(algo="ppo", continuous=True, n_steps=12, batch_size=6, n_epochs=3, clip_range=0.05, clip_range_vf=0.05, normalize_advantage=False, ent_coef=0.0, vf_coef=1.0,
             max_grad_norm=0.05, gamma=0.9, total=24, share=False, linear_lr=True, lr0=5e-2),
        dict(algo="ppo", continuous=True, n_steps=10, batch_size=10, n_epochs=2, clip_range=0.1, clip_range_vf=0.2, normalize_advantage=True, ent_coef=0.05, vf_coef=0.3,
             max_grad_norm=10.0, gamma=0.95, total=20, share=True, use_sde=True, squash=True, linear_clip=True, lr0=3e-2),
        dict(algo="a2c", continuous=False, n_steps=5, n_envs=3, normalize_advantage=True, ent_coef=0.02, vf_coef=0.4, max_grad_norm=0.5, gamma=0.99, total=60),
        dict(algo="a2c", continuous=True, n_steps=5, normalize_advantage=False, ent_coef=0.0, vf_coef=0.7, max_grad_norm=0.02, gamma=0.9, total=25, linear_lr=True, use_sde=True, squash=True),
        dict(algo="dqn", continuous=False, batch_size=8, gamma=0.9, max_grad_norm=10.0, total=40, learning_starts=12, train_freq=4, gradient_steps=2),
        dict(algo="dqn", continuous=False, batch_size=6, gamma=0.99, max_grad_norm=0.05, total=36, learning_starts=10, train_freq=2, gradient_steps=1, linear_lr=True, reward_scale=4.0),
        dict(algo="sac", continuous=True, batch_size=8, gamma=0.95, ent_coef="auto", n_critics=2, total=26, learning_starts=12, train_freq=2, gradient_steps=1),
        dict(algo="sac", continuous=True, batch_size=6, gamma=0.9, ent_coef=0.2, n_critics=3, total=24, learning_starts=10, train_freq=4, gradient_steps=2, linear_lr=True),
        dict(algo="sac", continuous=True, batch_size=6, gamma=0.99, ent_coef="auto_0.5", n_critics=2, total=22, learning_starts=10, train_freq=3, gradient_steps=3, target_entropy_arg=-1.5, use_sde=True),
        dict(algo="td3", continuous=True, batch_size=8, gamma=0.95, n_critics=2, policy_delay=2, target_policy_noise=0.3, target_noise_clip=0.25, total=26, learning_starts=10, train_freq=2, gradient_steps=2),
        dict(algo="td3", continuous=True, batch_size=6, gamma=0.9, n_critics=2, policy_delay=3, target_policy_noise=1.0, target_noise_clip=1.5, total=26, learning_starts=10, train_freq=1, gradient_steps=1, linear_lr=True),
        dict(algo="ddpg", continuous=True, batch_size=8, gamma=0.98, n_critics=1, policy_delay=1, target_policy_noise=0.1, target_noise_clip=0.0, total=22, learning_starts=10, train_freq=2, gradient_steps=2),
        # extractor sharing, size-1 minibatch with normalize_advantage (guarded), n_critics 1/3, "auto_0.1", gSDE without squashing
        dict(algo="ppo", continuous=False, n_steps=9, batch_size=4, n_epochs=1, clip_range=0.2, clip_range_vf=0.3, normalize_advantage=True, ent_coef=0.01, vf_coef=0.5,
             max_grad_norm=0.5, gamma=0.99, total=18, share=False),
        dict(algo="a2c", continuous=True, n_steps=4, normalize_advantage=True, ent_coef=0.01, vf_coef=0.5, max_grad_norm=0.5, gamma=0.95, total=16, use_sde=True),
        dict(algo="sac", continuous=True, batch_size=5, gamma=0.97, ent_coef="auto_0.1", n_critics=1, total=20, learning_starts=10, train_freq=2, gradient_steps=1, share=True),
        dict(algo="td3", continuous=True, batch_size=5, gamma=0.93, n_critics=3, policy_delay=2, target_policy_noise=0.2, target_noise_clip=0.5, total=20, learning_starts=10, train_freq=2,
             gradient_steps=2, share=True),
        # round 4 audit: target_kl early stopping, batch larger than the rollout, DQN with n_envs > target_update_interval (warning branch),
        # DDPG with its default critic count, ent_coef given as a numeric string, gradient_steps=-1
        dict(algo="ppo", continuous=True, n_steps=8, batch_size=64, n_epochs=4, clip_range=0.2, clip_range_vf=None, normalize_advantage=True, ent_coef=0.0, vf_coef=0.5,
             max_grad_norm=0.5, gamma=0.99, total=16, share=True, target_kl=1e-4, lr0=5e-2),
        dict(algo="dqn", continuous=False, n_envs=3, batch_size=5, gamma=0.95, max_grad_norm=10.0, total=45, learning_starts=12, train_freq=1, gradient_steps=1, target_update_interval=2),
        dict(algo="ddpg", continuous=True, batch_size=4, gamma=0.9, n_critics=1, default_critics=True, policy_delay=1, target_policy_noise=0.1, target_noise_clip=0.0, total=18, learning_starts=8,
             train_freq=2, gradient_steps=1),
        dict(algo="sac", continuous=True, batch_size=4, gamma=0.9, ent_coef="0.3", n_critics=2, total=18, learning_starts=8, train_freq=3, gradient_steps=-1),
        # minibatches of exactly 2 samples (8 = 3 + 3 + 2) with advantage normalisation: still normalised (only size 1 is skipped)
        dict(algo="ppo", continuous=False, n_steps=8, batch_size=3, n_epochs=1, clip_range=0.2, clip_range_vf=None, normalize_advantage=True, ent_coef=0.01, vf_coef=0.5,
             max_grad_norm=0.5, gamma=0.97, total=16, share=True),
        # separate PARAMETRIC feature extractors for actor and critic (custom Linear extractor; NatureCNN inside MultiInputPolicy)
        dict(algo="ppo", continuous=True, n_steps=8, batch_size=4, n_epochs=2, clip_range=0.2, clip_range_vf=None, normalize_advantage=True, ent_coef=0.01, vf_coef=0.5,
             max_grad_norm=0.5, gamma=0.95, total=16, share=False, custom_extractor=True),
        dict(algo="a2c", continuous=False, n_steps=5, normalize_advantage=False, ent_coef=0.01, vf_coef=0.5, max_grad_norm=0.5, gamma=0.95, total=15, share=False, custom_extractor=True),
        dict(algo="ppo", continuous=False, n_steps=6, batch_size=6, n_epochs=1, clip_range=0.2, clip_range_vf=0.5, normalize_advantage=True, ent_coef=0.0, vf_coef=0.7,
             max_grad_norm=1.0, gamma=0.9, total=12, share=False, image_dict=True),
        # several learn() calls on one model (continued and restarted), non-constant schedules incl. a non-monotone one
        dict(algo="ppo", continuous=False, n_steps=4, batch_size=4, n_epochs=1, clip_range=0.2, clip_range_vf=None, normalize_advantage=True, ent_coef=0.0, vf_coef=0.5, max_grad_norm=0.5,
             gamma=0.99, total=8, share=True, schedule="vee", learn_calls=[[8, True], [8, False]], max_opt_steps=8),
        dict(algo="a2c", continuous=True, n_steps=4, normalize_advantage=False, ent_coef=0.0, vf_coef=0.5, max_grad_norm=0.5, gamma=0.99, total=8, schedule="linear",
             learn_calls=[[8, True], [12, False], [8, True]], max_opt_steps=8),
        dict(algo="dqn", continuous=False, batch_size=4, gamma=0.9, max_grad_norm=10.0, total=14, learning_starts=6, train_freq=2, gradient_steps=1, schedule="linear",
             learn_calls=[[14, True], [10, False]], max_opt_steps=12),
        dict(algo="sac", continuous=True, batch_size=4, gamma=0.9, ent_coef="auto", n_critics=2, total=12, learning_starts=6, train_freq=2, gradient_steps=1, schedule="vee",
             learn_calls=[[12, True], [8, False]], max_opt_steps=24),
        dict(algo="td3", continuous=True, batch_size=4, gamma=0.9, n_critics=2, policy_delay=2, target_policy_noise=0.2, target_noise_clip=0.5, total=12, learning_starts=6, train_freq=2,
             gradient_steps=1, schedule="linear", learn_calls=[[12, True], [8, False], [8, True]], max_opt_steps=20),
        dict(algo="ddpg", continuous=True, batch_size=4, gamma=0.9, n_critics=1, policy_delay=1, target_policy_noise=0.1, target_noise_clip=0.0, total=12, learning_starts=6, train_freq=2,
             gradient_steps=1, schedule="vee", learn_calls=[[12, True], [8, False]], max_opt_steps=16),
    ]
    out = []
    reps = 1 if tier == "quick" else 10
    for rep in range(reps):
        for c in base:
            c = dict(c)
            c.setdefault("lr0", lr())
            c.setdefault("linear_lr", False)
            c["seed"] = rng.randint(0, 10**6)
            c["max_opt_steps"] = max(c.get("max_opt_steps", 0), 9 if tier == "quick" else 30)
            if rep > 0:
                c["gamma"] = rng.choice([0.9, 0.95, 0.99, 0.8])
                if "batch_size" in c:
                    c["batch_size"] = rng.choice([4, 6, 8, 12])
            out.append(c)
    return out


def tiny_extractor_class():
    import torch as th
    from stable_baselines3.common.torch_layers import BaseFeaturesExtractor

    class TinyExtractor(BaseFeaturesExtractor):
        """a features extractor WITH parameters (Linear + Tanh), so that separate actor / critic extractors differ"""

        def __init__(self, observation_space, features_dim: int = 6):
            super().__init__(observation_space, features_dim)
            self.net = th.nn.Sequential(th.nn.Linear(int(observation_space.shape[0]), features_dim), th.nn.Tanh())

        def forward(self, observations):
            return self.net(observations)

    return TinyExtractor


def lr_value(cfg, progress):
    """the configured schedule evaluated at progress_remaining"""
    kind = cfg.get("schedule", "linear" if cfg.get("linear_lr") else "const")
    lr0 = cfg["lr0"]
    if kind == "linear":
        return lr0 * progress
    if kind == "vee":          # a non-monotone user schedule
        return lr0 * (0.25 + abs(2 * progress - 1))
    return lr0


def lr_coq(cfg):
    kind = cfg.get("schedule", "linear" if cfg.get("linear_lr") else "const")
    q = fq(cfg["lr0"])
    return {"linear": f"(fun p => {q} * p)", "vee": f"(fun p => {q} * ((1 # 4) + Qabs (2 * p - 1)))", "const": f"(fun p => {q})"}[kind]


def build_model(cfg):
    import torch as th

    th.set_num_threads(1)
    import stable_baselines3 as sb3

    algo = cfg["algo"]
    env = make_env(cfg["continuous"], cfg["seed"], cfg.get("reward_scale", 1.0), cfg.get("image_dict", False))
    if cfg.get("n_envs", 1) > 1:
        from stable_baselines3.common.vec_env import DummyVecEnv

        env = DummyVecEnv([(lambda k=k: make_env(cfg["continuous"], cfg["seed"] + k, cfg.get("reward_scale", 1.0))) for k in range(cfg["n_envs"])])
    lr0 = cfg["lr0"]
    kind = cfg.get("schedule", "linear" if cfg.get("linear_lr") else "const")
    lr = lr0 if kind == "const" else (lambda p: lr_value(cfg, p))
    pk = {"net_arch": [8]}
    common_kw = dict(learning_rate=lr, seed=cfg["seed"], device="cpu", verbose=0, gamma=cfg["gamma"])
    if algo == "ppo":
        c0 = cfg["clip_range"]
        pk = dict(net_arch=dict(pi=[8], vf=[8]), share_features_extractor=cfg.get("share", True))
        if cfg.get("squash"):
            pk["squash_output"] = True
        if cfg.get("custom_extractor"):
            pk["features_extractor_class"] = tiny_extractor_class()
        m = sb3.PPO("MultiInputPolicy" if cfg.get("image_dict") else "MlpPolicy", env, n_steps=cfg["n_steps"], batch_size=cfg["batch_size"], n_epochs=cfg["n_epochs"],
                    clip_range=(lambda p: c0 * (0.5 + 0.5 * p)) if cfg.get("linear_clip") else c0, clip_range_vf=cfg["clip_range_vf"], normalize_advantage=cfg["normalize_advantage"],
                    ent_coef=cfg["ent_coef"], vf_coef=cfg["vf_coef"], max_grad_norm=cfg["max_grad_norm"], use_sde=cfg.get("use_sde", False), target_kl=cfg.get("target_kl"),
                    policy_kwargs=pk, **common_kw)
    elif algo == "a2c":
        pk = dict(net_arch=dict(pi=[8], vf=[8]), share_features_extractor=cfg.get("share", True))
        if cfg.get("squash"):
            pk["squash_output"] = True
        if cfg.get("custom_extractor"):
            pk["features_extractor_class"] = tiny_extractor_class()
        m = sb3.A2C("MultiInputPolicy" if cfg.get("image_dict") else "MlpPolicy", env, n_steps=cfg["n_steps"], normalize_advantage=cfg["normalize_advantage"], ent_coef=cfg["ent_coef"], vf_coef=cfg["vf_coef"],
                    max_grad_norm=cfg["max_grad_norm"], use_sde=cfg.get("use_sde", False), policy_kwargs=pk, **common_kw)
    elif algo == "dqn":
        m = sb3.DQN("MlpPolicy", env, batch_size=cfg["batch_size"], max_grad_norm=cfg["max_grad_norm"], learning_starts=cfg["learning_starts"], train_freq=cfg["train_freq"],
                    gradient_steps=cfg["gradient_steps"], target_update_interval=cfg.get("target_update_interval", 5), buffer_size=200, policy_kwargs=pk, **common_kw)
    elif algo == "sac":
        pk = dict(net_arch=[8], n_critics=cfg["n_critics"], share_features_extractor=cfg.get("share", False))
        m = sb3.SAC("MlpPolicy", env, batch_size=cfg["batch_size"], ent_coef=cfg["ent_coef"], learning_starts=cfg["learning_starts"], train_freq=cfg["train_freq"],
                    gradient_steps=cfg["gradient_steps"], target_entropy=cfg.get("target_entropy_arg", "auto") if cfg.get("target_entropy_arg") is not None else "auto",
                    use_sde=cfg.get("use_sde", False), buffer_size=200, policy_kwargs=pk, **common_kw)
        cfg["target_entropy"] = cfg["target_entropy_arg"] if cfg.get("target_entropy_arg") is not None else -2.0  # -prod(action shape) for the 2-d action space
    else:
        pk = dict(net_arch=[8], n_critics=cfg["n_critics"], share_features_extractor=cfg.get("share", False))
        if cfg.get("default_critics"):
            pk = dict(net_arch=[8])  # DDPG must fall back to one critic on its own
        if algo == "td3":
            m = sb3.TD3("MlpPolicy", env, batch_size=cfg["batch_size"], policy_delay=cfg["policy_delay"], target_policy_noise=cfg["target_policy_noise"],
                        target_noise_clip=cfg["target_noise_clip"], learning_starts=cfg["learning_starts"], train_freq=cfg["train_freq"], gradient_steps=cfg["gradient_steps"],
                        buffer_size=200, policy_kwargs=pk, **common_kw)
        else:
            m = sb3.DDPG("MlpPolicy", env, batch_size=cfg["batch_size"], learning_starts=cfg["learning_starts"], train_freq=cfg["train_freq"], gradient_steps=cfg["gradient_steps"],
                         buffer_size=200, policy_kwargs=pk, **common_kw)
    return m


def run_config(cfg):
    m = build_model(cfg)
    rec = Recorder(cfg["algo"], m, cfg, cfg["total"])
    if cfg.get("target_kl") is not None:
        orig_train = m.train

        def train_counting():
            before = rec.n_opt_steps
            orig_train()
            full = m.n_epochs * max(1, -(-(m.n_steps * m.n_envs) // m.batch_size))
            rec.count("ppo_target_kl_early_stop" if rec.n_opt_steps - before < full else "ppo_target_kl_not_reached")

        m.train = train_counting
    if cfg["algo"] == "sac":
        check_sac_setup(rec, m, cfg)
    undo = install(rec)
    try:
        for total, reset in cfg.get("learn_calls", [[cfg["total"], True]]):
            # "as configured": progress_remaining counts against the timesteps at the start of this call (0 after a reset) plus its total
            rec.total = (0 if reset else int(m.num_timesteps)) + total
            m.learn(total_timesteps=total, reset_num_timesteps=bool(reset))
    except Exception as e:
        rec.prob(f"oracle-{cfg['algo']}-learn-exception", f"{type(e).__name__}: {e}")
    finally:
        undo()
    if cfg["algo"] in ("td3", "ddpg"):
        tr = rec.td3_trace[:-1] if rec.n_opt_steps >= rec.max_steps else rec.td3_trace
        rec.exprs.append(("td3-delayed-actor-cadence",
                          "forallb (fun p => Bool.eqb (td3_actor_step (fst p) " + coq_Z(cfg["policy_delay"]) + ") (snd p)) "
                          + "[" + "; ".join(f"({coq_Z(n)}, {coq_bool(a)})" for n, a in tr) + "]", -1))
        for n_up, stepped in tr:
            if stepped != (n_up % cfg["policy_delay"] == 0):
                rec.problems.append(("oracle-td3-delayed-actor-cadence", f"n_updates={n_up}: actor stepped={stepped}, policy_delay={cfg['policy_delay']}", -1))
                break
    if rec.n_opt_steps == 0:
        rec.prob(f"oracle-{cfg['algo']}-no-gradient-step", "the run performed no optimizer step")
    return rec


def check_sac_setup(rec, m, cfg):
    """target_entropy and the initial entropy coefficient as parsed by SAC._setup_model"""
    import numpy as np

    shape = [int(x) for x in m.action_space.shape]
    given = cfg.get("target_entropy_arg")
    H = float(m.target_entropy)
    want_H = float(given) if given is not None else -float(np.prod(shape))
    if abs(H - want_H) > 1e-9:
        rec.problems.append(("oracle-sac-target-entropy-setup", f"target_entropy {H}, expected {want_H} (-prod(action shape) when 'auto')", -1))
    ec = cfg["ent_coef"]
    if isinstance(ec, str) and not ec.startswith("auto"):
        ec = float(ec)  # "Force conversion to float": a numeric string is a fixed coefficient
    if isinstance(ec, str):
        init = float(ec.split("_")[1]) if "_" in ec else 1.0
        spec = f"(EntAuto {'(Some ' + fq(init) + ')' if '_' in ec else 'None'})"
        got = math.exp(float(m.log_ent_coef.detach())) if m.log_ent_coef is not None else float("nan")
        learned = m.ent_coef_optimizer is not None
    else:
        init, spec = float(ec), f"(EntFixed {fq(ec)})"
        got = float(m.ent_coef_tensor)
        learned = m.ent_coef_optimizer is not None
    if not (abs(got - init) <= 1e-6 * max(1, abs(init))) or learned != isinstance(ec, str):
        rec.problems.append(("oracle-sac-ent-coef-setup", f"ent_coef={ec!r}: initial coefficient {got}, optimizer present {learned}; expected {init}, learned {isinstance(ec, str)}", -1))
    if not (math.isfinite(got) and math.isfinite(H)):
        return
    rec.exprs.append(("sac-setup", f"(ck (sac_target_entropy_Q {fopt(given)} {coq_list(shape, coq_Z)}) {fq(H)}, ck (sac_init_alpha_Q {spec}) {fq(got)}, Bool.eqb (sac_learned {spec}) {coq_bool(learned)})", -1))


def flat_bools(v):
    if isinstance(v, bool):
        return [v]
    if isinstance(v, (tuple, list)):
        return [b for x in v for b in flat_bools(x)]
    return [False]


def run_all(chk, cfgs):
    recs = [run_config(c) for c in cfgs]
    exprs = [e for r in recs for (_, e, _) in r.exprs]
    vals = common.coq_eval_many("C07", HEADER, exprs, shard=12, procs=4) if exprs else []
    k = 0
    results = []
    for cfg, r in zip(cfgs, recs):
        model_bad = []
        for (label, e, step) in r.exprs:
            if not all(flat_bools(vals[k])):
                model_bad.append((label, step, vals[k], e))
            k += 1
        results.append((cfg, r, model_bad))
    return results


def main():
    chk = Check("C07", groups=["loss"])
    chk.build_props()
    from harness import covtrace

    _cov = covtrace.start({"stable_baselines3/ppo/ppo.py": ["PPO.train", "PPO._setup_model"], "stable_baselines3/a2c/a2c.py": ["A2C.train"], "stable_baselines3/dqn/dqn.py": ["DQN.train", "DQN._setup_model"], "stable_baselines3/sac/sac.py": ["SAC.train", "SAC._setup_model"], "stable_baselines3/td3/td3.py": ["TD3.train", "TD3._setup_model"], "stable_baselines3/ddpg/ddpg.py": ["DDPG.__init__"], "stable_baselines3/common/base_class.py": ["BaseAlgorithm._update_learning_rate", "BaseAlgorithm._update_current_progress_remaining"], "stable_baselines3/common/utils.py": ["update_learning_rate"]}) if covtrace.enabled() else None
    cfgs = []
    corpus = os.path.join(common.VERIF, "corpus", "C07.jsonl")
    if os.path.exists(corpus):
        cfgs += [json.loads(l) for l in open(corpus) if l.strip()]
    n_corpus = len(cfgs)
    cfgs += gen_configs(chk.rng, chk.tier)
    results = run_all(chk, cfgs)
    hist, steps, n_exprs = {}, 0, 0
    reported = 0
    for cfg, r, model_bad in results:
        steps += r.n_opt_steps
        n_exprs += len(r.exprs)
        for k2, v in r.hist.items():
            hist[k2] = hist.get(k2, 0) + v
        if (r.problems or model_bad) and reported < 3:
            reported += 1
            oracle = [p for p in r.problems]
            if oracle:
                sig = oracle[0][0]
                chk.violation(sig[len("oracle-"):] if sig.startswith("oracle-") else sig, "; ".join(f"[opt step {s}] {msg}" for _, msg, s in oracle[:3]),
                              {"config": cfg, "problems": oracle[:8], "model_disagreements": [(l, s, str(v)) for l, s, v, _ in model_bad[:5]]}, found_input=True)
            else:
                l, s, v, e = model_bad[0]
                chk.violation("model-correspondence-" + l, f"[opt step {s}] Q twin disagrees with torch: {l} -> {v}",
                              {"config": cfg, "expr": e[:4000], "result": str(v), "correspondence": "harness/c07.py vs Model/Loss*.v"}, found_input=False)
    chk.coverage["evaluations"] = n_exprs
    chk.coverage["traces_validated_against_impl"] = steps
    chk.coverage["distinct_nontrivial"] = sum(1 for cfg, r, _ in results if r.n_opt_steps >= 2)
    chk.coverage["rule"] = ("tiny real learn() runs (networks [8], batches 4-12) of PPO (clip 0.05-0.2, value clipping, advantage normalisation, entropy coef, shared/separate extractors, gSDE+squash -> "
                            "entropy None), A2C, DQN (Huber, max_grad_norm active/inactive), SAC (auto / fixed / auto_0.5 ent_coef, 2-3 critics, gSDE), TD3 (policy_delay 2-3, noise clip), DDPG; "
                            "evaluations = Q-twin comparisons (loss, dL/d outputs, targets, clip coefficient, lr) evaluated by vm_compute; traces = optimizer steps analysed; "
                            "non-trivial = configuration with >= 2 analysed optimizer steps")
    chk.notes["input_distribution"] = hist
    # coverage gate: every algorithm's optimizer steps must actually have been analysed
    for key in ("ppo_steps", "a2c_steps", "dqn_steps", "sac_critic_steps", "sac_actor_steps", "sac_temperature_steps", "td3_critic_steps", "td3_actor_steps", "rollout_cells_checked"):
        if not hist.get(key):
            chk.violation(f"coverage-gap-{key}", f"no {key} were analysed in this run: the correspondence for that algorithm did not happen", {"input_distribution": hist}, found_input=False)
    chk.notes["branch_coverage_not_reached"] = [k for k in ("ppo_clipped_samples", "ppo_value_clipped", "clip_active", "clip_inactive", "dqn_done_in_batch", "dqn_huber_linear_branch",
                                                            "td3_noise_clipped", "td3_action_clamped", "sac_done_in_batch", "td3_done_in_batch") if not hist.get(k)]
    chk.notes["corpus_cases"] = n_corpus
    chk.notes["configs"] = len(cfgs)
    chk.add_samples([{k2: v for k2, v in cfgs[i].items()} for i in (n_corpus, n_corpus + 7) if i < len(cfgs)])
    chk.assumptions += [
        "torch autograd through the networks and the optimizer arithmetic are trusted: the parameter gradient is compared with autograd.grad(outputs, params, grad_outputs = closed-form dL/d outputs)",
        "float32: comparisons at rel 1e-3 / abs 1e-6 (plus 1e-4 of the gradient scale for parameter gradients)",
        "behaviour exactly at the kinks (ratio = 1 +- clip, |v - v_old| = clip_vf, |td error| = 1, equal critics) is outside the derivative theorems and has probability zero in the runs",
        "hooks are installed from the harness process on the model instance / torch entry points (Tensor.backward with retain_graph, clip_grad_norm_, Tensor.normal_); /repo is not modified",
    ]
    if _cov is not None:
        chk.notes["branch_coverage"] = _cov.stop()
    return chk.finish()


def replay(path):
    d = json.load(open(path))
    cfg = d["replay"]["config"]
    chk = Check("C07", groups=["loss"])
    (cfg, r, model_bad), = run_all(chk, [cfg])
    print(json.dumps({"problems": r.problems[:8], "model_disagreements": [(l, s, str(v)) for l, s, v, _ in model_bad[:5]], "optimizer_steps": r.n_opt_steps}, indent=1, default=str))
    return 1 if (r.problems or model_bad) else 0
