"""C15 (build round 5): Dict observations with norm_obs_keys on random Dict spaces, the constructor's accept / raise decision,
pickle round trip + set_venv onto a venv with another n_envs.  Used by harness/c15.py (case kinds "keyed" and "sanity").

Model side: Model.VecNormKeyed.kvn_trace (all comparisons inside Coq) / ctor_accepts.  Oracle: plain Python from the property text:
keys outside norm_obs_keys come back bit-identical (value AND dtype) in returned, terminal, unnormalised and original observations and
never get statistics; a selected key's statistics are the moments of exactly that key's stream merged with the documented prior.
Values are on exact grids (multiples of 1/8, integers) and n_envs is 1, 2 or 4, so float32 batch moments are exact (statistics at 1e-9)."""
from __future__ import annotations

import math
import os
import shutil
import tempfile
from fractions import Fraction

F = Fraction
EPS0 = F(1, 10000)
TYPES = ["box", "box", "box", "ibox", "img", "disc", "mbin"]
BOX_TYPES = ("box", "ibox", "img")


def coq_Q(x) -> str:
    fr = Fraction(x)
    n = fr.numerator
    return f"(Qmake ({'-' if n < 0 else ''}{hex(abs(n))})%Z {hex(fr.denominator)}%positive)"


def clist(items, f=str):
    return "[" + "; ".join(f(x) for x in items) + "]"


def cbool(b):
    return "true" if b else "false"


def _imports():
    import gymnasium as gym
    import numpy as np
    from gymnasium import spaces

    from stable_baselines3.common.vec_env import DummyVecEnv, VecNormalize

    return gym, np, spaces, DummyVecEnv, VecNormalize


def make_space(layout):
    gym, np, spaces, *_ = _imports()
    d = {}
    for name, typ, w in layout:
        if typ == "box":
            d[name] = spaces.Box(-1e6, 1e6, (w,), dtype=np.float32)
        elif typ == "ibox":
            d[name] = spaces.Box(-100, 100, (w,), dtype=np.int32)
        elif typ == "img":
            d[name] = spaces.Box(0, 255, (w, 1, 1), dtype=np.uint8)
        elif typ == "disc":
            d[name] = spaces.Discrete(7)
        else:
            d[name] = spaces.MultiBinary(w)
    return spaces.Dict(d)


def make_env_class():
    gym, np, spaces, *_ = _imports()

    class KeyedEnv(gym.Env):
        def __init__(self, layout, script, space=None):
            self.layout, self.script = layout, script
            self.observation_space = space if space is not None else make_space(layout)
            self.action_space = spaces.Discrete(2)
            # dtype / shape as declared at construction: VecNormalize replaces the space of a selected image key INSIDE this very Dict object
            # (DummyVecEnv.observation_space is the first environment's space), the environment itself keeps emitting what it declared
            self._meta = {k: (sp.dtype, sp.shape) for k, sp in self.observation_space.spaces.items()}
            self.n_resets = self.n_steps = 0
            self.log = []

        def _obs(self, o):
            out = {}
            for name, typ, w in self.layout:
                v = o[name]
                if typ == "disc":
                    out[name] = int(v[0])
                else:
                    dt, shp = self._meta[name]
                    out[name] = np.array(v, dtype=dt).reshape(shp)
            return out

        def reset(self, *, seed=None, options=None):
            o = self.script["resets"][self.n_resets % len(self.script["resets"])]
            self.n_resets += 1
            self.log.append(("reset", o))
            return self._obs(o), {}

        def step(self, action):
            o, r, term, trunc = self.script["steps"][self.n_steps % len(self.script["steps"])]
            self.n_steps += 1
            self.log.append(("step", o, r, term, trunc))
            return self._obs(o), float(r), bool(term), bool(trunc), {}

    return KeyedEnv


def _vals(rng, typ, w):
    if typ == "box":
        return [rng.randint(-64, 64) / 8.0 for _ in range(w)]
    if typ == "ibox":
        return [float(rng.randint(-20, 20)) for _ in range(w)]
    if typ == "img":
        return [float(rng.randint(0, 255)) for _ in range(w)]
    if typ == "disc":
        return [float(rng.randint(0, 6))]
    return [float(rng.randint(0, 1)) for _ in range(w)]


def gen_layout(rng):
    nk = rng.randint(1, 5)
    return [[f"k{j}", t, (1 if t == "disc" else rng.randint(1, 3))] for j, t in enumerate(rng.choice(TYPES) for _ in range(nk))]


def gen_keyed(rng, i):
    layout = gen_layout(rng)
    if not any(t in BOX_TYPES for _, t, _ in layout):
        layout[rng.randrange(len(layout))][1] = "box"
    boxes = [n for n, t, _ in layout if t in BOX_TYPES]
    all_box = len(boxes) == len(layout)
    u = rng.random()
    if all_box and u < 0.25:
        keys = None
    else:
        keys = [k for k in boxes if rng.random() < 0.6]
        rng.shuffle(keys)
        if keys and rng.random() < 0.1:
            keys.append(keys[0])         # a repeated key
    n_envs = rng.choice([1, 2, 2, 4])
    obs = lambda: {n: _vals(rng, t, w) for n, t, w in layout}  # noqa: E731
    scripts = []
    for _ in range(n_envs):
        steps = []
        for _k in range(rng.randint(1, 6)):
            v = rng.random()
            steps.append([obs(), rng.randint(-16, 16) / 4.0, (v < 0.15 or 0.3 <= v < 0.35), (0.15 <= v < 0.35)])
        scripts.append({"resets": [obs() for _ in range(rng.randint(1, 2))], "steps": steps})
    norm_obs0 = rng.random() < 0.9
    ops = [["reset"]]
    for _ in range(rng.randint(2, 10)):
        v = rng.random()
        if v < 0.15:
            ops.append(["set", rng.random() < 0.5, norm_obs0 and rng.random() < 0.7, rng.random() < 0.7])
        elif v < 0.22:
            ops.append(["reset"])
        else:
            ops.append(["step"])
    return {"kind": "keyed", "layout": layout, "norm_obs_keys": keys, "scripts": scripts, "ops": ops, "n_envs2": rng.choice([1, 2, 3, 4]),
            "training": rng.random() < 0.8, "norm_obs": norm_obs0, "norm_reward": rng.random() < 0.7,
            "clip_obs": rng.choice([10.0, 1.0, 0.5, 2.5]), "clip_reward": rng.choice([10.0, 1.0]), "gamma": rng.choice([0.99, 0.5, 1.0]),
            "epsilon": rng.choice([1e-8, 1e-4, 1e-2]), "id": f"keyed-{i}"}


def gen_sanity(rng, i):
    u = rng.random()
    if u < 0.6:
        layout = gen_layout(rng)
        names = [n for n, _, _ in layout]
        boxes = [n for n, t, _ in layout if t in BOX_TYPES]
        v = rng.random()
        if v < 0.2:
            keys = None
        elif v < 0.55:
            keys = [k for k in boxes if rng.random() < 0.7]
        elif v < 0.8:
            keys = [k for k in names if rng.random() < 0.6]
        elif v < 0.9:
            keys = [k for k in boxes if rng.random() < 0.5] + ["missing"]
        else:
            keys = []
        rng.shuffle(keys) if keys else None
        space = ["dict", layout]
    else:
        space = [rng.choice(["box", "box", "img", "disc", "mdisc", "mbin"]), rng.randint(1, 3)]
        keys = None if rng.random() < 0.6 else rng.choice([[], ["k0"], ["a", "b"]])
    return {"kind": "sanity", "space": space, "norm_obs_keys": keys, "norm_obs": rng.random() < 0.85, "clip_obs": rng.choice([10.0, 2.5]), "id": f"sanity-{i}"}


# ---------------------------------------------------------------- running the implementation

def _flat(np, v):
    return [float(x) for x in np.ravel(v)]


def run_keyed(case):
    gym, np, spaces, DummyVecEnv, VecNormalize = _imports()
    KeyedEnv = make_env_class()
    layout = case["layout"]
    names = [n for n, _, _ in layout]
    envs = []

    def mk(sc, reg=True):
        def f():
            e = KeyedEnv(layout, sc)
            if reg:
                envs.append(e)
            return e
        return f

    n = len(case["scripts"])
    venv = DummyVecEnv([mk(sc) for sc in case["scripts"]])
    raw_spaces = {k: (type(s).__name__, s.shape, str(s.dtype)) for k, s in venv.observation_space.spaces.items()}
    vn = VecNormalize(venv, training=case["training"], norm_obs=case["norm_obs"], norm_reward=case["norm_reward"], clip_obs=case["clip_obs"],
                      clip_reward=case["clip_reward"], gamma=case["gamma"], epsilon=case["epsilon"], norm_obs_keys=case["norm_obs_keys"])
    space_keys = list(vn.observation_space.spaces.keys())
    eff = (case["norm_obs_keys"] if case["norm_obs_keys"] is not None else (space_keys if case["norm_obs"] else None))
    # the wrapper's observation space: a selected image key becomes Box(-clip, clip, float32), everything else is what it was
    space_notes = []
    for name, typ, w in layout:
        sp = vn.observation_space.spaces[name]
        if case["norm_obs"] and typ == "img" and name in (eff or []):
            want = spaces.Box(-case["clip_obs"], case["clip_obs"], (w, 1, 1), dtype=np.float32)
            if sp != want:
                space_notes.append(f"selected image key {name}: space {sp} instead of {want}")
        elif (type(sp).__name__, sp.shape, str(sp.dtype)) != raw_spaces[name]:
            space_notes.append(f"key {name} ({typ}) is not a selected image key but its space changed to {sp}")

    def kdict(o, i=None):
        """{key: (flat values, dtype)} of sub-environment i of a batch (or of a single observation)"""
        return {k: (_flat(np, o[k] if i is None else o[k][i]), str(np.asarray(o[k]).dtype)) for k in names}

    def stats():
        rms = getattr(vn, "obs_rms", None)
        if rms is None:
            return None
        return [[k, [[float(m), float(v), float(r.count)] for m, v in zip(np.ravel(r.mean), np.ravel(r.var))]] for k, r in rms.items()]

    events, marks = [], [0] * n
    for op in case["ops"]:
        ev = {"op": op[0]}
        if op[0] == "set":
            vn.training, vn.norm_obs, vn.norm_reward = op[1], op[2], op[3]
        else:
            if op[0] == "reset":
                obs = vn.reset()
            else:
                obs, rews, dones, infos = vn.step(np.zeros(n, dtype=np.int64))
                ev["out_rews"] = [float(x) for x in rews]
                ev["dones"] = [bool(x) for x in dones]
                ev["out_term"] = [(kdict(inf["terminal_observation"]) if "terminal_observation" in inf else None) for inf in infos]
            ev["out_keys"] = list(obs.keys())
            ev["out_obs"] = [kdict(obs, i) for i in range(n)]
            raw, term_raw, rew_raw = [], [], []
            for i, e in enumerate(envs[:n]):
                new = e.log[marks[i]:]
                marks[i] = len(e.log)
                if op[0] == "reset":
                    raw.append(new[-1][1])
                else:
                    st = new[0]
                    rew_raw.append(st[2])
                    if st[3] or st[4]:
                        term_raw.append(st[1])
                        raw.append(new[1][1])
                    else:
                        term_raw.append(None)
                        raw.append(st[1])
            ev["raw_obs"], ev["raw_term"], ev["raw_rews"] = raw, term_raw, rew_raw
            oo = vn.get_original_obs()
            ev["orig"] = [kdict(oo, i) for i in range(n)]
            un = vn.unnormalize_obs(obs)
            ev["unnorm"] = [kdict(un, i) for i in range(n)]
        ev["stats"] = stats()
        ev["ret_stats"] = [float(vn.ret_rms.mean), float(vn.ret_rms.var), float(vn.ret_rms.count)]
        ev["returns"] = [float(x) for x in vn.returns]
        ev["flags"] = [bool(vn.training), bool(vn.norm_obs), bool(vn.norm_reward)]
        events.append(ev)
    final_stats = stats()
    final = {"stats": final_stats, "keys": vn.norm_obs_keys, "ret": events[-1]["ret_stats"], "flags": events[-1]["flags"]}
    # ---- pickle round trip, then set_venv onto a venv with ANOTHER number of sub-environments
    n2 = case["n_envs2"]
    d = tempfile.mkdtemp(prefix="c15k_")
    try:
        path = os.path.join(d, "vn.pkl")
        vn.save(path)
        sc2 = [case["scripts"][j % n] for j in range(n2)]
        venv2 = DummyVecEnv([mk(sc, reg=False) for sc in sc2])
        loaded = VecNormalize.load(path, venv2)
        rms = getattr(loaded, "obs_rms", None)
        lst = None if rms is None else [[k, [[float(m), float(v), float(r.count)] for m, v in zip(np.ravel(r.mean), np.ravel(r.var))]] for k, r in rms.items()]
        ld = {"stats": lst, "keys": loaded.norm_obs_keys, "ret": [float(loaded.ret_rms.mean), float(loaded.ret_rms.var), float(loaded.ret_rms.count)],
              "returns": [float(x) for x in loaded.returns], "flags": [bool(loaded.training), bool(loaded.norm_obs), bool(loaded.norm_reward)],
              "num_envs": int(loaded.num_envs), "venv_ok": loaded.venv is venv2,
              "params": [loaded.clip_obs, loaded.clip_reward, loaded.gamma, loaded.epsilon] == [vn.clip_obs, vn.clip_reward, vn.gamma, vn.epsilon]}
        try:
            loaded.set_venv(venv2)
            ld["second_set_venv_raises"] = False
        except ValueError:
            ld["second_set_venv_raises"] = True
        # the loaded wrapper works on the new venv: same key selection in what it returns
        o2 = loaded.reset()
        ld["reset_shape_ok"] = all(np.asarray(o2[k]).shape[0] == n2 for k in names)
    finally:
        shutil.rmtree(d, ignore_errors=True)
    return {"events": events, "final": final, "loaded": ld, "space_keys": space_keys, "eff": eff, "space_notes": space_notes}


def run_sanity(case):
    gym, np, spaces, DummyVecEnv, VecNormalize = _imports()
    KeyedEnv = make_env_class()
    kind, arg = case["space"]
    if kind == "dict":
        layout = arg
        space = make_space(layout)
    else:
        layout = []
        space = {"box": lambda: spaces.Box(-1e6, 1e6, (arg,), dtype=np.float32), "img": lambda: spaces.Box(0, 255, (arg, 1, 1), dtype=np.uint8),
                 "disc": lambda: spaces.Discrete(arg + 1), "mdisc": lambda: spaces.MultiDiscrete([3] * arg), "mbin": lambda: spaces.MultiBinary(arg)}[kind]()

    class AnyEnv(gym.Env):
        observation_space, action_space = space, spaces.Discrete(2)

        def reset(self, *, seed=None, options=None):
            return self.observation_space.sample(), {}

        def step(self, a):
            return self.observation_space.sample(), 0.0, False, False, {}

    venv = DummyVecEnv([AnyEnv])
    out = {"space_keys": list(space.spaces.keys()) if kind == "dict" else None}
    try:
        vn = VecNormalize(venv, norm_obs=case["norm_obs"], norm_obs_keys=case["norm_obs_keys"], clip_obs=case["clip_obs"])
        out["accepted"] = True
        out["keys_after"] = vn.norm_obs_keys
        rms = getattr(vn, "obs_rms", None)
        out["rms_keys"] = list(rms.keys()) if isinstance(rms, dict) else ("single" if rms is not None else None)
        out["rms_shapes_ok"] = (all(rms[k].mean.shape == space.spaces[k].shape for k in rms) if isinstance(rms, dict)
                                else (rms is None or rms.mean.shape == space.shape))
        out["space_after"] = str(vn.observation_space)
        out["works"] = True
        try:
            vn.reset()
            vn.step(np.zeros(1, dtype=np.int64))
        except Exception as e:  # noqa: BLE001
            out["works"] = f"{type(e).__name__}: {e}"
    except (ValueError, KeyError) as e:
        out["accepted"] = False
        out["error"] = f"{type(e).__name__}: {e}"[:200]
    return out


# ---------------------------------------------------------------- model expressions

def _idx(case):
    return {n: j for j, (n, _, _) in enumerate(case["layout"])}


def _kenv(case, o, with_dtype=True):
    """o: {key: values} (raw) or {key: (values, dtype)}"""
    idx = _idx(case)
    ent = []
    for n, _, _ in case["layout"]:
        v = o[n][0] if isinstance(o[n], tuple) else o[n]
        ent.append(f"({idx[n]}%nat, {clist([F(x) for x in v], coq_Q)})")
    return clist(ent)


def _q4(st, eps):
    return f"({coq_Q(F(st[0]))}, {coq_Q(F(st[1]))}, {coq_Q(F(st[2]))}, {coq_Q(F(math.sqrt(max(st[1] + eps, 0.0))))})"


def _kstats(case, stats):
    idx = _idx(case)
    if stats is None:
        return "[]"
    return clist([f"({idx[k]}%nat, {clist([_q4(c, case['epsilon']) for c in comps])})" for k, comps in stats])


def _keys_model(case, impl):
    """norm_obs_keys as the model gets them: the effective list (None with norm_obs off = [])"""
    idx = _idx(case)
    return [idx[k] for k in (impl["eff"] or [])]


def exprs_keyed(case, impl):
    n = len(case["scripts"])
    eps = case["epsilon"]
    idx = _idx(case)
    p = f"(mk_vnp {coq_Q(F(case['clip_obs']))} {coq_Q(F(case['clip_reward']))} {coq_Q(F(case['gamma']))} {coq_Q(F(eps))} [])"
    ks = clist([f"({idx[nm]}%nat, {'Some ' + str(w) + '%nat' if t in BOX_TYPES else 'None'})" for nm, t, w in case["layout"]])
    keys = clist([f"{k}%nat" for k in _keys_model(case, impl)])
    init = f"(kvn_init {ks} {keys} {n}%nat {cbool(case['training'])} {cbool(case['norm_obs'])} {cbool(case['norm_reward'])})"
    ops = []
    for op, ev in zip(case["ops"], impl["events"]):
        if op[0] == "set":
            o = f"KSet {cbool(op[1])} {cbool(op[2])} {cbool(op[3])}"
            out_obs = out_term = unn = orig = out_rews = "[]"
        else:
            obs = clist([_kenv(case, ev["raw_obs"][i]) for i in range(n)])
            out_obs = clist([_kenv(case, ev["out_obs"][i]) for i in range(n)])
            unn = clist([_kenv(case, ev["unnorm"][i]) for i in range(n)])
            orig = clist([_kenv(case, ev["orig"][i]) for i in range(n)])
            out_term = out_rews = "[]"
            if op[0] == "reset":
                o = f"KReset {obs}"
            else:
                o = f"KStep {obs} {clist([F(r) for r in ev['raw_rews']], coq_Q)} {clist(ev['dones'], cbool)}"
                out_term = clist(["None" if ev["raw_term"][i] is None else
                                  f"(Some ({_kenv(case, ev['raw_term'][i])}, {_kenv(case, ev['out_term'][i]) if ev['out_term'][i] is not None else '[]'}))" for i in range(n)])
                out_rews = clist([F(x) for x in ev["out_rews"]], coq_Q)
        ck = (f"(mk_kck {_kstats(case, ev['stats'])} {out_obs} {out_term} {unn} {orig} {_q4(ev['ret_stats'], eps)} "
              f"{clist([F(x) for x in ev['returns']], coq_Q)} {out_rews})")
        ops.append(f"({o}, {ck})")
    ld = impl["loaded"]
    lkeys = clist([f"{idx[k]}%nat" for k in (ld["keys"] or [])])
    fin = (f"(mk_kfin {_kstats(case, ld['stats'])} {lkeys} {_q4(ld['ret'], eps)} {clist([F(x) for x in ld['returns']], coq_Q)} "
           f"({cbool(ld['flags'][0])}, {cbool(ld['flags'][1])}, {cbool(ld['flags'][2])}))")
    return [f"kvn_trace tol9 {p} {init} {clist(ops)} {case['n_envs2']}%nat {fin}"]


def exprs_sanity(case, impl):
    kind, arg = case["space"]
    if kind == "dict":
        idx = {n: j for j, (n, _, _) in enumerate(arg)}
        sp = "(SDict " + clist([f"({idx[n]}%nat, {'Some ' + str(w) + '%nat' if t in BOX_TYPES else 'None'})" for n, t, w in arg]) + ")"
    else:
        idx = {}
        sp = f"(SBox {arg}%nat)" if kind in ("box", "img") else "SOther"
    if case["norm_obs_keys"] is None:
        keys = "None"
    else:   # a key that is not in the space gets a tag that no key of the space has
        keys = "(Some " + clist([f"{idx.get(k, 99)}%nat" for k in case["norm_obs_keys"]]) + ")"
    return [f"(ctor_accepts {cbool(case['norm_obs'])} {sp} {keys}, effective_keys {sp} {keys})"]


# ---------------------------------------------------------------- comparison

K_CHECKS = ["keyed-obs-statistics", "keyed-return-statistics-or-accumulator", "keyed-returned-observation", "keyed-terminal-observation",
            "keyed-unnormalised-observation", "keyed-original-observation", "keyed-returned-reward"]
K_FINAL = ["loaded-obs-statistics", "loaded-key-selection", "loaded-return-statistics", "loaded-returns-zero-of-new-n-envs", "loaded-flags"]


def prior_moments(xs):
    s0 = EPS0 + len(xs)
    s1 = sum(F(x) for x in xs)
    s2 = EPS0 + sum(F(x) * F(x) for x in xs)
    mean = s1 / s0
    return mean, s2 / s0 - mean * mean, s0


def close(a, b, rel=1e-9, ab=1e-9):
    return abs(float(a) - float(b)) <= ab + rel * abs(float(a))


def compare_keyed(case, impl, mv):
    import numpy as np

    probs = []
    layout = case["layout"]
    n = len(case["scripts"])
    eps = case["epsilon"]
    eff = impl["eff"]
    sel = set(eff or []) if case["norm_obs"] else set()
    in_dtype = {"box": "float32", "ibox": "int32", "img": "uint8", "disc": "int64", "mbin": "int8"}
    f32 = lambda v: float(np.float32(v))  # noqa: E731
    training, norm_obs = case["training"], case["norm_obs"]
    streams = {nm: [[] for _ in range(w)] for nm, t, w in layout if nm in sel}
    for note in impl["space_notes"]:
        probs.append(("oracle-keyed-observation-space", note))
    for k, (op, ev) in enumerate(zip(case["ops"], impl["events"])):
        if op[0] == "set":
            training, norm_obs = op[1], op[2]
        else:
            if training and norm_obs:
                for nm in streams:
                    for c in range(len(streams[nm])):
                        streams[nm][c] += [ev["raw_obs"][i][nm][c] for i in range(n)]
            if ev["out_keys"] != impl["space_keys"]:
                probs.append(("oracle-keyed-output-keys", f"op {k}: returned Dict has keys {ev['out_keys']}, the space has {impl['space_keys']}"))
            for i in range(n):
                views = [("returned", ev["out_obs"][i], ev["raw_obs"][i]), ("unnormalised", ev["unnorm"][i], None), ("original", ev["orig"][i], ev["raw_obs"][i])]
                if op[0] == "step" and ev["raw_term"][i] is not None:
                    if ev["out_term"][i] is None:
                        probs.append(("oracle-keyed-terminal-observation-missing", f"op {k} env {i}: done but no terminal_observation"))
                    else:
                        views.append(("terminal", ev["out_term"][i], ev["raw_term"][i]))
                for nm, typ, w in layout:
                    st = dict((a, b) for a, b in (ev["stats"] or [])).get(nm)
                    for what, got, raw in views:
                        vals, dt = got[nm]
                        if what == "original" or not (norm_obs and nm in sel):
                            # pass-through: bit-identical values AND dtype (unnormalised: equal to what was returned)
                            want = raw[nm] if raw is not None else ev["out_obs"][i][nm][0]
                            want_dt = in_dtype[typ] if raw is not None else ev["out_obs"][i][nm][1]
                            if vals != [float(x) for x in want] or dt != want_dt:
                                sig = "oracle-keyed-original-obs" if what == "original" else "oracle-keyed-unselected-key-changed"
                                probs.append((sig, f"op {k} env {i} key {nm} ({typ}, {'selected' if nm in sel else 'not selected'}, norm_obs={norm_obs}): {what} observation "
                                              f"{vals} dtype {dt}, expected unchanged {want} dtype {want_dt}"))
                        elif what == "unnormalised":
                            y = ev["out_obs"][i][nm][0]
                            for c in range(w):
                                if abs(y[c]) < case["clip_obs"] * (1 - 1e-6) and not close(ev["raw_obs"][i][nm][c], vals[c], 1e-4, 1e-4 * max(1.0, abs(st[c][0]))):
                                    probs.append(("oracle-keyed-unnormalise-not-inverse", f"op {k} env {i} key {nm}[{c}]: unnormalize_obs gives {vals[c]!r}, raw {ev['raw_obs'][i][nm][c]!r}"))
                        else:
                            for c in range(w):
                                wv = f32(min(max((raw[nm][c] - st[c][0]) / math.sqrt(st[c][1] + eps), -case["clip_obs"]), case["clip_obs"]))
                                if not close(wv, vals[c], 1e-5, 1e-6) or dt != "float32":
                                    probs.append(("oracle-keyed-normalised-observation" if what == "returned" else "oracle-keyed-terminal-observation-transform",
                                                  f"op {k} env {i} key {nm}[{c}]: {what} {vals[c]!r} ({dt}), clipped standardised value with THIS key's statistics {wv!r}"))
        # statistics exist for exactly the selected keys and are the moments of exactly that key's stream
        have = [a for a, _ in (ev["stats"] or [])]
        want_keys = list(dict.fromkeys(eff or [])) if case["norm_obs"] else []
        if have != want_keys:
            probs.append(("oracle-keyed-statistics-keys", f"op {k}: obs_rms has keys {have}, norm_obs_keys selects {want_keys}"))
        else:
            for nm, comps in (ev["stats"] or []):
                for c, stc in enumerate(comps):
                    mean, var, cnt = prior_moments(streams[nm][c])
                    if not (close(mean, stc[0]) and close(var, stc[1]) and close(cnt, stc[2])):
                        probs.append(("oracle-keyed-obs-statistics", f"op {k} key {nm}[{c}]: impl mean/var/count {stc}, moments of this key's {len(streams[nm][c])} training values merged "
                                      f"with the prior {[float(mean), float(var), float(cnt)]}"))
        if probs:
            break
    # ---- pickle round trip + set_venv
    fin, ld = impl["final"], impl["loaded"]
    for name in ("stats", "keys", "ret", "flags"):
        if fin[name] != ld[name]:
            probs.append(("oracle-keyed-save-load-changes-" + name, f"{name} before save {fin[name]} != after load {ld[name]}"))
    if ld["returns"] != [0.0] * case["n_envs2"] or ld["num_envs"] != case["n_envs2"]:
        probs.append(("oracle-keyed-save-load-returns", f"returns after load onto {case['n_envs2']} environments: {ld['returns']} (num_envs {ld['num_envs']})"))
    if not (ld["venv_ok"] and ld["params"] and ld["second_set_venv_raises"] and ld["reset_shape_ok"]):
        probs.append(("oracle-keyed-save-load-wrapper", f"loaded wrapper: {{k: ld[k] for k in ('venv_ok', 'params', 'second_set_venv_raises', 'reset_shape_ok')}}"))
    # ---- model (decided inside Coq)
    rows, finb = mv[0]
    for name, ok in zip(K_FINAL, finb):
        if ok is not True:
            probs.append(("vecnorm-" + name, f"Model.VecNormKeyed.kset_venv / kunpickle_pickle and the loaded wrapper disagree on {name}"))
    if len(finb) != len(K_FINAL) or len(rows) != len(case["ops"]):
        probs.append(("vecnorm-keyed-model-length", f"{len(rows)} rows / {len(finb)} final checks"))
    else:
        for k, row in enumerate(rows):
            for name, ok in zip(K_CHECKS, row):
                if ok is not True:
                    probs.append(("vecnorm-" + name, f"op {k} ({case['ops'][k][0]}): Model.VecNormKeyed and the implementation disagree on {name}"))
            if any(p[0].startswith("vecnorm-") for p in probs):
                break
    return probs


def sanity_oracle(case):
    """from the task / docstring: with norm_obs, accepted iff Dict and every selected key (default: all) is a Box key of it, or Box without keys"""
    kind, arg = case["space"]
    if not case["norm_obs"]:
        return True, None
    if kind == "dict":
        types = {n: t for n, t, _ in arg}
        eff = case["norm_obs_keys"] if case["norm_obs_keys"] is not None else sorted(types)
        return all(types.get(k) in BOX_TYPES for k in eff), eff
    if kind in ("box", "img"):
        return case["norm_obs_keys"] is None, None
    return False, None


def compare_sanity(case, impl, mv):
    probs = []
    want, eff = sanity_oracle(case)
    if impl["accepted"] != want:
        probs.append(("oracle-sanity-accepts-unsupported" if impl["accepted"] else "oracle-sanity-rejects-supported",
                      f"space {case['space']} norm_obs_keys {case['norm_obs_keys']} norm_obs {case['norm_obs']}: "
                      f"{'accepted' if impl['accepted'] else 'raised ' + impl.get('error', '')}, expected {'accept' if want else 'raise'}"))
    elif impl["accepted"]:
        if impl["works"] is not True:
            probs.append(("oracle-sanity-accepted-but-unusable", f"accepted configuration cannot reset/step: {impl['works']}"))
        if case["norm_obs"] and case["space"][0] == "dict":
            if impl["keys_after"] != eff or impl["rms_keys"] != list(dict.fromkeys(eff)) or not impl["rms_shapes_ok"]:
                probs.append(("oracle-sanity-key-selection", f"norm_obs_keys after construction {impl['keys_after']}, statistics for {impl['rms_keys']}, selected {eff}"))
        elif case["norm_obs"] and (impl["rms_keys"] != "single" or not impl["rms_shapes_ok"]):
            probs.append(("oracle-sanity-key-selection", f"Box space: statistics {impl['rms_keys']}"))
        elif not case["norm_obs"] and impl["rms_keys"] is not None:
            probs.append(("oracle-sanity-key-selection", f"norm_obs off but statistics were created: {impl['rms_keys']}"))
    acc, meff = mv[0]
    if acc is not impl["accepted"]:
        probs.append(("vecnorm-sanity-decision", f"Model.VecNormKeyed.ctor_accepts = {acc}, implementation {'accepts' if impl['accepted'] else 'raises'}"))
    elif impl["accepted"] and case["norm_obs"] and case["space"][0] == "dict":
        idx = {n: j for j, (n, _, _) in enumerate(case["space"][1])}
        if [idx.get(k) for k in impl["keys_after"]] != list(meff):
            probs.append(("vecnorm-sanity-effective-keys", f"model effective keys {meff}, implementation {impl['keys_after']}"))
    return probs
