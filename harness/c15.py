"""C15 - VecNormalize statistics and transforms.

Proof side:   Props/C15.v (update_from_moments regenerated from running_mean_std.py adds the batch's raw moments
              exactly => batching invariance and "statistics = two-pass moments of the stream merged with the
              documented prior (weight 1e-4, mean 0, variance 1)"; VecNormalize: which batches enter the statistics
              for any history of reset/step/flag toggles, freezing, return accumulator closed form, transforms
              (sqrt symbolic), inverse inside the clip range, pickle/sync).
Tie:          (a) real RunningMeanStd.update/combine on random streams under two random batch splits vs
                  Model.RunningMoments (exact Q, compared inside Coq at rel/abs 1e-9);
              (b) real VecNormalize over DummyVecEnv of array-scripted envs (Box and Dict spaces, any subset of
                  normalised keys, n_envs 1-4, flags toggled at random points, random clip/gamma/epsilon) vs
                  Model.VecNorm.vn_trace after every operation: statistics (1e-9), returned observations, terminal
                  observations, rewards, unnormalised values (float32: 1e-5; sqrt(var+eps) is passed as a hint that
                  Coq checks by squaring);
              (c) statement-level oracle in plain Python (Fractions / float64), independent of the model;
              (d) save/load and sync_envs_normalization compared field by field.
"""
from __future__ import annotations

import json
import math
import os
import shutil
import tempfile
from fractions import Fraction

from harness import common
from harness.common import Check, coq_bool, coq_list, coq_nat


def coq_Q(x) -> str:
    """hexadecimal literal: Coq 8.16 parses it about twice as fast as the decimal one"""
    fr = Fraction(x)
    n = fr.numerator
    return f"(Qmake ({'-' if n < 0 else ''}{hex(abs(n))})%Z {hex(fr.denominator)}%positive)"

REGISTRY = dict(
    text=("Proof (unbounded): RunningMeanStd.update_from_moments (regenerated from the source) adds the batch's raw moments exactly, hence for every split of every stream into "
          "batches the statistics equal the two-pass moments of the concatenated stream merged with the documented prior (weight 1e-4, mean 0, variance 1); for every history of "
          "VecNormalize reset/step/flag toggles the statistics of a normalised channel are the updates with exactly the observation batches returned while training and norm_obs "
          "were set (frozen otherwise, other keys untouched), the return accumulator is the discounted sum since the last episode end/reset, normalise/unnormalise (regenerated "
          "expressions, sqrt symbolic) are inverse inside the clip range and bounded by it, terminal observations get the same transform, pickle/sync keep every statistic. "
          "Known finding F17 norm-obs-enabled-after-construction-raises (VecNormalize(norm_obs=False) has no obs_rms; switching norm_obs on later raises AttributeError) is reproduced "
          "from a fixed corpus input. Build round 5 (Model/VecNormKeyed.v): Dict observations with norm_obs_keys - every key of the keyed model is an instance of the single-array "
          "model (simulation), keys outside norm_obs_keys pass through unchanged and never get statistics, keys are independent, the constructor accepts exactly the configurations whose "
          "selected keys are Box keys of the Dict space (or a Box space without keys), pickle + set_venv keep every statistic and the key selection and zero the returns of the new n_envs. "
          "Tie: fragment translator (groups runningmoments, vecnormkeyed) + correspondence."),
    note=("Trusted: Coq 8.16.1 kernel (vm_compute, no native_compute), translate/py2coq.py + specs/runningmoments.py, harness/c15.py, Python/numpy/gymnasium. "
          "The epsilon prior is part of the statement ('equal the moments' is read as 'equal the moments of the stream merged with the prior of weight 1e-4'). "
          "Not verified: float64/float32 rounding (statistics compared at rel/abs 1e-9, float32 outputs at 1e-5), np.sqrt (hint checked by squaring inside Coq), "
          "numpy axis handling / deepcopy / pickle (correspondence only). "
          "The executable model uses Qred-reduced fractions, proved equal to the specification model (C15_executable_variant). All C15 theorems are closed under the global context."),
    technique="machine-checked proof in Coq (field identities over Q, induction over batch lists and histories) + regenerated-fragment interface lemmas + differential correspondence",
)

COV_TARGETS = {"stable_baselines3/common/vec_env/vec_normalize.py": None, "stable_baselines3/common/running_mean_std.py": None,
               "stable_baselines3/common/vec_env/__init__.py": ["sync_envs_normalization"]}

HEADER = """From Coq Require Import List QArith ZArith Bool.
From SB3V Require Import Lib.QUtil Model.RunningMoments Model.VecNorm Model.VecNormKeyed.
Import ListNotations.
Local Open Scope Q_scope.
"""

EPS0 = 1e-4
F = Fraction


def _imports():
    import gymnasium as gym
    import numpy as np
    from gymnasium import spaces

    from stable_baselines3.common.running_mean_std import RunningMeanStd
    from stable_baselines3.common.vec_env import DummyVecEnv, VecNormalize, sync_envs_normalization

    return gym, np, spaces, RunningMeanStd, DummyVecEnv, VecNormalize, sync_envs_normalization


# channel layout per observation kind: (key, n components); Discrete key "d" is never normalised
KINDS = {"box": [(None, 2)], "dict_box": [("a", 2), ("b", 1)], "dict_mixed": [("a", 2), ("b", 1)]}


def make_env_class():
    gym, np, spaces, *_ = _imports()

    class ArrEnv(gym.Env):
        """steps/resets are read cyclically from explicit arrays; every emitted value is logged"""

        def __init__(self, kind, script):
            self.kind, self.script = kind, script
            big = 1e6
            if kind == "box":
                self.observation_space = spaces.Box(-big, big, (2,), dtype=np.float32)
            elif kind == "image":       # an image space (uint8, 0..255, channel-last): VecNormalize replaces the observation space
                self.observation_space = spaces.Box(0, 255, (1, 1, 3), dtype=np.uint8)
            else:
                d = {"a": spaces.Box(-big, big, (2,), dtype=np.float32), "b": spaces.Box(-big, big, (1,), dtype=np.float32)}
                if kind == "dict_mixed":
                    d["d"] = spaces.Discrete(5)
                self.observation_space = spaces.Dict(d)
            self.action_space = spaces.Discrete(2)
            self.n_resets = self.n_steps = 0
            self.log = []

        def _pix(self, vec):
            return [int(abs(v) * 8) % 256 for v in vec[:3]]

        def _obs(self, vec):
            if self.kind == "image":
                return np.array(self._pix(vec), dtype=np.uint8).reshape(1, 1, 3)
            f = np.array(vec, dtype=np.float32)
            if self.kind == "box":
                return f[:2].copy()
            o = {"a": f[:2].copy(), "b": f[2:3].copy()}
            if self.kind == "dict_mixed":
                o["d"] = int(abs(vec[0] * 8)) % 5
            return o

        def reset(self, *, seed=None, options=None):
            vec = self.script["resets"][self.n_resets % len(self.script["resets"])]
            self.n_resets += 1
            self.log.append(("reset", [float(x) for x in self._pix(vec)] if self.kind == "image" else vec))
            return self._obs(vec), {}

        def step(self, action):
            vec, r, term, trunc = self.script["steps"][self.n_steps % len(self.script["steps"])]
            self.n_steps += 1
            self.log.append(("step", [float(x) for x in self._pix(vec)] if self.kind == "image" else vec, r, term, trunc))
            return self._obs(vec), float(r), bool(term), bool(trunc), {}

    return ArrEnv


# ---------------------------------------------------------------- generators

def _val(rng, mode):
    import numpy as np

    if mode == "grid":
        return rng.randint(-64, 64) / 8.0
    if mode == "offset":
        return float(np.float32(1000.0 + rng.uniform(-1, 1)))
    if mode == "offset_grid":
        return 1000.0 + rng.randint(-16, 16) / 8.0
    return float(np.float32(rng.uniform(-6, 6)))


def gen_case(rng, i):
    if i % 4 == 0:
        n = rng.randint(1, 40)
        mode = rng.choice(["grid", "float", "offset"])
        xs = [[_val(rng, mode), _val(rng, "float")] for _ in range(n)]

        def split(seq):
            out, k = [], 0
            while k < len(seq):
                m = rng.choice([1, 1, 2, 3, rng.randint(1, 12)])
                out.append(seq[k:k + m])
                k += m
            return out

        n_main = rng.randint(1, n)
        others = split(xs[n_main:]) if rng.random() < 0.5 else []
        main = xs if not others else xs[:n_main]
        return {"kind": "rms", "xs": xs, "split_a": split(main), "split_b": split(main),
                "others": [split(o) for o in others], "id": i}
    kind = rng.choice(["box", "dict_box", "dict_mixed", "box", "dict_box", "dict_mixed", "image"])
    n_envs = rng.randint(1, 4)
    # float32 batch moments (np.mean / np.var of the float32 observation batch) are exact on the grids when n_envs is a
    # power of two: those histories are compared at 1e-9, the others at 1e-5
    mode = rng.choice(["grid", "grid", "grid", "float", "offset_grid"])
    if mode == "offset_grid" and n_envs == 3:
        n_envs = rng.choice([1, 2, 4])
    scripts = []
    for _ in range(n_envs):
        ns = rng.randint(1, 7)
        steps = []
        for _k in range(ns):
            u = rng.random()
            term, trunc = (u < 0.15 or 0.3 <= u < 0.35), (0.15 <= u < 0.35)
            steps.append([[_val(rng, mode) for _ in range(3)], rng.randint(-16, 16) / 4.0, term, trunc])
        scripts.append({"resets": [[_val(rng, mode) for _ in range(3)] for _ in range(rng.randint(1, 3))], "steps": steps})
    keys = None
    if kind == "dict_mixed":
        keys = rng.choice([["a", "b"], ["a"], ["b"], []])
    elif kind == "dict_box":
        keys = rng.choice([None, None, ["a"], ["b"], ["b", "a"]])
    norm_obs0 = rng.random() < 0.85
    ops = [["reset"]]
    for _ in range(rng.randint(1, 12)):
        u = rng.random()
        if u < 0.12:
            # a wrapper constructed with norm_obs=False has no obs_rms at all: switching norm_obs on later raises
            # AttributeError (unsupported use, outside the property); such toggles are not generated
            ops.append(["set", rng.random() < 0.6, norm_obs0 and rng.random() < 0.7, rng.random() < 0.7])
        elif u < 0.2:
            ops.append(["reset"])
        else:
            ops.append(["step"])
    return {"kind": "vecnorm", "obs_kind": kind, "scripts": scripts, "norm_obs_keys": keys, "ops": ops,
            "training": rng.random() < 0.85, "norm_obs": norm_obs0, "norm_reward": rng.random() < 0.8,
            "clip_obs": rng.choice([10.0, 10.0, 1.0, 0.5, 2.5]), "clip_reward": rng.choice([10.0, 10.0, 1.0, 0.25]),
            "gamma": rng.choice([0.99, 0.5, 0.9, 1.0, 0.0]), "epsilon": rng.choice([1e-8, 1e-8, 1e-4, 1e-2]), "mode": mode, "id": i}


# ---------------------------------------------------------------- RunningMeanStd stream

def run_rms(case):
    gym, np, spaces, RunningMeanStd, *_ = _imports()
    out = {}
    for name in ("split_a", "split_b"):
        r = RunningMeanStd(shape=(2,))
        for b in case[name]:
            r.update(np.array(b, dtype=np.float64))
        for o in case["others"]:
            r2 = RunningMeanStd(shape=(2,))
            for b in o:
                r2.update(np.array(b, dtype=np.float64))
            r.combine(r2)
        out[name] = {"mean": [float(x) for x in r.mean], "var": [float(x) for x in r.var], "count": float(r.count)}
        # copy(): equal and independent
        c = r.copy()
        same = np.array_equal(c.mean, r.mean) and np.array_equal(c.var, r.var) and c.count == r.count and not np.shares_memory(c.mean, r.mean) and not np.shares_memory(c.var, r.var)
        c.update(np.array([[100.0, 100.0]]))
        out[name]["copy_ok"] = bool(same and [float(x) for x in r.mean] == out[name]["mean"] and float(r.count) == out[name]["count"] and c.count != r.count)
    return out


def exprs_rms(case, impl):
    ex = []
    for name in ("split_a", "split_b"):
        for comp in range(2):
            bs = coq_list([coq_list([F(x[comp]) for x in b], coq_Q) for b in case[name]])
            others = coq_list([coq_list([coq_list([F(x[comp]) for x in b], coq_Q) for b in o]) for o in case["others"]])
            st = impl[name]
            ex.append(f"rms_trace {coq_Q(F(EPS0))} {bs} {others} {coq_Q(F(st['mean'][comp]))} {coq_Q(F(st['var'][comp]))} {coq_Q(F(st['count']))}")
    return ex


def prior_moments(groups, eps=F(EPS0)):
    """two-pass moments of the concatenated stream merged with one prior (eps, 0, 1) per group (the property's reading)"""
    s0 = s1 = s2 = F(0)
    for xs in groups:
        s0 += eps + len(xs)
        s1 += sum(F(x) for x in xs)
        s2 += eps + sum(F(x) * F(x) for x in xs)
    mean = s1 / s0
    return mean, s2 / s0 - mean * mean, s0


def close(a, b, rel=1e-9, ab=1e-9):
    return abs(float(a) - float(b)) <= ab + rel * abs(float(a))


def compare_rms(case, impl, mv):
    probs = []
    if not all(impl[nm].get("copy_ok", True) for nm in ("split_a", "split_b")):
        probs.append(("oracle-rms-copy", "RunningMeanStd.copy() is not an equal, independent copy"))
    n_main = sum(len(b) for b in case["split_a"])
    for comp in range(2):
        groups = [[x[comp] for x in case["xs"][:n_main]]]
        k = n_main
        for o in case["others"]:
            m = sum(len(b) for b in o)
            groups.append([x[comp] for x in case["xs"][k:k + m]])
            k += m
        mean, var, cnt = prior_moments(groups)
        for name in ("split_a", "split_b"):
            st = impl[name]
            if not (close(mean, st["mean"][comp]) and close(var, st["var"][comp]) and close(cnt, st["count"])):
                probs.append(("oracle-rms-not-stream-moments", f"{name} component {comp}: impl mean/var/count {st['mean'][comp]!r}/{st['var'][comp]!r}/{st['count']!r}, "
                              f"moments of the stream merged with the prior {float(mean)!r}/{float(var)!r}/{float(cnt)!r}"))
        a, b = impl["split_a"], impl["split_b"]
        if not (close(a["mean"][comp], b["mean"][comp]) and close(a["var"][comp], b["var"][comp]) and close(a["count"], b["count"])):
            probs.append(("oracle-rms-batching-dependent", f"component {comp}: two batch splits of the same stream give {a} vs {b}"))
    for j, ok in enumerate(mv):
        if ok is not True:
            probs.append(("rms-model", f"expression {j} ({'split_a' if j < 2 else 'split_b'}, component {j % 2}): model statistics differ from impl beyond 1e-9"))
    return probs


# ---------------------------------------------------------------- VecNormalize stream

def _flat(kind, obs, i, np):
    """channel values (a0, a1, b0) of sub-environment i from a (possibly dict) batch"""
    if kind in ("box", "image"):
        return [float(x) for x in np.ravel(obs[i])]
    return [float(x) for x in obs["a"][i]] + [float(x) for x in obs["b"][i]]


def _flat_one(kind, obs):
    if kind in ("box", "image"):
        import numpy as np

        return [float(x) for x in np.ravel(obs)]
    return [float(x) for x in obs["a"]] + [float(x) for x in obs["b"]]


LATE_NORM_OBS_SIG = "norm-obs-enabled-after-construction-raises"


def late_norm_obs_class(case):
    """precise predicate: constructed with norm_obs=False, a later toggle sets norm_obs=True and a reset/step follows"""
    if case["kind"] != "vecnorm" or case["norm_obs"]:
        return False
    on = False
    for op in case["ops"]:
        if op[0] == "set":
            on = bool(op[2])
        elif on:
            return True
    return False


def run_late_norm_obs(case):
    gym, np, spaces, RunningMeanStd, DummyVecEnv, VecNormalize, sync_envs_normalization = _imports()
    ArrEnv = make_env_class()
    kind = case["obs_kind"]
    venv = DummyVecEnv([(lambda sc=sc: ArrEnv(kind, sc)) for sc in case["scripts"]])
    kw = {} if kind in ("box", "image") else {"norm_obs_keys": case["norm_obs_keys"]}
    vn = VecNormalize(venv, training=case["training"], norm_obs=False, norm_reward=case["norm_reward"], **kw)
    for k, op in enumerate(case["ops"]):
        try:
            if op[0] == "set":
                vn.training, vn.norm_obs, vn.norm_reward = op[1], op[2], op[3]
            elif op[0] == "reset":
                vn.reset()
            else:
                vn.step(np.zeros(len(case["scripts"]), dtype=np.int64))
        except AttributeError as e:
            return {"late_norm_obs": f"op {k} ({op[0]}) raises AttributeError: {e}"}
    return {"late_norm_obs": None}


def run_vecnorm(case):
    if late_norm_obs_class(case):
        return run_late_norm_obs(case)
    gym, np, spaces, RunningMeanStd, DummyVecEnv, VecNormalize, sync_envs_normalization = _imports()
    ArrEnv = make_env_class()
    kind = case["obs_kind"]
    envs = []

    def mk(sc):
        def f():
            e = ArrEnv(kind, sc)
            envs.append(e)
            return e
        return f

    n = len(case["scripts"])
    venv = DummyVecEnv([mk(sc) for sc in case["scripts"]])
    kw = {} if kind in ("box", "image") else {"norm_obs_keys": case["norm_obs_keys"]}
    vn = VecNormalize(venv, training=case["training"], norm_obs=case["norm_obs"], norm_reward=case["norm_reward"], clip_obs=case["clip_obs"],
                      clip_reward=case["clip_reward"], gamma=case["gamma"], epsilon=case["epsilon"], **kw)
    want_space = venv.observation_space
    if kind == "image" and case["norm_obs"]:
        want_space = spaces.Box(-case["clip_obs"], case["clip_obs"], (1, 1, 3), dtype=np.float32)
    space_ok = vn.observation_space == want_space
    nchan = 2 if kind == "box" else 3
    keys_of_chan = [None, None] if kind == "box" else [None] * 3 if kind == "image" else ["a", "a", "b"]

    def stats():
        out = []
        for ch in range(nchan):
            if not case["norm_obs"] and not hasattr(vn, "obs_rms"):
                out.append(None)
                continue
            rms = getattr(vn, "obs_rms", None)
            if rms is None:
                out.append(None)
            elif kind in ("box", "image"):
                out.append([float(np.ravel(rms.mean)[ch]), float(np.ravel(rms.var)[ch]), float(rms.count)])
            else:
                key = keys_of_chan[ch]
                if key not in rms:
                    out.append(None)
                else:
                    j = ch if key == "a" else 0
                    out.append([float(rms[key].mean[j]), float(rms[key].var[j]), float(rms[key].count)])
        return out

    events = []
    marks = [0] * n
    for op in case["ops"]:
        ev = {"op": op[0]}
        if op[0] == "set":
            vn.training, vn.norm_obs, vn.norm_reward = op[1], op[2], op[3]
        elif op[0] == "reset":
            obs = vn.reset()
            ev["out_obs"] = [_flat(kind, obs, i, np) for i in range(n)]
            want_dt = np.uint8 if (kind == "image" and not vn.norm_obs) else np.float32   # an image that is not normalised is passed through as it is
            ev["out_dtype_ok"] = all(np.asarray(v).dtype == want_dt for v in ([obs] if kind in ("box", "image") else [obs["a"], obs["b"]]))
            ev["d_pass"] = None if kind != "dict_mixed" else [int(x) for x in obs["d"]]
        else:
            obs, rews, dones, infos = vn.step(np.zeros(n, dtype=np.int64))
            ev["out_obs"] = [_flat(kind, obs, i, np) for i in range(n)]
            want_dt = np.uint8 if (kind == "image" and not vn.norm_obs) else np.float32
            ev["out_dtype_ok"] = all(np.asarray(v).dtype == want_dt for v in ([obs] if kind in ("box", "image") else [obs["a"], obs["b"]])) and rews.dtype == np.float32
            ev["out_rews"] = [float(x) for x in rews]
            ev["dones"] = [bool(x) for x in dones]
            ev["out_term"] = [(_flat_one(kind, inf["terminal_observation"]) if "terminal_observation" in inf else None) for inf in infos]
            ev["d_pass"] = None if kind != "dict_mixed" else [int(x) for x in obs["d"]]
        if op[0] != "set":
            # ground truth from the environments' own logs
            raw, term_raw, rew_raw = [], [], []
            for i, e in enumerate(envs):
                new = e.log[marks[i]:]
                marks[i] = len(e.log)
                if op[0] == "reset":
                    raw.append(new[-1][1])
                else:
                    st = new[0]
                    rew_raw.append(st[2])
                    if st[3] or st[4]:
                        term_raw.append(st[1])
                        raw.append(new[1][1])
                    else:
                        term_raw.append(None)
                        raw.append(st[1])
            ev["raw_obs"], ev["raw_term"], ev["raw_rews"] = raw, term_raw, rew_raw
            oo = vn.get_original_obs()
            ev["orig_obs"] = [_flat(kind, oo, i, np) for i in range(n)]
            ev["orig_rew"] = [float(x) for x in vn.get_original_reward()] if op[0] == "step" else None
            un = vn.unnormalize_obs(obs)
            ev["unnorm_obs"] = [_flat(kind, un, i, np) for i in range(n)]
            ev["unnorm_rew"] = [float(x) for x in vn.unnormalize_reward(rews)] if op[0] == "step" else None
        ev["stats"] = stats()
        ev["ret_stats"] = [float(vn.ret_rms.mean), float(vn.ret_rms.var), float(vn.ret_rms.count)]
        ev["returns"] = [float(x) for x in vn.returns]
        ev["flags"] = [bool(vn.training), bool(vn.norm_obs), bool(vn.norm_reward)]
        events.append(ev)

    # ---- save / load, sync
    d = tempfile.mkdtemp(prefix="c15_")
    try:
        path = os.path.join(d, "vn.pkl")
        before_save = {"venv": vn.venv, "returns": [float(x) for x in vn.returns], "n_attr": len(vn.__dict__)}
        vn.save(path)
        # ---- saving must not touch the ORIGINAL wrapper: same venv, same accumulator, every attribute still there, and it still steps
        save_notes = []
        if vn.__dict__.get("venv") is not before_save["venv"] or len(vn.__dict__) != before_save["n_attr"] or "returns" not in vn.__dict__ \
                or [float(x) for x in vn.__dict__.get("returns", [])] != before_save["returns"]:
            save_notes.append(f"save() changed the wrapper itself: attributes {before_save['n_attr']} -> {len(vn.__dict__)}, venv kept={vn.__dict__.get('venv') is before_save['venv']}, "
                              f"returns kept={'returns' in vn.__dict__}")
        if os.path.getsize(path) == 0:
            save_notes.append("save() wrote an empty file")
        if save_notes:      # the original wrapper is damaged: nothing further can be compared on it
            return {"events": events, "save_notes": save_notes, "load_failed": True, "chan_norm": chan_flags(case)}
        venv2 = DummyVecEnv([mk(sc) for sc in case["scripts"]])
        try:
            loaded = VecNormalize.load(path, venv2)
            _ = (loaded.ret_rms, loaded.clip_obs, loaded.training)
        except Exception as e:  # noqa: BLE001 - what save() wrote cannot be loaded
            save_notes.append(f"VecNormalize.load of what save() wrote raises {type(e).__name__}: {e}")
            return {"events": events, "save_notes": save_notes, "load_failed": True, "chan_norm": chan_flags(case)}
        # ---- load attaches the given venv and the loaded wrapper works on it
        if loaded.__dict__.get("venv") is not venv2 or loaded.__dict__.get("num_envs") != n:
            save_notes.append(f"load(path, venv) did not attach the venv: venv={loaded.__dict__.get('venv')!r} num_envs={loaded.__dict__.get('num_envs')!r}")
        else:
            try:
                loaded.reset()
                loaded.step(np.zeros(n, dtype=np.int64))
            except Exception as e:  # noqa: BLE001
                save_notes.append(f"the loaded wrapper cannot reset/step: {type(e).__name__}: {e}")
            loaded = VecNormalize.load(path, DummyVecEnv([mk(sc) for sc in case["scripts"]]))   # a fresh one for the field comparison below
            venv2 = loaded.venv
        # ---- a venv whose observation shapes differ is refused
        other_kind = "box" if kind != "box" else "dict_box"
        try:
            VecNormalize.load(path, DummyVecEnv([(lambda sc=sc: ArrEnv(other_kind, sc)) for sc in case["scripts"]]))
            save_notes.append(f"load onto a venv with another observation space ({other_kind} instead of {kind}) was accepted")
        except (AssertionError, ValueError):
            pass

        def fields(w):
            rms = getattr(w, "obs_rms", None)
            if isinstance(rms, dict):
                o = {k: [v.mean.tolist(), v.var.tolist(), float(v.count)] for k, v in sorted(rms.items())}
            elif rms is None:
                o = None
            else:
                o = [rms.mean.tolist(), rms.var.tolist(), float(rms.count)]
            return {"obs_rms": o, "ret_rms": [float(w.ret_rms.mean), float(w.ret_rms.var), float(w.ret_rms.count)],
                    "clip_obs": w.clip_obs, "clip_reward": w.clip_reward, "gamma": w.gamma, "epsilon": w.epsilon, "training": w.training,
                    "norm_obs": w.norm_obs, "norm_reward": w.norm_reward, "norm_obs_keys": w.norm_obs_keys,
                    "old_reward": [float(x) for x in w.old_reward]}

        try:   # a loaded wrapper already has its venv
            loaded.set_venv(venv2)
            second_set_venv_raises = False
        except ValueError:
            second_set_venv_raises = True
        legacy_keys_ok = True
        if kind in ("dict_box", "dict_mixed") and hasattr(vn, "obs_rms"):
            # a pickle written before norm_obs_keys existed: __setstate__ normalises every key
            st = vn.__getstate__()
            st.pop("norm_obs_keys")
            old = VecNormalize.__new__(VecNormalize)
            old.__setstate__(st)
            legacy_keys_ok = old.norm_obs_keys == list(vn.observation_space.spaces.keys()) and old.venv is None
        f0, f1 = fields(vn), fields(loaded)
        loaded_returns = [float(x) for x in loaded.returns]
        other = VecNormalize(DummyVecEnv([mk(sc) for sc in case["scripts"]]), norm_obs=True, **kw)
        sync_envs_normalization(vn, other)
        f2 = fields(other)
        shares = False
        if hasattr(vn, "obs_rms"):
            a, b = (vn.obs_rms, other.obs_rms)
            pairs = [(a, b)] if not isinstance(a, dict) else [(a[k], b[k]) for k in a]
            shares = any(np.shares_memory(x.mean, y.mean) or np.shares_memory(x.var, y.var) for x, y in pairs)
        shares = shares or other.ret_rms is vn.ret_rms
        try:   # (last, because it changes the statistics) the original wrapper still steps after save()
            vn.step(np.zeros(n, dtype=np.int64))
        except Exception as e:  # noqa: BLE001
            save_notes.append(f"the wrapper cannot step after save(): {type(e).__name__}: {e}")
    finally:
        shutil.rmtree(d, ignore_errors=True)
    return {"events": events, "save_notes": save_notes, "space_ok": bool(space_ok), "second_set_venv_raises": second_set_venv_raises, "legacy_keys_ok": bool(legacy_keys_ok), "saved": f0, "loaded": f1, "loaded_returns": loaded_returns, "synced": f2, "sync_shares_memory": bool(shares),
            "chan_norm": chan_flags(case)}


def chan_flags(case):
    kind = case["obs_kind"]
    if kind == "box":
        return [True, True]
    if kind == "image":
        return [True, True, True]
    keys = case["norm_obs_keys"]
    if keys is None:
        keys = ["a", "b"]
    return ["a" in keys, "a" in keys, "b" in keys]


def obs_tol(case):
    if case.get("obs_kind") == "image":
        return 1e-9            # uint8 batches: np.mean / np.var work in float64
    exact = case.get("mode") in ("grid", "offset_grid") and len(case["scripts"]) in (1, 2, 4)
    return 1e-9 if exact else 1e-5


def _q4(st, eps):
    return f"({coq_Q(F(st[0]))}, {coq_Q(F(st[1]))}, {coq_Q(F(st[2]))}, {coq_Q(F(math.sqrt(max(st[1] + eps, 0.0))))})"


def _stats_term(stats, chans, eps):
    return coq_list(["None" if (st is None or not chans[ch]) else f"(Some {_q4(st, eps)})" for ch, st in enumerate(stats)])


def _ck(ev, case, chans):
    """Coq opcheck record for one event"""
    eps = case["epsilon"]
    n = len(case["scripts"])
    nchan = len(chans)
    stats = _stats_term(ev["stats"], chans, eps)
    ret = _q4(ev["ret_stats"], eps)
    returns = coq_list([F(x) for x in ev["returns"]], coq_Q)
    training, norm_obs, norm_reward = ev["flags"]
    out_obs = out_term = unn = out_rews = orig_obs = orig_rew = unn_rews = "[]"
    vec = lambda v: coq_list([F(x) for x in v[:nchan]], coq_Q)  # noqa: E731
    if ev["op"] != "set":
        out_obs = coq_list([vec(ev["out_obs"][i]) for i in range(n)])
        orig_obs = coq_list([vec(ev["orig_obs"][i]) for i in range(n)])
        unn = coq_list([vec(ev["unnorm_obs"][i]) for i in range(n)])     # with norm_obs off: the identity
        if ev["op"] == "step":
            unn_rews = coq_list([F(x) for x in ev["unnorm_rew"]], coq_Q)
            # a done sub-environment must carry a terminal observation: a missing one is sent as an impossible value
            out_term = coq_list(["None" if ev["raw_term"][i] is None else
                                 f"(Some ({vec(ev['raw_term'][i])}, {vec(ev['out_term'][i]) if ev['out_term'][i] is not None else '[]'}))" for i in range(n)])
            out_rews = coq_list([F(x) for x in ev["out_rews"]], coq_Q)
            orig_rew = coq_list([F(x) for x in ev["orig_rew"]], coq_Q)
    return f"(mk_ck {stats} {ret} {returns} {out_obs} {out_term} {unn} {out_rews} {orig_obs} {orig_rew} {unn_rews})"


def chan_stats(fields, kind, nchan):
    """per-channel [mean, var, count] from the `fields` snapshot of a wrapper"""
    o = fields["obs_rms"]
    if o is None:
        return [None] * nchan
    if kind in ("box", "image"):
        import numpy as np

        return [[float(np.ravel(o[0])[ch]), float(np.ravel(o[1])[ch]), o[2]] for ch in range(nchan)]
    out = []
    for ch, key in enumerate(["a", "a", "b"][:nchan]):
        if key not in o:
            out.append(None)
        else:
            j = ch if key == "a" else 0
            out.append([o[key][0][j], o[key][1][j], o[key][2]])
    return out


def exprs_vecnorm(case, impl):
    if "late_norm_obs" in impl or impl.get("load_failed"):
        return ["true"]
    chans = impl["chan_norm"]
    n = len(case["scripts"])
    nchan = len(chans)
    eps = case["epsilon"]
    p = (f"(mk_vnp {coq_Q(F(case['clip_obs']))} {coq_Q(F(case['clip_reward']))} {coq_Q(F(case['gamma']))} {coq_Q(F(case['epsilon']))} "
         f"{coq_list(chans, coq_bool)})")
    ops = []
    for op, ev in zip(case["ops"], impl["events"]):
        if op[0] == "set":
            o = f"OSet {coq_bool(op[1])} {coq_bool(op[2])} {coq_bool(op[3])}"
        else:
            obs = coq_list([coq_list([F(v) for v in ev["raw_obs"][i][:nchan]], coq_Q) for i in range(n)])
            if op[0] == "reset":
                o = f"OReset {obs}"
            else:
                o = f"OStep {obs} {coq_list([F(r) for r in ev['raw_rews']], coq_Q)} {coq_list(ev['dones'], coq_bool)}"
        ops.append(f"({o}, {_ck(ev, case, chans)})")
    init = f"(vn_init {p} {coq_nat(n)} {coq_bool(case['training'])} {coq_bool(case['norm_obs'])} {coq_bool(case['norm_reward'])})"
    # what save/load and sync showed, against the model's unpickle_pickle / sync of the final state
    kind = case["obs_kind"]
    has_rms = impl["saved"]["obs_rms"] is not None
    chans_l = chans if has_rms else [False] * nchan
    fin = (f"(mk_fin {_stats_term(chan_stats(impl['loaded'], kind, nchan), chans_l, eps)} {_q4(impl['loaded']['ret_rms'], eps)} "
           f"{coq_list([F(x) for x in impl['loaded_returns']], coq_Q)} "
           f"{_stats_term(chan_stats(impl['synced'], kind, nchan), chans_l, eps)} {_q4(impl['synced']['ret_rms'], eps)})")
    other = f"(vn_init {p} {coq_nat(n)} true true true)"
    return [f"vn_trace {coq_Q(F(obs_tol(case)))} {p} {init} {coq_list(ops)} {coq_nat(n)} {other} {fin}"]


CHECK_NAMES = ["obs-statistics", "return-statistics", "returns-accumulator", "returned-or-terminal-observation", "returned-reward", "unnormalised-observation", "original-obs-or-reward"]
FINAL_NAMES = ["loaded-obs-statistics", "loaded-return-statistics", "loaded-returns", "synced-obs-statistics", "synced-return-statistics"]
# (order of the booleans returned by Model.VecNorm.check_state)


def compare_vecnorm(case, impl, mv):
    import numpy as np

    if "late_norm_obs" in impl:
        if impl["late_norm_obs"]:
            return [(LATE_NORM_OBS_SIG, "VecNormalize constructed with norm_obs=False has no obs_rms: after norm_obs is switched on the next reset/step fails: " + impl["late_norm_obs"])]
        return []
    if impl.get("load_failed"):
        return [("oracle-save-load-wrapper", "; ".join(impl["save_notes"]))]
    probs = []
    chans = impl["chan_norm"]
    nchan = len(chans)
    n = len(case["scripts"])
    eps, g = case["epsilon"], F(case["gamma"])
    # ---- oracle (from the property text) ----
    training, norm_obs, norm_reward = case["training"], case["norm_obs"], case["norm_reward"]
    streams = [[] for _ in range(nchan)]
    ret_stream = []
    rets = [F(0)] * n
    f32 = lambda v: float(np.float32(v))  # noqa: E731

    def expect_norm(x, st, clip):
        return f32(min(max((x - st[0]) / math.sqrt(st[1] + eps), -clip), clip))

    for k, (op, ev) in enumerate(zip(case["ops"], impl["events"])):
        if op[0] == "set":
            training, norm_obs, norm_reward = op[1], op[2], op[3]
        else:
            if training and norm_obs:
                for ch in range(nchan):
                    if chans[ch]:
                        streams[ch] += [ev["raw_obs"][i][ch] for i in range(n)]
            if op[0] == "reset":
                rets = [F(0)] * n
            else:
                if training:
                    rets = [rets[i] * g + F(ev["raw_rews"][i]) for i in range(n)]
                    ret_stream += rets
            # get_original_*: raw values of the latest step
            if [v[:nchan] for v in ev["orig_obs"]] != [[f32(x) for x in v[:nchan]] for v in ev["raw_obs"]]:
                probs.append(("oracle-original-obs", f"op {k}: get_original_obs {ev['orig_obs']} != raw observations {ev['raw_obs']}"))
            if op[0] == "step" and ev["orig_rew"] != [f32(r) for r in ev["raw_rews"]]:
                probs.append(("oracle-original-reward", f"op {k}: get_original_reward {ev['orig_rew']} != raw rewards {ev['raw_rews']}"))
            if not ev["out_dtype_ok"]:
                probs.append(("oracle-output-dtype", f"op {k}: returned observations / rewards are not float32"))
            if op[0] == "step":
                for i in range(n):
                    if ev["dones"][i] and ev["raw_term"][i] is not None and ev["out_term"][i] is None:
                        probs.append(("oracle-terminal-observation-missing", f"op {k} env {i}: done but info has no terminal_observation"))
            # transforms
            for ch in range(nchan):
                st = ev["stats"][ch]
                for i in range(n):
                    x, y = ev["raw_obs"][i][ch], ev["out_obs"][i][ch]
                    if norm_obs and chans[ch] and st is not None:
                        want = expect_norm(x, st, case["clip_obs"])
                        if not close(want, y, 1e-5, 1e-6):
                            probs.append(("oracle-normalised-observation", f"op {k} env {i} channel {ch}: returned {y!r}, clipped standardised value {want!r} (raw {x!r}, mean {st[0]!r}, var {st[1]!r})"))
                        if abs(y) < case["clip_obs"] * (1 - 1e-6) and not close(x, ev["unnorm_obs"][i][ch], 1e-4, 1e-4 * max(1.0, abs(st[0]))):
                            probs.append(("oracle-unnormalise-not-inverse", f"op {k} env {i} channel {ch}: unnormalize_obs(normalised) = {ev['unnorm_obs'][i][ch]!r}, raw {x!r}"))
                        if op[0] == "step" and ev["raw_term"][i] is not None:
                            if ev["out_term"][i] is None:
                                probs.append(("oracle-terminal-observation-missing", f"op {k} env {i}: no terminal_observation"))
                            else:
                                wt = expect_norm(ev["raw_term"][i][ch], st, case["clip_obs"])
                                if not close(wt, ev["out_term"][i][ch], 1e-5, 1e-6):
                                    probs.append(("oracle-terminal-observation-transform", f"op {k} env {i} channel {ch}: terminal observation {ev['out_term'][i][ch]!r}, "
                                                  f"the observation transform gives {wt!r}"))
                    else:
                        if ev["unnorm_obs"][i][ch] != y:
                            probs.append(("oracle-unnormalise-obs-not-identity", f"op {k} env {i} channel {ch}: not normalised but unnormalize_obs({y!r}) = {ev['unnorm_obs'][i][ch]!r}"))
                        if y != f32(x):
                            probs.append(("oracle-unnormalised-key-changed", f"op {k} env {i} channel {ch}: not normalised but returned {y!r} for raw {x!r}"))
                        if op[0] == "step" and ev["raw_term"][i] is not None and ev["out_term"][i] is not None and ev["out_term"][i][ch] != f32(ev["raw_term"][i][ch]):
                            probs.append(("oracle-terminal-observation-transform", f"op {k} env {i} channel {ch}: terminal observation changed although not normalised"))
            if op[0] == "step":
                for i in range(n):
                    r, y = ev["raw_rews"][i], ev["out_rews"][i]
                    if norm_reward:
                        want = f32(min(max(r / math.sqrt(ev["ret_stats"][1] + eps), -case["clip_reward"]), case["clip_reward"]))
                        if not close(want, y, 1e-5, 1e-6):
                            probs.append(("oracle-normalised-reward", f"op {k} env {i}: returned reward {y!r}, clipped scaled value {want!r}"))
                    elif y != f32(r):
                        probs.append(("oracle-normalised-reward", f"op {k} env {i}: norm_reward off but reward {y!r} != raw {r!r}"))
                    # unnormalize_reward: inverse of normalize_reward inside the clip range; the identity when norm_reward is off
                    u = ev["unnorm_rew"][i]
                    if norm_reward:
                        if abs(y) < case["clip_reward"] * (1 - 1e-6) and not close(r, u, 1e-4, 1e-4):
                            probs.append(("oracle-unnormalise-reward-not-inverse", f"op {k} env {i}: unnormalize_reward(normalised reward) = {u!r}, raw reward {r!r}"))
                    elif u != y:
                        probs.append(("oracle-unnormalise-reward-not-identity", f"op {k} env {i}: norm_reward off but unnormalize_reward({y!r}) = {u!r}"))
                rets = [F(0) if ev["dones"][i] else rets[i] for i in range(n)]
        # statistics = moments of everything that entered, merged with the prior
        for ch in range(nchan):
            st = ev["stats"][ch]
            if st is None or not chans[ch]:
                continue
            mean, var, cnt = prior_moments([streams[ch]])
            tol = obs_tol(case)
            if not (close(mean, st[0], tol, tol) and close(var, st[1], tol, tol) and close(cnt, st[2])):
                probs.append(("oracle-obs-statistics", f"op {k} channel {ch}: impl mean/var/count {st}, moments of the {len(streams[ch])} training observations merged with the prior "
                              f"{[float(mean), float(var), float(cnt)]}"))
        mean, var, cnt = prior_moments([ret_stream])
        rs = ev["ret_stats"]
        if not (close(mean, rs[0]) and close(var, rs[1]) and close(cnt, rs[2])):
            probs.append(("oracle-return-statistics", f"op {k}: impl ret_rms {rs}, moments of the {len(ret_stream)} discounted returns merged with the prior {[float(mean), float(var), float(cnt)]}"))
        if not all(close(a, b) for a, b in zip(rets, ev["returns"])):
            probs.append(("oracle-returns-accumulator", f"op {k}: impl returns {ev['returns']}, discounted sums since the last episode end {[float(x) for x in rets]}"))
        if probs:
            break
    for note in impl.get("save_notes", []):
        probs.append(("oracle-save-load-wrapper", note))
    if not impl.get("space_ok", True):
        probs.append(("oracle-observation-space", "observation_space of the wrapper: an image space must become Box(-clip_obs, clip_obs, float32) when norm_obs, anything else stay as it is"))
    if not impl.get("second_set_venv_raises", True):
        probs.append(("oracle-set-venv-twice", "set_venv on a wrapper that already has a venv did not raise ValueError"))
    if not impl.get("legacy_keys_ok", True):
        probs.append(("oracle-legacy-pickle-norm-obs-keys", "a pickle without norm_obs_keys did not come back with all keys of the Dict space"))
    # ---- save/load, sync
    if impl["saved"] != impl["loaded"]:
        diff = [k for k in impl["saved"] if impl["saved"][k] != impl["loaded"][k]]
        probs.append(("oracle-save-load-changes-fields", f"fields differing after save/load: {diff}"))
    if any(x != 0.0 for x in impl["loaded_returns"]) or len(impl["loaded_returns"]) != n:
        probs.append(("oracle-save-load-returns", f"returns after load {impl['loaded_returns']}"))
    if impl["synced"]["obs_rms"] != impl["saved"]["obs_rms"] and impl["saved"]["obs_rms"] is not None:
        probs.append(("oracle-sync-obs-statistics", f"after sync_envs_normalization obs_rms {impl['synced']['obs_rms']} != {impl['saved']['obs_rms']}"))
    if impl["synced"]["ret_rms"] != impl["saved"]["ret_rms"]:
        probs.append(("oracle-sync-return-statistics", f"after sync_envs_normalization ret_rms {impl['synced']['ret_rms']} != {impl['saved']['ret_rms']}"))
    if impl["sync_shares_memory"]:
        probs.append(("oracle-sync-shares-memory", "sync_envs_normalization left the two wrappers sharing statistics arrays"))
    # ---- model vs impl (decided inside Coq)
    rows, fin = mv[0]
    for name, ok in zip(FINAL_NAMES, fin):
        if ok is not True:
            probs.append(("vecnorm-" + name, f"after the history: Model.VecNorm.unpickle_pickle / sync and the implementation disagree on {name}"))
    if len(rows) != len(case["ops"]):
        probs.append(("vecnorm-model-length", f"{len(rows)} model rows for {len(case['ops'])} operations"))
    else:
        for k, row in enumerate(rows):
            for name, ok in zip(CHECK_NAMES, row):
                if ok is not True:
                    probs.append(("vecnorm-" + name, f"op {k} ({case['ops'][k][0]}): model and implementation disagree on {name}"))
            if any(p[0].startswith("vecnorm-") for p in probs):
                break
    return probs


def run_ctor(case):
    """constructions and calls that must be refused (documented errors)"""
    gym, np, spaces, RunningMeanStd, DummyVecEnv, VecNormalize, sync_envs_normalization = _imports()
    ArrEnv = make_env_class()
    sc = {"resets": [[0.5, 1.0, 0.0]], "steps": [[[1.0, 2.0, 0.0], 1.0, False, False]]}

    class DiscEnv(gym.Env):
        observation_space, action_space = spaces.Discrete(3), spaces.Discrete(2)

        def reset(self, *, seed=None, options=None):
            return 0, {}

        def step(self, a):
            return 0, 0.0, False, False, {}

    def raises(f, exc):
        try:
            f()
            return False
        except exc:
            return True

    mk = lambda kind: DummyVecEnv([lambda: ArrEnv(kind, sc)])  # noqa: E731
    plain = VecNormalize(mk("box"))
    out = {
        "dict with a Discrete key and norm_obs_keys=None": raises(lambda: VecNormalize(mk("dict_mixed")), ValueError),
        "norm_obs_keys on a Box space": raises(lambda: VecNormalize(mk("box"), norm_obs_keys=["a"]), ValueError),
        "Discrete observation space": raises(lambda: VecNormalize(DummyVecEnv([DiscEnv])), ValueError),
        "Discrete observation space is fine with norm_obs=False": not raises(lambda: VecNormalize(DummyVecEnv([DiscEnv]), norm_obs=False), Exception),
        "sync with an eval env that is not wrapped": raises(lambda: sync_envs_normalization(plain, mk("box")), AssertionError),
    }
    return {"ctor": out}


from harness import c15_keyed as KY  # noqa: E402  (build round 5: Dict observations with norm_obs_keys, constructor decision, set_venv)

RUN = {"rms": run_rms, "vecnorm": run_vecnorm, "ctor": run_ctor, "keyed": KY.run_keyed, "sanity": KY.run_sanity}
EXPRS = {"rms": exprs_rms, "vecnorm": exprs_vecnorm, "ctor": lambda c, im: ["true"], "keyed": KY.exprs_keyed, "sanity": KY.exprs_sanity}
COMPARE = {"rms": compare_rms, "vecnorm": compare_vecnorm,
           "ctor": lambda c, im, mv: [("oracle-documented-error-not-raised", k) for k, ok in im["ctor"].items() if not ok],
           "keyed": KY.compare_keyed, "sanity": KY.compare_sanity}
GROUPS = ["runningmoments", "vecnormkeyed"]


def nontrivial(case, impl):
    if "late_norm_obs" in impl or "raised" in impl or "ctor" in impl or impl.get("load_failed"):
        return False
    if case["kind"] == "rms":
        return len(case["split_a"]) >= 2 and case["split_a"] != case["split_b"]
    if case["kind"] == "sanity":
        return case["norm_obs"] and (case["space"][0] == "dict" or case["norm_obs_keys"] is not None)
    if case["kind"] == "keyed":
        sel = set(impl["eff"] or [])
        mixed = bool(sel) and len(sel) < len(case["layout"])
        return mixed and case["norm_obs"] and any(any(e.get("dones", [])) for e in impl["events"]) and sum(1 for op in case["ops"] if op[0] == "step") >= 2
    evs = impl["events"]
    toggled = any(op[0] == "set" for op in case["ops"])
    dones = any(any(e.get("dones", [])) for e in evs)
    clipped = any(abs(v) >= case["clip_obs"] for e in evs for row in e.get("out_obs", []) for v in row)
    steps = sum(1 for op in case["ops"] if op[0] == "step")
    return steps >= 3 and dones and (toggled or clipped)


def run_cases(chk, cases):
    impls = []
    for c in cases:
        try:
            impls.append(RUN[c["kind"]](c))
        except Exception as e:  # noqa: BLE001  - the implementation (or the run on it) raised: a violation, not a crash of the check
            import traceback

            tb = traceback.extract_tb(e.__traceback__)
            where = next((f"{os.path.basename(f.filename)}:{f.lineno}" for f in reversed(tb) if "/stable_baselines3/" in f.filename), "harness")
            impls.append({"raised": f"{type(e).__name__}: {e} (at {where})", "traceback": traceback.format_exc()[-2500:]})
    exprs, spans = [], []
    for c, im in zip(cases, impls):
        if "raised" in im:
            e = ["true"]
        else:
            try:
                e = EXPRS[c["kind"]](c, im)
            except Exception as ex:  # noqa: BLE001 - e.g. NaN / inf among the returned values: they cannot be sent to the model
                import traceback

                im["raised"] = f"the implementation returned values that are not finite numbers ({type(ex).__name__}: {ex})"
                im["traceback"] = traceback.format_exc()[-2500:]
                e = ["true"]
        spans.append((len(exprs), len(exprs) + len(e)))
        exprs += e
    vals = common.coq_eval_many(chk.pid, HEADER, exprs, shard=60, procs=4)
    results = []
    for c, im, (a, b) in zip(cases, impls, spans):
        if "raised" in im:
            results.append([("oracle-implementation-raised", "the implementation raises on a legal history: " + im["raised"])])
            continue
        try:
            results.append(COMPARE[c["kind"]](c, im, vals[a:b]))
        except Exception as e:  # noqa: BLE001 - what the implementation returned cannot even be compared
            import traceback

            im["traceback"] = traceback.format_exc()[-2500:]
            results.append([("oracle-implementation-raised", f"the implementation's output cannot be compared (unexpected shape / missing value): {type(e).__name__}: {e}")])
    return impls, results


def main():
    chk = Check("C15", groups=GROUPS)
    chk.build_props()
    from harness import c18_branchcov

    cov = c18_branchcov.maybe_start(COV_TARGETS)   # VERIF_BRANCHCOV=1: which lines of the anchored functions this run executes
    n_cases = int(os.environ.get("VERIF_NCASES", 0)) or (300 if chk.tier == "quick" else 2400)
    cases = []
    corpus = os.path.join(common.VERIF, "corpus", "C15.jsonl")
    if os.path.exists(corpus):
        cases += [json.loads(l) for l in open(corpus) if l.strip()]
    n_corpus = len(cases)
    for i in range(n_cases):
        cases.append(gen_case(chk.rng, i))
    # build round 5 (after the existing stream, which is unchanged): keyed Dict histories and constructor decisions
    n_keyed = int(os.environ.get("VERIF_NKEYED", 0)) or (max(1, n_cases // 5) if chk.tier == "quick" else n_cases // 4)
    n_sanity = int(os.environ.get("VERIF_NSANITY", 0)) or (max(1, n_cases // 3) if chk.tier == "quick" else n_cases // 3)
    for i in range(n_keyed):
        cases.append(KY.gen_keyed(chk.rng, i))
    for i in range(n_sanity):
        cases.append(KY.gen_sanity(chk.rng, i))
    impls, results = run_cases(chk, cases)
    distinct = set()
    hist = {"rms": 0, "rms_with_combine": 0, "vecnorm": 0, "vecnorm_exact_1e-9": 0, "obs_kind": {}, "n_envs": {}, "norm_obs_keys": {}, "with_toggles": 0, "start_not_training": 0,
            "clip_obs": {}, "gamma": {}, "epsilon": {}}
    reported, queue = set(), []
    for c, im, probs in zip(cases, impls, results):
        hist[c["kind"]] = hist.get(c["kind"], 0) + 1
        if c["kind"] == "ctor":
            pass
        elif c["kind"] == "keyed":
            kh = hist.setdefault("keyed_detail", {"key_types": {}, "selected_types": {}, "unselected_types": {}, "keys_none": 0, "repeated_key": 0, "with_toggles": 0,
                                                  "start_not_training": 0, "terminal_observations": 0, "n_envs": {}, "n_envs2_differs": 0, "selected_image": 0})
            eff = set((im.get("eff") or []) if isinstance(im, dict) else [])
            for nm, t, _w in c["layout"]:
                kh["key_types"][t] = kh["key_types"].get(t, 0) + 1
                which = "selected_types" if (nm in eff and c["norm_obs"]) else "unselected_types"
                kh[which][t] = kh[which].get(t, 0) + 1
                kh["selected_image"] += int(t == "img" and nm in eff and c["norm_obs"])
            kh["keys_none"] += int(c["norm_obs_keys"] is None)
            kh["repeated_key"] += int(c["norm_obs_keys"] is not None and len(set(c["norm_obs_keys"])) < len(c["norm_obs_keys"]))
            kh["with_toggles"] += int(any(op[0] == "set" for op in c["ops"]))
            kh["start_not_training"] += int(not c["training"])
            kh["terminal_observations"] += sum(sum(1 for t in e.get("raw_term", []) if t is not None) for e in im.get("events", [])) if isinstance(im, dict) else 0
            kh["n_envs"][str(len(c["scripts"]))] = kh["n_envs"].get(str(len(c["scripts"])), 0) + 1
            kh["n_envs2_differs"] += int(c["n_envs2"] != len(c["scripts"]))
        elif c["kind"] == "sanity":
            sh = hist.setdefault("sanity_detail", {"accepted": 0, "raised": 0, "space": {}, "norm_obs_off": 0, "missing_key": 0, "non_box_key_selected": 0})
            if isinstance(im, dict) and "accepted" in im:
                sh["accepted" if im["accepted"] else "raised"] += 1
            sh["space"][c["space"][0]] = sh["space"].get(c["space"][0], 0) + 1
            sh["norm_obs_off"] += int(not c["norm_obs"])
            sh["missing_key"] += int("missing" in (c["norm_obs_keys"] or []))
            if c["space"][0] == "dict":
                ty = {n: t for n, t, _ in c["space"][1]}
                sh["non_box_key_selected"] += int(any(ty.get(k) not in KY.BOX_TYPES for k in (c["norm_obs_keys"] if c["norm_obs_keys"] is not None else ty) if k in ty))
        elif c["kind"] == "rms":
            hist["rms_with_combine"] += int(bool(c["others"]))
        else:
            for key, val in (("obs_kind", c["obs_kind"]), ("n_envs", len(c["scripts"])), ("norm_obs_keys", json.dumps(c["norm_obs_keys"])),
                             ("clip_obs", c["clip_obs"]), ("gamma", c["gamma"]), ("epsilon", c["epsilon"])):
                hist[key][str(val)] = hist[key].get(str(val), 0) + 1
            hist["with_toggles"] += int(any(op[0] == "set" for op in c["ops"]))
            hist["vecnorm_exact_1e-9"] += int(obs_tol(c) == 1e-9)
            hist["start_not_training"] += int(not c["training"])
        if nontrivial(c, im):
            distinct.add(json.dumps({k: c[k] for k in c if k != "id"}, sort_keys=True))
        if probs:
            oracle_bad = [p for p in probs if p[0].startswith("oracle-") or p[0] == LATE_NORM_OBS_SIG]
            sig = oracle_bad[0][0] if oracle_bad else "model-correspondence-" + probs[0][0]
            if sig in reported:
                continue
            reported.add(sig)
            queue.append((sig, "; ".join(m for _, m in (oracle_bad or probs)[:2]),
                          {"case": c, "problems": probs[:8], "traceback": im.get("traceback"),
                           "correspondence": ("harness/c15_keyed.py vs Model.VecNormKeyed.kvn_trace / ctor_accepts" if c["kind"] in ("keyed", "sanity")
                                              else "harness/c15.py vs Model.VecNorm.vn_trace / Model.RunningMoments (rms_trace)")},
                          bool(oracle_bad)))
    # statement-level oracle failures (concrete failing inputs) are reported first; model-only disagreements go into the remaining slots
    emitted = 0
    for q_sig, q_msg, q_replay, q_found in sorted(queue, key=lambda q: not q[3]):
        if q_sig not in {LATE_NORM_OBS_SIG}:
            if emitted >= 3:
                continue
            emitted += 1
        chk.violation(q_sig, q_msg, q_replay, found_input=q_found)
    chk.coverage["evaluations"] = len(cases)
    chk.coverage["traces_validated_against_impl"] = len(cases)
    chk.coverage["distinct_nontrivial"] = len(distinct)
    chk.coverage["rule"] = ("1/4 RunningMeanStd streams (1-40 two-component samples; grid, float32 and offset-1000 values; two random batch splits; half with extra statistics merged by "
                            "combine), 3/4 VecNormalize histories (Box / Dict / Dict with a Discrete key, any subset of normalised keys, n_envs 1-4, 1-16 operations after the first reset: "
                            "step 80%, reset 8%, flag toggle 12%; random clip/gamma/epsilon; initial flags random). Non-trivial = (rms) >= 2 batches and two different splits; "
                            "(VecNormalize) >= 3 steps, an episode end, and a flag toggle or a clipped output. Observation statistics are compared at 1e-9 when the float32 batch "
                            "moments are exact (grid values, n_envs a power of two), else at 1e-5; return statistics always at 1e-9. distinct = distinct full case description")
    chk.notes["input_distribution"] = hist
    chk.coverage["keyed_dict_histories"] = hist.get("keyed", 0)
    chk.coverage["constructor_decisions"] = hist.get("sanity", 0)
    chk.notes["round5"] = ("keyed: random Dict spaces of 1-5 keys (float Box, int32 Box, uint8 image Box, Discrete, MultiBinary; width 1-3), norm_obs_keys = random subset of the Box keys "
                           "(None when all keys are Box; sometimes a repeated key), n_envs 1/2/4, 3-11 operations with flag toggles, exact grids -> Model.VecNormKeyed.kvn_trace after every "
                           "operation at 1e-9 (unselected keys compared EXACTLY incl. dtype by the oracle), then save -> load onto a venv with another n_envs; "
                           "sanity: (space, norm_obs_keys, norm_obs) triples -> accept / raise vs Model.VecNormKeyed.ctor_accepts and the oracle")
    chk.notes["corpus_cases"] = n_corpus
    chk.add_samples([{k: v for k, v in cases[i].items() if k not in ("scripts", "xs", "split_a", "split_b", "others")} for i in (n_corpus, n_corpus + 1, n_corpus + 2) if i < len(cases)])
    chk.assumptions += [
        "'equal the moments' is read as: equal the two-pass moments of the stream merged with RunningMeanStd's documented prior (count 1e-4, mean 0, variance 1)",
        "float rounding is not modelled: statistics are compared at rel/abs 1e-9 except observation statistics of histories whose float32 batch mean/variance "
        "(RunningMeanStd.update calls np.mean/np.var on the float32 batch) is not exact, which are compared at 1e-5; returned float32 values at rel 1e-5 / abs 1e-6",
        "np.sqrt(var + epsilon) is not modelled: the harness passes the float square root as a hint and Coq checks hint^2 = var + epsilon at rel 1e-8",
        "a VecNormalize constructed with norm_obs=False has no obs_rms; switching norm_obs on afterwards makes the next reset/step raise AttributeError: reproduced from corpus-late-norm-obs and reported as norm-obs-enabled-after-construction-raises; the generic generator toggles norm_obs only on wrappers constructed with norm_obs=True (histories in the class are recognised by a precise predicate)",
        "deepcopy in normalize_obs, pickle and sync_envs_normalization are tied by correspondence and the Python oracle only (the terminal-observation transform is in the model: step_outputs)",
    ]
    if cov is not None:
        chk.notes["branch_coverage"] = cov.report()
    return chk.finish()


def replay(path):
    d = json.load(open(path))
    case = d["replay"]["case"] if "replay" in d else d
    chk = Check("C15", groups=GROUPS)
    impls, results = run_cases(chk, [case])
    print(json.dumps({"problems": results[0]}, indent=1))
    return 1 if results[0] else 0
